package rules

import (
	"go/token"
	"go/types"
	"sort"
	"strings"

	"osmcheck/core"
)

// C03.T7: the scanner tokenises like a whole-document decode.
//
// xml.Unmarshal builds its decoder with xml.NewDecoder and leaves it alone: Strict is true, AutoClose and Entity are
// nil, DefaultSpace is empty, CharsetReader is nil. The streaming scanner decodes the same documents to the same
// objects only if the *xml.Decoder it reads tokens from (and hands to DecodeElement) is configured the same way:
// with Strict=false / AutoClose / Entity the tokeniser closes elements early, accepts unknown entities and unmatched
// tags, with DefaultSpace names carry a namespace the struct tags do not, with a CharsetReader the scanner accepts
// documents whole-document decoding rejects. Decided on the explored paths of every function of package osmxml (the
// constructor, Scan, the other methods, with the unexported helpers they call entered): no store through a value
// of type *xml.Decoder (or into an xml.Decoder) to one of these fields of a value other than the default; the
// decoder is created by xml.NewDecoder (a decoder built with xml.NewTokenDecoder reads tokens from code that may
// rewrite them, and one handed to code the analysis does not enter may be reconfigured there: undecided).

var c03DecoderFields = []string{"Strict", "AutoClose", "Entity", "DefaultSpace", "CharsetReader"}

// c03IsDefaultConfig: v is the value xml.NewDecoder leaves in the field.
func c03IsDefaultConfig(st *c03State, field string, v *c03V) bool {
	if v == nil {
		return false
	}
	switch field {
	case "Strict":
		return v.K == c03KBool && v.Bool
	case "DefaultSpace":
		return v.K == c03KStr && v.Str == ""
	}
	return v.K == c03KNil
}

func c03T7(r *core.R) {
	c03Init(r)
	pk := r.P.Pkg("osmxml")
	if pk == nil {
		r.Anchor("package osmxml")
		return
	}
	type finding struct {
		pos token.Pos
		msg string
	}
	bad := map[string]*finding{}
	var unknown *finding
	created, tokenDecoder := token.NoPos, token.NoPos
	isDecoder := func(t types.Type) bool { return t != nil && namedPath(t) == "encoding/xml.Decoder" }
	fis := allFuncs(pk)
	sort.Slice(fis, func(i, j int) bool { return fis[i].Decl.Pos() < fis[j].Decl.Pos() })
	npaths := 0
	for _, fi := range fis {
		x := &c03Interp{P: r.P, AllowDynamic: true}
		paths := x.Run(fi, nil)
		c03DumpPaths(r.P, fi, "decoder configuration", paths)
		if x.Aborted != "" && unknown == nil {
			unknown = &finding{fi.Decl.Pos(), fi.Name() + " could not be explored completely: " + x.Aborted}
		}
		for _, pa := range paths {
			npaths++
			for i := range pa.St.Trace {
				e := &pa.St.Trace[i]
				switch e.Kind {
				case "store":
					if e.Target == nil || !isDecoder(e.Target.T) || len(e.Field) == 0 {
						continue
					}
					f := e.Field[0].Name()
					if !c03Contains(c03DecoderFields, f) || c03IsDefaultConfig(pa.St, f, e.Val) {
						continue
					}
					if bad[f] == nil {
						bad[f] = &finding{e.Node.Pos(), "`" + src(r.P.Fset, e.Node) + "` is set to " + e.Val.String() + " in " + e.Frame.Stack()}
					}
				case "call":
					switch {
					case isPkgFunc(e.Fn, "encoding/xml", "NewDecoder"):
						created = e.Node.Pos()
					case isPkgFunc(e.Fn, "encoding/xml", "NewTokenDecoder"):
						tokenDecoder = e.Node.Pos()
					case e.Fn != nil && !isDecoder(c04RecvTypeOf(e.Fn)) && (e.Fn.Pkg() == nil || !strings.HasPrefix(e.Fn.Pkg().Path(), "encoding/xml")):
						for _, a := range e.Args {
							if a != nil && isDecoder(a.T) && unknown == nil {
								unknown = &finding{e.Node.Pos(), "the decoder is handed to `" + src(r.P.Fset, e.Call) + "`, which the analysis does not enter: it may be reconfigured there"}
							}
						}
					}
				}
			}
			// a decoder built as a composite literal carries whatever the literal says
			for _, hv := range pa.St.heap {
				if hv != nil && hv.K == c03KStruct && isDecoder(hv.T) {
					for fv, val := range hv.Fields {
						if c03Contains(c03DecoderFields, fv.Name()) && !c03IsDefaultConfig(pa.St, fv.Name(), val) && bad[fv.Name()] == nil {
							bad[fv.Name()] = &finding{fi.Decl.Pos(), "an xml.Decoder literal in " + fi.Name() + " sets it to " + val.String()}
						}
					}
				}
			}
		}
	}
	r.Stat("osmxml_paths_explored", npaths)
	c := "creation@osmxml"
	switch {
	case tokenDecoder.IsValid():
		r.Unknown(c, tokenDecoder, "the scanner's decoder is built with xml.NewTokenDecoder: the tokens DecodeElement sees come from a TokenReader that may rewrite them, which whole-document decoding does not do; not decided")
	case !created.IsValid():
		r.Unknown(c, pk.Syntax[0].Pos(), "no call of xml.NewDecoder is reached in package osmxml: how the scanner's decoder is built is not understood")
	case unknown != nil:
		r.Unknown(c, unknown.pos, "%s", unknown.msg)
	default:
		r.OK(c, created, "the scanner's decoder is created by xml.NewDecoder, as xml.Unmarshal's is, and is handed to no code the analysis does not enter")
	}
	for _, f := range c03DecoderFields {
		cf := "decoder." + f + "@osmxml"
		if b := bad[f]; b != nil {
			why := "the tokeniser then treats input differently from the strict decoder xml.Unmarshal uses (elements closed early, unknown entities and mismatched tags accepted): the same document scans to different objects, or scans where whole-document decoding fails"
			switch f {
			case "DefaultSpace":
				why = "element names then carry a default namespace that the decoder xml.Unmarshal uses does not add"
			case "CharsetReader":
				why = "the scanner then accepts documents in other encodings, which whole-document decoding (no CharsetReader) rejects: scanning yields objects where xml.Unmarshal returns an error"
			}
			r.Bad(cf, b.pos, "%s: %s", b.msg, why)
		} else {
			r.OK(cf, created, "on no explored path of package osmxml is Decoder.%s given a value other than the one xml.NewDecoder leaves there", f)
		}
	}
}

func c03Contains(list []string, s string) bool {
	for _, x := range list {
		if x == s {
			return true
		}
	}
	return false
}
