package rules

import (
	"go/ast"
	"go/token"
	"go/types"
	"sort"

	"golang.org/x/tools/go/cfg"
)

func (x *c18Exec) assign(fr *c18Frame, as *ast.AssignStmt) {
	store := func(l ast.Expr, v c18Val) {
		l = ast.Unparen(l)
		id, ok := l.(*ast.Ident)
		if !ok {
			x.stop("unknown", "`%s` stores through `%s`; the classification must not write anything but its own locals", x.src(as), x.src(l))
		}
		if id.Name == "_" {
			return
		}
		o := objOf(x.info, id)
		if o == nil {
			return
		}
		if _, isVar := o.(*types.Var); isVar && o.Parent() == x.pk.Types.Scope() {
			x.stop("unknown", "`%s` writes the package variable %s", x.src(as), o.Name())
		}
		if as.Tok == token.DEFINE && x.info.Defs[id] != nil {
			fr.env[o] = v
		} else {
			fr.set(o, v)
		}
	}
	switch {
	case as.Tok != token.DEFINE && as.Tok != token.ASSIGN:
		if len(as.Lhs) != 1 || len(as.Rhs) != 1 {
			x.stop("unknown", "`%s` is not modelled", x.src(as))
		}
		var op token.Token
		switch as.Tok {
		case token.ADD_ASSIGN:
			op = token.ADD
		case token.SUB_ASSIGN:
			op = token.SUB
		default:
			store(as.Lhs[0], c18Unk("`%s` is not modelled", x.src(as)))
			return
		}
		store(as.Lhs[0], x.arith(op, x.eval(fr, as.Lhs[0]), x.eval(fr, as.Rhs[0]), as.Lhs[0]))
	case len(as.Lhs) == len(as.Rhs):
		vals := make([]c18Val, len(as.Rhs))
		for i, e := range as.Rhs {
			vals[i] = x.eval(fr, e)
		}
		for i, l := range as.Lhs {
			store(l, vals[i])
		}
	case len(as.Rhs) == 1:
		v := x.evalMulti(fr, as.Rhs[0], len(as.Lhs))
		for i, l := range as.Lhs {
			if v.k == c18KTuple && len(v.elems) == len(as.Lhs) {
				store(l, v.elems[i])
			} else {
				store(l, c18Unk("component %d of `%s` is not modelled", i, x.src(as.Rhs[0])))
			}
		}
	default:
		x.stop("unknown", "`%s` is not modelled", x.src(as))
	}
}

func (x *c18Exec) valueSpec(fr *c18Frame, vs *ast.ValueSpec) {
	var tuple *c18Val
	if len(vs.Values) == 1 && len(vs.Names) > 1 {
		v := x.evalMulti(fr, vs.Values[0], len(vs.Names))
		tuple = &v
	}
	for i, nm := range vs.Names {
		o := x.info.Defs[nm]
		if o == nil || nm.Name == "_" {
			continue
		}
		switch {
		case tuple != nil:
			if tuple.k == c18KTuple && len(tuple.elems) == len(vs.Names) {
				fr.env[o] = tuple.elems[i]
			} else {
				fr.env[o] = c18Unk("component %d of `%s` is not modelled", i, x.src(vs.Values[0]))
			}
		case len(vs.Values) == len(vs.Names):
			fr.env[o] = x.eval(fr, vs.Values[i])
		default:
			fr.env[o] = x.zero(o.Type())
		}
	}
}

func (x *c18Exec) incDec(fr *c18Frame, s *ast.IncDecStmt) {
	id, ok := ast.Unparen(s.X).(*ast.Ident)
	if !ok {
		x.stop("unknown", "`%s` stores through `%s`", x.src(s), x.src(s.X))
	}
	o := objOf(x.info, id)
	v, _ := fr.lookup(o)
	d := int64(1)
	if s.Tok == token.DEC {
		d = -1
	}
	switch v.k {
	case c18KInt:
		if v.org != 0 {
			v = c18Unk("`%s` on a symbolic integer", x.src(s))
		} else {
			v.i += d
		}
	case c18KCurIdx:
		v.i += d
	default:
		v = c18Unk("`%s` is not modelled", x.src(s))
	}
	fr.set(o, v)
}

// ---- loops

// ruleHead implements the rule-loop protocol at a loop head; bind installs the iteration variables.
func (x *c18Exec) ruleHead(fr *c18Frame, stmt ast.Stmt, key, val types.Object, body, done *cfg.Block) *cfg.Block {
	x.loopSeen[stmt] = true
	if x.loopStmt != nil && x.loopStmt != stmt {
		x.stop("unknown", "a second loop over the rule table is on the path; the evaluation models one rule loop")
	}
	switch x.mode {
	case c18ModePrefix:
		x.stop("head", "")
	case c18ModeDone:
		if x.loopState != 0 {
			x.stop("unknown", "the rule loop is entered twice")
		}
		x.loopState, x.loopStmt = 2, stmt
		return done
	}
	switch x.loopState {
	case 0:
		x.loopState, x.loopStmt, x.loopKey, x.loopVal = 1, stmt, key, val
		x.snapFr = fr
		x.snap = map[types.Object]c18Val{}
		for o, v := range fr.env {
			x.snap[o] = v
		}
		if key != nil {
			fr.env[key] = c18Val{k: c18KCurIdx}
		}
		if val != nil {
			fr.env[val] = c18Val{k: c18KEntry}
		}
		x.note("rule loop entered")
		return body
	case 1:
		if fr != x.snapFr {
			x.stop("unknown", "the rule loop head is reached again in another activation")
		}
		if key != nil {
			want := int64(0)
			if _, isFor := stmt.(*ast.ForStmt); isFor {
				want = 1 // the post statement ran once
			}
			if kv := fr.env[key]; kv.k != c18KCurIdx || kv.i != want {
				x.stop("unknown", "the loop index %s does not advance by exactly one entry per iteration", key.Name())
			}
		}
		var changed []string
		for o, v := range x.snap {
			if o == key || o == val {
				continue
			}
			if !c18ValEq(fr.env[o], v) {
				changed = append(changed, o.Name())
			}
		}
		if len(changed) > 0 {
			sort.Strings(changed)
			x.stop("unknown", "the iteration changes %v, which the next iteration sees (loop-carried state is not modelled)", changed)
		}
		x.stop("head", "")
	}
	x.stop("unknown", "the rule loop is entered again after it was left")
	return nil
}

func (x *c18Exec) rangeHead(fr *c18Frame, b *cfg.Block) *cfg.Block {
	rs := b.Stmt.(*ast.RangeStmt)
	xv, ok := fr.rangeX[rs]
	if !ok {
		xv = x.eval(fr, rs.X)
	}
	var key, val types.Object
	if rs.Key != nil {
		if id, ok := ast.Unparen(rs.Key).(*ast.Ident); ok && id.Name != "_" {
			key = objOf(x.info, id)
		}
	}
	if rs.Value != nil {
		if id, ok := ast.Unparen(rs.Value).(*ast.Ident); ok && id.Name != "_" {
			val = objOf(x.info, id)
		}
	}
	switch xv.k {
	case c18KTable:
		return x.ruleHead(fr, rs, key, val, b.Succs[0], b.Succs[1])
	case c18KTags:
		// the witness tag list
		if list := x.tagList(xv); fr.iter[rs] < len(list) {
			i := fr.iter[rs]
			fr.iter[rs]++
			if key != nil {
				fr.env[key] = c18Val{k: c18KInt, i: int64(i)}
			}
			if val != nil {
				fr.env[val] = list[i]
			}
			return b.Succs[0]
		}
		fr.iter[rs] = 0
		return b.Succs[1]
	case c18KSlice, c18KNil:
		// a literal list: iterate its elements
		if i := fr.iter[rs]; i < len(xv.elems) {
			fr.iter[rs]++
			if key != nil {
				fr.env[key] = c18Val{k: c18KInt, i: int64(i)}
			}
			if val != nil {
				fr.env[val] = xv.elems[i]
			}
			return b.Succs[0]
		}
		fr.iter[rs] = 0
		return b.Succs[1]
	case c18KValues:
		// the witness list has x.s.ll elements
		if i := int64(fr.iter[rs]); i < x.s.ll {
			fr.iter[rs]++
			if key != nil {
				fr.env[key] = c18Val{k: c18KInt, i: i}
			}
			if val != nil {
				fr.env[val] = c18Val{k: c18KStr, org: c18OElem, i: i}
			}
			return b.Succs[0]
		}
		fr.iter[rs] = 0
		return b.Succs[1]
	}
	why := xv.note
	if why == "" {
		why = "only the rule table and the entry's value list may be iterated"
	}
	x.stop("unknown", "loop over `%s` is not part of the modelled algorithm: %s", x.src(rs.X), why)
	return nil
}

// forHead recognises `for i := 0; i < len(table); i++` (i not assigned in the body) as the rule loop.
func (x *c18Exec) forHead(fr *c18Frame, b *cfg.Block) *cfg.Block {
	fs, ok := b.Stmt.(*ast.ForStmt)
	if !ok || fs.Cond == nil || len(b.Succs) != 2 {
		return nil
	}
	l, op, r, ok := cmpNorm(fs.Cond)
	if !ok || (op != token.LSS && op != token.NEQ) {
		return nil
	}
	id, ok := ast.Unparen(l).(*ast.Ident)
	call, ok2 := ast.Unparen(r).(*ast.CallExpr)
	if !ok || !ok2 || builtinName(x.info, call) != "len" || len(call.Args) != 1 {
		return nil
	}
	if tv := x.eval(fr, call.Args[0]); tv.k != c18KTable {
		return nil
	}
	key := objOf(x.info, id)
	post, ok := fs.Post.(*ast.IncDecStmt)
	if key == nil || !ok || post.Tok != token.INC || objOf(x.info, post.X) != key {
		x.stop("unknown", "loop `for ...; %s; ...` over the rule table does not advance its index with %s++", x.src(fs.Cond), id.Name)
	}
	written := false
	ast.Inspect(fs.Body, func(n ast.Node) bool {
		switch s := n.(type) {
		case *ast.AssignStmt:
			for _, l := range s.Lhs {
				if objOf(x.info, l) == key {
					written = true
				}
			}
		case *ast.IncDecStmt:
			if objOf(x.info, s.X) == key {
				written = true
			}
		case *ast.UnaryExpr:
			if s.Op == token.AND && objOf(x.info, s.X) == key {
				written = true
			}
		}
		return true
	})
	if written {
		x.stop("unknown", "the index %s of the rule loop is modified inside the loop body", id.Name)
	}
	if x.loopState == 0 {
		if v, _ := fr.lookup(key); v.k != c18KInt || v.org != 0 || v.i != 0 {
			x.stop("unknown", "the rule loop does not start at entry 0 (%s is not 0 when the loop is entered)", id.Name)
		}
	}
	return x.ruleHead(fr, fs, key, nil, b.Succs[0], b.Succs[1])
}

// ---- expressions
