package rules

import (
	"fmt"
	"go/token"

	"osmcheck/core"
)

// ---------------------------------------------------------------------------------------------
// S4 visibility, action type and Old/New roles

func c13S4(r *core.R) {
	m := c13Load(r)
	if m == nil {
		return
	}
	var agg c13Agg
	for _, el := range m.eloops {
		kn := c13Kinds[el.kind]
		pos := el.l.stmt.Pos()
		cells, unc := m.tableCells(el)
		cCreate := "create@" + kn.Elem
		if el.sec != 0 {
			cCreate = "fallback@" + el.name()
		}
		cUpd := "update@" + el.name()
		// outcomes of the right class: their details
		nC, nU := 0, 0
		needC, needU := false, false // the calling context admits abstract inputs that require a create / an update
		for _, cell := range cells {
			needC = needC || cell.expected == "create"
			needU = needU || cell.expected == "update"
		}
		for _, u := range unc {
			needC = needC || el.sec == 0 || c13Expected(u) == "create"
			needU = needU || (el.sec != 0 && c13Expected(u) == "update")
		}
		badC, badU := "", ""
		var posC, posU token.Pos = pos, pos
		done := map[*c13UPath]bool{}
		for _, cell := range cells {
			p := cell.p
			if cell.actual != cell.expected {
				switch {
				case cell.expected == "update" && badU == "":
					badU = fmt.Sprintf("for {%s} the iteration %s (path conditions: %s); required: an action of the section's type pairing the selected history entry (Old) with the change element (New)", c13UpdDom.describe(cell.c), c13OutcomeText(cell.actual), m.conds(p))
					posU = p.pos
				case el.sec == 0 && badC == "":
					badC = fmt.Sprintf("a created %s: the iteration %s; required: one create action", kn.Elem, c13OutcomeText(cell.actual))
					posC = p.pos
				}
				continue
			}
			if done[p] {
				continue
			}
			done[p] = true
			switch cell.actual {
			case "create":
				nC++
				if q := m.quality(p, "create"); q != "" && badC == "" {
					badC, posC = q+" (path conditions: "+m.conds(p)+")", p.pos
				}
			case "update":
				nU++
				if q := m.quality(p, "update"); q != "" && badU == "" {
					badU, posU = q, p.pos
				}
			}
		}
		for _, u := range unc {
			if el.sec != 0 && c13Expected(u) == "update" && badU == "" {
				badU = fmt.Sprintf("no path through the iteration for {%s}", c13UpdDom.describe(u))
			}
		}
		switch {
		case badC != "":
			agg.bad(cCreate, posC, "%s", badC)
		case !needC:
			// e.g. the loop copy that runs only without the ignore-missing option never creates
		case nC == 0:
			agg.bad(cCreate, pos, "no path of the iteration over change.%s.%s appends a create action where one is required", c13Secs[el.sec].Field, kn.Elems)
		case el.sec == 0:
			agg.ok(cCreate, posC, "every created %s gets Visible = true and one Action{Type: ActionCreate, OSM: {%s: {element}}}", kn.Elem, kn.Elems)
		default:
			agg.ok(cCreate, posC, "%d path(s) turn an element with an ignored missing history into Action{Type: ActionCreate, OSM: {%s: {element}}} with Visible = true", nC, kn.Elems)
		}
		if el.sec == 0 {
			continue
		}
		switch {
		case badU != "":
			agg.bad(cUpd, posU, "%s", badU)
		case !needU:
		case nU == 0:
			agg.bad(cUpd, pos, "no path of the iteration over change.%s.%s appends a modify/delete action", c13Secs[el.sec].Field, kn.Elems)
		default:
			agg.ok(cUpd, posU, "with an earlier version: Type is %q, Old holds the history entry selected by the scan, New holds the change element, whose Visible is %v", m.actVals[el.sec], el.sec != 2)
		}
	}
	agg.emit(r)
}
