package rules

import (
	"fmt"
	"go/ast"
	"go/constant"
	"go/token"
	"go/types"
	"sort"
	"strings"

	"osmcheck/core"
)

// ---------------------------------------------------------------------------
// W5 all versions, relation members only, nothing else keeps a relation member from being walked

func c14StripConv(v *c14Val) *c14Val {
	for v != nil && v.k == 'T' {
		v = v.x
	}
	return v
}

// isOsmField: v selects field name of the osm struct type typeName.
func c14IsOsmField(v *c14Val, typeName, name string) bool {
	if v == nil || v.k != 'f' {
		return false
	}
	f, ok := v.obj.(*types.Var)
	if !ok || f.Name() != name || f.Pkg() == nil || f.Pkg().Path() != core.ModulePath {
		return false
	}
	_, st := structTypeOfPkg(f.Pkg(), typeName)
	if st == nil {
		return false
	}
	for i := 0; i < st.NumFields(); i++ {
		if st.Field(i) == f {
			return true
		}
	}
	return false
}

func structTypeOfPkg(p *types.Package, name string) (*types.Named, *types.Struct) {
	obj := p.Scope().Lookup(name)
	if obj == nil {
		return nil, nil
	}
	nt, ok := obj.Type().(*types.Named)
	if !ok {
		return nil, nil
	}
	st, _ := nt.Underlying().(*types.Struct)
	return nt, st
}

func c14W5(r *core.R) {
	m := c14Get(r)
	if m == nil {
		return
	}
	g, wf, fs, fn := m.wg, m.walkFacts(), r.P.Fset, m.walk.Name()
	if len(wf.history) != 1 {
		r.Anchor(fmt.Sprintf("exactly one call of the datasource's RelationHistory reached from %s (found %d)", fn, len(wf.history)))
		return
	}
	hc := wf.history[0]
	var relConst constant.Value
	if osmPk := r.P.Pkg(""); osmPk != nil {
		if cn, ok := osmPk.Types.Scope().Lookup("TypeRelation").(*types.Const); ok {
			relConst = cn.Val()
		}
	}
	if relConst == nil {
		r.Anchor("osm.TypeRelation")
		return
	}
	if len(wf.recs) == 0 {
		r.Bad("all-versions@dfs", m.walk.Decl.Pos(), "%s never calls itself", fn)
	}
	for _, rec := range wf.recs {
		call := rec.call
		if len(rec.loops) != 2 {
			r.Unknown("all-versions@dfs", call.Pos(), "`%s` is enclosed by %d loops; enumerated idiom: `for _, r := range history { for _, m := range r.Members { … } }` (in the DFS or in functions it calls)", src(fs, call), len(rec.loops))
			continue
		}
		inner, outer := rec.loops[0], rec.loops[1]
		ox, ix := g.rangeX(outer), g.rangeX(inner)
		outerHead := func(s *c14State) bool { return outer.isHead(s) }

		c := "all-versions@dfs"
		switch {
		case ox == nil:
			r.Unknown(c, outer.stmt.Pos(), "the loop over the versions is not a range loop; completeness of an index loop is not among the enumerated idioms")
		case !m.isHistRels(ox):
			r.Bad(c, outer.stmt.Pos(), "the outer loop ranges over `%s`, not over the complete history returned by `%s`: members referenced only by the versions left out are not emitted before this relation", m.loopX(outer), src(fs, hc.call))
		case g.reach(g.loopEdges(outer, 1), nil, g.isDone(outer)).hasNode(wf.emits...):
			r.Bad(c, outer.stmt.Pos(), "the loop over the versions can be left other than by exhaustion or return (break): later versions' members are not walked before the emission")
		default:
			r.OK(c, outer.stmt.Pos(), "`for … range %s` covers every version returned by `%s` (the lookup result reaches the loop unchanged, the loop is left only by exhaustion or return)", m.loopX(outer), src(fs, hc.call))
		}

		c = "all-members@dfs"
		left := g.reach(g.loopEdges(inner, 1), outerHead, g.isDone(inner))
		leftEarly := left.hasNode(wf.emits...)
		for s := range left {
			leftEarly = leftEarly || outer.isHead(s)
		}
		switch {
		case ix == nil:
			r.Unknown(c, inner.stmt.Pos(), "the loop over the members is not a range loop; completeness of an index loop is not among the enumerated idioms")
		case !c14IsOsmField(ix, "Relation", "Members") || !g.elemOf(ix.x, outer):
			r.Bad(c, inner.stmt.Pos(), "the inner loop ranges over `%s`, not over the complete Members of the version bound by the outer loop", m.loopX(inner))
		case leftEarly:
			r.Bad(c, inner.stmt.Pos(), "the loop over the members can be left other than by exhaustion or return (break, continue of the outer loop): the remaining members are not walked before the emission")
		default:
			r.OK(c, inner.stmt.Pos(), "`for … range %s` covers every member of each version (left only by exhaustion or return)", m.loopX(inner))
		}

		c = "member-ref@dfs"
		ref := c14StripConv(rec.idVal)
		if rec.idVal != nil && rec.idVal.k == 'T' && namedPath(rec.idVal.typ) == c14RelID && c14IsOsmField(ref, "Member", "Ref") && g.elemOf(ref.x, inner) {
			r.OK(c, call.Pos(), "the id walked by `%s` is the Ref of the member bound by the inner loop (converted to osm.RelationID)", src(fs, call))
		} else {
			r.Bad(c, call.Pos(), "the id walked by `%s` is not derived from the current member's Ref: the children emitted first are not this relation's members", src(fs, call))
		}

		// member-type test
		c = "relation-only@dfs"
		isRel := c14Edges{}
		why := fmt.Sprintf("no test of the member's Type against osm.TypeRelation guards `%s`: way and node members are walked as if their Ref were a relation id (a way member 8 makes relation 8 be emitted as a child)", src(fs, call))
		for _, n := range m.atoms(g) {
			v := m.atomVal(g, n)
			if v.k != 'b' || (v.op != token.EQL && v.op != token.NEQ) {
				continue
			}
			var other *c14Val
			switch {
			case c14IsOsmField(v.x, "Member", "Type") && g.elemOf(v.x.x, inner):
				other = v.y
			case c14IsOsmField(v.y, "Member", "Type") && g.elemOf(v.y.x, inner):
				other = v.x
			default:
				continue
			}
			if other.k != 'c' || !constant.Compare(other.cv, token.EQL, relConst) {
				why = fmt.Sprintf("`%s` compares the member type with `%s`, not with osm.TypeRelation: non-relation members are followed (their Ref is taken for a relation id) and relation members are skipped", m.nodeSrc(n), src(fs, other.node))
				continue
			}
			if v.op == token.EQL {
				isRel[n] = 1
			} else {
				isRel[n] = -1
			}
		}
		if len(isRel) > 0 && g.reach(g.loopEdges(inner, 1), inner.isHead, isRel.skip).hasNode(rec.n) {
			why = fmt.Sprintf("`%s` is reachable within a member's iteration without the member's Type having been found equal to osm.TypeRelation", src(fs, call))
			isRel = nil
		}
		if len(isRel) > 0 {
			t := isRel.first()
			r.OK(c, t.pos(), "within a member's iteration `%s` is only reached through the is-a-relation edge of `%s`", src(fs, call), m.nodeSrc(t))
		} else {
			r.Bad(c, call.Pos(), "%s", why)
		}

		// guard whitelist: between the start of a version's iteration and the recursive call, the only conditions that decide
		// whether the call is reached are the member-type test and the cycle cut
		c = "member-guards@dfs"
		allowed := c14Edges{}           // edges that may lead away from the call: the member is not a relation, or it is an ancestor
		skipOnly := map[*c14Node]bool{} // … of which these may only skip the member, not end the walk
		for n, v := range isRel {
			allowed[n] = -v
			skipOnly[n] = true
		}
		for _, n := range m.atoms(g) {
			// `member.Type == K` for a constant K other than osm.TypeRelation implies "not a relation"
			v := m.atomVal(g, n)
			if v.k != 'b' || (v.op != token.EQL && v.op != token.NEQ) || isRel[n] != 0 {
				continue
			}
			var other *c14Val
			switch {
			case c14IsOsmField(v.x, "Member", "Type") && g.elemOf(v.x.x, inner):
				other = v.y
			case c14IsOsmField(v.y, "Member", "Type") && g.elemOf(v.y.x, inner):
				other = v.x
			default:
				continue
			}
			if other.k == 'c' && !constant.Compare(other.cv, token.EQL, relConst) {
				if v.op == token.EQL {
					allowed[n] = 1
				} else {
					allowed[n] = -1
				}
				skipOnly[n] = true
			}
		}
		if rec.idVal != nil {
			scans, _ := m.scansFor(rec.idVal, rec.n)
			for _, sc := range scans {
				for n, v := range sc.match {
					allowed[n] = v
				}
			}
			// a member that is already in the visited set has been emitted: skipping it is what the DFS would do on entry (W2)
			for _, t := range wf.tests {
				if g.sameValue(t.key, t.n, rec.idVal, rec.n) {
					allowed[t.n] = 1
					skipOnly[t.n] = true
				}
			}
		}
		stopR := func(s *c14State) bool { return s.n == rec.n || outer.isHead(s) }
		region := g.reach(g.loopEdges(outer, 1), stopR, nil)
		innerBody := g.reach(g.loopEdges(inner, 1), func(s *c14State) bool { return stopR(s) || inner.isHead(s) }, nil)
		controlling := map[*c14Node]bool{}
		for s := range region {
			if len(s.out) < 2 || stopR(s) || inner.isHead(s) {
				continue
			}
			stop := stopR
			if innerBody[s] {
				stop = func(x *c14State) bool { return stopR(x) || inner.isHead(x) }
			}
			cont, esc := false, false
			for _, e := range s.out {
				to := g.reach([]*c14State{e.to}, stop, nil)
				switch {
				case to.hasNode(rec.n):
					cont = true
				case !allowed.skip(s, e):
					esc = true
				case skipOnly[s.n] && len(to.exits()) > 0:
					// "not a relation" / "already emitted" may skip the member (go on with the next one); they are no reason to
					// leave the walk of the current id
					esc = true
				}
			}
			if cont && esc {
				controlling[s.n] = true
			}
		}
		var extra []*c14Node
		for n := range controlling {
			extra = append(extra, n)
		}
		sort.Slice(extra, func(i, j int) bool { return extra[i].id < extra[j].id })
		for _, n := range extra {
			r.Unknown(c, n.pos(), "the condition `%s` decides whether the relation member of the current iteration is walked by `%s`, and it is neither the member-type test nor the cycle cut: a relation member skipped for any other reason is not emitted before its parent (e.g. a member unchanged in Ref but changed from way to relation between two versions)", m.nodeSrc(n), src(fs, call))
		}
		if len(extra) == 0 {
			r.OK(c, call.Pos(), "between the start of a version's iteration and `%s` only the member-type test and the cycle cut (%d condition atoms) decide whether the call is reached", src(fs, call), len(allowed))
		}
	}
}

// ---------------------------------------------------------------------------
// W6 the only ways to leave the DFS before the emission

func c14W6(r *core.R) {
	m := c14Get(r)
	if m == nil {
		return
	}
	g, wf, fn := m.wg, m.walkFacts(), m.walk.Name()
	entry := []*c14State{g.entry}

	type class struct {
		name   string
		skip   func(*c14State, c14Edge) bool
		starts []*c14State
		want   int8 // required result: c14Nil, or c14NonNil meaning "not known to be nil"
		why    string
	}
	var classes []*class
	add := func(name string, es c14Edges, want int8, why string) {
		if len(es) > 0 {
			classes = append(classes, &class{name: name, skip: es.skip, starts: es.targets(g), want: want, why: why})
		}
	}
	add("visited", wf.idTests, c14Nil, "id already in the visited set (emitted earlier)")
	add("no-history", m.nonEmptyHistory().inverse(), c14Nil, "the lookup returned no version: the same as not found")
	add("not-found", wf.notFound, 0, "history not found (no emission for an id without history; the result is checked by W3 notfound)")
	cut := c14Edges{}
	for _, rec := range wf.recs {
		if rec.idVal != nil {
			scans, _ := m.scansFor(rec.idVal, rec.n)
			for _, sc := range scans {
				for n, v := range sc.match {
					cut[n] = v
				}
			}
		}
	}
	add("cycle-cut", cut, c14Nil, "cycle cut: a member is an ancestor on the path, which is empty for requested ids (W3 root-path), so only non-root activations leave here")
	errEdges, cancelled := c14Edges{}, c14Edges{}
	for _, n := range m.atoms(g) {
		subj, nilWhen := c14NilTest(m.atomVal(g, n))
		if subj == nil {
			continue
		}
		if m.isMethodOn(g, subj, m.fCtx, "context.Context", "Err") {
			cancelled[n] = -nilWhen
			continue
		}
		if be, ok := n.evalExpr().(*ast.BinaryExpr); ok {
			for _, op := range []ast.Expr{be.X, be.Y} {
				if t := n.ctx.fn.info.TypeOf(op); t != nil && !c14IsNil(n.ctx.fn.info, op) && namedPath(t) == "error" {
					errEdges[n] = -nilWhen
				}
			}
		}
	}
	add("error", errEdges, c14NonNil, "a non-nil error (datasource, child) is handed to the caller")
	add("cancelled", cancelled, c14NonNil, "the ordering's context is cancelled")
	doneClauses := map[*ast.CommClause]bool{}
	for _, sn := range wf.sendNodes {
		if sel := wf.selOf[sn]; sel != nil && sel.done != nil {
			doneClauses[sel.done] = true
		}
	}
	// any other select case that receives from the ordering's Done channel is the cancellation test in another spelling
	// (`select { case <-o.ctx.Done(): return o.ctx.Err(); default: }` for `if o.ctx.Err() != nil`)
	for _, n := range g.execNodes() {
		if es, ok := n.ast.(*ast.ExprStmt); ok && c14SelectComm(n) && m.isDoneRecv(g, n.ctx, es.X, n) {
			if cl, ok := n.ctx.fn.par[n.ast].(*ast.CommClause); ok {
				doneClauses[cl] = true
			}
		}
	}
	if len(doneClauses) > 0 {
		isDone := func(s *c14State, e c14Edge) bool { return e.sel != nil && doneClauses[e.sel] }
		var starts []*c14State
		for _, s := range g.stateList {
			for _, e := range s.out {
				if isDone(s, e) {
					starts = append(starts, e.to)
				}
			}
		}
		classes = append(classes, &class{name: "done", skip: isDone, starts: starts, want: c14NonNil, why: "cancellation observed while offering the id (Done case of the emission select)"})
	}
	emitSet := map[*c14Node]bool{}
	for _, e := range wf.emits {
		emitSet[e] = true
	}
	classes = append(classes, &class{name: "sent", starts: m.emitStates(), why: "only reached after the id was sent"})
	reachOf := map[*class]c14Set{}
	for _, cl := range classes {
		reachOf[cl] = g.reach(cl.starts, nil, nil)
	}

	type group struct {
		label  string
		states []*c14State
		bad    []string
		whys   []string
	}
	groups := map[string]*group{}
	var order []string
	exits := g.exitStates()
	for _, s := range exits {
		var in []*class
		var skips []func(*c14State, c14Edge) bool
		var names, whys []string
		for _, cl := range classes {
			if reachOf[cl][s] {
				in = append(in, cl)
				names = append(names, cl.name)
				whys = append(whys, cl.why)
				if cl.skip != nil {
					skips = append(skips, cl.skip)
				}
			}
		}
		stopEmit := func(x *c14State) bool { return emitSet[x.n] }
		label := strings.Join(names, "+")
		covered := len(in) > 0 && !g.reach(entry, stopEmit, c14SkipAny(skips...))[s]
		if !covered {
			label = "unexplained"
		}
		gr := groups[label]
		if gr == nil {
			gr = &group{label: label, whys: whys}
			groups[label] = gr
			order = append(order, label)
		}
		gr.states = append(gr.states, s)
		if !covered {
			continue
		}
		abs, _, _ := m.exitVal(g, s)
		aborting := false // a reason to end the whole iteration (error, cancellation) also lies on the way: a non-nil result is in order
		for _, cl := range in {
			aborting = aborting || cl.want == c14NonNil
		}
		for _, cl := range in {
			switch {
			case cl.want == c14Nil && abs != c14Nil && !aborting:
				gr.bad = append(gr.bad, fmt.Sprintf("`%s` (%s) does not return nil for the reason %q: a relation requested twice, shared by two parents or lying on a reference cycle — all legal — aborts the iteration and the remaining requested relations are never emitted", m.nodeSrc(s.n), m.rel(s.n.pos()), cl.name))
			case cl.want == c14NonNil && abs == c14Nil && len(in) == 1:
				gr.bad = append(gr.bad, fmt.Sprintf("`%s` (%s) returns nil for the reason %q: the caller takes the id for walked and emits the parent although this walk was abandoned", m.nodeSrc(s.n), m.rel(s.n.pos()), cl.name))
			}
		}
	}
	sort.Strings(order)
	for _, label := range order {
		gr := groups[label]
		c := "exit@dfs:" + label
		pos := gr.states[0].n.pos()
		switch {
		case label == "unexplained":
			// a nil result tells the caller "this id is done": the parent goes on and is emitted although this relation was
			// neither emitted nor cut as an ancestor nor failed — a violation; any other result is left undecided
			seen := map[*c14Node]bool{}
			for _, s := range gr.states {
				if seen[s.n] {
					continue
				}
				seen[s.n] = true
				nilResult := false
				for _, s2 := range gr.states {
					if s2.n == s.n {
						if abs, _, _ := m.exitVal(g, s2); abs == c14Nil {
							nilResult = true
						}
					}
				}
				if nilResult {
					r.Bad(c, s.n.pos(), "`%s` leaves %s with a nil result before the emission although the id was not found in the visited set, its history was found, no error occurred, no member is an ancestor and the context is not cancelled: the relation is abandoned un-emitted (and un-visited) while its caller takes it for done, so its ancestors are emitted before it — child-first order is broken (e.g. a depth or size cut-off on a deep acyclic chain)", m.nodeSrc(s.n), fn)
				} else {
					r.Unknown(c, s.n.pos(), "`%s` leaves %s before the emission for a reason that is not one of: already visited, history not found, datasource/child error, cycle cut, cancellation. Such an exit keeps a relation with a history from being emitted, or lets a parent be emitted while this child was skipped", m.nodeSrc(s.n), fn)
				}
			}
		case len(gr.bad) > 0:
			r.Bad(c, pos, "%s", gr.bad[0])
		default:
			r.OK(c, pos, "%d way(s) out of %s, e.g. `%s`: %s", len(gr.states), fn, m.nodeSrc(gr.states[0].n), strings.Join(gr.whys, "; "))
		}
	}
	r.Stat("walk_exits", len(exits))
}
