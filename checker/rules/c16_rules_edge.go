package rules

// c16_rules_edge.go — rule E1, first half: the signed-area sum of MultiSegment.Orientation covers every edge.
//
// The body of MultiSegment.Orientation (the function the other rules treat as an oracle) is evaluated on
// multisegments the way Join leaves them (a closed chain of points split into consecutive pieces of any sizes, the
// joining points present once). No float is computed: the accumulated area is kept as a polynomial over the symbolic
// coordinates. The comparison that decides the result must compare a non-zero multiple k*S of the shoelace polynomial
// S = sum over every consecutive pair (p,q) of the concatenated points of (p.x*q.y - q.x*p.y) with zero, and CCW must
// be returned exactly on the side where S > 0. Any spelling with the same polynomial passes (offsets cancel on a
// closed chain, a pair of identical points contributes 0); a sum that leaves out the pair spanning two pieces, skips
// a point or does not advance does not.

import (
	"fmt"
	"sort"
	"strings"

	"osmcheck/core"
)

// c16Shoelace is S for the chain (closed by its own last point).
func c16Shoelace(chain []string) c16Poly {
	s := c16Poly{}
	for i := 0; i+1 < len(chain); i++ {
		p, q := chain[i], chain[i+1]
		if p == q {
			continue
		}
		s[c16Mono(p+".x", q+".y")]++
		s[c16Mono(q+".x", p+".y")]--
	}
	return s.clean()
}

func c16Mono(a, b string) string {
	v := []string{a, b}
	sort.Strings(v)
	return strings.Join(v, "*")
}

// c16Compositions lists every way of splitting n points into consecutive non-empty pieces (sizes).
func c16Compositions(n int) [][]int {
	if n == 0 {
		return [][]int{{}}
	}
	var out [][]int
	for first := 1; first <= n; first++ {
		for _, rest := range c16Compositions(n - first) {
			out = append(out, append([]int{first}, rest...))
		}
	}
	return out
}

// c16MissingEdges names the consecutive pairs whose term is absent from d (diagnostic).
func c16MissingEdges(chain []string, d c16Poly) string {
	var missing []string
	for i := 0; i+1 < len(chain); i++ {
		p, q := chain[i], chain[i+1]
		if p != q && d[c16Mono(p+".x", q+".y")] == 0 {
			missing = append(missing, "("+p+","+q+")")
		}
	}
	if len(missing) == 0 {
		return "every consecutive pair occurs, but with unequal weights or with pairs that are not consecutive"
	}
	return "the edge(s) " + strings.Join(missing, " ") + " never enter the sum"
}

// orientationVerdict evaluates ms.Orientation() for the chain split into pieces of the given sizes.
func (e *c16Env) orientationVerdict(chain []string, sizes []int) c16Verdict {
	var segs []c16Seg
	at := 0
	for i, n := range sizes {
		segs = append(segs, c16Seg{idx: i, toks: chain[at : at+n]})
		at += n
	}
	want := c16Shoelace(chain)
	outs, complete := c16Explore(e.r.P, nil, func(m *c16M) c16Val {
		return m.callFunc(e.msOr, e.segments(e.msT, segs))
	})
	if !complete {
		return c16Verdict{undecided: "too many paths"}
	}
	for _, out := range outs {
		val, v := c16Settle(out)
		if !v.ok() {
			return v
		}
		got, ok := val.(int64)
		if !ok {
			return c16Verdict{undecided: "the result is not a concrete orientation: " + c16Show(val)}
		}
		// what the decisions of this path say about the sign of S
		pos, neg := true, true
		used := 0
		for _, d := range out.cmps {
			if len(d.cmp.deps) == 0 {
				continue
			}
			if d.cmp.diff == nil {
				return c16Verdict{undecided: fmt.Sprintf("a comparison over the points %v is not polynomial: it cannot be attributed to the edges of the ring", c16SortedDeps(d.cmp.deps))}
			}
			k, prop := c16Proportional(d.cmp.diff, want)
			if !prop {
				return c16Verdict{bad: fmt.Sprintf("the orientation is decided by a sum that is not the signed area of the ring %v: %s", chain, c16MissingEdges(chain, d.cmp.diff))}
			}
			used++
			// the decision states: k*S op 0 is d.result
			for _, sign := range []float64{1, -1} {
				holds := false
				switch d.cmp.op.String() {
				case ">", ">=":
					holds = k*sign > 0
				case "<", "<=":
					holds = k*sign < 0
				case "!=":
					holds = true
				}
				if holds != d.result {
					if sign > 0 {
						pos = false
					} else {
						neg = false
					}
				}
			}
		}
		switch {
		case used == 0 || (pos && neg):
			return c16Verdict{bad: fmt.Sprintf("returns %s without any comparison that depends on the sign of the signed area of the ring (no edge enters the sum, or the result ignores it)", c16Dir(got))}
		case pos && got != c16CCW:
			return c16Verdict{bad: fmt.Sprintf("returns %s where the signed area sum(p.x*q.y - q.x*p.y) is positive: that is a counter-clockwise ring", c16Dir(got))}
		case neg && got != c16CW:
			return c16Verdict{bad: fmt.Sprintf("returns %s where the signed area sum(p.x*q.y - q.x*p.y) is negative: that is a clockwise ring", c16Dir(got))}
		}
	}
	return c16Verdict{}
}

func c16E1(r *core.R) {
	e := c16NewEnv(r)
	if !e.ok {
		return
	}
	pos := e.msOr.Decl.Pos()
	what := "the area sum must combine every consecutive pair of the concatenated points of the multisegment exactly once, the pair that spans two segments included (Join leaves the joining point in one of them only), and CCW must be the side of the positive sum"
	for _, fam := range []struct {
		name  string
		chain []string
	}{
		{"area-sum[ring of 4 points, every split]", []string{"a", "b", "c", "d", "a"}},
		{"area-sum[ring of 6 points, every split]", []string{"a", "b", "c", "d", "e", "f", "a"}},
	} {
		n, done := 0, false
		for _, sizes := range c16Compositions(len(fam.chain)) {
			v := e.orientationVerdict(fam.chain, sizes)
			text := fmt.Sprintf("MultiSegment(%v split %v).Orientation()", fam.chain, sizes)
			switch {
			case v.undecided != "":
				r.Unknown(fam.name, pos, "%s could not be evaluated: %s", text, v.undecided)
				done = true
			case v.bad != "":
				r.Bad(fam.name, pos, "%s: %s. %s", text, v.bad, what)
				done = true
			}
			if done {
				break
			}
			n++
		}
		if !done {
			r.Stat("orientation scenarios", n)
			r.OK(fam.name, pos, "%d splits of the closed chain into consecutive segments: the deciding sum is a multiple of the shoelace polynomial over all consecutive pairs, CCW on its positive side", n)
		}
	}
	c16E1Cast(e)
}
