package rules

import (
	"fmt"
	"go/ast"
	"go/token"
	"go/types"
	"strings"
)

// sync.Pool: what Get hands out is what some earlier call Put.

type c12PoolSite struct {
	pool types.Object
	name string
	get  bool
	f    *c12Fn
	call *ast.CallExpr
}

func (cs *c12Carried) poolSites(f *c12Fn) []c12PoolSite {
	info := f.info()
	var out []c12PoolSite
	ast.Inspect(f.fi.Decl.Body, func(n ast.Node) bool {
		call, ok := n.(*ast.CallExpr)
		if !ok {
			return true
		}
		fn := callee(info, call)
		isGet, isPut := isMethod(fn, "sync.Pool", "Get"), isMethod(fn, "sync.Pool", "Put")
		if !isGet && !isPut {
			return true
		}
		sel := ast.Unparen(call.Fun).(*ast.SelectorExpr)
		x := stripDerefParen(sel.X)
		if ue, ok := x.(*ast.UnaryExpr); ok && ue.Op == token.AND {
			x = stripDerefParen(ue.X)
		}
		p := c12Resolve(info, f.fi.Decl.Body, x)
		if p == nil {
			cs.r.Unknown("carried-state@"+f.fi.Name()+" "+src(cs.r.P.Fset, sel.X), call.Pos(), "the sync.Pool `%s` is not a variable or field the rule can identify", src(cs.r.P.Fset, sel.X))
			return true
		}
		out = append(out, c12PoolSite{pool: p, name: src(cs.r.P.Fset, sel.X), get: isGet, f: f, call: call})
		return true
	})
	return out
}

// c12BlockOf returns the statement list that directly contains the statement holding node, with its index.
func c12BlockOf(par map[ast.Node]ast.Node, node ast.Node) ([]ast.Stmt, int, ast.Stmt) {
	var st ast.Stmt
	for p := node; p != nil; p = par[p] {
		if s, ok := p.(ast.Stmt); ok {
			st = s
			var list []ast.Stmt
			switch b := par[p].(type) {
			case *ast.BlockStmt:
				list = b.List
			case *ast.CaseClause:
				list = b.Body
			case *ast.CommClause:
				list = b.Body
			default:
				continue
			}
			for i, x := range list {
				if x == st {
					return list, i, st
				}
			}
		}
	}
	return nil, -1, st
}

// getCleared: the value drawn from the pool is stored in a local and the next statement that mentions the local
// empties it.
func (cs *c12Carried) getCleared(ps c12PoolSite) (bool, string) {
	info := ps.f.info()
	par := parentsOf(cs.r.P, ps.f.fi)
	list, i, st := c12BlockOf(par, ps.call)
	as, ok := st.(*ast.AssignStmt)
	if !ok || list == nil || len(as.Lhs) == 0 {
		return false, "the value is not stored in a local variable"
	}
	v := objOf(info, as.Lhs[0])
	if v == nil {
		return false, "the value is not stored in a local variable"
	}
	is := func(e ast.Expr) bool { return objOf(info, e) == v }
	for _, nx := range list[i+1:] {
		if !usesObj(info, nx, v) {
			continue
		}
		if ok, text := c12ClearStmt(info, nx, is); ok {
			return true, "`" + v.Name() + "` is emptied right after Get (" + text + ")"
		}
		txt := src(cs.r.P.Fset, nx)
		if len(txt) > 70 {
			txt = txt[:67] + "..."
		}
		return false, "`" + txt + "` uses `" + v.Name() + "` before it has been emptied"
	}
	return false, "`" + v.Name() + "` is never emptied in " + ps.f.fi.Name()
}

// putCleared: the value handed to Put was emptied by the nearest preceding statement that mentions it, in the same
// statement list (function body or deferred closure).
func (cs *c12Carried) putCleared(ps c12PoolSite) (bool, string) {
	info := ps.f.info()
	par := parentsOf(cs.r.P, ps.f.fi)
	list, i, st := c12BlockOf(par, ps.call)
	text := "`" + src(cs.r.P.Fset, st) + "`"
	if len(ps.call.Args) != 1 {
		return false, text
	}
	arg := stripDerefParen(ps.call.Args[0])
	if ue, ok := arg.(*ast.UnaryExpr); ok && ue.Op == token.AND {
		arg = stripDerefParen(ue.X)
	}
	v := objOf(info, arg)
	if v == nil {
		return false, text + " puts back a value that is not a variable"
	}
	if _, isDefer := st.(*ast.DeferStmt); isDefer {
		return false, text + " in " + ps.f.fi.Name() + " runs on every exit of the function" + cs.earlyExits(ps, v)
	}
	is := func(e ast.Expr) bool { return objOf(info, e) == v }
	for k := i - 1; k >= 0 && list != nil; k-- {
		if !usesObj(info, list[k], v) {
			continue
		}
		if ok, _ := c12ClearStmt(info, list[k], is); ok {
			return true, ""
		}
		break
	}
	return false, text + " in " + ps.f.fi.Name() + " is not directly preceded by emptying `" + v.Name() + "`"
}

// earlyExits names the returns that reach a deferred Put while v may still hold entries: the returns inside a loop
// that removes the entries of v one at a time (or, if there is no such loop, every return after the defer).
func (cs *c12Carried) earlyExits(ps c12PoolSite, v types.Object) string {
	info := ps.f.info()
	par := parentsOf(cs.r.P, ps.f.fi)
	var inLoop, all []string
	inspectNoLit(ps.f.fi.Decl.Body, func(n ast.Node) bool {
		ret, ok := n.(*ast.ReturnStmt)
		if !ok || ret.Pos() < ps.call.Pos() {
			return true
		}
		line := cs.r.P.Rel(ret.Pos())
		all = append(all, line)
		for p := par[ret]; p != nil; p = par[p] {
			if rs, ok := p.(*ast.RangeStmt); ok && objOf(info, stripDerefParen(rs.X)) == v {
				inLoop = append(inLoop, line)
				break
			}
		}
		return true
	})
	if len(inLoop) > 0 {
		return fmt.Sprintf(": the %d return(s) inside the loop over `%s` (%s) leave it with the entries that were not consumed yet", len(inLoop), v.Name(), strings.Join(inLoop, ", "))
	}
	if len(all) > 1 {
		return fmt.Sprintf(", including the %d early returns (%s), on which `%s` has not been emptied", len(all)-1, strings.Join(all[:len(all)-1], ", "), v.Name())
	}
	return ", and `" + v.Name() + "` is not emptied before"
}

// newFresh: the pool is a package-level variable whose New (if any) only returns fresh, empty values.
func (cs *c12Carried) newFresh(p types.Object) bool {
	v, ok := p.(*types.Var)
	if !ok || !c12IsPkgVar(v) {
		return false
	}
	pk := cs.r.P.ByPath[v.Pkg().Path()]
	if pk == nil {
		return false
	}
	init := c12PkgVarInitAny(pk.TypesInfo, pk.Syntax, v)
	if init == nil {
		return true // zero Pool: Get returns nil until something is Put
	}
	lit, ok := ast.Unparen(init).(*ast.CompositeLit)
	if !ok {
		return false
	}
	fresh := true
	for _, e := range lit.Elts {
		kv, ok := e.(*ast.KeyValueExpr)
		if !ok {
			return false
		}
		fl, ok := ast.Unparen(kv.Value).(*ast.FuncLit)
		if !ok {
			return false
		}
		ast.Inspect(fl.Body, func(n ast.Node) bool {
			if ret, ok := n.(*ast.ReturnStmt); ok {
				for _, x := range ret.Results {
					if !c12IsFreshOrConst(pk.TypesInfo, x) {
						fresh = false
					}
				}
			}
			return true
		})
	}
	return fresh
}

func c12PkgVarInitAny(info *types.Info, files []*ast.File, v *types.Var) ast.Expr {
	var init ast.Expr
	for _, f := range files {
		for _, d := range f.Decls {
			gd, ok := d.(*ast.GenDecl)
			if !ok {
				continue
			}
			for _, sp := range gd.Specs {
				vs, ok := sp.(*ast.ValueSpec)
				if !ok {
					continue
				}
				for i, nm := range vs.Names {
					if info.Defs[nm] == types.Object(v) && len(vs.Values) == len(vs.Names) {
						init = vs.Values[i]
					}
				}
			}
		}
	}
	return init
}

// judgePool emits one obligation per Get of the pool; it returns their number.
func (cs *c12Carried) judgePool(p types.Object, sites []c12PoolSite) int {
	var gets, puts []c12PoolSite
	for _, s := range sites {
		if s.get {
			gets = append(gets, s)
		} else {
			puts = append(puts, s)
		}
	}
	fresh := cs.newFresh(p)
	var dirty []string
	for _, pt := range puts {
		if ok, why := cs.putCleared(pt); !ok {
			dirty = append(dirty, why)
		}
	}
	for _, g := range gets {
		c := "carried-state@" + g.f.fi.Name() + " " + g.name
		okGet, gwhy := cs.getCleared(g)
		switch {
		case okGet:
			cs.r.OK(c, g.call.Pos(), "a value from the pool %s may have been used by an earlier call; %s", g.name, gwhy)
		case fresh && len(dirty) == 0:
			cs.r.OK(c, g.call.Pos(), "a value from the pool %s may have been used by an earlier call; New only returns fresh values and each of the %d Put(s) is directly preceded by emptying the value", g.name, len(puts))
		case !fresh && len(dirty) == 0:
			cs.r.Unknown(c, g.call.Pos(), "a value from the pool %s may have been used by an earlier call; %s, and what the pool's New returns could not be shown to be fresh", g.name, gwhy)
		default:
			cs.r.Bad(c, g.call.Pos(), "the value Get returns from the pool %s is used as if it were empty (%s), but it is what an earlier call put back: %s. The result of a call then depends on the calls before it", g.name, gwhy, strings.Join(dirty, "; "))
		}
	}
	if len(gets) == 0 {
		return 0
	}
	return len(gets)
}
