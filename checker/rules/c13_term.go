package rules

import (
	"fmt"
	"go/ast"
	"go/constant"
	"go/token"
	"go/types"
	"sort"
	"strings"
)

// Symbolic values of the C13 path evaluator.
//
// A c13Term is an immutable value expression over the inputs of annotate.Change (its parameters, the results of
// calls whose implementation is not analysed, loop-carried variables). Two terms with the same key denote the same
// value on a path. Comparisons never become values: evaluating `a < b` forks the path and records the atom
// lt(a,b) with its truth value, so boolean values are constants except for boolean inputs.

const (
	c13OpNil     = "nil"
	c13OpConst   = "const"   // cv
	c13OpSym     = "sym"     // id, name: an input
	c13OpField   = "field"   // args[0].obj (ver: number of times the base escaped to unknown code before the read)
	c13OpAddr    = "addr"    // &args[0]
	c13OpDeref   = "deref"   // *args[0]
	c13OpIndex   = "index"   // args[0][args[1]]
	c13OpLit     = "lit"     // composite literal of type typ: struct (keys parallel to args) or slice/array (keys nil)
	c13OpRef     = "ref"     // pointer to the fresh object id (a heap cell of the path state)
	c13OpCall    = "call"    // pure call of obj (a *types.Func) on args (receiver first)
	c13OpConv    = "conv"    // typ(args[0])
	c13OpMake    = "make"    // make(typ, args...)
	c13OpLen     = "len"     // len(args[0])
	c13OpCap     = "cap"     // cap(args[0])
	c13OpApp     = "app"     // append(args[0], args[1:]...)
	c13OpAppV    = "appv"    // append(args[0], args[1]...)
	c13OpBin     = "bin"     // args[0] name args[1] (arithmetic)
	c13OpLt      = "lt"      // atom args[0] < args[1]
	c13OpEq      = "eq"      // atom args[0] == args[1] (arguments ordered by key)
	c13OpLoopIn  = "loopin"  // value of variable obj at the start of an arbitrary iteration of loop
	c13OpLoopOut = "loopout" // value of variable obj after loop
	c13OpIdx     = "idx"     // index of the current iteration of a range loop
	c13OpFuncLit = "funclit" // a function literal (node)
	c13OpFuncRef = "funcref" // a declared function (obj)
	c13OpAddrVar = "addrvar" // pointer to the local variable obj (reads and writes through it go to the variable)
	c13OpOther   = "other"   // name(args...): an operation the evaluator does not interpret
)

type c13Term struct {
	op   string
	obj  types.Object
	cv   constant.Value
	typ  types.Type
	id   int
	ver  int
	name string
	args []*c13Term
	keys []*types.Var
	loop *c13Loop
	node ast.Node
	key  string
}

func (t *c13Term) String() string { return t.key }

// c13Atom is an atomic condition with the truth value it has on a path.
type c13Atom struct {
	t   *c13Term
	val bool
	e   ast.Expr // source of the test (diagnostics only)
}

// c13Event is something a path did besides computing values.
type c13Event struct {
	kind string // "store" | "dyncall" (interface method / function value) | "extcall" (static callee with unknown effects) | "loop" | "effect" (builtin with effect)
	pos  token.Pos
	lhs  *c13Term // store: location
	val  *c13Term // store: value
	fn   *types.Func
	tgt  *c13Term // dyncall on a function value
	args []*c13Term
	res  []*c13Term
	loop *c13Loop
	what string
}

// c13Cell is a fresh object (`&T{...}`, `new(T)`) of a path.
type c13Cell struct {
	typ     types.Type
	fields  map[*types.Var]*c13Term
	escaped bool // handed to code the evaluator does not see: contents unknown from then on
	ver     int
}

// c13Loop records one symbolic execution of a loop: the body is executed once for an arbitrary iteration with
// every loop-carried variable replaced by loopin(L, v); afterwards those variables hold loopout(L, v).
type c13Loop struct {
	id      int
	stmt    ast.Stmt
	xs      *c13Term // range operand (nil for a for statement)
	vars    []types.Object
	pre     map[types.Object]*c13Term
	iters   []*c13Iter // body paths that reach the next iteration
	breaks  []*c13Iter // body paths that leave the loop by break (or by continue/break of an outer loop)
	exits   int        // body paths that leave the function
	pcLen   int
	trLen   int
	depth   int // number of enclosing loop iterations
	touched map[int]bool
	stored  map[c13HeapSlot]bool // fields of fresh objects the body writes
	hvars   map[c13HeapSlot]bool // ... that are carried like variables
	fnName  string
}

type c13Iter struct {
	st  *c13State
	out map[types.Object]*c13Term
}

// c13State is the state of one path.
type c13State struct {
	env   map[types.Object]*c13Term
	pc    []c13Atom
	pcIdx map[string]bool
	trace []c13Event
	heap  map[int]*c13Cell
	loops []*c13Loop // loops whose iteration is in progress
	unsup []string
	last  token.Pos
}

func (s *c13State) clone() *c13State {
	n := &c13State{
		env:   make(map[types.Object]*c13Term, len(s.env)+4),
		pcIdx: make(map[string]bool, len(s.pcIdx)+4),
		heap:  make(map[int]*c13Cell, len(s.heap)+2),
		last:  s.last,
	}
	for k, v := range s.env {
		n.env[k] = v
	}
	for k, v := range s.pcIdx {
		n.pcIdx[k] = v
	}
	for k, v := range s.heap {
		n.heap[k] = v // cells are copied on write
	}
	n.pc = append([]c13Atom(nil), s.pc...)
	n.trace = append([]c13Event(nil), s.trace...)
	n.loops = append([]*c13Loop(nil), s.loops...)
	n.unsup = append([]string(nil), s.unsup...)
	return n
}

func (s *c13State) addAtom(t *c13Term, val bool, e ast.Expr) {
	s.pc = append(s.pc, c13Atom{t, val, e})
	s.pcIdx[t.key] = val
}

// c13Path is a completed path of the root function.
type c13Path struct {
	st   *c13State
	kind string // "return" | "end" | "panic" | "unsupported"
	res  []*c13Term
	pos  token.Pos
}

// ---- term construction ----------------------------------------------------------------------------

type c13Terms struct {
	objID   map[types.Object]int
	nextSym int
}

func (x *c13Terms) oid(o types.Object) string {
	if o == nil {
		return "?"
	}
	id, ok := x.objID[o]
	if !ok {
		id = len(x.objID) + 1
		x.objID[o] = id
	}
	return fmt.Sprintf("%s#%d", o.Name(), id)
}

var c13NilTerm = &c13Term{op: c13OpNil, key: "nil"}

func c13Const(v constant.Value) *c13Term {
	return &c13Term{op: c13OpConst, cv: v, key: "c:" + v.ExactString()}
}

var (
	c13True  = c13Const(constant.MakeBool(true))
	c13False = c13Const(constant.MakeBool(false))
)

func c13Bool(b bool) *c13Term {
	if b {
		return c13True
	}
	return c13False
}

func c13Int(i int64) *c13Term { return c13Const(constant.MakeInt64(i)) }

func (x *c13Terms) sym(name string, typ types.Type) *c13Term {
	x.nextSym++
	return &c13Term{op: c13OpSym, id: x.nextSym, name: name, typ: typ, key: fmt.Sprintf("$%d:%s", x.nextSym, name)}
}

func c13Keys(args []*c13Term) string {
	s := make([]string, len(args))
	for i, a := range args {
		s[i] = a.key
	}
	return strings.Join(s, ",")
}

func (x *c13Terms) field(base *c13Term, f *types.Var, ver int) *c13Term {
	k := "(" + base.key + ")." + x.oid(f)
	if ver > 0 {
		k += fmt.Sprintf("@%d", ver)
	}
	return &c13Term{op: c13OpField, obj: f, ver: ver, args: []*c13Term{base}, key: k}
}

func (x *c13Terms) un(op string, a *c13Term) *c13Term {
	return &c13Term{op: op, args: []*c13Term{a}, key: op + "(" + a.key + ")"}
}

func (x *c13Terms) addr(a *c13Term) *c13Term {
	if a.op == c13OpDeref {
		return a.args[0]
	}
	return x.un(c13OpAddr, a)
}

func (x *c13Terms) deref(a *c13Term) *c13Term {
	if a.op == c13OpAddr {
		return a.args[0]
	}
	return x.un(c13OpDeref, a)
}

func (x *c13Terms) index(a, i *c13Term) *c13Term {
	if v := x.mapLookup(a, i); v != nil {
		return v
	}
	a, i = x.viewIndex(a, i)
	if a.op == c13OpLit && a.keys == nil && i.op == c13OpConst && i.cv.Kind() == constant.Int {
		if n, ok := constant.Int64Val(i.cv); ok && n >= 0 && int(n) < len(a.args) {
			return a.args[n]
		}
	}
	return &c13Term{op: c13OpIndex, args: []*c13Term{a, i}, key: "(" + a.key + ")[" + i.key + "]"}
}

func c13TypeKey(t types.Type) string {
	if t == nil {
		return "?"
	}
	return types.TypeString(t, nil)
}

func (x *c13Terms) lit(typ types.Type, keys []*types.Var, args []*c13Term) *c13Term {
	var parts []string
	for i, a := range args {
		if keys != nil {
			parts = append(parts, x.oid(keys[i])+":"+a.key)
		} else {
			parts = append(parts, a.key)
		}
	}
	if keys != nil {
		sort.Strings(parts)
	}
	return &c13Term{op: c13OpLit, typ: typ, keys: keys, args: args, key: c13TypeKey(typ) + "{" + strings.Join(parts, ",") + "}"}
}

func (x *c13Terms) ref(id int, typ types.Type) *c13Term {
	return &c13Term{op: c13OpRef, id: id, typ: typ, key: fmt.Sprintf("ref%d", id)}
}

func (x *c13Terms) call(fn *types.Func, args []*c13Term) *c13Term {
	return &c13Term{op: c13OpCall, obj: fn, args: args, key: "call " + x.oid(fn) + "(" + c13Keys(args) + ")"}
}

func (x *c13Terms) conv(typ types.Type, a *c13Term) *c13Term {
	return &c13Term{op: c13OpConv, typ: typ, args: []*c13Term{a}, key: "conv " + c13TypeKey(typ) + "(" + a.key + ")"}
}

func (x *c13Terms) nary(op, name string, typ types.Type, args []*c13Term) *c13Term {
	k := op
	if name != "" {
		k += " " + name
	}
	if typ != nil {
		k += " " + c13TypeKey(typ)
	}
	return &c13Term{op: op, name: name, typ: typ, args: args, key: k + "(" + c13Keys(args) + ")"}
}

func (x *c13Terms) lt(a, b *c13Term) *c13Term { return x.nary(c13OpLt, "", nil, []*c13Term{a, b}) }

func (x *c13Terms) eq(a, b *c13Term) *c13Term {
	if b.key < a.key {
		a, b = b, a
	}
	return x.nary(c13OpEq, "", nil, []*c13Term{a, b})
}

func (x *c13Terms) loopVar(op string, l *c13Loop, o types.Object) *c13Term {
	return &c13Term{op: op, loop: l, obj: o, key: fmt.Sprintf("%s(L%d,%s)", op, l.id, x.oid(o))}
}

func (x *c13Terms) idx(l *c13Loop) *c13Term {
	return &c13Term{op: c13OpIdx, loop: l, key: fmt.Sprintf("idx(L%d)", l.id)}
}

// c13Zero is the zero value of a type.
func (x *c13Terms) zero(t types.Type) *c13Term {
	if t == nil {
		return c13NilTerm
	}
	switch u := t.Underlying().(type) {
	case *types.Basic:
		switch {
		case u.Info()&types.IsBoolean != 0:
			return c13False
		case u.Info()&types.IsString != 0:
			return c13Const(constant.MakeString(""))
		case u.Info()&types.IsNumeric != 0:
			return c13Int(0)
		}
		return c13NilTerm
	case *types.Struct:
		return x.lit(t, []*types.Var{}, nil)
	case *types.Array:
		return x.nary(c13OpOther, "zero", t, nil)
	}
	return c13NilTerm
}

// c13ConstOf returns the constant of a term.
func c13ConstOf(t *c13Term) (constant.Value, bool) {
	if t != nil && t.op == c13OpConst {
		return t.cv, true
	}
	return nil, false
}

func c13IntOf(t *c13Term) (int64, bool) {
	if v, ok := c13ConstOf(t); ok {
		if iv := constant.ToInt(v); iv.Kind() == constant.Int {
			return constant.Int64Val(iv)
		}
	}
	return 0, false
}

func c13BoolOf(t *c13Term) (val, ok bool) {
	if v, isC := c13ConstOf(t); isC && v.Kind() == constant.Bool {
		return constant.BoolVal(v), true
	}
	return false, false
}

func c13StringOf(t *c13Term) (string, bool) {
	if v, isC := c13ConstOf(t); isC && v.Kind() == constant.String {
		return constant.StringVal(v), true
	}
	return "", false
}

// c13Mentions reports whether term t contains a subterm satisfying pred.
func c13Mentions(t *c13Term, pred func(*c13Term) bool) bool {
	if t == nil {
		return false
	}
	if pred(t) {
		return true
	}
	for _, a := range t.args {
		if c13Mentions(a, pred) {
			return true
		}
	}
	return false
}
