package rules

import (
	"go/ast"
)

// The deferred calls of the producer goroutine.
//
// What the producer defers may be spelled `defer close(o.out)`, `defer o.wg.Done()`, a deferred function literal doing
// both, or a deferred method / function / local closure (`defer o.finish()`). Anything that is not the plain builtin or
// WaitGroup call is explored like any other function (its own graph, entered from the defer statement, parameters and
// captured variables resolved in the producer), and the close / Done calls must lie on every path through it.

type c14Deferred struct {
	closeDefers []*c14Node // defer statements of the producer's own activation that close the output channel
	doneDefers  []*c14Node // … that release the wait group
	closeCalls  map[*ast.CallExpr]bool
	signalCalls map[*ast.CallExpr]bool // the calls that signal completion
	// signalNotLast: a deferred function that goes on (closes the output channel) after it has signalled completion
	signalNotLast *c14Node
}

func (m *c14Model) producerDefers() *c14Deferred {
	if m.pdefers != nil {
		return m.pdefers
	}
	pd := &c14Deferred{closeCalls: map[*ast.CallExpr]bool{}, signalCalls: map[*ast.CallExpr]bool{}}
	m.pdefers = pd
	pg := m.pg
	if pg == nil {
		return pd
	}
	isClose := func(g *c14Graph, n *c14Node, ce *ast.CallExpr) bool {
		return builtinName(n.ctx.fn.info, ce) == "close" && len(ce.Args) == 1 && m.isField(g, g.canon(n.ctx, ce.Args[0], n), m.fOut)
	}
	isDone := func(g *c14Graph, n *c14Node, ce *ast.CallExpr) bool { return m.isSignal(g, n, ce) }
	for _, d := range pg.defers {
		if d.ctx != pg.root || len(pg.byNode[d]) == 0 {
			continue // a defer inside a called function runs when that function returns, not when the goroutine ends
		}
		dc := d.ast.(*ast.DeferStmt).Call
		if isClose(pg, d, dc) {
			pd.closeDefers = append(pd.closeDefers, d)
			pd.closeCalls[dc] = true
			continue
		}
		if isDone(pg, d, dc) {
			pd.doneDefers = append(pd.doneDefers, d)
			pd.signalCalls[dc] = true
			continue
		}
		// a deferred literal, method, function or local closure: explore it
		var fn *c14Fn
		if lit, ok := ast.Unparen(dc.Fun).(*ast.FuncLit); ok {
			fn = m.eng.fnOfLit(d.ctx.fn.pk, lit)
		} else if fo := callee(d.ctx.fn.info, dc); fo != nil && !m.eng.noInline[fo.Origin()] {
			fn = m.eng.declFn(fo)
		} else if fo == nil {
			fn = pg.closureOf(d.ctx, dc)
		}
		if fn == nil {
			continue
		}
		dg := m.eng.explore("deferred by the producer", fn, d.ctx, dc, d)
		if dg.truncated {
			continue
		}
		m.ord[dg] = m.ord[pg]
		onEveryPath := func(calls []c14Call) bool {
			if len(calls) == 0 {
				return false
			}
			var ns []*c14Node
			for _, c := range calls {
				ns = append(ns, c.n)
			}
			return len(dg.reach([]*c14State{dg.entry}, c14StopAt(ns...), nil).exits()) == 0
		}
		closes := m.callsWhere(dg, func(n *c14Node, ce *ast.CallExpr) bool { return isClose(dg, n, ce) })
		dones := m.callsWhere(dg, func(n *c14Node, ce *ast.CallExpr) bool { return isDone(dg, n, ce) })
		for _, c := range closes {
			pd.closeCalls[c.call] = true // accounted for as a close site; whether it always runs is decided below
		}
		var doneNodes, closeNodes []*c14Node
		for _, c := range dones {
			pd.signalCalls[c.call] = true
			doneNodes = append(doneNodes, c.n)
		}
		for _, c := range closes {
			closeNodes = append(closeNodes, c.n)
		}
		if len(doneNodes) > 0 && dg.reach(c14Succs(dg.statesOf(doneNodes...), nil), nil, nil).hasNode(closeNodes...) {
			pd.signalNotLast = d
		}
		if onEveryPath(closes) {
			pd.closeDefers = append(pd.closeDefers, d)
		}
		if onEveryPath(dones) {
			pd.doneDefers = append(pd.doneDefers, d)
		}
	}
	return pd
}
