package rules

import (
	"go/ast"
	"go/types"
	"reflect"
	"sort"
	"strings"

	"osmcheck/core"
)

// c05J10: explicit osmjson keys. encoding/json (and every codec that follows its conventions) writes an exported
// struct field that has no json key under its Go name ("MinLat"); osmjson keys are lower-case (minlat, changeset,
// created_at). Every exported field of every struct type of the package that the tag-driven JSON encoding of the
// containers (osm.OSM, osm.Change; osm.Diff as soon as it declares a JSON form) reaches therefore names its key - or
// opts out with `json:"-"` - and the key is lower-case. Types with a MarshalJSON of their own are judged by J1/J5 on
// what that method writes; the walk goes on through the types of their fields and through the types of everything the
// method hands to a call (the codec encodes those by their tags again).
func c05J10(r *core.R) {
	c03Init(r)
	pk := c03OsmPkg(r.P)
	type occ struct {
		owner  string
		st     *types.Struct
		custom bool
	}
	seen := map[*types.Named]bool{}
	var occs []occ
	var visit func(t types.Type, owner string, depth int)
	fields := func(st *types.Struct, owner string, depth int) {
		for i := 0; i < st.NumFields(); i++ {
			if f := st.Field(i); f.Exported() || f.Embedded() {
				if key, _ := c05JSONKey(st.Tag(i)); key != "-" {
					visit(f.Type(), owner+"."+f.Name(), depth+1)
				}
			}
		}
	}
	visit = func(t types.Type, owner string, depth int) {
		if depth > 12 {
			return
		}
		switch u := t.(type) {
		case *types.Pointer:
			visit(u.Elem(), owner, depth+1)
			return
		case *types.Slice:
			visit(u.Elem(), owner, depth+1)
			return
		case *types.Array:
			visit(u.Elem(), owner, depth+1)
			return
		case *types.Map:
			visit(u.Elem(), owner, depth+1)
			return
		case *types.Struct: // an anonymous struct type of a field
			occs = append(occs, occ{owner: owner, st: u})
			fields(u, owner, depth)
			return
		}
		nt, ok := t.(*types.Named)
		if !ok || nt.Obj().Pkg() != pk.Types || seen[nt] {
			return
		}
		seen[nt] = true
		custom := c03Method(nt, "MarshalJSON")
		switch u := nt.Underlying().(type) {
		case *types.Struct:
			occs = append(occs, occ{owner: nt.Obj().Name(), st: u, custom: custom != nil})
			fields(u, nt.Obj().Name(), depth)
		default:
			if custom == nil {
				visit(u, nt.Obj().Name(), depth+1)
			}
		}
		// a hand-written MarshalJSON: what it hands on (to the codec, to helpers) is encoded by tags again
		if fi := c03FuncInfoOf(r.P, custom); fi != nil && fi.Decl.Body != nil {
			ast.Inspect(fi.Decl.Body, func(n ast.Node) bool {
				if call, ok := n.(*ast.CallExpr); ok {
					for _, a := range call.Args {
						if at := fi.Pkg.TypesInfo.TypeOf(a); at != nil {
							visit(at, nt.Obj().Name()+".MarshalJSON", depth+1)
						}
					}
				}
				return true
			})
		}
	}
	roots := 0
	for _, n := range []string{"OSM", "Change", "Diff"} {
		nt, _ := structType(pk, n)
		if nt == nil || !c05TakesPartInJSON(nt) {
			continue // osm.Diff (augmented diffs exist as XML only) declares no JSON form at all
		}
		roots++
		visit(nt, n, 0)
	}
	if roots == 0 {
		r.Anchor("the container types osm.OSM / osm.Change / osm.Diff")
		return
	}
	sort.SliceStable(occs, func(i, j int) bool { return occs[i].owner < occs[j].owner })
	nFields := 0
	done := map[string]bool{}
	for _, o := range occs {
		if o.custom {
			continue // hand-written: J1 / J5
		}
		for i := 0; i < o.st.NumFields(); i++ {
			f := o.st.Field(i)
			if !f.Exported() {
				continue // not written by encoding/json (an embedded unexported struct is walked through above)
			}
			key, has := c05JSONKey(o.st.Tag(i))
			if f.Embedded() && !has {
				continue // promoted fields: judged in the embedded type
			}
			c := "jsonkey@" + o.owner + "." + f.Name()
			if done[c] {
				continue
			}
			done[c] = true
			nFields++
			switch {
			case key == "-":
				r.OKTrivial(c, f.Pos(), "not written to JSON (`json:\"-\"`)")
			case !has || key == "":
				r.Bad(c, f.Pos(), "%s.%s is reached by the JSON encoding of the containers but its tag `%s` names no json key: encoding/json writes it under the Go name %q, which is no osmjson key (they are lower-case) and not what other osmjson readers and writers use", o.owner, f.Name(), o.st.Tag(i), f.Name())
			case key != strings.ToLower(key):
				r.Bad(c, f.Pos(), "%s.%s is written under the json key %q: osmjson keys are lower-case", o.owner, f.Name(), key)
			default:
				r.OK(c, f.Pos(), "written under the explicit lower-case json key %q", key)
			}
		}
	}
	r.Stat("json_reachable_struct_types", len(occs))
	r.Stat("json_tagged_fields", nFields)
	if nFields == 0 {
		r.Anchor("an exported field of a struct type reachable from the JSON encoding of osm.OSM")
	}
}

// c05JSONKey returns the key part of the json struct tag (has=false: no json tag at all).
func c05JSONKey(tag string) (key string, has bool) {
	v, ok := reflect.StructTag(tag).Lookup("json")
	if !ok {
		return "", false
	}
	if i := strings.Index(v, ","); i >= 0 {
		v = v[:i]
	}
	return v, true
}

// c05TakesPartInJSON: the container has a MarshalJSON method or names a json key for at least one field.
func c05TakesPartInJSON(nt *types.Named) bool {
	if c03Method(nt, "MarshalJSON") != nil {
		return true
	}
	st, ok := nt.Underlying().(*types.Struct)
	if !ok {
		return false
	}
	for i := 0; i < st.NumFields(); i++ {
		if _, has := c05JSONKey(st.Tag(i)); has {
			return true
		}
	}
	return false
}
