package rules

import (
	"strings"

	"osmcheck/core"
)

// c04X1: with every field set, the name of everything written equals the name it is read back under.
func c04X1(r *core.R) {
	c03Init(r)
	tbl, terr := c03LoadTable()
	if terr != nil {
		r.Anchor("tables/osmxml.json: " + terr.Error())
		return
	}
	roots := c04Roots(r.P)
	if len(roots) == 0 {
		r.Anchor("MarshalXML methods of package osm")
		return
	}
	r.Stat("xml_marshal_roots", len(roots))
	var v c04Verdicts
	for _, root := range roots {
		trs, ab := c04Run(r.P, root, c04AllSet, "all set")
		if !c04Explored(&v, root, trs, ab) {
			continue
		}
		for _, tr := range trs {
			if tr.path.End != "return" {
				v.unknown("explore@"+root.name, tr.path.Pos, "with every field set a path of %s ends with %s %s", root.name, tr.path.End, tr.path.Why)
				continue
			}
			for _, e := range tr.other {
				v.unknown("token@"+root.name, e.Node.Pos(), "`%s`: Encoder call / token kind written by hand that the rule does not enumerate", src(r.P.Fset, e.Call))
			}
			c04X1Root(r, &v, tbl, root, tr)
			c04X1Handed(r, &v, root, tr)
			written := map[string]*c04Emit{}
			for i := range tr.emits {
				em := tr.emits[i]
				c04X1Emit(r, &v, root, tr, em)
				// a field is written once per path: a second Encode of the same field duplicates its elements on reading
				if em.path != nil {
					key := c04PathString(root.tname, em.path)
					if first := written[key]; first != nil {
						_, owner, _, _ := c04View(root.T, em.path)
						v.bad("emit "+c03TypeName(owner)+"."+em.path[len(em.path)-1].Name(), em.ev.Node.Pos(), "%s is written twice on one path (`%s` and `%s`): reading the document back yields it twice, or once under a name no decoder reads", key, src(r.P.Fset, first.ev.Call), src(r.P.Fset, em.ev.Call))
					} else {
						written[key] = &tr.emits[i]
					}
				}
			}
		}
	}
	c04X1Standalone(r, &v, tbl)
	v.emit(r)
}

func c04X1Root(r *core.R, v *c04Verdicts, tbl *c03Table, root *c04Root, tr *c04Trace) {
	rts := tr.rootTokens()
	if len(rts) > 1 {
		v.unknown("root@"+root.name, rts[1].ev.Node.Pos(), "%s writes more than one top-level element", root.name)
	}
	for _, t := range tr.tokens {
		if t.start && t.depth > 0 && t.name.kind != "const" {
			v.unknown("token@"+root.name, t.ev.Node.Pos(), "cannot resolve the element name of the nested start token `%s`", src(r.P.Fset, t.ev.Call))
		}
	}
	if len(rts) == 0 {
		if tr.unbalanced != "" {
			v.bad("root@"+root.name, root.fi.Decl.Pos(), "%s: %s", root.name, tr.unbalanced)
		}
		return
	}
	t := rts[0]
	pos := t.ev.Node.Pos()
	switch t.name.kind {
	case "const":
		c := "root@" + root.name
		tt := tbl.Type(root.tname)
		nested := c04FieldsOfType(r.P, root.T)
		var badNested []string
		for _, nf := range nested {
			if !strings.HasSuffix(nf, "="+t.name.s) {
				badNested = append(badNested, nf)
			}
		}
		switch {
		case tr.unbalanced != "":
			v.bad(c, pos, "%s: %s: Marshal fails or emits unbalanced XML", root.name, tr.unbalanced)
		case tt == nil:
			v.unknown(c, pos, "%s forces the element name %q but the type is not in tables/osmxml.json", root.name, t.name.s)
		case tt.Element != t.name.s:
			v.bad(c, pos, "%s forces the element name <%s>; the documented element for %s is <%s> (%s)", root.name, t.name.s, root.tname, tt.Element, tt.Doc)
		case root.ti != nil && root.ti.XMLName != nil && root.ti.XMLName.Name != "" && root.ti.XMLName.Name != t.name.s:
			v.bad(c, pos, "%s forces <%s> but %s.XMLName expects <%s> on unmarshalling", root.name, t.name.s, root.tname, root.ti.XMLName.Name)
		case len(badNested) > 0:
			v.bad(c, pos, "%s forces <%s> wherever the value is marshalled, but tag-decoded field(s) %s read it under another name", root.name, t.name.s, strings.Join(badNested, ", "))
		default:
			v.ok(c, pos, "forces <%s> = documented element of %s; closed by an end token of the same name; no tag-marshalled struct holds a %s under another name (%d holder(s))", t.name.s, root.tname, root.tname, len(nested))
		}
	case "pass":
		c := "start@" + root.name
		if tr.unbalanced != "" {
			v.bad(c, pos, "%s: %s", root.name, tr.unbalanced)
		} else {
			v.ok(c, pos, "writes the start element it was handed, unrenamed (the field marshaller supplies the tag the field is read back under), and closes it with an end token of the same name")
		}
	default:
		v.unknown("token@"+root.name, pos, "cannot resolve the element name of the start token `%s` (%s)", src(r.P.Fset, t.ev.Call), t.name.v)
	}
}

func c04X1Emit(r *core.R, v *c04Verdicts, root *c04Root, tr *c04Trace, em c04Emit) {
	pos := em.ev.Node.Pos()
	call := src(r.P.Fset, em.ev.Call)
	tmpl := ""
	if self, st, why := c04SelfDelegation(root, em); self {
		c := "emit@" + root.name + " " + src(r.P.Fset, em.ev.Call.Args[0])
		switch {
		case strings.Contains(why, c04Broken):
			v.bad(c, pos, "`%s` encodes the marshalled value as a whole: %s", call, strings.Replace(why, c04Broken, "", 1))
		case why != "":
			v.unknown(c, pos, "`%s` encodes the marshalled value as a whole: %s", call, why)
		case em.method != "EncodeElement" || em.tmpl == nil:
			v.unknown(c, pos, "`%s` encodes the marshalled value as a %s without the start element %s was handed: the element name is the type name of the conversion", call, c03Short(st), root.name)
		case em.tmpl.kind == "unknown":
			v.unknown(c, pos, "cannot resolve the element name of the start element in `%s`", call)
		default:
			v.ok(c, pos, "`%s` delegates to the tag-driven encoding of %s (no methods; the fields and tags of %s) under %s; which name that is for every caller is judged by root@%s and standalone@%s", call, c03Short(st), root.tname, em.tmpl.String(), root.name, root.tname)
		}
		return
	}
	if em.tmpl != nil {
		switch em.tmpl.kind {
		case "const":
			tmpl = em.tmpl.s
		case "pass":
			v.ok("emit@"+root.name+" <handed start element>", pos, "`%s`: encoded under the start element handed to %s, unrenamed: the caller (encoding/xml's field marshaller) supplies the name of the very field that is read back", call, root.name)
			return
		default:
			v.unknown("emit@"+root.name+" "+src(r.P.Fset, em.ev.Call.Args[0]), pos, "cannot resolve the element name of the start element in `%s`", call)
			return
		}
	}
	if em.path == nil {
		v.unknown("emit@"+root.name+" "+src(r.P.Fset, em.ev.Call.Args[0]), pos, "`%s`: the encoded value (%s) is not a field of the value being marshalled", call, em.val)
		return
	}
	xf, owner, wantWrap, prefix := c04View(root.T, em.path)
	c := "emit " + c03TypeName(owner) + "." + em.path[len(em.path)-1].Name()
	switch {
	case xf == nil:
		v.bad(c, pos, "`%s` writes %s, which has no xml element tag in %s: nothing reads it back", call, c04PathString(root.tname, em.path), c03Short(owner))
		return
	case xf.Kind != c03Elem || len(xf.Parents) > 0:
		v.unknown(c, pos, "field %s is read back as `%s`: only plain element tags are enumerated", xf.Var.Name(), c03TagOf(xf))
		return
	}
	bad := false
	var whys []string
	for _, en := range c03EmittedNames(r.P, em.val.T, tmpl, "") {
		switch {
		case en.Err != "":
			v.unknown(c, pos, "%s", en.Err)
			bad = true
		case en.Name != xf.Name:
			v.bad(c, pos, "`%s` emits <%s> (%s) but %s.%s is read back from <%s> (tag `%s`): xml.Unmarshal of the written document leaves the field empty, and the streaming scanner, which matches element names exactly, skips the element",
				call, en.Name, en.Why, c03Short(owner), xf.Var.Name(), xf.Name, c03TagOf(xf))
			bad = true
		default:
			whys = append(whys, en.Why)
		}
	}
	if !bad {
		v.ok(c, pos, "emits <%s> (%s) = tag of %s.%s", xf.Name, strings.Join(whys, "; "), c03Short(owner), xf.Var.Name())
	}
	// the wrappers open around the emission are the tags of the fields on the way to it
	got := tr.wrappersOf(em)
	n := 0
	for i, f := range em.path[:len(em.path)-1] {
		if f.Embedded() {
			continue
		}
		bc := "block " + c04PathString(root.tname, em.path[:i+1])
		var pf *c03Field
		if n < len(prefix) {
			pf = prefix[n]
		}
		switch {
		case pf == nil || pf.Kind != c03Elem:
			v.bad(bc, pos, "`%s` writes part of %s, which has no xml element tag: nothing reads it back", call, c04PathString(root.tname, em.path[:i+1]))
		case n >= len(got):
			v.bad(bc, pos, "`%s` writes %s without a <%s> element around it: it is read back as a field of the enclosing element, or not at all", call, c04PathString(root.tname, em.path), wantWrap[n])
		case got[n].kind != "const":
			v.unknown(bc, pos, "the name of the element written around %s is not a constant", c04PathString(root.tname, em.path))
		case got[n].s != wantWrap[n]:
			v.bad(bc, pos, "%s is written inside <%s> but the field is read back from <%s> (tag `%s`): the block is lost on unmarshalling", c04PathString(root.tname, em.path[:i+1]), got[n].s, wantWrap[n], c03TagOf(pf))
		default:
			v.ok(bc, pos, "block <%s> = tag of %s", got[n].s, c04PathString(root.tname, em.path[:i+1]))
		}
		n++
	}
	if n < len(got) {
		v.bad(c, pos, "`%s` writes %s inside an extra element <%s> that no tag reads it back from", call, c04PathString(root.tname, em.path), got[n].s)
	}
}
