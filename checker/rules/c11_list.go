package rules

// Concrete evaluation mode of the C11 path interpreter (Interp.concrete): used for finite-domain evaluation of
// a function over small concrete inputs (ROBUSTNESS.md class 2). Slices are "list" values with known
// elements: len, indexing by a constant, re-slicing by constants, append and ranging are computed; loops are
// unrolled (conditions are expected to be decided by the constants; an undecided one still forks). Anything
// the mode cannot compute stays a symbolic term, and a result that is not a list of the expected shape makes
// the caller answer Unknown.

import (
	"go/ast"
	"go/constant"
	"go/types"
)

func c11List(elems []*c11V) *c11V { return &c11V{k: "list", xs: elems} }

func c11ConstIdx(v *c11V) (int, bool) {
	if v == nil || v.k != "const" {
		return 0, false
	}
	i := constant.ToInt(v.cv)
	if i.Kind() != constant.Int {
		return 0, false
	}
	n, ok := constant.Int64Val(i)
	return int(n), ok
}

// listIndex computes list[i].
func (it *c11Interp) listIndex(st *c11St, l, i *c11V) (*c11V, bool) {
	if !it.concrete || l.k != "list" {
		return nil, false
	}
	n, ok := c11ConstIdx(i)
	if !ok {
		return nil, false
	}
	if n < 0 || n >= len(l.xs) {
		st.note("index out of range in concrete evaluation")
		return it.unk(st, "index out of range"), true
	}
	return l.xs[n], true
}

// listSlice computes list[lo:hi] (absent bounds are the symbol "-").
func (it *c11Interp) listSlice(st *c11St, l, lo, hi *c11V) (*c11V, bool) {
	if !it.concrete || (l.k != "list" && l.k != "nil") {
		return nil, false
	}
	a, b := 0, len(l.xs)
	if !(lo.k == "sym" && lo.name == "-") {
		n, ok := c11ConstIdx(lo)
		if !ok {
			return nil, false
		}
		a = n
	}
	if !(hi.k == "sym" && hi.name == "-") {
		n, ok := c11ConstIdx(hi)
		if !ok {
			return nil, false
		}
		b = n
	}
	if a < 0 || b > len(l.xs) || a > b {
		st.note("slice bounds out of range in concrete evaluation")
		return it.unk(st, "slice bounds"), true
	}
	return c11List(append([]*c11V(nil), l.xs[a:b]...)), true
}

// listBuiltin computes len / cap / append / make on lists.
func (it *c11Interp) listBuiltin(fr *c11Frame, st *c11St, name string, call *ast.CallExpr, vs []*c11V) (*c11V, bool) {
	if !it.concrete {
		return nil, false
	}
	isL := func(v *c11V) bool { return v.k == "list" || v.k == "nil" }
	switch name {
	case "len", "cap":
		if len(vs) == 1 && vs[0].k == "list" {
			return c11Int(int64(len(vs[0].xs))), true
		}
		if len(vs) == 1 && vs[0].k == "nil" {
			return c11Int(0), true
		}
	case "append":
		if len(vs) >= 1 && isL(vs[0]) {
			out := append([]*c11V(nil), vs[0].xs...)
			if call.Ellipsis.IsValid() {
				if len(vs) != 2 || !isL(vs[1]) {
					return nil, false
				}
				out = append(out, vs[1].xs...)
			} else {
				out = append(out, vs[1:]...)
			}
			return c11List(out), true
		}
	case "make":
		if _, ok := fr.info.TypeOf(call).Underlying().(*types.Slice); ok && len(vs) >= 1 && vs[0].isConstInt(0) {
			return c11List(nil), true
		}
	}
	return nil, false
}

// execForConcrete unrolls a for loop.
func (it *c11Interp) execForConcrete(fr *c11Frame, cur []*c11St, x *ast.ForStmt) []c11Out {
	var out []c11Out
	for iter := 0; len(cur) > 0; iter++ {
		if iter > 64 {
			for _, c := range cur {
				c.note("loop bound exceeded in concrete evaluation")
				out = append(out, c11Out{st: c, ctl: c11Normal})
			}
			break
		}
		var next []*c11St
		for _, c := range cur {
			T, F := []*c11St{c}, []*c11St(nil)
			if x.Cond != nil {
				T, F = it.branch(fr, c, x.Cond)
			}
			out = append(out, c11Norm(F)...)
			for _, t := range T {
				for _, o := range it.exec(fr, t, x.Body) {
					switch {
					case o.ctl == c11Normal || (o.ctl == c11Continue && o.lbl == ""):
						if x.Post == nil {
							next = append(next, o.st)
							continue
						}
						for _, p := range it.exec(fr, o.st, x.Post) {
							next = append(next, p.st)
						}
					case o.ctl == c11Break && o.lbl == "":
						out = append(out, c11Out{st: o.st, ctl: c11Normal})
					default:
						out = append(out, o)
					}
				}
			}
		}
		cur = next
	}
	return out
}

// execRangeConcrete iterates over a list (or an integer constant).
func (it *c11Interp) execRangeConcrete(fr *c11Frame, st *c11St, x *ast.RangeStmt, xv *c11V) ([]c11Out, bool) {
	var elems []*c11V
	switch {
	case xv.k == "list":
		elems = xv.xs
	case xv.k == "nil":
	default:
		n, ok := c11ConstIdx(xv)
		if !ok {
			return nil, false
		}
		for i := 0; i < n; i++ {
			elems = append(elems, c11Int(int64(i)))
		}
	}
	var out []c11Out
	cur := []*c11St{st}
	for i, e := range elems {
		var next []*c11St
		for _, c := range cur {
			if x.Key != nil {
				it.assign(fr, c, x.Key, c11Int(int64(i)))
			}
			if x.Value != nil {
				it.assign(fr, c, x.Value, e)
			}
			for _, o := range it.exec(fr, c, x.Body) {
				switch {
				case o.ctl == c11Normal || (o.ctl == c11Continue && o.lbl == ""):
					next = append(next, o.st)
				case o.ctl == c11Break && o.lbl == "":
					out = append(out, c11Out{st: o.st, ctl: c11Normal})
				default:
					out = append(out, o)
				}
			}
		}
		cur = next
	}
	out = append(out, c11Norm(cur)...)
	return out, true
}
