package rules

import (
	"fmt"
	"go/ast"
	"go/token"
	"go/types"
	"math/big"
	"strings"
)

// Second half of the C01.R4 unit check (see c01_scale.go): the model of package time, the recombination of quotient
// and remainder, the verdict, and result-struct fields.

// evalTime models the functions and methods of package time that convert between integers, durations and times.
func (s *c01Scale) evalTime(ctx *c01Ctx, x *ast.CallExpr, fn *types.Func, sel *ast.SelectorExpr, depth int) c01Poly {
	k := func(v int64) c01Poly { return c01Const(big.NewRat(v, 1)) }
	recv := func() c01Poly {
		if sel == nil {
			return nil
		}
		return s.eval(ctx, sel.X, 0, depth+1)
	}
	arg := func(i int) c01Poly {
		if i >= len(x.Args) {
			return nil
		}
		return s.eval(ctx, x.Args[i], 0, depth+1)
	}
	mul := func(p c01Poly, v int64) c01Poly {
		if p == nil {
			return nil
		}
		return c01PolyMul(p, k(v))
	}
	quot := func(p c01Poly, d int64) c01Poly {
		if p == nil {
			return nil
		}
		a := s.atom("quot(" + p.canon() + "," + fmt.Sprint(d) + ")")
		for id := range a {
			s.quot[id] = c01QR{p: p, d: big.NewRat(d, 1)}
		}
		return a
	}
	isMethod := fn.Type().(*types.Signature).Recv() != nil
	switch {
	case !isMethod && fn.Name() == "Unix" && len(x.Args) == 2:
		a, b := arg(0), arg(1)
		if a == nil || b == nil {
			return nil
		}
		return c01PolyAdd(mul(a, 1e9), b, 1)
	case !isMethod && fn.Name() == "UnixMilli":
		return mul(arg(0), 1e6)
	case !isMethod && fn.Name() == "UnixMicro":
		return mul(arg(0), 1e3)
	case isMethod && (fn.Name() == "UTC" || fn.Name() == "Local" || fn.Name() == "In" || fn.Name() == "Nanoseconds" || fn.Name() == "UnixNano"):
		return recv()
	case isMethod && fn.Name() == "Add" && len(x.Args) == 1:
		a, b := recv(), arg(0)
		if a == nil || b == nil {
			return nil
		}
		return c01PolyAdd(a, b, 1)
	case isMethod && fn.Name() == "Microseconds":
		return quot(recv(), 1e3)
	case isMethod && fn.Name() == "Milliseconds":
		return quot(recv(), 1e6)
	}
	return s.atom(fmt.Sprintf("expr@%d/%p", x.Pos(), ctx.call))
}

// recombine rewrites a*quot(P,d) + b*rem(P,d) with a = b*d into b*P.
func (s *c01Scale) recombine(p c01Poly) c01Poly {
	for changed := true; changed; {
		changed = false
		for kq, cq := range p {
			q, isQ := s.quot[kq]
			if !isQ || q.rem {
				continue
			}
			for kr, cr := range p {
				rq, isR := s.quot[kr]
				if !isR || !rq.rem || rq.d.Cmp(q.d) != 0 || rq.p.canon() != q.p.canon() {
					continue
				}
				if new(big.Rat).Mul(cr, q.d).Cmp(cq) != 0 {
					continue
				}
				np := c01Poly{}
				for k, v := range p {
					if k != kq && k != kr {
						np[k] = v
					}
				}
				p = c01PolyAdd(np, c01PolyMul(q.p, c01Const(cr)), 1)
				changed = true
				break
			}
			if changed {
				break
			}
		}
	}
	return p
}

// c01UnitVerdict evaluates rhs and compares the constant factor of every term with want (relative tolerance 1e-12).
// decided=false: the expression is not understood, the caller falls back to the atom check.
func (s *c01Scale) verdict(ctx *c01Ctx, rhs ast.Expr, resIdx int, want *big.Rat) (decided bool, why string) {
	p := s.eval(ctx, rhs, resIdx, 0)
	if p == nil || len(p) == 0 {
		return false, ""
	}
	p = s.recombine(p)
	for mono, coef := range p {
		if mono == "" {
			return true, "a constant " + coef.FloatString(9) + " is added to the value"
		}
		for _, id := range strings.Split(mono, "*") {
			if q, ok := s.quot[id]; ok {
				kind := "quotient"
				if q.rem {
					kind = "remainder"
				}
				return true, fmt.Sprintf("the integer %s by %s of the stored quantity is not recombined with its counterpart on the same scale (factor %s): part of the value is dropped or scaled differently", kind, q.d.RatString(), coef.FloatString(9))
			}
		}
		ratio := new(big.Rat).Quo(coef, want)
		diff := new(big.Rat).Sub(ratio, big.NewRat(1, 1))
		if diff.Abs(diff).Cmp(big.NewRat(1, 1000000000000)) > 0 {
			f, _ := coef.Float64()
			w, _ := want.Float64()
			return true, fmt.Sprintf("the stored quantity is multiplied by %g, the format needs %g", f, w)
		}
	}
	return true, ""
}

// fieldValue: a field of a struct of the package that carries a computed value from a helper to its callers (a result
// struct) has the value stored into it, when every store in the worker role stores the same polynomial; nil otherwise.
func (s *c01Scale) fieldValue(f *types.Var, depth int) c01Poly {
	if f.Pkg() != s.t.cm.m.pk.Types || namedPath(f.Type()) == protoscanIter || depth > 10 {
		return nil
	}
	if s.busy == nil {
		s.busy = map[*types.Var]bool{}
	}
	if s.busy[f] {
		return nil
	}
	s.busy[f] = true
	defer delete(s.busy, f)
	info := s.info
	var got c01Poly
	ok, n := true, 0
	note := func(g *FuncInfo, e ast.Expr, idx int) {
		if !ok {
			return
		}
		n++
		p := s.eval(&c01Ctx{fi: g}, e, idx, depth+1)
		switch {
		case p == nil:
			ok = false
		case got == nil:
			got = p
		case got.canon() != p.canon():
			ok = false
		}
	}
	for _, g := range s.t.cm.worker {
		g := g
		ast.Inspect(g.Decl.Body, func(y ast.Node) bool {
			switch st := y.(type) {
			case *ast.AssignStmt:
				for i, l := range st.Lhs {
					if fieldOf(info, l) != f {
						continue
					}
					switch {
					case st.Tok != token.ASSIGN && st.Tok != token.DEFINE:
						ok = false
					case len(st.Rhs) == len(st.Lhs):
						note(g, st.Rhs[i], 0)
					case len(st.Rhs) == 1:
						note(g, st.Rhs[0], i)
					}
				}
			case *ast.KeyValueExpr:
				if id, isId := st.Key.(*ast.Ident); isId && info.Uses[id] == f {
					note(g, st.Value, 0)
				}
			case *ast.UnaryExpr:
				if st.Op == token.AND && fieldOf(info, st.X) == f {
					ok = false
				}
			}
			return true
		})
	}
	if ok && n > 0 {
		return got
	}
	return nil
}
