package rules

import (
	"go/ast"
	"go/token"
	"go/types"

	"osmcheck/core"
)

// ---------------------------------------------------------------- collectors (pending list / filter result)

// collector: eff (the effects of the loop body under the given orders) is a single statement `P = append(P, elem)`
// with P a plain variable, and every path of the body executes it under each of the orders.
func (w *c15World) collector(site c15LoopSite, eff []ast.Node, ords []c15Ord) (types.Object, ast.Node, string) {
	P := w.r.P
	if len(eff) == 0 {
		return nil, nil, "nothing is done with the update"
	}
	if len(eff) != 1 {
		return nil, nil, "more than one effect (`" + src(P.Fset, eff[0]) + "`, `" + src(P.Fset, eff[1]) + "`)"
	}
	as, ok := eff[0].(*ast.AssignStmt)
	if !ok || len(as.Lhs) != 1 || len(as.Rhs) != 1 || as.Tok != token.ASSIGN {
		return nil, nil, "`" + src(P.Fset, eff[0]) + "` is not `X = append(X, u)`"
	}
	call, ok := ast.Unparen(as.Rhs[0]).(*ast.CallExpr)
	if !ok || builtinName(w.info, call) != "append" || len(call.Args) != 2 || call.Ellipsis.IsValid() {
		return nil, nil, "`" + src(P.Fset, as) + "` is not `X = append(X, u)`"
	}
	lp := w.pathOf(site.env, as.Lhs[0], true)
	ap := w.pathOf(site.env, call.Args[0], true)
	if lp == nil || len(lp.steps) != 0 || !lp.eq(ap) {
		return nil, nil, "`" + src(P.Fset, as) + "` does not append to the list it assigns"
	}
	if !w.isElem(site.env, site.loop, w.pathOf(site.env, call.Args[1], false)) {
		return nil, nil, "`" + src(P.Fset, as) + "` does not append the loop's own element"
	}
	if lp.root.Parent() == nil || !c15Within(site.loop.fn.fi.Decl, c15PosNode(lp.root.Pos())) {
		return nil, nil, "`" + src(P.Fset, as) + "` appends to a variable that is not local to " + site.loop.fn.name()
	}
	for _, ord := range ords {
		o := &c15Oracle{w: w, loop: site.loop, lenv: site.env, ord: ord}
		wk := w.walk(site.loop.entry, 0, c15WalkOpt{env: site.env, loop: site.loop, oracle: o, barrier: func(n ast.Node) bool { return n == ast.Node(as) }})
		if wk.head {
			return nil, nil, "an update stamped " + ord.String() + " can reach the end of the loop body without `" + src(P.Fset, as) + "`"
		}
	}
	return lp.root, as, ""
}

type c15PosNode token.Pos

func (p c15PosNode) Pos() token.Pos { return token.Pos(p) }
func (p c15PosNode) End() token.Pos { return token.Pos(p) }

// otherAssigns: besides node, P is only ever given an empty value (declaration without value, nil, make(T, 0, …),
// an empty composite literal) and its address is never taken. Returns "" or the offending source.
func (w *c15World) otherAssigns(f *c15Fn, P types.Object, node ast.Node) string {
	bad := ""
	empty := func(e ast.Expr) bool {
		e = ast.Unparen(e)
		if isNilIdent(e) {
			return true
		}
		switch x := e.(type) {
		case *ast.CompositeLit:
			return len(x.Elts) == 0
		case *ast.CallExpr:
			if tv, ok := w.info.Types[x.Fun]; ok && tv.IsType() && len(x.Args) == 1 {
				return isNilIdent(ast.Unparen(x.Args[0]))
			}
			if builtinName(w.info, x) == "make" && len(x.Args) >= 2 {
				k, ok := constInt(w.info, x.Args[1])
				return ok && k == 0
			}
		}
		return false
	}
	ast.Inspect(f.fi.Decl.Body, func(n ast.Node) bool {
		if bad != "" {
			return false
		}
		switch x := n.(type) {
		case *ast.AssignStmt:
			if ast.Node(x) == node {
				return true
			}
			for i, l := range x.Lhs {
				if objOf(w.info, l) != P {
					continue
				}
				if len(x.Lhs) != len(x.Rhs) || !empty(x.Rhs[i]) {
					bad = src(w.r.P.Fset, x)
				}
			}
		case *ast.ValueSpec:
			for i, nm := range x.Names {
				if w.info.Defs[nm] != P {
					continue
				}
				if len(x.Values) == 0 {
					continue
				}
				if len(x.Values) != len(x.Names) || !empty(x.Values[i]) {
					bad = src(w.r.P.Fset, x)
				}
			}
		case *ast.UnaryExpr:
			if x.Op == token.AND && objOf(w.info, x.X) == P {
				bad = src(w.r.P.Fset, x)
			}
		case *ast.IncDecStmt:
			if objOf(w.info, x.X) == P {
				bad = src(w.r.P.Fset, x)
			}
		case *ast.RangeStmt:
			if (x.Key != nil && objOf(w.info, x.Key) == P) || (x.Value != nil && objOf(w.info, x.Value) == P) {
				bad = src(w.r.P.Fset, x)
			}
		}
		return true
	})
	return bad
}

// storedBack: after the loop (position `after` dominates) the list held by local Q of env.fn is written to the
// place the scanned updates were read from (path target, rooted in the API function), and every success return of
// env.fn comes after that store. If env.fn is a helper, Q may instead be returned to the caller, which must store it.
func (w *c15World) storedBack(env *c15Env, Q types.Object, target *c15Path, after func(pos token.Pos) bool, errGuard types.Object, from token.Pos, depth int) (string, string) {
	f := env.fn
	P := w.r.P
	var store *ast.AssignStmt
	inspectNoLit(f.fi.Decl.Body, func(n ast.Node) bool {
		as, ok := n.(*ast.AssignStmt)
		if !ok || as.Tok != token.ASSIGN || len(as.Lhs) != len(as.Rhs) {
			return true
		}
		for i, l := range as.Lhs {
			lp := w.pathOf(env, l, true)
			rp := w.pathOf(env, as.Rhs[i], true)
			if lp != nil && lp.eq(target) && rp != nil && rp.root == Q && len(rp.steps) == 0 && after(as.Pos()) {
				store = as
			}
		}
		return true
	})
	if store != nil && errGuard != nil {
		// the list came with an error (`q, err := helper(…)`): evaluated for err == nil every path from the call to
		// a return passes the store; evaluated for err != nil no path executes it
		_, b, i := f.nodeAt(from)
		if b == nil {
			return "", "the call that returns the list is not in the control-flow graph"
		}
		isStore := func(n ast.Node) bool { return n == ast.Node(store) }
		wk := w.walk(b, i+1, c15WalkOpt{env: env, oracle: &c15Oracle{w: w, errObj: errGuard, errVal: -1}, barrier: isStore})
		for _, ret := range wk.returns {
			if w.retKind(f, ret) != c15RetFailure || usesObj(w.info, ret, errGuard) {
				return "", "with a nil " + errGuard.Name() + " the return at " + P.Rel(ret.Pos()) + " is reached without `" + src(P.Fset, store) + "`"
			}
		}
		if wk.implicit {
			return "", "with a nil " + errGuard.Name() + " the end of " + f.name() + " is reached without `" + src(P.Fset, store) + "`"
		}
		wk = w.walk(b, i+1, c15WalkOpt{env: env, oracle: &c15Oracle{w: w, errObj: errGuard, errVal: +1}})
		if wk.visited[store] {
			return "", "`" + src(P.Fset, store) + "` (" + P.Rel(store.Pos()) + ") is executed also when " + errGuard.Name() + " is non-nil: the list that comes with an error replaces the pending updates"
		}
		return "`" + src(P.Fset, store) + "` (" + P.Rel(store.Pos()) + ") is on every path with a nil " + errGuard.Name() + " and on none with a non-nil one", ""
	}
	if store != nil {
		// every success return of f is dominated by the store
		miss := ""
		inspectNoLit(f.fi.Decl.Body, func(n ast.Node) bool {
			ret, ok := n.(*ast.ReturnStmt)
			if !ok || w.retKind(f, ret) == c15RetFailure {
				return true
			}
			if !posDominates(f.g, f.dom, store.Pos(), ret.Pos()) && !w.vacuousAt(env, ret.Pos(), []*c15Path{target}) {
				miss = P.Rel(ret.Pos())
			}
			return true
		})
		if miss != "" {
			return "", "the success return at " + miss + " is not preceded by `" + src(P.Fset, store) + "`"
		}
		// the store must not happen on a path that reports an error: a failed call leaves the pending list as it was
		if _, b, i := f.nodeAt(store.Pos()); b != nil {
			wk := w.walk(b, i+1, c15WalkOpt{env: env})
			for _, ret := range wk.returns {
				if w.retKind(f, ret) == c15RetFailure {
					return "", "`" + src(P.Fset, store) + "` (" + P.Rel(store.Pos()) + ") can be followed by the error return `" + src(P.Fset, ret) + "` (" + P.Rel(ret.Pos()) + "): the pending updates are replaced although the call fails"
				}
			}
		}
		return "`" + src(P.Fset, store) + "` (" + P.Rel(store.Pos()) + ") precedes every success return of " + f.name() + " and no error return follows it", ""
	}
	// returned to the caller?
	if env.parent == nil || depth > 2 {
		return "", "the list is never stored back into " + target.String() + " after the loop"
	}
	k := -1
	bad := ""
	inspectNoLit(f.fi.Decl.Body, func(n ast.Node) bool {
		ret, ok := n.(*ast.ReturnStmt)
		if !ok || w.retKind(f, ret) == c15RetFailure {
			return true
		}
		if len(ret.Results) == 0 {
			// named results
			sig := f.fi.Obj.Type().(*types.Signature)
			for i := 0; i < sig.Results().Len(); i++ {
				if sig.Results().At(i) == Q {
					if k >= 0 && k != i {
						bad = "inconsistent result position"
					}
					k = i
					return true
				}
			}
			bad = "`" + src(P.Fset, ret) + "` does not return the list"
			return true
		}
		found := false
		for i, e := range ret.Results {
			if p := w.pathOf(env, e, true); p != nil && p.root == Q && len(p.steps) == 0 {
				if k >= 0 && k != i {
					bad = "inconsistent result position"
				}
				k, found = i, true
			}
		}
		if !found {
			bad = "`" + src(P.Fset, ret) + "` (" + P.Rel(ret.Pos()) + ") does not return the list"
		} else if !after(ret.Pos()) {
			bad = "`" + src(P.Fset, ret) + "` (" + P.Rel(ret.Pos()) + ") returns before the loop has completed"
		}
		return true
	})
	if bad != "" || k < 0 {
		if bad == "" {
			bad = "the list is neither stored nor returned"
		}
		return "", bad
	}
	// the call in the parent: `…, q, … := call` or `…, recv.Updates, … = call`
	pf := env.parent.fn
	as, ok := pf.par[env.call].(*ast.AssignStmt)
	if !ok || len(as.Rhs) != 1 || ast.Unparen(as.Rhs[0]) != ast.Expr(env.call) || k >= len(as.Lhs) {
		return "", "the result of " + f.name() + " that carries the list is not assigned by the caller " + pf.name()
	}
	// the error that comes with the list
	var callErr types.Object
	if last := as.Lhs[len(as.Lhs)-1]; len(as.Lhs) > 1 {
		if o := objOf(w.info, last); o != nil && types.Identical(o.Type(), types.Universe.Lookup("error").Type()) {
			callErr = o
		}
	}
	lp := w.pathOf(env.parent, as.Lhs[k], true)
	if lp != nil && lp.eq(target) {
		if callErr != nil || c15ReturnsError(f) {
			return "", "`" + src(P.Fset, as) + "` (" + P.Rel(as.Pos()) + ") stores the list before the error of " + f.name() + " is tested: the list that comes with a non-nil error replaces the pending updates"
		}
		miss := ""
		inspectNoLit(pf.fi.Decl.Body, func(n ast.Node) bool {
			ret, ok := n.(*ast.ReturnStmt)
			if !ok || w.retKind(pf, ret) == c15RetFailure {
				return true
			}
			if !posDominates(pf.g, pf.dom, as.Pos(), ret.Pos()) && !w.vacuousAt(env.parent, ret.Pos(), []*c15Path{target}) {
				miss = P.Rel(ret.Pos())
			}
			return true
		})
		if miss != "" {
			return "", "the success return at " + miss + " is not preceded by `" + src(P.Fset, as) + "`"
		}
		return "returned by " + f.name() + " and assigned by `" + src(P.Fset, as) + "` (" + P.Rel(as.Pos()) + ")", ""
	}
	q := objOf(w.info, as.Lhs[k])
	if q == nil {
		return "", "the result of " + f.name() + " that carries the list is dropped by `" + src(P.Fset, as) + "`"
	}
	if n := len(pf.defs[q]); n != 1 {
		return "", "the caller's variable " + q.Name() + " holding the list is assigned more than once"
	}
	callPos := as.Pos()
	if callErr == nil && c15ReturnsError(f) {
		return "", "the error of " + f.name() + " is dropped by `" + src(P.Fset, as) + "`"
	}
	proof, why := w.storedBack(env.parent, q, target, func(pos token.Pos) bool { return pos > callPos && posDominates(pf.g, pf.dom, callPos, pos) }, callErr, callPos, depth+1)
	if why != "" {
		return "", why
	}
	return "returned by " + f.name() + "; " + proof, ""
}

// ---------------------------------------------------------------- applying an in-time update

// c15Apply describes how the in-time edge of a loop applies the element.
type c15Apply struct {
	call   *ast.CallExpr // call of a function of package osm that receives the element (nil: inline)
	callee *c15Fn
	node   ast.Node // CFG node containing the call
}

// applierCalls lists the calls, among the given effect nodes, of functions of package osm that receive the loop's
// element (as an argument or as the receiver).
func (w *c15World) applierCalls(site c15LoopSite, eff []ast.Node) []c15Apply {
	var out []c15Apply
	for _, n := range eff {
		n := n
		inspectNoLit(n, func(x ast.Node) bool {
			call, ok := x.(*ast.CallExpr)
			if !ok {
				return true
			}
			f, ce := w.calleeOf(site.env, call)
			if f == nil {
				return true
			}
			for _, arg := range ce.bind {
				if w.isElem(site.env, site.loop, w.pathOf(arg.env, arg.expr, false)) {
					out = append(out, c15Apply{call: call, callee: f, node: n})
					break
				}
			}
			return true
		})
	}
	return out
}

func c15ReturnsError(f *c15Fn) bool {
	sig := f.fi.Obj.Type().(*types.Signature)
	n := sig.Results().Len()
	return n > 0 && types.Identical(sig.Results().At(n-1).Type(), types.Universe.Lookup("error").Type())
}

// errPropagated: the error result of the call in CFG node `node` is held in a variable, and from that node on,
// whenever the variable is non-nil, every path ends in a return whose error result mentions it (no path goes on
// with the scan or falls out of the loop).
func (w *c15World) errPropagated(site c15LoopSite, ap c15Apply) (string, string) {
	P := w.r.P
	f := site.loop.fn
	as, ok := ap.node.(*ast.AssignStmt)
	if !ok || len(as.Rhs) != 1 || ast.Unparen(as.Rhs[0]) != ast.Expr(ap.call) || len(as.Lhs) == 0 {
		return "", "the error returned by `" + src(P.Fset, ap.call) + "` is not kept in a variable"
	}
	errObj := objOf(w.info, as.Lhs[len(as.Lhs)-1])
	if errObj == nil || !types.Identical(errObj.Type(), types.Universe.Lookup("error").Type()) {
		return "", "the error returned by `" + src(P.Fset, ap.call) + "` is discarded"
	}
	_, b, i := f.nodeAt(as.Pos())
	if b == nil {
		return "", "call not located in the control-flow graph"
	}
	o := &c15Oracle{w: w, loop: site.loop, lenv: site.env, errObj: errObj, errVal: +1}
	reassigned := false
	wk := w.walk(b, i+1, c15WalkOpt{env: site.env, loop: site.loop, oracle: o})
	for _, n := range wk.nodes {
		if x, ok := n.(*ast.AssignStmt); ok {
			for _, l := range x.Lhs {
				if objOf(w.info, l) == errObj {
					reassigned = true
				}
			}
		}
	}
	switch {
	case reassigned:
		return "", "the error variable is overwritten before it is returned"
	case wk.head:
		return "", "with a non-nil error from `" + src(P.Fset, ap.call) + "` a path goes on with the next update"
	case wk.done || wk.escape != nil:
		return "", "with a non-nil error from `" + src(P.Fset, ap.call) + "` a path leaves the loop without returning the error"
	case wk.implicit || len(wk.returns) == 0:
		return "", "with a non-nil error from `" + src(P.Fset, ap.call) + "` no return is reached"
	}
	for _, ret := range wk.returns {
		if len(ret.Results) == 0 && f.isParam(errObj) && !f.isInput(errObj) {
			continue // bare return of the named error result
		}
		if len(ret.Results) == 0 || !usesObj(w.info, ret.Results[len(ret.Results)-1], errObj) {
			return "", "`" + src(P.Fset, ret) + "` (" + P.Rel(ret.Pos()) + ") is reached with a non-nil error from `" + src(P.Fset, ap.call) + "` but does not return it"
		}
	}
	return "a non-nil " + errObj.Name() + " always reaches `" + src(P.Fset, wk.returns[0]) + "`", ""
}

// ---------------------------------------------------------------- roles of the loops reached from an applying API

// c15Handling is one loop reached from an API together with the orders under which its body handles in-time
// updates: {before, equal} for a loop over the raw list that classifies by itself, {any} for a loop over the result
// of a verified in-time filter.
type c15Handling struct {
	site c15LoopSite
	ev   *c15LoopEval
	ords []c15Ord
	eff  []ast.Node // in-time effects
	aps  []c15Apply // calls that receive the element
	inl  int        // inline child writes
}

// handlings evaluates every loop reached from rt; undecided lists the loops U1 does not accept.
func (w *c15World) handlings(rt *c15Root) (all []*c15Handling, undecided []c15LoopSite) {
	for _, site := range rt.sites {
		if site.loop.entry == nil || site.loop.head == nil || site.loop.done == nil {
			undecided = append(undecided, site)
			continue
		}
		ev := w.evalLoop(site)
		h := &c15Handling{site: site, ev: ev}
		if ev.filtered != nil {
			h.ords = []c15Ord{c15OrdNone}
			wk := w.walk(site.loop.entry, 0, c15WalkOpt{env: site.env, loop: site.loop, oracle: &c15Oracle{w: w, loop: site.loop, lenv: site.env}})
			h.eff = w.effects(site.loop.body, wk)
		} else {
			if len(ev.unknown) > 0 || w.partitionDefect(ev) != "" {
				undecided = append(undecided, site)
				continue
			}
			h.ords = []c15Ord{c15OrdBefore, c15OrdEqual}
			h.eff = ev.eff[c15OrdBefore]
		}
		h.aps = w.applierCalls(site, h.eff)
		h.inl = w.inlineChildWrites(site, h.eff)
		all = append(all, h)
	}
	return all, undecided
}

// applying returns the handlings whose in-time effects hand the element to a function or write a child inline.
func c15Applying(all []*c15Handling) []*c15Handling {
	var out []*c15Handling
	for _, h := range all {
		if len(h.aps) > 0 || h.inl > 0 {
			out = append(out, h)
		}
	}
	return out
}

func (w *c15World) oracleFor(h *c15Handling, ord c15Ord) *c15Oracle {
	return &c15Oracle{w: w, loop: h.site.loop, lenv: h.site.env, ord: ord}
}

// ---------------------------------------------------------------- U2

func c15U2(r *core.R) {
	w := c15NewWorld(r)
	if w.pk == nil {
		r.Anchor("package osm")
		return
	}
	roots := w.roots()
	for _, name := range c15APIs {
		rt := w.rootByName(roots, name)
		if rt == nil || !c15ReturnsError(rt.f) {
			if rt == nil && (name == "(*Way).ApplyUpdatesUpTo" || name == "(*Relation).ApplyUpdatesUpTo") {
				r.Anchor(name)
			}
			continue
		}
		cp, ca := "pending@"+name, "apply@"+name
		all, undecided := w.handlings(rt)
		if len(undecided) > 0 {
			l := undecided[0].loop
			r.Bad(cp, l.pos(), "the loop over %s does not separate updates after t from the others (see U1): the pending list cannot be identified", src(r.P.Fset, l.x))
			r.Bad(ca, l.pos(), "the loop over %s does not separate updates after t from the others (see U1)", src(r.P.Fset, l.x))
			continue
		}
		// 1. pending list: the one loop over the raw list that does something with an update after t
		var pend []*c15Handling
		for _, h := range all {
			if h.ev.filtered == nil && len(h.ev.eff[c15OrdAfter]) > 0 {
				pend = append(pend, h)
			}
		}
		switch {
		case len(pend) == 0:
			r.Bad(cp, rt.f.fi.Decl.Pos(), "no loop reached from %s does anything with an update stamped after t: the later updates are not kept as the new pending list", name)
		case len(pend) > 1:
			r.Unknown(cp, pend[1].site.loop.pos(), "%d loops handle updates stamped after t; the pending list is decided for exactly one", len(pend))
		default:
			h := pend[0]
			site, l := h.site, h.site.loop
			Q, node, why := w.collector(site, h.ev.eff[c15OrdAfter], []c15Ord{c15OrdAfter})
			if Q == nil {
				r.Bad(cp, l.pos(), "for an update stamped after t the loop must do exactly `X = append(X, u)`: %s; later updates are lost or reordered", why)
			} else if other := w.otherAssigns(l.fn, Q, node); other != "" {
				r.Bad(cp, node.Pos(), "the pending list is also changed by `%s`; it must hold exactly the skipped updates in loop order", other)
			} else if target := w.pathOf(site.env, l.x, true); target == nil || len(target.steps) == 0 {
				r.Unknown(cp, l.pos(), "the scanned list `%s` is not a field of the element", src(r.P.Fset, l.x))
			} else {
				f := l.fn
				after := func(pos token.Pos) bool {
					b, _ := blockOf(f.g, pos)
					return b != nil && (b == l.done || f.dom[b][l.done])
				}
				proof, why := w.storedBack(site.env, Q, target, after, nil, token.NoPos, 0)
				if why != "" {
					r.Bad(cp, node.Pos(), "updates after t are collected by `%s` but %s", src(r.P.Fset, node), why)
				} else {
					r.OK(cp, node.Pos(), "an update after t does exactly `%s` on every path; that list has no other non-empty assignment; %s", src(r.P.Fset, node), proof)
				}
			}
		}
		// 2. in-time updates are applied, the error is propagated
		app := c15Applying(all)
		switch {
		case len(app) == 0:
			r.Bad(ca, rt.f.fi.Decl.Pos(), "no loop reached from %s hands an update stamped at or before t to a function of the package or applies it to a child inline", name)
			continue
		case len(app) > 1:
			r.Unknown(ca, app[1].site.loop.pos(), "%d loops apply updates; exactly one is decided", len(app))
			continue
		}
		h := app[0]
		site, l := h.site, h.site.loop
		if h.ev.filtered != nil {
			// the filtered list must be computed from the stored list before anything replaces it
			if what := w.storedListChangedBefore(site); what != "" {
				r.Unknown(ca, l.pos(), "the loop ranges over a filtered copy of the update list, but `%s` changes the list before it: cannot decide that all in-time updates are still seen", what)
				continue
			}
		}
		switch {
		case len(h.aps) == 1:
			ap := h.aps[0]
			miss := ""
			for _, ord := range h.ords {
				wk := w.walk(l.entry, 0, c15WalkOpt{env: site.env, loop: l, oracle: w.oracleFor(h, ord), barrier: func(n ast.Node) bool { return n == ap.node }})
				if wk.head || wk.done {
					miss = "an update stamped " + ord.String() + " can reach the end of the loop body without `" + src(r.P.Fset, ap.call) + "`"
				}
				for _, ret := range wk.returns {
					if w.retKind(l.fn, ret) != c15RetFailure {
						miss = "an update stamped " + ord.String() + " can reach `" + src(r.P.Fset, ret) + "` without `" + src(r.P.Fset, ap.call) + "`"
					}
				}
			}
			if miss != "" {
				r.Bad(ca, ap.call.Pos(), "%s: updates at or before t are not all applied", miss)
				break
			}
			if !c15ReturnsError(ap.callee) {
				r.OK(ca, ap.call.Pos(), "every update at or before t passes `%s` (no error result)", src(r.P.Fset, ap.call))
				break
			}
			proof, why := w.errPropagated(site, ap)
			if why != "" {
				r.Bad(ca, ap.call.Pos(), "%s", why)
			} else {
				r.OK(ca, ap.call.Pos(), "every update at or before t passes `%s`; %s", src(r.P.Fset, ap.call), proof)
			}
		case len(h.aps) > 1:
			r.Unknown(ca, h.aps[1].call.Pos(), "the in-time edge hands the update to %d functions", len(h.aps))
		default:
			r.OK(ca, l.pos(), "updates at or before t are applied inline by %d assignment(s) to the indexed child (fields, guard and completeness decided by U3/U4)", h.inl)
		}
	}
}

// storedListChangedBefore: for a loop over F(list, t), an assignment to `list` (or a prefix of it) that lies before
// the loop in the loop's function. Returns its source or "".
func (w *c15World) storedListChangedBefore(site c15LoopSite) string {
	call, _, to := w.sourceCall(site)
	if call == nil {
		return ""
	}
	from := site.loop.fn.fi.Decl.Body.Pos()
	var paths []*c15Path
	if sel, ok := ast.Unparen(call.Fun).(*ast.SelectorExpr); ok {
		if p := w.pathOf(site.env, sel.X, false); p != nil {
			paths = append(paths, p)
		}
	}
	for _, a := range call.Args {
		if isUpdatesType(w.info.TypeOf(a)) {
			if p := w.pathOf(site.env, a, false); p != nil {
				paths = append(paths, p)
			}
		}
	}
	return w.changedBetween(site.env, paths, from, to)
}

// inlineChildWrites counts effect nodes that assign to a field of `<container>[<elem>.Index]`.
func (w *c15World) inlineChildWrites(site c15LoopSite, eff []ast.Node) int {
	n := 0
	for _, e := range eff {
		as, ok := e.(*ast.AssignStmt)
		if !ok {
			continue
		}
		for _, l := range as.Lhs {
			p := w.pathOf(site.env, l, true)
			if p == nil || len(p.steps) < 2 || p.last().field == nil {
				continue
			}
			st := p.steps[len(p.steps)-2]
			if st.idx != nil && c15IsUpdateIndexPath(st.idx) && w.isElem(site.env, site.loop, st.idx.prefix(1)) {
				n++
			}
		}
	}
	return n
}
