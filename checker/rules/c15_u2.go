package rules

import (
	"go/ast"
	"go/token"
	"go/types"

	"osmcheck/core"
)

// ---------------------------------------------------------------- applying an in-time update

// c15Apply describes how the in-time edge of a loop applies the element.
type c15Apply struct {
	call   *ast.CallExpr // call of a function of package osm that receives the element (nil: inline)
	callee *c15Fn
	node   ast.Node // CFG node containing the call
}

// applierCalls lists the calls, among the given effect nodes, of functions of package osm that receive the loop's
// element (as an argument or as the receiver).
func (w *c15World) applierCalls(site c15LoopSite, eff []ast.Node) []c15Apply {
	var out []c15Apply
	for _, n := range eff {
		n := n
		inspectNoLit(n, func(x ast.Node) bool {
			call, ok := x.(*ast.CallExpr)
			if !ok {
				return true
			}
			f, ce := w.calleeOf(site.env, call)
			if f == nil {
				return true
			}
			for _, arg := range ce.bind {
				if w.isElem(site.env, site.loop, w.pathOf(arg.env, arg.expr, false)) {
					out = append(out, c15Apply{call: call, callee: f, node: n})
					break
				}
			}
			return true
		})
	}
	return out
}

func c15ReturnsError(f *c15Fn) bool {
	sig := f.fi.Obj.Type().(*types.Signature)
	n := sig.Results().Len()
	return n > 0 && types.Identical(sig.Results().At(n-1).Type(), types.Universe.Lookup("error").Type())
}

// errPropagated: the error result of the call in CFG node `node` is held in a variable, and from that node on,
// whenever the variable is non-nil, every path ends in a return whose error result mentions it (no path goes on
// with the scan or falls out of the loop).
func (w *c15World) errPropagated(site c15LoopSite, ap c15Apply) (string, string) {
	P := w.r.P
	f := site.loop.fn
	as, ok := ap.node.(*ast.AssignStmt)
	if !ok || len(as.Rhs) != 1 || ast.Unparen(as.Rhs[0]) != ast.Expr(ap.call) || len(as.Lhs) == 0 {
		return "", "the error returned by `" + src(P.Fset, ap.call) + "` is not kept in a variable"
	}
	errObj := objOf(w.info, as.Lhs[len(as.Lhs)-1])
	if errObj == nil || !types.Identical(errObj.Type(), types.Universe.Lookup("error").Type()) {
		return "", "the error returned by `" + src(P.Fset, ap.call) + "` is discarded"
	}
	_, b, i := f.nodeAt(as.Pos())
	if b == nil {
		return "", "call not located in the control-flow graph"
	}
	o := &c15Oracle{w: w, loop: site.loop, lenv: site.env, errObj: errObj, errVal: +1}
	wk := w.walk(b, i+1, c15WalkOpt{env: site.env, loop: site.loop, oracle: o, follow: true})
	nodes := wk.nodes
	returns := wk.returns
	implicit := wk.implicit
	if wk.done && wk.after != nil {
		// the loop is left with the error pending ("err = X; leave; … return err"): follow it to the returns
		nodes = append(append([]ast.Node{}, nodes...), wk.after.nodes...)
		returns = append(append([]*ast.ReturnStmt{}, returns...), wk.after.returns...)
		implicit = implicit || wk.after.implicit
	}
	target := w.pathOf(site.env, site.loop.x, true)
	for _, n := range nodes {
		x, ok := n.(*ast.AssignStmt)
		if !ok {
			continue
		}
		for _, l := range x.Lhs {
			if objOf(w.info, l) == errObj {
				return "", "the error variable is overwritten by `" + src(P.Fset, x) + "` before it is returned"
			}
			if lp := w.pathOf(site.env, l, true); target != nil && len(target.steps) > 0 && lp.eq(target) {
				return "", "with a non-nil error from `" + src(P.Fset, ap.call) + "` the path still executes `" + src(P.Fset, x) + "` (" + P.Rel(x.Pos()) + "): the pending updates are replaced although the call fails"
			}
		}
	}
	switch {
	case wk.head:
		return "", "with a non-nil error from `" + src(P.Fset, ap.call) + "` a path goes on with the next update"
	case wk.escape != nil || (wk.done && wk.after == nil):
		return "", "with a non-nil error from `" + src(P.Fset, ap.call) + "` a path leaves the loop without returning the error"
	case implicit || len(returns) == 0:
		return "", "with a non-nil error from `" + src(P.Fset, ap.call) + "` no return is reached"
	}
	for _, ret := range returns {
		if len(ret.Results) == 0 && f.isParam(errObj) && !f.isInput(errObj) {
			continue // bare return of the named error result
		}
		if len(ret.Results) == 0 || !usesObj(w.info, ret.Results[len(ret.Results)-1], errObj) {
			return "", "`" + src(P.Fset, ret) + "` (" + P.Rel(ret.Pos()) + ") is reached with a non-nil error from `" + src(P.Fset, ap.call) + "` but does not return it"
		}
	}
	how := ""
	if wk.done {
		how = " (after leaving the loop)"
	}
	return "a non-nil " + errObj.Name() + " always reaches `" + src(P.Fset, returns[0]) + "`" + how, ""
}

// ---------------------------------------------------------------- roles of the loops reached from an applying API

// c15Handling is one loop reached from an API together with the orders under which its body handles in-time
// updates: {before, equal} for a loop over the raw list that classifies by itself, {any} for a loop over the result
// of a verified in-time filter.
type c15Handling struct {
	site c15LoopSite
	ev   *c15LoopEval
	ords []c15Ord
	eff  []ast.Node // in-time effects
	aps  []c15Apply // calls that receive the element
	inl  int        // inline child writes
}

// handlings evaluates every loop reached from rt; undecided lists the loops U1 does not accept.
func (w *c15World) handlings(rt *c15Root) (all []*c15Handling, undecided []c15LoopSite) {
	for _, site := range rt.sites {
		if site.loop.entry == nil || site.loop.head == nil || site.loop.done == nil {
			undecided = append(undecided, site)
			continue
		}
		ev := w.evalLoop(site)
		h := &c15Handling{site: site, ev: ev}
		if ev.filtered != nil {
			h.ords = []c15Ord{c15OrdNone}
			wk := w.walk(site.loop.entry, 0, c15WalkOpt{env: site.env, loop: site.loop, oracle: &c15Oracle{w: w, loop: site.loop, lenv: site.env}})
			h.eff = w.effects(site.loop.body, wk)
		} else {
			if len(ev.unknown) > 0 || w.partitionDefect(ev) != "" {
				undecided = append(undecided, site)
				continue
			}
			h.ords = []c15Ord{c15OrdBefore, c15OrdEqual}
			h.eff = ev.eff[c15OrdBefore]
		}
		h.aps = w.applierCalls(site, h.eff)
		h.inl = w.inlineChildWrites(site, h.eff)
		all = append(all, h)
	}
	return all, undecided
}

// applying returns the handlings whose in-time effects hand the element to a function or write a child inline.
func c15Applying(all []*c15Handling) []*c15Handling {
	var out []*c15Handling
	for _, h := range all {
		if len(h.aps) > 0 || h.inl > 0 {
			out = append(out, h)
		}
	}
	return out
}

func (w *c15World) oracleFor(h *c15Handling, ord c15Ord) *c15Oracle {
	return &c15Oracle{w: w, loop: h.site.loop, lenv: h.site.env, ord: ord}
}

// ---------------------------------------------------------------- U2

func c15U2(r *core.R) {
	w := c15NewWorld(r)
	if w.pk == nil {
		r.Anchor("package osm")
		return
	}
	roots := w.roots()
	for _, name := range c15APIs {
		rt := w.rootByName(roots, name)
		if rt == nil || !c15ReturnsError(rt.f) {
			if rt == nil && (name == "(*Way).ApplyUpdatesUpTo" || name == "(*Relation).ApplyUpdatesUpTo") {
				r.Anchor(name)
			}
			continue
		}
		cp, ca := "pending@"+name, "apply@"+name
		all, undecided := w.handlings(rt)
		if len(undecided) > 0 {
			l := undecided[0].loop
			r.Bad(cp, l.pos(), "the loop over %s does not separate updates after t from the others (see U1): the pending list cannot be identified", src(r.P.Fset, l.x))
			r.Bad(ca, l.pos(), "the loop over %s does not separate updates after t from the others (see U1)", src(r.P.Fset, l.x))
			continue
		}
		// 1. pending list: the one loop over the raw list that does something with an update after t
		var pend []*c15Handling
		for _, h := range all {
			if h.ev.filtered == nil && len(h.ev.eff[c15OrdAfter]) > 0 && w.countingLoop(h.ev) == nil {
				pend = append(pend, h)
			}
		}
		switch {
		case len(pend) == 0:
			r.Bad(cp, rt.f.fi.Decl.Pos(), "no loop reached from %s does anything with an update stamped after t: the later updates are not kept as the new pending list", name)
		case len(pend) > 1:
			r.Unknown(cp, pend[1].site.loop.pos(), "%d loops handle updates stamped after t; the pending list is decided for exactly one", len(pend))
		default:
			h := pend[0]
			site, l := h.site, h.site.loop
			Q, node, why := w.collector(site, h.ev.eff[c15OrdAfter], []c15Ord{c15OrdAfter})
			if Q == nil {
				r.Bad(cp, l.pos(), "for an update stamped after t the loop must do exactly `X = append(X, u)`: %s; later updates are lost or reordered", why)
			} else if other := w.otherAssigns(l.fn, Q, node, l); other != "" {
				r.Bad(cp, node.Pos(), "the pending list is also changed by `%s`; it must hold exactly the skipped updates in loop order", other)
			} else if target := w.pathOf(site.env, l.x, true); target == nil || len(target.steps) == 0 {
				r.Unknown(cp, l.pos(), "the scanned list `%s` is not a field of the element", src(r.P.Fset, l.x))
			} else {
				f := l.fn
				after := func(pos token.Pos) bool {
					b, _ := blockOf(f.g, pos)
					return b != nil && (b == l.done || f.dom[b][l.done])
				}
				proof, why := w.storedBack(site.env, Q, target, after, nil, l.done, 0, 0)
				if why != "" {
					r.Bad(cp, node.Pos(), "updates after t are collected by `%s` but %s", src(r.P.Fset, node), why)
				} else {
					r.OK(cp, node.Pos(), "an update after t does exactly `%s` on every path; that list has no other non-empty assignment; %s", src(r.P.Fset, node), proof)
				}
			}
		}
		// 2. in-time updates are applied, the error is propagated
		app := c15Applying(all)
		switch {
		case len(app) == 0:
			r.Bad(ca, rt.f.fi.Decl.Pos(), "no loop reached from %s hands an update stamped at or before t to a function of the package or applies it to a child inline", name)
			continue
		case len(app) > 1:
			r.Unknown(ca, app[1].site.loop.pos(), "%d loops apply updates; exactly one is decided", len(app))
			continue
		}
		h := app[0]
		site, l := h.site, h.site.loop
		if h.ev.filtered != nil {
			// the filtered list must be computed from the stored list before anything replaces it
			if what := w.storedListChangedBefore(site); what != "" {
				r.Unknown(ca, l.pos(), "the loop ranges over a filtered copy of the update list, but `%s` changes the list before it: cannot decide that all in-time updates are still seen", what)
				continue
			}
		}
		switch {
		case len(h.aps) == 1:
			ap := h.aps[0]
			miss := ""
			for _, ord := range h.ords {
				wk := w.walk(l.entry, 0, c15WalkOpt{env: site.env, loop: l, oracle: w.oracleFor(h, ord), barrier: func(n ast.Node) bool { return n == ap.node }})
				if wk.head || wk.done {
					miss = "an update stamped " + ord.String() + " can reach the end of the loop body without `" + src(r.P.Fset, ap.call) + "`"
				}
				for _, ret := range wk.returns {
					if w.retKind(l.fn, ret) != c15RetFailure {
						miss = "an update stamped " + ord.String() + " can reach `" + src(r.P.Fset, ret) + "` without `" + src(r.P.Fset, ap.call) + "`"
					}
				}
			}
			if miss != "" {
				r.Bad(ca, ap.call.Pos(), "%s: updates at or before t are not all applied", miss)
				break
			}
			if !c15ReturnsError(ap.callee) {
				r.OK(ca, ap.call.Pos(), "every update at or before t passes `%s` (no error result)", src(r.P.Fset, ap.call))
				break
			}
			proof, why := w.errPropagated(site, ap)
			if why != "" {
				r.Bad(ca, ap.call.Pos(), "%s", why)
			} else {
				r.OK(ca, ap.call.Pos(), "every update at or before t passes `%s`; %s", src(r.P.Fset, ap.call), proof)
			}
		case len(h.aps) > 1:
			r.Unknown(ca, h.aps[1].call.Pos(), "the in-time edge hands the update to %d functions", len(h.aps))
		default:
			r.OK(ca, l.pos(), "updates at or before t are applied inline by %d assignment(s) to the indexed child (fields, guard and completeness decided by U3/U4)", h.inl)
		}
	}
}

// storedListChangedBefore: for a loop over F(list, t), an assignment to `list` (or a prefix of it) that lies before
// the loop in the loop's function. Returns its source or "".
func (w *c15World) storedListChangedBefore(site c15LoopSite) string {
	call, _, to := w.sourceCall(site)
	if call == nil {
		return ""
	}
	from := site.loop.fn.fi.Decl.Body.Pos()
	var paths []*c15Path
	if sel, ok := ast.Unparen(call.Fun).(*ast.SelectorExpr); ok {
		if p := w.pathOf(site.env, sel.X, false); p != nil {
			paths = append(paths, p)
		}
	}
	for _, a := range call.Args {
		if isUpdatesType(w.info.TypeOf(a)) {
			if p := w.pathOf(site.env, a, false); p != nil {
				paths = append(paths, p)
			}
		}
	}
	return w.changedBetween(site.env, paths, from, to)
}

// inlineChildWrites counts effect nodes that assign to a field of `<container>[<elem>.Index]`.
func (w *c15World) inlineChildWrites(site c15LoopSite, eff []ast.Node) int {
	n := 0
	for _, e := range eff {
		as, ok := e.(*ast.AssignStmt)
		if !ok {
			continue
		}
		for _, l := range as.Lhs {
			p := w.pathOf(site.env, l, true)
			if p == nil || len(p.steps) < 2 || p.last().field == nil {
				continue
			}
			st := p.steps[len(p.steps)-2]
			if st.idx != nil && c15IsUpdateIndexPath(st.idx) && w.isElem(site.env, site.loop, st.idx.prefix(1)) {
				n++
			}
		}
	}
	return n
}
