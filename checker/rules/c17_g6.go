package rules

import (
	"fmt"
	"go/ast"
	"go/token"
	"go/types"

	"golang.org/x/tools/go/cfg"

	"osmcheck/core"
)

// c17G6: a way loses its own feature (is put into the skippable set) only when it has no interesting tag of its own.
//
// Roles, not names (one exported library anchor: osm.Tags.AnyInteresting, the interest test without discount set):
//   - the skippable set is the context field of type map[osm.WayID]struct{};
//   - the interest predicate is a function of the package with signature func(osm.Tags, map[string]string) bool
//     (second argument: tags to discount);
//   - the multipolygon builder is decided by role (c17_role.go); its rule for OUTER ways deliberately discounts tags
//     repeated on the relation, and an old-style multipolygon's single outer way takes over the relation (C16).
//
// Every store into the skippable set must be controlled by the fact "predicate(<way>.Tags, D) is false" for the same
// way (guard facts: any branch shape, boolean locals and predicate helpers are looked through), and the discount set
// D must be nil on every path reaching the guard. D may be a literal nil, a local (every assignment of the local is
// examined: a local set on both arms of an if/else, or declared nil and bound conditionally, is the same thing), or
// a parameter of an unexported helper (the verdict is then taken at each call site). Inside the multipolygon builder
// a non-nil D is accepted only if no member other than an outer way can see it: the CFG is evaluated with
// `<osm.Member>.Role != "outer"` (finite domain), and the guard must be unreachable, or every non-nil assignment of the
// local carrying D (which must live in the same loop iteration) must be unable to execute or be overwritten before the
// guard. This covers `if outer {D = tags}`, both-arms if/else, `D := tags; if !outer {D = nil}`, switches on the role
// and boolean locals naming the test. A guard testing the relation's own tags (old-style multipolygon) is C16's.
func c17G6(r *core.R) {
	o := c17LoadOptions(r)
	if o == nil {
		return
	}
	if o.skip == nil {
		r.Anchor("context field of type map[osm.WayID]struct{} (skippable ways)")
		return
	}
	a := c17NewPkg(r.P, o.pk)
	an := &c17G6An{r: r, o: o, a: a, poly: func(fn *c17Fn) bool { return a.polygonOnly(fn, map[*c17Fn]bool{}) }, reach: map[*c17Fn]map[*cfg.Block]bool{}}
	// the interest predicate by signature
	for _, fn := range a.list {
		sig := fn.Obj.Type().(*types.Signature)
		if sig.Recv() == nil && sig.Params().Len() == 2 && sig.Results().Len() == 1 && c17IsBool(sig.Results().At(0).Type()) &&
			namedPath(sig.Params().At(0).Type()) == core.ModulePath+".Tags" {
			if m, ok := sig.Params().At(1).Type().Underlying().(*types.Map); ok && types.Identical(m.Key(), types.Typ[types.String]) {
				an.pred = append(an.pred, fn.Obj)
			}
		}
	}
	if len(an.pred) == 0 {
		r.Anchor("interest predicate func(osm.Tags, map[string]string) bool in osmgeojson")
		return
	}
	n := 0
	for _, fn := range a.list {
		fn := fn
		ast.Inspect(fn.Decl.Body, func(x ast.Node) bool {
			as, ok := x.(*ast.AssignStmt)
			if !ok {
				return true
			}
			for _, l := range as.Lhs {
				ix, ok := ast.Unparen(l).(*ast.IndexExpr)
				if !ok || c17FieldOf(a.info, ix.X) != o.skip {
					continue
				}
				n++
				an.store(fn, as, ix.Index, ix.Index, nil, 3)
			}
			return true
		})
	}
	if n == 0 {
		r.Anchor("stores into the skippable way set")
	}
}

type c17G6An struct {
	r     *core.R
	o     *c17Opt
	a     *c17Pkg
	pred  []*types.Func
	poly  func(*c17Fn) bool
	reach map[*c17Fn]map[*cfg.Block]bool // blocks reachable for a member that is not an outer way
}

// c17NilDiscount stands for the discount set of an interest test that has none (osm.Tags.AnyInteresting).
var c17NilDiscount = &ast.Ident{Name: "nil"}

// interestTest recognises the two spellings of "these tags contain an interesting tag": the package predicate
// pred(tags, discount) and the exported library method osm.Tags.AnyInteresting() (no discount set). It returns the
// tags expression and the discount argument.
func (an *c17G6An) interestTest(call *ast.CallExpr) (tags, discount ast.Expr, ok bool) {
	f := c17Callee(an.a.info, call)
	if f == nil {
		return nil, nil, false
	}
	if len(call.Args) == 2 && an.isPred(f) {
		return call.Args[0], call.Args[1], true
	}
	if len(call.Args) == 0 && isMethod(f, core.ModulePath+".Tags", "AnyInteresting") {
		if sel, isSel := ast.Unparen(call.Fun).(*ast.SelectorExpr); isSel {
			return sel.X, c17NilDiscount, true
		}
	}
	return nil, nil, false
}

func (an *c17G6An) isPred(f *types.Func) bool {
	for _, p := range an.pred {
		if p == f {
			return true
		}
	}
	return false
}

// c17OuterRole is the member role of the OSM multipolygon relation whose ways may repeat the relation's tags.
const c17OuterRole = "outer"

// ---- "the member is not an outer way" as a finite-domain valuation --------------------------------------------

// evalNotOuter evaluates a condition assuming every `<osm.Member>.Role` differs from "outer" (three-valued; boolean
// locals assigned once and predicate helpers are looked through; comparisons with other roles stay unknown).
func (an *c17G6An) evalNotOuter(fn *c17Fn, e ast.Expr, depth int) tri {
	a, info := an.a, an.a.info
	return evalTri(e, func(x ast.Expr) tri {
		x = ast.Unparen(x)
		switch y := x.(type) {
		case *ast.Ident:
			if o := objOf(info, y); o != nil && depth < 4 && c17IsBool(o.Type()) {
				if init := a.singleInit(fn, o); init != nil {
					return an.evalNotOuter(fn, init, depth+1)
				}
			}
		case *ast.CallExpr:
			if depth < 4 {
				if _, ret := a.predicate(y); ret != nil {
					return an.evalNotOuter(fn, ret, depth+1)
				}
			}
		case *ast.BinaryExpr:
			if y.Op != token.EQL && y.Op != token.NEQ {
				return triU
			}
			for _, pair := range [][2]ast.Expr{{y.X, y.Y}, {y.Y, y.X}} {
				f := c17FieldOf(info, stripDerefParen(pair[0]))
				if f == nil || f.Name() != "Role" || c17FieldOwner(a.p, f) != "Member" {
					continue
				}
				if s, ok := constString(info, ast.Unparen(pair[1])); ok && s == c17OuterRole {
					return c17TriOf(y.Op == token.NEQ)
				}
			}
		}
		return triU
	})
}

// feasibleNotOuter lists the successors of b a non-outer member can take.
func (an *c17G6An) feasibleNotOuter(fn *c17Fn, b *cfg.Block) []*cfg.Block {
	if len(b.Succs) == 2 {
		if c := fn.cond(b); c != nil {
			switch an.evalNotOuter(fn, c, 0) {
			case triT:
				return b.Succs[:1]
			case triF:
				return b.Succs[1:]
			}
		}
	}
	return b.Succs
}

// reachNotOuter: the blocks of fn a non-outer member can reach from the function entry.
func (an *c17G6An) reachNotOuter(fn *c17Fn) map[*cfg.Block]bool {
	if m, ok := an.reach[fn]; ok {
		return m
	}
	seen := map[*cfg.Block]bool{}
	work := []*cfg.Block{fn.graph().Blocks[0]}
	for len(work) > 0 {
		b := work[len(work)-1]
		work = work[:len(work)-1]
		if seen[b] {
			continue
		}
		seen[b] = true
		work = append(work, an.feasibleNotOuter(fn, b)...)
	}
	an.reach[fn] = seen
	return seen
}

// assignsVar: node n (a CFG node) assigns local ov.
func (an *c17G6An) assignsVar(n ast.Node, ov *types.Var) bool {
	info := an.a.info
	switch s := n.(type) {
	case *ast.AssignStmt:
		for _, l := range s.Lhs {
			if objOf(info, l) == ov {
				return true
			}
		}
	case *ast.ValueSpec:
		for _, nm := range s.Names {
			if info.Defs[nm] == ov {
				return true
			}
		}
	}
	return false
}

// defReachesUse: for a non-outer member, the value assigned to ov at node def can still be in ov when node use is
// evaluated in the same loop iteration (no other assignment of ov on some feasible path from def to use).
func (an *c17G6An) defReachesUse(fn *c17Fn, ov *types.Var, def, use ast.Node, loopHead *cfg.Block) bool {
	bd := fn.blockAt(def.Pos())
	if bd == nil || !an.reachNotOuter(fn)[bd] {
		return false // the assignment cannot execute for a non-outer member
	}
	contains := func(n ast.Node, p token.Pos) bool { return n.Pos() <= p && p < n.End() }
	// scan returns (reached use, killed) for the nodes of b after position from
	scan := func(b *cfg.Block, from token.Pos) (bool, bool) {
		for _, n := range b.Nodes {
			if n.End() <= from {
				continue
			}
			if contains(n, use.Pos()) {
				return true, false
			}
			if an.assignsVar(n, ov) {
				return false, true
			}
		}
		return false, false
	}
	if hit, killed := scan(bd, def.End()); hit {
		return true
	} else if killed {
		return false
	}
	seen := map[*cfg.Block]bool{}
	work := append([]*cfg.Block{}, an.feasibleNotOuter(fn, bd)...)
	for len(work) > 0 {
		b := work[len(work)-1]
		work = work[:len(work)-1]
		if seen[b] || b == loopHead {
			continue
		}
		seen[b] = true
		hit, killed := scan(b, token.NoPos)
		if hit {
			return true
		}
		if killed {
			continue
		}
		work = append(work, an.feasibleNotOuter(fn, b)...)
	}
	return false
}

func (an *c17G6An) isNil(e ast.Expr) bool {
	e = ast.Unparen(e)
	if e == ast.Expr(c17NilDiscount) {
		return true
	}
	if tv, ok := an.a.info.Types[e]; ok && tv.IsNil() {
		return true
	}
	id, ok := e.(*ast.Ident)
	return ok && id.Name == "nil" && an.a.info.Uses[id] == types.Universe.Lookup("nil")
}

// discount decides the discount argument ign of the guard (node use) of a store in fn. It returns bad == "" and a
// proof when every value ign can hold at the guard is acceptable: nil everywhere; inside the multipolygon builder also
// a non-nil set as long as no non-outer member can see it (evaluation of the CFG with `<member>.Role != "outer"`: the
// guard is unreachable, or no non-nil assignment of the local carrying the set reaches the guard without being
// overwritten; the local must live in the same loop iteration). param != nil: ign is a parameter, the verdict is
// taken at the call sites.
func (an *c17G6An) discount(fn *c17Fn, use ast.Node, ign ast.Expr, builder bool) (bad, proof string, param *types.Var) {
	info, fset := an.a.info, an.a.fset
	ign = ast.Unparen(ign)
	if an.isNil(ign) {
		return "", "the discount set is nil: the way is skipped only when it has no interesting tag at all", nil
	}
	here := fn.blockAt(use.Pos())
	if builder && here != nil && !an.reachNotOuter(fn)[here] {
		return "", "the guard with the relation's tags as discount set is unreachable unless `<member>.Role == \"outer\"` (outer members may repeat the relation's tags, C16)", nil
	}
	ov, _ := objOf(info, ign).(*types.Var)
	if ov == nil || ov.IsField() {
		bad = "the tags in `" + src(fset, ign) + "` are discounted"
		if builder {
			bad += " for members not known to be outer ways"
		}
		return bad, "", nil
	}
	if fn.isParam(ov) {
		return "", "", ov
	}
	// a local: every assignment that can still be visible at the guard must be nil
	var loop ast.Node
	var loopHead *cfg.Block
	if loops := fn.loopsAround(use); len(loops) > 0 {
		loop = loops[len(loops)-1]
		for _, b := range fn.graph().Blocks {
			if b.Stmt == loop && (b.Kind == cfg.KindRangeLoop || b.Kind == cfg.KindForLoop) {
				loopHead = b
			}
		}
	}
	n, nOuter := 0, 0
	check := func(node ast.Node, rhs ast.Expr) {
		n++
		if rhs == nil || an.isNil(rhs) || bad != "" {
			return
		}
		if builder && (loop == nil || (ov.Pos() > loop.Pos() && ov.Pos() < loop.End())) && !an.defReachesUse(fn, ov, node, use, loopHead) {
			nOuter++
			return
		}
		bad = "`" + src(fset, node) + "` binds the discount set `" + ov.Name() + "` to `" + src(fset, rhs) + "`"
		switch {
		case !builder:
		case loop != nil && !(ov.Pos() > loop.Pos() && ov.Pos() < loop.End()):
			bad += " and `" + ov.Name() + "`, declared outside the loop of the store, carries it on to the next member"
		default:
			bad += ", which a member that is not an outer way can still see at the guard"
		}
	}
	ast.Inspect(fn.Decl.Body, func(x ast.Node) bool {
		switch s := x.(type) {
		case *ast.AssignStmt:
			for i, l := range s.Lhs {
				if objOf(info, l) != ov {
					continue
				}
				if len(s.Lhs) != len(s.Rhs) {
					n++
					if bad == "" {
						bad = "`" + src(fset, s) + "` assigns the discount set from a multi-value expression"
					}
					continue
				}
				check(s, s.Rhs[i])
			}
		case *ast.ValueSpec:
			for i, nm := range s.Names {
				if info.Defs[nm] != ov {
					continue
				}
				if len(s.Values) == len(s.Names) {
					check(s, s.Values[i])
				} else {
					check(s, nil)
				}
			}
		case *ast.UnaryExpr:
			if s.Op == token.AND && objOf(info, s.X) == ov && bad == "" {
				bad = "the address of `" + ov.Name() + "` is taken"
			}
		}
		return true
	})
	switch {
	case bad != "":
		return bad, "", nil
	case n == 0:
		return "`" + ov.Name() + "` is never assigned in " + fn.Name(), "", nil
	case nOuter == 0:
		return "", "`" + ov.Name() + "` is nil on every path: the way is skipped only when it has no interesting tag at all", nil
	}
	return "", fmt.Sprintf("`%s` is nil at the guard for every member that is not an outer way: its %d non-nil assignment(s) cannot execute, or are overwritten before the guard, when `<member>.Role != \"outer\"` (outer members may repeat the relation's tags, C16)", ov.Name(), nOuter), nil
}

// store decides one store `skippable[key] = …` seen from function fn at node at (the store itself or, for a store
// inside a helper, the call of the helper); key is the key in the terms of fn; ign, when non-nil, is the discount
// argument (in the terms of fn) of a guard already found in the helper.
func (an *c17G6An) store(fn *c17Fn, at ast.Node, key, shown ast.Expr, ign ast.Expr, depth int) {
	r, a, info, fset := an.r, an.a, an.a.info, an.a.fset
	c := "skippable@" + fn.Name() + " " + src(fset, ast.Unparen(shown))
	builder := an.poly(fn)
	key = stripDerefParen(a.resolve(fn, stripDerefParen(key)))
	wayObj := rootObj(info, key)
	if sel, ok := key.(*ast.SelectorExpr); ok {
		wayObj = rootObj(info, a.resolveAlias(fn, sel.X))
	}
	callers := func(f func(cs c17CallSite)) bool {
		if depth <= 0 || !a.onlyCalled(fn.Obj) {
			return false
		}
		for _, cs := range a.calls[fn.Obj] {
			f(cs)
		}
		return true
	}
	paramMap := func(cs c17CallSite) map[types.Object]ast.Expr {
		m := map[types.Object]ast.Expr{}
		sig := fn.Obj.Type().(*types.Signature)
		for i := 0; i < sig.Params().Len() && i < len(cs.call.Args); i++ {
			m[sig.Params().At(i)] = cs.call.Args[i]
		}
		if fn.Decl.Recv != nil && len(fn.Decl.Recv.List) == 1 && len(fn.Decl.Recv.List[0].Names) == 1 {
			if sel, ok := ast.Unparen(cs.call.Fun).(*ast.SelectorExpr); ok {
				m[info.Defs[fn.Decl.Recv.List[0].Names[0]]] = sel.X
			}
		}
		return m
	}
	guard := at
	if ign == nil {
		// find the controlling fact: `pred(<way>.Tags, IGN)` is false at the store
		b := fn.blockAt(at.Pos())
		if b == nil {
			r.Unknown(c, at.Pos(), "the store is not in the control-flow graph of %s", fn.Name())
			return
		}
		var hit, other *guardFact
		otherRelation := false
		facts := fn.factsAt(b)
		for i := range facts {
			ft := &facts[i]
			call, ok := ast.Unparen(ft.expr).(*ast.CallExpr)
			if !ok || ft.val {
				continue
			}
			tagsArg, _, isTest := an.interestTest(call)
			if !isTest {
				continue
			}
			arg := stripDerefParen(a.resolve(fn, stripDerefParen(tagsArg)))
			tf := c17FieldOf(info, arg)
			if tf != nil && namedPath(tf.Type()) == core.ModulePath+".Tags" {
				owner := arg.(*ast.SelectorExpr).X
				if wayObj != nil && rootObj(info, a.resolveAlias(fn, owner)) == wayObj {
					hit = ft
					break
				}
				if namedPath(info.TypeOf(owner)) == core.ModulePath+".Relation" {
					otherRelation = true
				}
			}
			other = ft
		}
		switch {
		case hit != nil:
			_, ign, _ = an.interestTest(ast.Unparen(hit.expr).(*ast.CallExpr))
			guard = hit.expr
		case other != nil && builder && otherRelation:
			r.OKTrivial(c, other.expr.Pos(), "inside the multipolygon builder, under `%s` false: the single outer way of an old-style multipolygon takes over the relation's feature (C16, not claimed)", src(fset, other.expr))
			return
		case other != nil:
			r.Bad(c, other.expr.Pos(), "`%s` tests the tags of something other than the way being made skippable (%s)", src(fset, other.expr), src(fset, key))
			return
		default:
			// the guard may be at the call sites of an unexported helper that only performs the store
			if _, isParam := wayObj.(*types.Var); isParam && wayObj != nil && fn.isParam(wayObj) {
				if callers(func(cs c17CallSite) {
					m := paramMap(cs)
					an.store(cs.fn, cs.call, c17Subst(info, key, m), c17Subst(info, key, m), nil, depth-1)
				}) {
					return
				}
			}
			r.Bad(c, at.Pos(), "the way is made skippable without the test that it has no interesting tag of its own (no controlling `!%s(<way>.Tags, nil)`): its feature disappears although it may carry interesting tags", an.pred[0].Name())
			return
		}
	}
	bad, proof, prm := an.discount(fn, guard, ign, builder)
	switch {
	case prm != nil:
		if callers(func(cs c17CallSite) {
			m := paramMap(cs)
			an.store(cs.fn, cs.call, c17Subst(info, key, m), c17Subst(info, key, m), c17Subst(info, ign, m), depth-1)
		}) {
			return
		}
		r.Bad(c, guard.Pos(), "`%s` discounts the tags in parameter `%s`, whose callers are not all known: a member way whose interesting tags also appear there gets no feature although the element carries interesting tags", src(fset, guard), prm.Name())
	case bad != "":
		r.Bad(c, guard.Pos(), "`%s` is the guard of the store, but %s: a member way whose interesting tags also appear there gets no feature although the element carries interesting tags", src(fset, guard), bad)
	default:
		r.OK(c, guard.Pos(), "`%s` is false at the store; %s", src(fset, guard), proof)
	}
}
