package rules

import (
	"go/ast"
	"go/token"
	"go/types"

	"osmcheck/core"
)

// c17G6: a way loses its own feature (is put into the skippable set) only when it has no interesting tag of its own.
// Outside the multipolygon builder (whose outer-way rule deliberately discounts tags repeated on the relation, C16)
// every store into the skippable set must be guarded by `!hasInterestingTags(w.Tags, nil)` for the same way w:
// a non-nil ignore set makes ways with interesting tags disappear from the output.
// Unexported anchors: field `skippable`, functions `hasInterestingTags`, `buildPolygon` (as in G3).
func c17G6(r *core.R) {
	pk := r.P.Pkg("osmgeojson")
	if pk == nil {
		r.Anchor("package osmgeojson")
		return
	}
	info := pk.TypesInfo
	n := 0
	for _, fi := range allFuncs(pk) {
		par := parentsOf(r.P, fi)
		ast.Inspect(fi.Decl.Body, func(x ast.Node) bool {
			as, ok := x.(*ast.AssignStmt)
			if !ok || len(as.Lhs) != 1 {
				return true
			}
			ix, ok := ast.Unparen(as.Lhs[0]).(*ast.IndexExpr)
			if !ok {
				return true
			}
			f := fieldOf(info, ix.X)
			if f == nil || f.Name() != "skippable" {
				return true
			}
			n++
			c := "skippable@" + fi.Name() + " " + src(r.P.Fset, ix.Index)
			if fi.Obj.Name() == "buildPolygon" {
				r.OKTrivial(c, as.Pos(), "inside the multipolygon builder: outer/inner way rules belong to C16 (not claimed)")
				return true
			}
			wayObj := rootObj(info, ix.Index)
			// innermost enclosing if
			var ifs *ast.IfStmt
			for p := par[as]; p != nil; p = par[p] {
				if i, ok := p.(*ast.IfStmt); ok {
					ifs = i
					break
				}
			}
			if ifs == nil {
				r.Bad(c, as.Pos(), "a way is made skippable unconditionally: its feature disappears although it may carry interesting tags")
				return true
			}
			ue, ok := ast.Unparen(ifs.Cond).(*ast.UnaryExpr)
			var call *ast.CallExpr
			if ok && ue.Op == token.NOT {
				call, _ = ast.Unparen(ue.X).(*ast.CallExpr)
			}
			fn := (*types.Func)(nil)
			if call != nil {
				fn = callee(info, call)
			}
			switch {
			case call == nil || fn == nil || fn.Name() != "hasInterestingTags" || len(call.Args) != 2:
				r.Unknown(c, ifs.Pos(), "guard `%s` is not `!hasInterestingTags(way.Tags, nil)`", src(r.P.Fset, ifs.Cond))
			case rootObj(info, call.Args[0]) != wayObj || fieldOf(info, call.Args[0]) == nil || fieldOf(info, call.Args[0]).Name() != "Tags":
				r.Bad(c, ifs.Pos(), "`%s` tests the tags of something other than the way being made skippable (%s)", src(r.P.Fset, ifs.Cond), wayObj.Name())
			default:
				id, isNil := ast.Unparen(call.Args[1]).(*ast.Ident)
				if isNil && id.Name == "nil" {
					r.OK(c, ifs.Pos(), "`%s`: the way is skipped only when it has no interesting tag at all", src(r.P.Fset, ifs.Cond))
				} else {
					r.Bad(c, ifs.Pos(), "`%s` discounts the tags in `%s`: a member way whose interesting tags also appear there gets no feature although the element carries interesting tags", src(r.P.Fset, ifs.Cond), src(r.P.Fset, call.Args[1]))
				}
			}
			return true
		})
	}
	if n == 0 {
		r.Anchor("stores into the skippable way set")
	}
}
