package rules

import (
	"go/ast"
	"go/types"

	"osmcheck/core"
)

// c17G6: a way loses its own feature (is put into the skippable set) only when it has no interesting tag of its own.
//
// Roles, not names:
//   - the skippable set is the context field of type map[osm.WayID]struct{};
//   - the interest predicate is a function of the package with signature func(osm.Tags, map[string]string) bool
//     (second argument: tags to discount);
//   - the multipolygon builder is any function that handles orb.MultiPolygon values or is called only from such
//     functions; its outer-way rule deliberately discounts tags repeated on the relation (C16, not claimed).
//
// Outside the multipolygon builder every store into the skippable set must be controlled by the fact
// "predicate(<way>.Tags, nil) is false" for the same way (decided on guard facts: any branch shape, boolean locals
// and predicate helpers are looked through). When the store or the discount argument is a parameter of an
// unexported helper the verdict is taken at each call site of the helper.
func c17G6(r *core.R) {
	o := c17LoadOptions(r)
	if o == nil {
		return
	}
	if o.skip == nil {
		r.Anchor("context field of type map[osm.WayID]struct{} (skippable ways)")
		return
	}
	a := c17NewPkg(r.P, o.pk)
	an := &c17G6An{r: r, o: o, a: a, poly: func(fn *c17Fn) bool { return a.polygonOnly(fn, map[*c17Fn]bool{}) }}
	// the interest predicate by signature
	for _, fn := range a.list {
		sig := fn.Obj.Type().(*types.Signature)
		if sig.Recv() == nil && sig.Params().Len() == 2 && sig.Results().Len() == 1 && c17IsBool(sig.Results().At(0).Type()) &&
			namedPath(sig.Params().At(0).Type()) == core.ModulePath+".Tags" {
			if m, ok := sig.Params().At(1).Type().Underlying().(*types.Map); ok && types.Identical(m.Key(), types.Typ[types.String]) {
				an.pred = append(an.pred, fn.Obj)
			}
		}
	}
	if len(an.pred) == 0 {
		r.Anchor("interest predicate func(osm.Tags, map[string]string) bool in osmgeojson")
		return
	}
	n := 0
	for _, fn := range a.list {
		fn := fn
		ast.Inspect(fn.Decl.Body, func(x ast.Node) bool {
			as, ok := x.(*ast.AssignStmt)
			if !ok {
				return true
			}
			for _, l := range as.Lhs {
				ix, ok := ast.Unparen(l).(*ast.IndexExpr)
				if !ok || c17FieldOf(a.info, ix.X) != o.skip {
					continue
				}
				n++
				an.store(fn, as, ix.Index, ix.Index, nil, 3)
			}
			return true
		})
	}
	if n == 0 {
		r.Anchor("stores into the skippable way set")
	}
}

type c17G6An struct {
	r    *core.R
	o    *c17Opt
	a    *c17Pkg
	pred []*types.Func
	poly func(*c17Fn) bool
}

func (an *c17G6An) isPred(f *types.Func) bool {
	for _, p := range an.pred {
		if p == f {
			return true
		}
	}
	return false
}

// store decides one store `skippable[key] = …` seen from function fn at node at (the store itself or, for a store
// inside a helper, the call of the helper); key is the key in the terms of fn; ign, when non-nil, is the discount
// argument (in the terms of fn) of a guard already found in the helper.
func (an *c17G6An) store(fn *c17Fn, at ast.Node, key, shown ast.Expr, ign ast.Expr, depth int) {
	r, a, info, fset := an.r, an.a, an.a.info, an.a.fset
	c := "skippable@" + fn.Name() + " " + src(fset, shown)
	if an.poly(fn) {
		r.OKTrivial(c, at.Pos(), "inside the multipolygon builder (%s handles orb.MultiPolygon values or is called only from functions that do): outer/inner way rules belong to C16 (not claimed)", fn.Name())
		return
	}
	key = stripDerefParen(a.resolve(fn, stripDerefParen(key)))
	wayObj := rootObj(info, key)
	if sel, ok := key.(*ast.SelectorExpr); ok {
		wayObj = rootObj(info, a.resolveAlias(fn, sel.X))
	}
	callers := func(f func(cs c17CallSite)) bool {
		if depth <= 0 || !a.onlyCalled(fn.Obj) {
			return false
		}
		for _, cs := range a.calls[fn.Obj] {
			f(cs)
		}
		return true
	}
	paramMap := func(cs c17CallSite) map[types.Object]ast.Expr {
		m := map[types.Object]ast.Expr{}
		sig := fn.Obj.Type().(*types.Signature)
		for i := 0; i < sig.Params().Len() && i < len(cs.call.Args); i++ {
			m[sig.Params().At(i)] = cs.call.Args[i]
		}
		if fn.Decl.Recv != nil && len(fn.Decl.Recv.List) == 1 && len(fn.Decl.Recv.List[0].Names) == 1 {
			if sel, ok := ast.Unparen(cs.call.Fun).(*ast.SelectorExpr); ok {
				m[info.Defs[fn.Decl.Recv.List[0].Names[0]]] = sel.X
			}
		}
		return m
	}
	if ign == nil {
		// find the controlling fact
		b := fn.blockAt(at.Pos())
		if b == nil {
			r.Unknown(c, at.Pos(), "the store is not in the control-flow graph of %s", fn.Name())
			return
		}
		var hit, other *guardFact
		facts := fn.factsAt(b)
		for i := range facts {
			ft := &facts[i]
			call, ok := ast.Unparen(ft.expr).(*ast.CallExpr)
			if !ok || ft.val || len(call.Args) != 2 || !an.isPred(c17Callee(info, call)) {
				continue
			}
			arg := stripDerefParen(a.resolve(fn, stripDerefParen(call.Args[0])))
			tf := c17FieldOf(info, arg)
			if tf != nil && namedPath(tf.Type()) == core.ModulePath+".Tags" && wayObj != nil {
				if rootObj(info, a.resolveAlias(fn, arg.(*ast.SelectorExpr).X)) == wayObj {
					hit = ft
					break
				}
			}
			other = ft
		}
		switch {
		case hit != nil:
			ign = ast.Unparen(hit.expr).(*ast.CallExpr).Args[1]
			at = hit.expr
		case other != nil:
			r.Bad(c, other.expr.Pos(), "`%s` tests the tags of something other than the way being made skippable (%s)", src(fset, other.expr), src(fset, key))
			return
		default:
			// the guard may be at the call sites of an unexported helper that only performs the store
			if _, isParam := wayObj.(*types.Var); isParam && wayObj != nil && fn.isParam(wayObj) {
				if callers(func(cs c17CallSite) {
					m := paramMap(cs)
					an.store(cs.fn, cs.call, c17Subst(info, key, m), c17Subst(info, key, m), nil, depth-1)
				}) {
					return
				}
			}
			r.Bad(c, at.Pos(), "the way is made skippable without the test that it has no interesting tag of its own (no controlling `!%s(<way>.Tags, nil)`): its feature disappears although it may carry interesting tags", an.pred[0].Name())
			return
		}
	}
	// classify the discount argument
	ign = ast.Unparen(ign)
	if tv, ok := info.Types[ign]; ok && tv.IsNil() {
		r.OK(c, at.Pos(), "`%s` is false at the store: the way is skipped only when it has no interesting tag at all", src(fset, at))
		return
	}
	if id, ok := ign.(*ast.Ident); ok {
		if id.Name == "nil" && info.Uses[id] == types.Universe.Lookup("nil") {
			r.OK(c, at.Pos(), "`%s` is false at the store: the way is skipped only when it has no interesting tag at all", src(fset, at))
			return
		}
		if ov, ok := objOf(info, id).(*types.Var); ok {
			if fn.isParam(ov) {
				if callers(func(cs c17CallSite) {
					m := paramMap(cs)
					an.store(cs.fn, cs.call, c17Subst(info, key, m), c17Subst(info, key, m), c17Subst(info, ign, m), depth-1)
				}) {
					return
				}
			} else if !ov.IsField() {
				// a local: every value it can hold must be nil
				allNil, n := true, 0
				culprit := ""
				ast.Inspect(fn.Decl.Body, func(x ast.Node) bool {
					switch s := x.(type) {
					case *ast.AssignStmt:
						for i, l := range s.Lhs {
							if objOf(info, l) != ov {
								continue
							}
							n++
							if len(s.Lhs) != len(s.Rhs) {
								allNil, culprit = false, src(fset, s)
							} else if tv, ok := info.Types[ast.Unparen(s.Rhs[i])]; !ok || !tv.IsNil() {
								allNil, culprit = false, src(fset, s)
							}
						}
					case *ast.ValueSpec:
						for i, nm := range s.Names {
							if info.Defs[nm] != ov {
								continue
							}
							n++
							if len(s.Values) == len(s.Names) {
								if tv, ok := info.Types[ast.Unparen(s.Values[i])]; !ok || !tv.IsNil() {
									allNil, culprit = false, src(fset, s)
								}
							}
						}
					}
					return true
				})
				if allNil && n > 0 {
					r.OK(c, at.Pos(), "`%s` is false at the store and %s is nil on every path: the way is skipped only when it has no interesting tag at all", src(fset, at), ov.Name())
					return
				}
				r.Bad(c, at.Pos(), "`%s` discounts the tags in `%s` (`%s`): a member way whose interesting tags also appear there gets no feature although the element carries interesting tags", src(fset, at), ov.Name(), culprit)
				return
			}
		}
	}
	r.Bad(c, at.Pos(), "`%s` discounts the tags in `%s`: a member way whose interesting tags also appear there gets no feature although the element carries interesting tags", src(fset, at), src(fset, ign))
}
