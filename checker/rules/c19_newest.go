package rules

// c19_newest.go — C19.M6 `order@<caller> newest`: the clause "… or the newest state when the timestamp is later
// than all of them". The caller of the binary search may hand back the upper-bound variable itself (the current,
// newest state, or what the finder returned as upper bound) only when that state is not after the query time:
// when it is after t, states below it may be at or after t as well and one of them is the answer. Decided like
// the other M6 obligations: from every place the upper-bound variable is given a value the CFG is walked with its
// timestamp after t; a `return upper` reached on that walk is a violation.

import (
	"go/ast"
	"go/types"

	"osmcheck/core"
)

func c19M6Newest(r *core.R, m *c19Model, s *c19Search, tsFld *types.Var) {
	info, fs := m.info, r.P.Fset
	C := s.caller
	c := "order@" + C.Name() + " newest"
	if s.tCaller == nil || s.hiVar == nil {
		r.Unknown(c, C.Decl.Pos(), "query time or upper-bound variable of %s not identified", C.Name())
		return
	}
	g := m.graph(C)
	set := map[types.Object]bool{s.hiVar: true}
	ops := &c19TimeOps{m: m, fi: C, tVar: s.tCaller, sVars: set, tsFld: tsFld}
	found := m.nilAtom(set, false)
	nstarts := 0
	var bad ast.Node
	var undecided ast.Expr
	for _, b := range g.g.Blocks {
		if !b.Live {
			continue
		}
		for i, n := range b.Nodes {
			if s.enter == nil && c19Contains(s.outer, n.Pos()) {
				continue // inside the (inlined) binary search the upper bound is what it returns
			}
			if !c19Overwrites(info, n, set) {
				continue
			}
			nstarts++
			u := m.orderWalk(b, i, ops.atom(+1, found), ops, func(x ast.Node) bool {
				if s.enter == nil && c19Contains(s.outer, x.Pos()) {
					return false
				}
				if ret, ok := x.(*ast.ReturnStmt); ok && bad == nil {
					if res := m.okResults(C, ret); len(res) > 0 && c19Target(info, ast.Unparen(res[0])) == s.hiVar {
						bad = x
					}
				}
				return !c19Overwrites(info, x, set)
			}, nil)
			if u != nil && undecided == nil {
				undecided = u
			}
		}
	}
	hi, t := s.hiVar.Name(), s.tCaller.Name()
	switch {
	case undecided != nil:
		r.Unknown(c, undecided.Pos(), "`%s` compares %s.%s with %s in a way the walk does not decide", src(fs, undecided), hi, tsFld.Name(), t)
	case nstarts == 0:
		r.Unknown(c, C.Decl.Pos(), "%s is never assigned in %s", hi, C.Name())
	case bad != nil:
		r.Bad(c, bad.Pos(), "with %s.%s > %s the search reaches `%s`: the newest state (the upper bound) is handed back although it was written after the query time, so an earlier state at or after %s is skipped; it is the answer only when %s is later than all states", hi, tsFld.Name(), t, src(fs, bad), t, t)
	default:
		r.OK(c, C.Decl.Pos(), "no `return %s, …` is reachable in %s with %s.%s > %s, from any of the %d place(s) %s is given a value: the upper bound is handed back directly only when the query time is not before it", hi, C.Name(), hi, tsFld.Name(), t, nstarts, hi)
	}
}
