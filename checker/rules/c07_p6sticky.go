package rules

import (
	"fmt"
	"go/ast"
	"go/types"
	"sort"
	"strings"

	"osmcheck/core"
)

// c07InternalCtxErrFuncs computes the functions of package osmpbf that may return an error derived from the decoder's
// INTERNAL cancellable context (`dec.ctx.Err()`, `context.Cause(dec.ctx)`): directly, through a local, or by returning
// the result of another such function. Close cancels that context, so such an error means "closed", not a failure.
func c07InternalCtxErrFuncs(m *pbfModel) map[*types.Func]ast.Node {
	info := m.info
	out := map[*types.Func]ast.Node{} // function -> the expression that shows it
	var derives func(e ast.Expr, seen map[types.Object]bool) bool
	derives = func(e ast.Expr, seen map[types.Object]bool) bool {
		e = ast.Unparen(e)
		if m.isCtxErrCall(e) {
			return true
		}
		switch x := e.(type) {
		case *ast.CallExpr:
			fn := callee(info, x)
			if isPkgFunc(fn, "context", "Cause") && len(x.Args) == 1 && m.isDecoderCtx(x.Args[0], map[types.Object]bool{}) {
				return true
			}
			if fn != nil && out[fn] != nil {
				return true
			}
		case *ast.Ident:
			o, ok := objOf(info, x).(*types.Var)
			if !ok || o.IsField() || seen[o] {
				return false
			}
			seen[o] = true
			defer delete(seen, o)
			for _, d := range m.defsOf(o) {
				switch d.kind {
				case "assign", "result":
					if d.e != nil && derives(d.e, seen) {
						return true
					}
				}
			}
		}
		return false
	}
	for changed := true; changed; {
		changed = false
		for fn, fi := range m.funcs {
			if out[fn] != nil {
				continue
			}
			sig := fn.Type().(*types.Signature)
			n := sig.Results().Len()
			if n == 0 || !pbfIsError(sig.Results().At(n-1).Type()) {
				continue
			}
			for _, ret := range m.returnsOf(fi, n-1) {
				if ret != nil && derives(ret, map[types.Object]bool{}) {
					out[fn] = ret
					changed = true
					break
				}
			}
			// `return f()` forwarding all results of a call
			if out[fn] == nil && n > 1 {
				for _, ret := range m.returnsOf(fi, 0) {
					if call, ok := ast.Unparen(ret).(*ast.CallExpr); ok && callee(info, call) != nil && out[callee(info, call)] != nil {
						out[fn] = ret
						changed = true
					}
				}
			}
		}
	}
	return out
}

// c07StickyError: the scanner's stored error wins over `closed` in Err. An error derived from the decoder's internal
// context (the one Close cancels) must therefore never be stored while the scanner may already be closed: on every
// path of the exported Scanner methods, an assignment of the stored error from a call that may return such an error
// must come after a negative test of the closed flag that is still valid; calls that cannot return it (the lazy start
// of the unchanged tree) may be stored anywhere.
func c07StickyError(r *core.R, sc *c07Scanner) {
	if sc.rel != "osmpbf" {
		return
	}
	m := getPBFModel(r.P)
	if len(m.errs) > 0 || sc.errField == nil {
		return
	}
	info := sc.pk.TypesInfo
	ce := c07InternalCtxErrFuncs(m)
	const closedOK = 1
	type site struct {
		pos   ast.Node
		call  *ast.CallExpr
		fn    *types.Func
		bad   bool
		entry string
	}
	sites := map[ast.Node]*site{}
	var entries []*FuncInfo
	for _, fi := range allFuncs(sc.pk) {
		if nt := pbfRecvNamed(fi.Obj); nt != nil && nt == sc.T && fi.Obj.Exported() {
			entries = append(entries, fi)
		}
	}
	sort.Slice(entries, func(i, j int) bool { return entries[i].Decl.Pos() < entries[j].Decl.Pos() })
	for _, entry := range entries {
		t := sc.view.newTracer()
		// follow the scanner's own helpers; calls into the decoder are judged by what they may return
		t.NoInline = func(fn *types.Func) bool { nt := pbfRecvNamed(fn); return nt == nil || nt != sc.T }
		t.Edge = func(st int, cond ast.Expr, val bool, f *FuncInfo) (int, bool) {
			var facts []guardFact
			splitFacts(cond, val, nil, &facts)
			for _, ft := range facts {
				with := sc.atom(f.Decl.Body, ft.expr, c07Input{closed: true})
				without := sc.atom(f.Decl.Body, ft.expr, c07Input{})
				if with != triU && without != triU && with != without && (without == triT) == ft.val {
					st |= closedOK
				}
			}
			return st, true
		}
		t.Event = func(st int, ev *pbfEvent) int {
			if ev.kind != "node" {
				return st
			}
			as, ok := ev.n.(*ast.AssignStmt)
			if !ok {
				return st
			}
			for i, l := range as.Lhs {
				f := fieldOf(info, l)
				if f == sc.closedField && f != nil {
					st &^= closedOK
				}
				if f != sc.errField || f == nil {
					continue
				}
				var rhs ast.Expr
				if len(as.Lhs) == len(as.Rhs) {
					rhs = as.Rhs[i]
				} else if len(as.Rhs) == 1 {
					rhs = as.Rhs[0]
				}
				call, _ := ast.Unparen(rhs).(*ast.CallExpr)
				if call == nil {
					continue
				}
				fn := callee(info, call)
				if fn == nil || m.funcs[fn] == nil {
					continue
				}
				s := sites[as]
				if s == nil {
					s = &site{pos: as, call: call, fn: fn, entry: entry.Name()}
					sites[as] = s
				}
				if ce[fn] != nil && st&closedOK == 0 {
					s.bad = true
					s.entry = entry.Name()
				}
			}
			return st
		}
		t.Run(entry, entry.Decl.Body, 0)
		if len(t.incomplete) > 0 {
			r.Unknown("sticky-error@"+entry.Name(), entry.Decl.Pos(), "the method could not be followed on every path: %s", strings.Join(t.incomplete, "; "))
		}
	}
	var keys []*site
	for _, s := range sites {
		keys = append(keys, s)
	}
	sort.Slice(keys, func(i, j int) bool { return keys[i].pos.Pos() < keys[j].pos.Pos() })
	if len(keys) == 0 {
		r.Anchor("assignment of the scanner's stored error from a decoder call")
		return
	}
	for _, s := range keys {
		c := "sticky-error stores " + c07CallRole(m, s.fn)
		switch {
		case s.bad:
			r.Bad(c, s.pos.Pos(), "`%s` (reached from %s) stores the result of %s, which can be the error of the decoder's internal context (`%s`), on a path without a still valid negative test of the closed flag: Close cancels that context, the stored error then wins over `closed` in Err and a closed scanner reports context.Canceled instead of ErrScannerClosed although the user's context was never cancelled", src(r.P.Fset, s.pos), s.entry, s.fn.Name(), src(r.P.Fset, ce[s.fn]))
		case ce[s.fn] != nil:
			r.OK(c, s.pos.Pos(), "%s can return the internal context's error, but on every path the result is stored only after a negative test of the closed flag", s.fn.Name())
		default:
			r.OK(c, s.pos.Pos(), "%s (and what it calls) never returns an error derived from the decoder's internal context, so storing its result cannot mask `closed`", s.fn.Name())
		}
	}
}

// c07CallRole names a decoder function by role for a stable construct key.
func c07CallRole(m *pbfModel, fn *types.Func) string {
	switch {
	case m.start != nil && fn == m.start.Obj:
		return "the lazy start"
	case m.next != nil && fn == m.next.Obj:
		return "the next-object call"
	}
	return fmt.Sprintf("%s", fn.Name())
}
