package rules

// c19_width.go — C19.M4 `width@<decoder> <key> as <type>`: every numeric property of a state file is read with at
// least 64 bits on every build configuration.
//
// "State files are read exactly as the planet server lays them out": the planet's state files carry numbers above
// 2^31 (txnMax=2536398044). strconv.Atoi, ParseInt/ParseUint with a bit size below 64 (or 0), and variables or
// State fields of type int / uint / a 32-bit type are 32 bits wide on some supported configuration (GOARCH=386), so
// decoding such a file fails there with "value out of range" and every lookup that probes it returns an error.
//
// Roles: a decoder is a function reachable from the exported state fetchers that takes a []byte (or string) and
// returns (*State, error). For every call of a strconv integer parser reachable from a decoder (directly, or
// through a function that just returns the parser's result) the chain parser -> receiving variable -> State field
// is followed; the first step narrower than 64 bits names the construct. The key is the state-file key the parse is
// guarded by (a constant string in the enclosing case clause or in a branch condition known true), else the name of
// the State field the number ends in.

import (
	"fmt"
	"go/ast"
	"go/types"
	"sort"
	"strings"

	"osmcheck/core"
)

type c19ParseSite struct {
	fi     *FuncInfo
	call   *ast.CallExpr // the call whose result is the number (the parser, or a function returning its result)
	narrow string        // "" when the parser itself reads 64 bits, else the narrow step ("int", "32 bits", …)
	result types.Type    // type of the parsed value
}

// c19NarrowType: a type that is less than 64 bits wide on some supported configuration ("" when not).
func c19NarrowType(t types.Type) string {
	b, ok := t.Underlying().(*types.Basic)
	if !ok || b.Info()&types.IsInteger == 0 {
		return ""
	}
	switch b.Kind() {
	case types.Int64, types.Uint64, types.UntypedInt:
		return ""
	}
	return c19TypeName(t)
}

// parserWidth classifies a call of strconv.Atoi / ParseInt / ParseUint: ok=false when call is not one.
func (m *c19Model) parserWidth(call *ast.CallExpr) (narrow string, ok bool) {
	fn := callee(m.info, call)
	switch {
	case isPkgFunc(fn, "strconv", "Atoi"):
		return "int", true
	case isPkgFunc(fn, "strconv", "ParseInt"), isPkgFunc(fn, "strconv", "ParseUint"):
		if len(call.Args) == 3 {
			if bits, isConst := constInt(m.info, call.Args[2]); isConst {
				switch {
				case bits == 64:
					return "", true
				case bits == 0:
					return "int", true
				default:
					return fmt.Sprintf("%d bits", bits), true
				}
			}
		}
		return "an unknown number of bits", true
	}
	return "", false
}

// parseSites lists the integer parses reachable from decoder dec: parser calls, and calls of one-step wrappers
// (functions whose return hands on the parser's result).
func (m *c19Model) parseSites(dec *FuncInfo, others map[*types.Func]bool) []*c19ParseSite {
	info := m.info
	reach := c19Reach(m.pk, m.funcs, dec.Obj)
	// wrappers: function -> narrowness of the parser whose result it returns
	wrapper := map[*types.Func]*c19ParseSite{}
	for f, g := range reach {
		ast.Inspect(g.Decl.Body, func(n ast.Node) bool {
			ret, ok := n.(*ast.ReturnStmt)
			if !ok || len(ret.Results) == 0 {
				return true
			}
			var call *ast.CallExpr
			if c, ok := ast.Unparen(ret.Results[0]).(*ast.CallExpr); ok {
				call = c
			} else if o := objOf(info, ret.Results[0]); o != nil {
				if n, def, _ := c19Writes(info, g.Decl.Body, o); n == 1 && def != nil {
					call, _ = ast.Unparen(def).(*ast.CallExpr)
				} else if n >= 1 {
					// `v, err := strconv.…` (multi-value definition)
					ast.Inspect(g.Decl.Body, func(x ast.Node) bool {
						if as, ok := x.(*ast.AssignStmt); ok && len(as.Rhs) == 1 && len(as.Lhs) > 1 && objOf(info, as.Lhs[0]) == o {
							call, _ = ast.Unparen(as.Rhs[0]).(*ast.CallExpr)
						}
						return true
					})
				}
			}
			if call != nil {
				if nw, ok := m.parserWidth(call); ok {
					wrapper[f] = &c19ParseSite{narrow: nw, result: info.TypeOf(ret.Results[0])}
				}
			}
			return true
		})
	}
	var out []*c19ParseSite
	for f, g := range reach {
		if others[f] && f != dec.Obj {
			continue
		}
		if wrapper[f] != nil {
			continue // judged where it is called
		}
		g := g
		ast.Inspect(g.Decl.Body, func(n ast.Node) bool {
			call, ok := n.(*ast.CallExpr)
			if !ok {
				return true
			}
			if nw, ok := m.parserWidth(call); ok {
				var rt types.Type
				if tup, ok := info.TypeOf(call).(*types.Tuple); ok && tup.Len() > 0 {
					rt = tup.At(0).Type()
				}
				out = append(out, &c19ParseSite{fi: g, call: call, narrow: nw, result: rt})
			} else if w := wrapper[callee(info, call)]; w != nil {
				out = append(out, &c19ParseSite{fi: g, call: call, narrow: w.narrow, result: w.result})
			}
			return true
		})
	}
	sort.Slice(out, func(i, j int) bool { return out[i].call.Pos() < out[j].call.Pos() })
	return out
}

// constStringIn returns a constant string mentioned by e (also inside `[]byte("…")`).
func (m *c19Model) constStringIn(e ast.Node) (string, bool) {
	found, ok := "", false
	ast.Inspect(e, func(n ast.Node) bool {
		if x, isExpr := n.(ast.Expr); isExpr && !ok {
			if s, isStr := constString(m.info, x); isStr && s != "" {
				found, ok = s, true
			}
		}
		return !ok
	})
	return found, ok
}

// narrowConversion: e converts through an integer type of less than 64 bits (`uint64(uint32(n))`).
func (m *c19Model) narrowConversion(e ast.Expr) string {
	out := ""
	ast.Inspect(e, func(n ast.Node) bool {
		if call, ok := n.(*ast.CallExpr); ok && len(call.Args) == 1 && out == "" {
			if tv, ok := m.info.Types[call.Fun]; ok && tv.IsType() {
				out = c19NarrowType(tv.Type)
			}
		}
		return out == ""
	})
	return out
}

// siteKey finds the state-file key a parse is guarded by.
func (m *c19Model) siteKey(s *c19ParseSite, par map[ast.Node]ast.Node) string {
	// the enclosing case clause of a switch over the key
	for p := par[ast.Node(s.call)]; p != nil; p = par[p] {
		if cc, ok := p.(*ast.CaseClause); ok && len(cc.List) > 0 {
			if k, ok := m.constStringIn(cc.List[0]); ok {
				return k
			}
		}
	}
	// a branch condition known true that mentions a constant string (the innermost one)
	g := m.graph(s.fi)
	key := ""
	for _, f := range factsAtPos(m.info, g.g, g.dom, s.call.Pos()) {
		if !f.val {
			continue
		}
		if k, ok := m.constStringIn(f.expr); ok {
			key = k
		}
	}
	return key
}

// destination follows the parsed number: the variable or field it is first stored in, and the State field it ends in.
func (m *c19Model) destination(s *c19ParseSite, par map[ast.Node]ast.Node) (first types.Type, field *types.Var, conv string) {
	info := m.info
	isStateField := func(f *types.Var) bool {
		st := m.stateT.Underlying().(*types.Struct)
		for i := 0; i < st.NumFields(); i++ {
			if st.Field(i) == f {
				return true
			}
		}
		return false
	}
	var v types.Object
	switch p := par[ast.Node(s.call)].(type) {
	case *ast.AssignStmt:
		if len(p.Lhs) > 0 {
			if f := fieldOf(info, p.Lhs[0]); f != nil {
				first = f.Type()
				if isStateField(f) {
					field = f
				}
				return
			}
			if v = objOf(info, p.Lhs[0]); v != nil {
				first = v.Type()
			}
		}
	case *ast.ValueSpec:
		if len(p.Names) > 0 {
			if v = info.Defs[p.Names[0]]; v != nil {
				first = v.Type()
			}
		}
	}
	if v == nil {
		return
	}
	// v flows into a State field: `state.F = conv(v)` or `State{F: conv(v)}`
	ast.Inspect(s.fi.Decl.Body, func(n ast.Node) bool {
		switch x := n.(type) {
		case *ast.AssignStmt:
			if len(x.Lhs) == len(x.Rhs) {
				for i, l := range x.Lhs {
					if f := fieldOf(info, l); f != nil && isStateField(f) && usesObj(info, x.Rhs[i], v) && field == nil {
						field, conv = f, m.narrowConversion(x.Rhs[i])
					}
				}
			}
		case *ast.KeyValueExpr:
			if id, ok := x.Key.(*ast.Ident); ok {
				if f, ok := info.Uses[id].(*types.Var); ok && f.IsField() && isStateField(f) && usesObj(info, x.Value, v) && field == nil {
					field, conv = f, m.narrowConversion(x.Value)
				}
			}
		}
		return true
	})
	return
}

func c19M4Width(r *core.R, m *c19Model) {
	fs := r.P.Fset
	// decoders
	stateReach := map[*types.Func]*FuncInfo{}
	for _, dm := range m.methods {
		if dm.role == "state" {
			for f, fi := range c19Reach(m.pk, m.funcs, dm.fi.Obj) {
				stateReach[f] = fi
			}
		}
	}
	isDecoder := map[*types.Func]bool{}
	var decoders []*FuncInfo
	for _, fi := range c19SortedFuncs(stateReach) {
		sig := fi.Obj.Type().(*types.Signature)
		if sig.Recv() != nil || sig.Results().Len() != 2 || !c19IsError(sig.Results().At(1).Type()) {
			continue
		}
		if p, ok := sig.Results().At(0).Type().(*types.Pointer); !ok || !types.Identical(p.Elem(), m.stateT) {
			continue
		}
		takesData := false
		for i := 0; i < sig.Params().Len(); i++ {
			t := sig.Params().At(i).Type()
			if sl, ok := t.Underlying().(*types.Slice); ok && types.Identical(sl.Elem(), types.Typ[types.Byte]) || c19IsStringT(t) {
				takesData = true
			}
		}
		if takesData {
			isDecoder[fi.Obj] = true
			decoders = append(decoders, fi)
		}
	}
	if len(decoders) == 0 {
		r.Anchor("state-file decoders: functions func([]byte) (*State, error) reachable from the exported state fetchers")
		return
	}
	for _, dec := range decoders {
		sites := m.parseSites(dec, isDecoder)
		if len(sites) == 0 {
			r.Unknown("width@"+dec.Name(), dec.Decl.Pos(), "%s reads no number with strconv.Atoi / ParseInt / ParseUint: how the numeric properties of the state file are read is not decided", dec.Name())
			continue
		}
		for _, s := range sites {
			par := parentsOf(r.P, s.fi)
			key := m.siteKey(s, par)
			first, field, conv := m.destination(s, par)
			if key == "" && field != nil {
				key = field.Name()
			}
			if key == "" {
				key = "?"
			}
			// the first step narrower than 64 bits
			narrow, where := s.narrow, "the parser `"+src(fs, s.call)+"`"
			if narrow == "" && first != nil {
				if n := c19NarrowType(first); n != "" {
					narrow, where = n, "the variable or field the result is stored in"
				}
			}
			if narrow == "" && conv != "" {
				narrow, where = conv, "a conversion on the way to the State field"
			}
			if narrow == "" && field != nil {
				if n := c19NarrowType(field.Type()); n != "" {
					narrow, where = n, "the field State."+field.Name()
				}
			}
			if narrow != "" {
				ends := ""
				if field != nil {
					ends = fmt.Sprintf(" (it ends in State.%s, a %s)", field.Name(), c19TypeName(field.Type()))
				}
				r.Bad(fmt.Sprintf("width@%s %s as %s", dec.Name(), key, narrow), s.call.Pos(), "the state-file number `%s` is read through %s, which is %s: less than 64 bits on some supported configuration (int is 32 bits with GOARCH=386)%s. A number above 2^31-1 on that line (planet state files carry such values, e.g. txnMax=2536398044) makes the decoder fail there with \"value out of range\", and every lookup that probes such a file returns an error", key, where, narrow, ends)
				continue
			}
			t := "?"
			if field != nil {
				t = c19TypeName(field.Type())
			} else if s.result != nil {
				t = c19TypeName(s.result)
			}
			r.OK(fmt.Sprintf("width@%s %s as %s", dec.Name(), key, t), s.call.Pos(), "`%s` reads 64 bits and the number stays in 64-bit variables and fields up to State%s on every configuration", src(fs, s.call), strings.TrimPrefix("."+key, ".?"))
		}
	}
}
