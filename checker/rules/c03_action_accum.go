package rules

import (
	"fmt"
	"go/types"
)

// c03ActionAccumulates checks that storing one more decoded child <label> into Action.<f>.<g> keeps the children
// decoded before it. An action of an osmChange/augmented diff may carry any number of node, way and relation children
// (Action.MarshalXML writes all of Action.OSM back), so the decoder has to accumulate them:
//
//   - when the action already holds an OSM body at the start of the iteration (the symbolic initial a.OSM is not known
//     to be nil on this path), the body has to be that same body, and the list has to be the initial list extended by
//     the decoded object;
//   - a fresh body is only acceptable on a path that established that the action had none.
//
// v is the value of Action.<f> at the end of the iteration, gv the value of its field g (which holds the object).
func c03ActionAccumulates(x *c03Interp, st *c03State, rv *c03V, f, g *types.Var, v, gv *c03V, label string) string {
	if rv == nil || rv.K != c03KInit {
		return "" // the receiver is not symbolic: nothing is known about a previous body
	}
	init := x.fieldInit(rv, f)
	if st.Zero(init) == triT {
		return "" // this path established that no child had been stored before
	}
	lost := fmt.Sprintf("the children decoded before this <%s> are discarded", label)
	if v.K != c03KInit || v.Key != init.Key {
		return fmt.Sprintf("<%s> is stored into a new %s body that replaces Action.%s although the action may already hold one: %s (Action.MarshalXML writes every element of Action.%s.%s, so a decoded action with two <%s> children does not round-trip)", label, c03Short(c03Deref(f.Type())), f.Name(), lost, f.Name(), g.Name(), label)
	}
	want := init.Key + "." + g.Name()
	if gv.K == c03KList {
		for b := gv.Base; b != nil; b = b.Base {
			if b.K == c03KInit && b.Key == want {
				return ""
			}
			if b.K != c03KList {
				break
			}
		}
		for _, e := range gv.Elems {
			if e.K == c03KSpread && len(e.From) == 1 && e.From[0].K == c03KInit && e.From[0].Key == want {
				return ""
			}
		}
	}
	return fmt.Sprintf("Action.%s.%s is replaced by a list that does not extend the previous one: %s", f.Name(), g.Name(), lost)
}
