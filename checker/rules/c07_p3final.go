package rules

import (
	"go/ast"
	"go/token"
	"go/types"
	"sort"
	"strings"

	"osmcheck/core"
)

// Once a goroutine of the pipeline has DROPPED a pair - its send lost against the Done case - the stream it feeds has
// a hole. The hole is harmless only if nothing that comes after it is delivered: "nil only after a complete scan" and
// "objects in file order" both fail when a later pair (a later block, or the io.EOF marker) still travels downstream.
// Two obligations per pipeline, by role:
//
//	drop-is-final@<role>      after the Done case of a select that also offers a send was taken, no send on a
//	                          pipeline channel is reachable in that goroutine (evaluated with the context cancelled,
//	                          which it is from then on): the goroutine returns instead of continuing its loop
//	closed-is-final@serializer a pair is only forwarded to the ordered queue when the receive that produced it is
//	                          known to have delivered a value (its ok flag was tested true): a worker that dropped a
//	                          pair and returned closes its output, and the zero value a closed output yields stands
//	                          for "the block of this slot is missing" - the serializer has to end there

func c07DropIsFinal(r *core.R, m *pbfModel) {
	const (
		normal = iota
		dropped
	)
	isPipeSend := func(s *ast.SendStmt) bool {
		return s != nil && !strings.HasPrefix(m.chanClass(nil, s.Chan), "?")
	}
	for _, g := range m.gos {
		g := g
		c := "drop-is-final@" + g.role
		// per dropping select (state dropped+k): the first send that is still reachable after it
		var drops []*ast.SelectStmt
		bad := map[*ast.SelectStmt]token.Pos{}
		hit := func(st int, s *ast.SendStmt) {
			if st >= dropped && st-dropped < len(drops) {
				if _, dup := bad[drops[st-dropped]]; !dup {
					bad[drops[st-dropped]] = s.Pos()
				}
			}
		}
		nSel := 0
		t := m.newTracer()
		t.inlineOnly(m, func(u *unit) bool { return m.hasChanOp(u) })
		t.Event = func(st int, ev *pbfEvent) int {
			switch ev.kind {
			case "comm":
				cc := ev.n.(*ast.CommClause)
				par := parentsOf(m.p, ev.fi)
				sel, _ := par[par[cc]].(*ast.SelectStmt)
				if s := c02CommSend(cc); s != nil && isPipeSend(s) {
					hit(st, s)
				}
				if dc := m.doneCase(sel); dc != nil && dc == cc {
					offersSend := false
					for _, o := range sel.Body.List {
						if s := c02CommSend(o.(*ast.CommClause)); s != nil && isPipeSend(s) {
							offersSend = true
						}
					}
					if offersSend {
						for k, d := range drops {
							if d == sel {
								return dropped + k
							}
						}
						nSel++
						drops = append(drops, sel)
						return dropped + len(drops) - 1
					}
				}
			case "node":
				if s, ok := ev.n.(*ast.SendStmt); ok && isPipeSend(s) {
					hit(st, s)
				}
			}
			return st
		}
		// after the drop the context is cancelled for good: its tests are decided
		t.Edge = func(st int, cond ast.Expr, val bool, _ *FuncInfo) (int, bool) {
			if st < dropped {
				return st, true
			}
			v := evalTri(cond, m.cancelledAtom)
			return st, v == triU || (v == triT) == val
		}
		t.Run(g.unit.fi, g.unit.body, normal)
		switch {
		case len(t.incomplete) > 0:
			r.Unknown(c, g.stmt.Pos(), "the %s goroutine could not be followed on every path: %s", g.role, strings.Join(t.incomplete, "; "))
		case len(bad) > 0:
			// one report per select whose Done case does not end the goroutine (in source order)
			var sels []*ast.SelectStmt
			for sel := range bad {
				sels = append(sels, sel)
			}
			sort.Slice(sels, func(i, j int) bool { return sels[i].Pos() < sels[j].Pos() })
			for _, sel := range sels {
				r.Bad(c, sel.Pos(), "after the %s's send lost against `<-ctx.Done()` in this select (the pair is dropped) the goroutine goes on and `%s` can still be taken: a later pair - a later block or the io.EOF marker - is delivered although an earlier one is missing, so a Scan in progress hands out objects of block k+1 without block k, or Scan ends with Err() == nil on an incomplete, cancelled scan", g.role, c07SrcAt(m, g, bad[sel]))
			}
		case nSel == 0:
			r.OKTrivial(c, g.stmt.Pos(), "the %s has no select that offers a send next to the Done case", g.role)
		default:
			r.OK(c, g.stmt.Pos(), "after a send of the %s lost against the Done case no further send on a pipeline channel is reachable: the goroutine returns (or its loop tests the context, which is cancelled from then on)", g.role)
		}
	}
}

// c07SrcAt renders the send statement at pos in goroutine g (or a helper it calls).
func c07SrcAt(m *pbfModel, g *goSite, pos token.Pos) string {
	out := ""
	m.deepWalk(g.unit, func(s *pbfSite, n ast.Node) bool {
		if snd, ok := n.(*ast.SendStmt); ok && snd.Pos() == pos {
			out = src(m.p.Fset, snd)
		}
		return out == ""
	})
	return out
}

// c07RecvOf finds the receive in statement n (`v := <-ch`, `v, ok = <-ch`, `<-ch`): channel and ok variable.
func c07RecvOf(info *types.Info, n ast.Node) (from ast.Expr, okVar types.Object) {
	switch s := n.(type) {
	case *ast.ExprStmt:
		if ue, ok := ast.Unparen(s.X).(*ast.UnaryExpr); ok && ue.Op == token.ARROW {
			return ue.X, nil
		}
	case *ast.AssignStmt:
		if len(s.Rhs) == 1 {
			if ue, ok := ast.Unparen(s.Rhs[0]).(*ast.UnaryExpr); ok && ue.Op == token.ARROW {
				if len(s.Lhs) == 2 {
					return ue.X, objOf(info, s.Lhs[1])
				}
				return ue.X, nil
			}
		}
	}
	return nil, nil
}

func c07ClosedIsFinal(r *core.R, m *pbfModel) {
	g := m.goOf("serializer")
	_, out, queue := m.pipelineClasses()
	if g == nil || out == "" || queue == "" {
		return // (anchors are reported by the loop obligations)
	}
	const (
		idle       = iota
		unverified // a value was received from a worker's output; whether the output was closed is not known
		verified   // the receive's ok flag was tested true
	)
	c := "closed-is-final@serializer"
	flags := map[types.Object]bool{}
	var bad []token.Pos
	nFwd := 0
	recv := func(n ast.Node) (bool, types.Object) {
		from, okVar := c07RecvOf(m.info, n)
		return from != nil && m.chanClass(nil, from) == out, okVar
	}
	fwd := func(st int, s *ast.SendStmt) int {
		if s == nil || m.chanClass(nil, s.Chan) != queue {
			return st
		}
		nFwd++
		if st == unverified {
			bad = append(bad, s.Pos())
		}
		return st
	}
	t := m.newTracer()
	t.inlineOnly(m, func(u *unit) bool { return m.hasChanOp(u) })
	t.Event = func(st int, ev *pbfEvent) int {
		switch ev.kind {
		case "range":
			if rs := ev.n.(*ast.RangeStmt); m.chanClass(nil, rs.X) == out {
				return verified // a range over a channel only yields delivered values
			}
		case "comm":
			cc := ev.n.(*ast.CommClause)
			if is, okVar := recv(cc.Comm); is {
				if okVar != nil {
					flags[okVar] = true
				}
				return unverified
			}
			return fwd(st, c02CommSend(cc))
		case "node":
			if is, okVar := recv(ev.n); is {
				if okVar != nil {
					flags[okVar] = true
				}
				return unverified
			}
			if s, ok := ev.n.(*ast.SendStmt); ok {
				return fwd(st, s)
			}
		}
		return st
	}
	t.Edge = func(st int, cond ast.Expr, val bool, _ *FuncInfo) (int, bool) {
		if st != unverified || len(flags) == 0 {
			return st, true
		}
		var facts []guardFact
		splitFacts(cond, val, nil, &facts)
		for _, ft := range facts {
			if id, ok := ast.Unparen(ft.expr).(*ast.Ident); ok && ft.val && flags[objOf(m.info, id)] {
				return verified, true
			}
		}
		return st, true
	}
	t.Run(g.unit.fi, g.unit.body, idle)
	switch {
	case len(t.incomplete) > 0:
		r.Unknown(c, g.stmt.Pos(), "the serializer could not be followed on every path: %s", strings.Join(t.incomplete, "; "))
	case len(bad) > 0:
		r.Bad(c, bad[0], "the serializer forwards what it received from dec.%s to dec.%s without knowing that the receive delivered a value (no `v, ok := <-ch` whose ok was tested): after a cancel a worker that dropped its pair exits and closes its output, the closed output yields the zero pair in place of the missing block, the serializer forwards it and goes on to the next slot - the io.EOF marker overtakes the dropped block and Scan ends with Err() == nil on an incomplete, cancelled scan", out, queue)
	case nFwd == 0:
		r.Anchor("serializer forward to the ordered queue")
	default:
		r.OK(c, g.stmt.Pos(), "every pair forwarded to dec.%s comes from a receive on dec.%s whose ok flag was tested true (or from a range): a closed output - a block missing after a drop - ends the serializer instead of being skipped", queue, out)
	}
}
