package rules

import (
	"fmt"
	"go/ast"
	"go/token"
	"go/types"
	"math/big"
	"strings"

	"osmcheck/core"
)

// C06.E11 — allocation sizes that derive from decoded quantities cannot overflow or go negative.
//
// For every `make(T, len[, cap])` of a slice or map in package osmpbf whose size arguments are not constants, the size
// expression is evaluated over intervals, in the Go type of every sub-expression:
//   - constants are exact;
//   - quantities bounded by memory that already exists (len, cap, protoscan's Iterator.Count, counters that are only
//     incremented) lie in [0, 2^30];
//   - a DECODED quantity (a generated getter or field of a file message, a protoscan scalar read, an encoding/binary
//     integer) lies in the range of its type, narrowed by what the branch conditions on the way establish (guards with an
//     error exit, merged or inverted tests, validator functions, the success returns of the function the value comes
//     from); parameters take the union over the call sites in the package;
//   - + - * / % << >> and conversions are evaluated on the intervals; a result outside the range of the expression's
//     type means the arithmetic can wrap.
// A size that depends on a decoded quantity must come out within [0, 2^31-1] without any step being able to wrap;
// otherwise a damaged size field makes `make` panic (negative or huge capacity) in a decoder goroutine, which kills the
// process instead of ending the scan in an error. Sizes that do not depend on decoded quantities are not this rule's
// business.

type c06Iv struct {
	lo, hi  *big.Int
	decoded bool   // depends on a decoded quantity
	unknown string // non-empty: not bounded (what and why)
	wrap    string // non-empty: a step that can leave the range of its type
}

type c06AllocEval struct {
	r    *core.R
	m    *pbfModel
	info *types.Info
	pos  token.Pos
}

var c06Trusted = new(big.Int).Lsh(big.NewInt(1), 30)

func (a *c06AllocEval) typeRange(t types.Type) (*big.Int, *big.Int, bool) {
	bt, ok := t.Underlying().(*types.Basic)
	if !ok || bt.Info()&types.IsInteger == 0 {
		return nil, nil, false
	}
	bits := uint(64)
	if a.m.pk.TypesSizes != nil {
		bits = uint(a.m.pk.TypesSizes.Sizeof(t)) * 8
	}
	if bt.Info()&types.IsUnsigned != 0 {
		return big.NewInt(0), new(big.Int).Sub(new(big.Int).Lsh(big.NewInt(1), bits), big.NewInt(1)), true
	}
	h := new(big.Int).Lsh(big.NewInt(1), bits-1)
	return new(big.Int).Neg(h), new(big.Int).Sub(h, big.NewInt(1)), true
}

// isDecoded: call / selector yields an integer read from the input.
func (a *c06AllocEval) isDecoded(e ast.Expr) bool {
	info := a.info
	switch x := ast.Unparen(e).(type) {
	case *ast.CallExpr:
		fn := callee(info, x)
		if fn == nil {
			return false
		}
		if strings.HasPrefix(fn.Name(), "Get") && c01GenTypeName(c01RecvTypeOf(fn)) != "" {
			return true
		}
		if rt := namedPath(c01RecvTypeOf(fn)); rt == protoscanMsg || rt == protoscanIter || strings.HasSuffix(rt, "/protoscan.base") {
			switch fn.Name() {
			case "Count", "HasNext", "Next", "FieldNumber", "Err":
				return false
			}
			return true
		}
		if fn.Pkg() != nil && fn.Pkg().Path() == "encoding/binary" {
			return true
		}
	case *ast.SelectorExpr:
		if f := fieldOf(info, x); f != nil && c01GenTypeName(selRecv(info, x)) != "" {
			return true
		}
	case *ast.StarExpr:
		return a.isDecoded(x.X)
	}
	return false
}

func c06IvConst(v int64) c06Iv { return c06Iv{lo: big.NewInt(v), hi: big.NewInt(v)} }

// eval returns the interval of integer expression e evaluated at a.pos in f.
func (a *c06AllocEval) eval(f *c01Fn, e ast.Expr, depth int) c06Iv {
	info := a.info
	e = ast.Unparen(e)
	tlo, thi, isInt := a.typeRange(info.TypeOf(e))
	if tv, ok := info.Types[e]; ok && tv.Value != nil {
		if r := c01RatOf(tv.Value); r != nil && r.IsInt() {
			return c06Iv{lo: new(big.Int).Set(r.Num()), hi: new(big.Int).Set(r.Num())}
		}
	}
	if !isInt || depth > 8 {
		return c06Iv{unknown: "`" + src(a.r.P.Fset, e) + "` is not an integer expression the rule understands"}
	}
	clampCheck := func(iv c06Iv, what string) c06Iv {
		if iv.unknown != "" || iv.wrap != "" {
			return iv
		}
		if iv.lo.Cmp(tlo) < 0 || iv.hi.Cmp(thi) > 0 {
			iv.wrap = fmt.Sprintf("`%s` (%s) can take values in [%s, %s], outside the range of its type: the arithmetic wraps", src(a.r.P.Fset, e), what, iv.lo, iv.hi)
		}
		return iv
	}
	// bounds the branch conditions establish for the expression as a whole
	fromFacts := func(decoded bool) (c06Iv, bool) {
		b := c06ProveBound(a.r, a.m, f, e, a.pos)
		lo, hi := tlo, thi
		if b.nonNeg && lo.Sign() < 0 {
			lo = big.NewInt(0)
		}
		if b.hasUpper {
			hi = big.NewInt(b.upper)
		}
		return c06Iv{lo: lo, hi: hi, decoded: decoded}, b.hasUpper && (b.nonNeg || tlo.Sign() >= 0)
	}
	switch x := e.(type) {
	case *ast.Ident:
		o := objOf(info, x)
		if o == nil {
			break
		}
		if iv, both := fromFacts(false); both {
			// still has to know whether the value is a decoded one
			iv.decoded = a.dependsOnDecoded(f, e, 0)
			return iv
		}
		if idx := c01ParamIndex(info, f.fi, o); idx >= 0 && f.body == f.fi.Decl.Body {
			return a.param(f, idx, depth)
		}
		if o2, ok := o.(*types.Var); ok && !o2.IsField() && (c06IsCounter(info, f.fi, o) || c06OnlyGrows(info, f.fi, o)) {
			return c06Iv{lo: big.NewInt(0), hi: c06Trusted}
		}
		ds := c01Defs(info, f.body, o)
		if len(ds) == 1 && ds[0].rhs != nil && ds[0].index < 0 {
			return a.eval(f, ds[0].rhs, depth+1)
		}
		if len(ds) == 1 && ds[0].rhs != nil && ds[0].index == 0 && a.isDecoded(ds[0].rhs) {
			iv, _ := fromFacts(true)
			return iv
		}
	case *ast.CallExpr:
		if c01IsConversion(info, x) && len(x.Args) == 1 {
			return clampCheck(a.eval(f, x.Args[0], depth+1), "conversion")
		}
		switch builtinName(info, x) {
		case "len", "cap":
			return c06Iv{lo: big.NewInt(0), hi: c06Trusted}
		}
		if fn := callee(info, x); fn != nil && fn.Name() == "Count" && namedPath(c01RecvTypeOf(fn)) != "" && strings.Contains(namedPath(c01RecvTypeOf(fn)), "/protoscan.") {
			return c06Iv{lo: big.NewInt(0), hi: c06Trusted}
		}
		if a.isDecoded(x) {
			iv, _ := fromFacts(true)
			return iv
		}
	case *ast.SelectorExpr, *ast.StarExpr:
		if a.isDecoded(x) {
			iv, _ := fromFacts(true)
			return iv
		}
	case *ast.UnaryExpr:
		if x.Op == token.SUB {
			v := a.eval(f, x.X, depth+1)
			if v.unknown != "" || v.wrap != "" {
				return v
			}
			return clampCheck(c06Iv{lo: new(big.Int).Neg(v.hi), hi: new(big.Int).Neg(v.lo), decoded: v.decoded}, "negation")
		}
	case *ast.BinaryExpr:
		l, r := a.eval(f, x.X, depth+1), a.eval(f, x.Y, depth+1)
		for _, v := range []c06Iv{l, r} {
			if v.wrap != "" {
				return v
			}
		}
		for _, v := range []c06Iv{l, r} {
			if v.unknown != "" {
				v.decoded = l.decoded || r.decoded
				return v
			}
		}
		out := c06Iv{decoded: l.decoded || r.decoded}
		corners := func(op func(a, b *big.Int) *big.Int) {
			for i, p := range [][2]*big.Int{{l.lo, r.lo}, {l.lo, r.hi}, {l.hi, r.lo}, {l.hi, r.hi}} {
				v := op(p[0], p[1])
				if i == 0 || v.Cmp(out.lo) < 0 {
					out.lo = v
				}
				if i == 0 || v.Cmp(out.hi) > 0 {
					out.hi = v
				}
			}
		}
		switch x.Op {
		case token.ADD:
			out.lo, out.hi = new(big.Int).Add(l.lo, r.lo), new(big.Int).Add(l.hi, r.hi)
		case token.SUB:
			out.lo, out.hi = new(big.Int).Sub(l.lo, r.hi), new(big.Int).Sub(l.hi, r.lo)
		case token.MUL:
			corners(func(p, q *big.Int) *big.Int { return new(big.Int).Mul(p, q) })
		case token.QUO:
			if r.lo.Sign() <= 0 && r.hi.Sign() >= 0 {
				return c06Iv{unknown: "`" + src(a.r.P.Fset, x) + "` divides by a value that may be 0", decoded: out.decoded}
			}
			corners(func(p, q *big.Int) *big.Int { return new(big.Int).Quo(p, q) })
		case token.REM:
			if r.lo.Sign() <= 0 {
				return c06Iv{unknown: "`" + src(a.r.P.Fset, x) + "`: remainder by a value that is not known positive", decoded: out.decoded}
			}
			m := new(big.Int).Sub(r.hi, big.NewInt(1))
			out.lo, out.hi = big.NewInt(0), m
			if l.lo.Sign() < 0 {
				out.lo = new(big.Int).Neg(m)
			}
			if l.lo.Sign() >= 0 && l.hi.Cmp(m) < 0 {
				out.hi = l.hi
			}
		case token.SHL, token.SHR:
			if r.lo.Cmp(r.hi) != 0 || r.lo.Sign() < 0 || r.lo.Cmp(big.NewInt(62)) > 0 {
				return c06Iv{unknown: "`" + src(a.r.P.Fset, x) + "`: shift by a non-constant amount", decoded: out.decoded}
			}
			k := uint(r.lo.Int64())
			if x.Op == token.SHL {
				out.lo, out.hi = new(big.Int).Lsh(l.lo, k), new(big.Int).Lsh(l.hi, k)
			} else {
				out.lo, out.hi = new(big.Int).Rsh(l.lo, k), new(big.Int).Rsh(l.hi, k)
			}
		case token.AND:
			if r.lo.Sign() >= 0 {
				out.lo, out.hi = big.NewInt(0), r.hi
			} else if l.lo.Sign() >= 0 {
				out.lo, out.hi = big.NewInt(0), l.hi
			} else {
				return c06Iv{unknown: "`" + src(a.r.P.Fset, x) + "`: bit operation on values that may be negative", decoded: out.decoded}
			}
		default:
			return c06Iv{unknown: "`" + src(a.r.P.Fset, x) + "`: operator not modelled", decoded: out.decoded}
		}
		return clampCheck(out, "computed in "+info.TypeOf(x).String())
	}
	iv, both := fromFacts(a.dependsOnDecoded(f, e, 0))
	if both {
		return iv
	}
	if iv.decoded {
		return iv
	}
	return c06Iv{unknown: "`" + src(a.r.P.Fset, e) + "` is not bounded by constants on every path", decoded: false}
}

// param: the union of the argument's interval over the call sites of f in the package.
func (a *c06AllocEval) param(f *c01Fn, idx, depth int) c06Iv {
	info := a.info
	var out *c06Iv
	for _, caller := range allFuncs(a.m.pk) {
		cf0 := c01FnOf(a.r.P, caller)
		var bad *c06Iv
		ast.Inspect(caller.Decl.Body, func(y ast.Node) bool {
			call, ok := y.(*ast.CallExpr)
			if !ok || callee(info, call) != f.fi.Obj || idx >= len(call.Args) || bad != nil {
				return true
			}
			sub := &c06AllocEval{r: a.r, m: a.m, info: info, pos: call.Pos()}
			v := sub.eval(cf0.innermost(call), call.Args[idx], depth+1)
			if v.unknown != "" || v.wrap != "" {
				bad = &v
				return true
			}
			if out == nil {
				out = &v
				return true
			}
			if v.lo.Cmp(out.lo) < 0 {
				out.lo = v.lo
			}
			if v.hi.Cmp(out.hi) > 0 {
				out.hi = v.hi
			}
			out.decoded = out.decoded || v.decoded
			return true
		})
		if bad != nil {
			return *bad
		}
	}
	if out == nil {
		return c06Iv{unknown: "parameter without a call site in the package"}
	}
	return *out
}

// dependsOnDecoded: e mentions (through single-definition locals) a decoded quantity.
func (a *c06AllocEval) dependsOnDecoded(f *c01Fn, e ast.Expr, depth int) bool {
	if depth > 4 {
		return false
	}
	hit := false
	ast.Inspect(e, func(n ast.Node) bool {
		if hit {
			return false
		}
		switch x := n.(type) {
		case *ast.CallExpr, *ast.SelectorExpr:
			if a.isDecoded(x.(ast.Expr)) {
				hit = true
			}
		case *ast.Ident:
			if o := objOf(a.info, x); o != nil {
				for _, d := range c01Defs(a.info, f.body, o) {
					if d.rhs != nil && a.dependsOnDecoded(f, d.rhs, depth+1) {
						hit = true
					}
				}
			}
		}
		return !hit
	})
	return hit
}
