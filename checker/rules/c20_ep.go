package rules

import (
	"fmt"
	"go/types"
	"strings"
)

// c20EpRun is the symbolic execution of one endpoint method: getFromAPI is an event ("request"), every other
// function of the package is inlined.
type c20EpRun struct {
	fi      *FuncInfo
	rets    []*c20St // paths that return
	aborted []*c20St // paths the executor does not understand
}

func (cx *c20Ctx) runWith(fi *FuncInfo, sep string, opaque func(*types.Func) string) *c20EpRun {
	x := c20NewSX(cx, fi, opaque)
	x.sep = sep
	run := &c20EpRun{fi: fi}
	for _, st := range x.run() {
		switch st.ctl {
		case c20cRet:
			run.rets = append(run.rets, st)
		case c20cAbort:
			run.aborted = append(run.aborted, st)
		}
	}
	return run
}

func (cx *c20Ctx) runEndpoint(fi *FuncInfo, sep string) *c20EpRun {
	if cx.epRuns == nil {
		cx.epRuns = map[*FuncInfo]*c20EpRun{}
	}
	if r := cx.epRuns[fi]; r != nil {
		return r
	}
	r := cx.runWith(fi, sep, func(fn *types.Func) string {
		if fn == cx.getFn.Obj {
			return "request"
		}
		return ""
	})
	cx.epRuns[fi] = r
	return r
}

// abortText describes why an execution is not understood (first reason).
func (run *c20EpRun) abortText(cx *c20Ctx) (string, *c20St) {
	if len(run.aborted) == 0 {
		return "", nil
	}
	a := run.aborted[0]
	at := ""
	if a.whyAt != nil {
		at = " at " + cx.r.P.Rel(a.whyAt.Pos())
	}
	return strings.TrimPrefix(strings.TrimPrefix(a.why, "loop:"), "panic:") + at, a
}

// loopAbort returns a path aborted because a request sits in a loop.
func (run *c20EpRun) loopAbort() *c20St {
	for _, a := range run.aborted {
		if strings.HasPrefix(a.why, "loop:") {
			return a
		}
	}
	return nil
}

// panicAbort returns a path on which the executor found a panic reachable with valid inputs.
func (run *c20EpRun) panicAbort() *c20St {
	for _, a := range run.aborted {
		if strings.HasPrefix(a.why, "panic:") {
			return a
		}
	}
	return nil
}

// isSuccess: the path returns and its last result is the nil error.
func c20IsSuccess(st *c20St) bool {
	if st.ctl != c20cRet || len(st.ret) == 0 {
		return false
	}
	return st.resolve(st.ret[len(st.ret)-1]).k == c20kNil
}

// isInput: v is exactly the root's input with the given key (no formatting, no field unless in key).
func c20IsInput(v c20V, key string) bool {
	switch v.k {
	case c20kIn:
		return v.h.key() == key && v.h.fn == "" && v.tag == ""
	case c20kStr:
		return len(v.sym) == 1 && v.sym[0].hole != nil && v.sym[0].hole.key() == key && v.sym[0].hole.fn == "" && v.sym[0].hole.verb == "" && !v.sym[0].hole.base
	}
	return false
}

// target resolves the decode target argument of a request event: &local -> the value the local held at the call.
func c20Target(ev c20Event, i int) c20V {
	if i >= len(ev.args) {
		return c20Unknown("missing argument")
	}
	if i < len(ev.deref) && ev.deref[i] != nil {
		return *ev.deref[i]
	}
	return ev.args[i]
}

func c20Plural(n int, s string) string {
	if n == 1 {
		return fmt.Sprintf("1 %s", s)
	}
	return fmt.Sprintf("%d %ss", n, s)
}

// c20PathText describes the assumptions of a path for a diagnostic: its facts and the conditions explored both ways.
func c20PathText(st *c20St) string {
	t := st.factText()
	if len(st.notes) > 0 {
		if t != "" {
			t += "; "
		}
		t += "explored both ways: " + strings.Join(st.notes, ", ")
	}
	if t == "" {
		t = "unconditionally"
	}
	return t
}
