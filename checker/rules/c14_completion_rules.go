package rules

import (
	"go/ast"

	"osmcheck/core"
)

// completionArmed: exactly one go statement starts the producer, and the completion carrier is armed before it.
func (m *c14Model) completionArmed(r *core.R, c string) {
	cg, ctorName := m.cg, m.ctor.Name()
	nodes, bad, why := m.arming()
	inLoop := false
	if m.goNode != nil {
		inLoop = cg.reach(c14Succs(cg.statesOf(m.goNode), nil), nil, nil).hasNode(m.goNode)
	}
	switch {
	case m.goNode == nil || m.pg == nil || inLoop:
		r.Bad(c, m.ctor.Decl.Pos(), "expected exactly one go statement, outside any loop, starting a closure or a function of this module in %s (found %d go statements): visited set and path are owned by a single producer", ctorName, len(cg.gos))
	case len(nodes) == 0 && m.fWG != nil:
		r.Bad(c, m.goNode.pos(), "no `….%s.Add(1)` before the go statement: the deferred Done makes the counter negative (panic) and Close does not wait for the producer", m.fWG.Name())
	case len(nodes) == 0:
		r.Bad(c, m.goNode.pos(), "the completion channel %s is never initialised: closing it panics and Close blocks for ever on the nil channel", m.fStop.Name())
	case bad != nil:
		r.Bad(c, bad.pos(), "%s", why)
	case cg.reach([]*c14State{cg.entry}, c14StopAt(nodes...), nil).hasNode(m.goNode) || cg.reach(cg.statesOf(m.goNode), nil, nil).hasNode(nodes...):
		r.Bad(c, nodes[0].pos(), "`%s` does not precede the go statement on every path (or is repeated after it): Close may wait on a %s the producer does not signal, or return before the producer has finished", m.nodeSrc(nodes[0]), m.carrierName())
	default:
		r.OK(c, nodes[0].pos(), "the %s is armed by `%s` on every path to the only go statement of %s", m.carrierName(), m.nodeSrc(nodes[0]), ctorName)
	}
}

// completionSignalled: on every way out the producer closes the output channel and signals completion, and the signal is
// its last action.
func (m *c14Model) completionSignalled(r *core.R, c string) {
	pg := m.pg
	if pg == nil {
		return
	}
	pd := m.producerDefers()
	escapes := func(ds []*c14Node) bool {
		return len(ds) == 0 || len(pg.reach([]*c14State{pg.entry}, c14StopAt(ds...), nil).exits()) > 0
	}
	switch {
	case escapes(pd.doneDefers):
		r.Bad(c, pg.root.fn.pos(), "the producer goroutine does not defer `%s` before its first way out: Close blocks forever waiting for it", m.signalText())
	case escapes(pd.closeDefers):
		r.Bad(c, pg.root.fn.pos(), "the producer goroutine does not defer `close(….%s)` before its first way out: after the last id Next blocks in its select until somebody cancels — the iteration never ends on its own", m.fOut.Name())
	default:
		r.OK(c, pg.root.fn.pos(), "the producer (%s) defers %s and close(….%s) on every path before it can return: both run on every exit of the goroutine", pg.root.fn.name, m.signalText(), m.fOut.Name())
	}

	// the signal is the last thing the producer does: deferred calls run in reverse order of registration, so the signalling
	// defer must be registered before the one that closes the output channel (or signal after closing inside one function)
	c = "completion-last@producer"
	var late *c14Node
	for _, cd := range pd.closeDefers {
		isAlsoSignal := false
		for _, dd := range pd.doneDefers {
			isAlsoSignal = isAlsoSignal || dd == cd
		}
		if !isAlsoSignal && pg.reach([]*c14State{pg.entry}, c14StopAt(pd.doneDefers...), nil).hasNode(cd) {
			late = cd // registered before the signal: runs after it
		}
	}
	if pd.signalNotLast != nil {
		late = pd.signalNotLast
	}
	// plain (not deferred) signals inside the producer body would come before the deferred close as well
	plain := m.callsWhere(pg, func(n *c14Node, ce *ast.CallExpr) bool { return m.isSignal(pg, n, ce) })
	switch {
	case len(plain) > 0:
		r.Bad(c, plain[0].call.Pos(), "`%s` signals completion in the middle of the producer: Close can return while the producer is still running (it still has to close the output channel, or walks on)", src(m.p.Fset, plain[0].call))
	case late != nil:
		r.Bad(c, late.pos(), "`%s` runs after the producer has signalled completion (%s): Close can return while the producer goroutine is still running — the output channel is closed, and o.err / CompletedIndex may still be written, after Close has returned", m.nodeSrc(late), m.signalText())
	case len(pd.doneDefers) > 0:
		r.OK(c, pd.doneDefers[0].pos(), "`%s` is registered before the close of the output channel (deferred calls run in reverse order): signalling completion is the producer's last action", m.nodeSrc(pd.doneDefers[0]))
	}

	// nobody else signals completion
	c = "completion-sites"
	bad := false
	for _, fi := range allFuncs(m.pk) {
		fi := fi
		ast.Inspect(fi.Decl.Body, func(x ast.Node) bool {
			ce, ok := x.(*ast.CallExpr)
			if !ok || pd.signalCalls[ce] {
				return true
			}
			is := false
			if m.fWG != nil {
				if sel, ok := ast.Unparen(ce.Fun).(*ast.SelectorExpr); ok && isMethod(callee(m.info, ce), "sync.WaitGroup", "Done") && fieldOf(m.info, sel.X) == m.fWG {
					is = true
				}
			} else if builtinName(m.info, ce) == "close" && len(ce.Args) == 1 && fieldOf(m.info, ce.Args[0]) == m.fStop {
				is = true
			}
			if is {
				bad = true
				r.Bad(c, ce.Pos(), "`%s` in %s signals the completion of the producer outside the producer's deferred signal: Close returns while the producer is still running (or the %s is released twice: panic)", src(m.p.Fset, ce), fi.Name(), m.carrierName())
			}
			return true
		})
	}
	if !bad {
		r.OKTrivial(c, m.ctor.Decl.Pos(), "%d call(s) signal completion on the %s, all the producer's deferred signal", len(pd.signalCalls), m.carrierName())
	}
}
