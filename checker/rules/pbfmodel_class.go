package rules

import (
	"go/ast"
	"go/types"
	"strings"
)

// pbfSlot locates a channel class in the decoder: the decoder field (for per-worker channels a slice), and, when that
// slice holds structs (`lanes []lane{in, out}`), the struct field that holds the channel. The class of such a channel
// is named "<slice field>.<struct field>".
type pbfSlot struct {
	slice *types.Var // decoder field
	elem  *types.Var // field of the slice's element struct, or nil
}

// slotOf resolves a class name to its slot.
func (m *pbfModel) slotOf(class string) pbfSlot {
	st, ok := m.decoderT.Underlying().(*types.Struct)
	if !ok {
		return pbfSlot{}
	}
	name, sub := class, ""
	if i := strings.IndexByte(class, '.'); i >= 0 {
		name, sub = class[:i], class[i+1:]
	}
	for i := 0; i < st.NumFields(); i++ {
		f := st.Field(i)
		if f.Name() != name {
			continue
		}
		if sub == "" {
			return pbfSlot{slice: f}
		}
		if es := pbfElemStruct(f.Type()); es != nil {
			for k := 0; k < es.NumFields(); k++ {
				if es.Field(k).Name() == sub {
					return pbfSlot{slice: f, elem: es.Field(k)}
				}
			}
		}
	}
	return pbfSlot{}
}

// pbfElemStruct returns the struct type of the elements of a slice (of structs or of pointers to structs).
func pbfElemStruct(t types.Type) *types.Struct {
	sl, ok := t.Underlying().(*types.Slice)
	if !ok {
		return nil
	}
	et := sl.Elem()
	if pt, ok := et.(*types.Pointer); ok {
		et = pt.Elem()
	}
	st, _ := et.Underlying().(*types.Struct)
	return st
}

// classNameOf names the class of the channel selected by sel (field f): "<F>.<f>" when the selection is made on an
// element of a slice field F of structs (`dec.lanes[i].in`), else the field's own name.
func (m *pbfModel) classNameOf(sel *ast.SelectorExpr, f *types.Var) string {
	if ix, ok := ast.Unparen(sel.X).(*ast.IndexExpr); ok {
		if g := fieldOf(m.info, ix.X); g != nil && pbfElemStruct(g.Type()) != nil {
			return g.Name() + "." + f.Name()
		}
	}
	// `l := dec.lanes[i]; l.in`, `for _, l := range dec.lanes { l.in }`: a local that holds an element
	if o, ok := objOf(m.info, sel.X).(*types.Var); ok && !o.IsField() {
		for _, d := range m.defsOf(o) {
			var src ast.Expr
			switch d.kind {
			case "assign":
				if ix, ok := ast.Unparen(pbfStripAddr(d.e)).(*ast.IndexExpr); ok {
					src = ix.X
				}
			case "range-value":
				src = d.e
			}
			if src != nil {
				if g := fieldOf(m.info, src); g != nil && pbfElemStruct(g.Type()) != nil {
					return g.Name() + "." + f.Name()
				}
			}
		}
	}
	return f.Name()
}

func pbfStripAddr(e ast.Expr) ast.Expr {
	if ue, ok := ast.Unparen(e).(*ast.UnaryExpr); ok && ue.Op.String() == "&" {
		return ue.X
	}
	return e
}

// storeClass names the class a value is registered under when it is stored at lhs: `dec.F[i]` or `dec.F` (append
// target) give "F"; with elemField the value is a field of a struct stored there: "F.<elemField>".
func (m *pbfModel) storeClass(lhs ast.Expr, elemField *types.Var) string {
	lhs = ast.Unparen(lhs)
	if ix, ok := lhs.(*ast.IndexExpr); ok {
		lhs = ast.Unparen(ix.X)
	}
	f := fieldOf(m.info, lhs)
	if f == nil || namedPath(selRecv(m.info, lhs)) != namedPath(m.decoderT) {
		return ""
	}
	if elemField != nil {
		return f.Name() + "." + elemField.Name()
	}
	return f.Name()
}

// registeredClasses finds the classes local variable o is registered under in a slice of the decoder, other than by a
// plain append of o itself: `dec.F[i] = o` (also in a tuple assignment), o as a field of a struct literal that is
// appended to / stored in a slice field, and o returned by its function to callers that register the result.
func (m *pbfModel) registeredClasses(o types.Object, seen map[types.Object]bool) map[string]bool {
	out := map[string]bool{}
	fi := m.funcAt(o.Pos())
	if fi == nil {
		return out
	}
	par := m.view.parents(fi)
	// destination of a value expression v that sits on the right of an assignment / in an append
	destOf := func(v ast.Expr) (ast.Expr, bool) {
		switch p := par[v].(type) {
		case *ast.AssignStmt:
			if len(p.Lhs) == len(p.Rhs) {
				for i, r := range p.Rhs {
					if r == v {
						return p.Lhs[i], true
					}
				}
			}
		case *ast.CallExpr:
			if builtinName(m.info, p) == "append" && len(p.Args) >= 2 && p.Args[0] != v {
				if as, ok := par[p].(*ast.AssignStmt); ok && len(as.Lhs) == len(as.Rhs) {
					for i, r := range as.Rhs {
						if r == ast.Expr(p) {
							return as.Lhs[i], true
						}
					}
				}
			}
		}
		return nil, false
	}
	ast.Inspect(fi.Decl.Body, func(n ast.Node) bool {
		id, ok := n.(*ast.Ident)
		if !ok || m.info.Uses[id] != o {
			return true
		}
		var v ast.Expr = id
		for {
			if pe, ok := par[v].(*ast.ParenExpr); ok {
				v = pe
				continue
			}
			break
		}
		// o itself stored into an element
		if dst, ok := destOf(v); ok {
			if _, isIx := ast.Unparen(dst).(*ast.IndexExpr); isIx {
				if c := m.storeClass(dst, nil); c != "" {
					out[c] = true
				}
			}
		}
		// o as a field of a struct literal that is stored / appended
		if kv, ok := par[v].(*ast.KeyValueExpr); ok && kv.Value == v {
			if cl, ok := par[kv].(*ast.CompositeLit); ok {
				if key, ok := kv.Key.(*ast.Ident); ok {
					if ef, ok := m.info.Uses[key].(*types.Var); ok && ef.IsField() {
						var lit ast.Expr = cl
						if ue, ok := par[cl].(*ast.UnaryExpr); ok {
							lit = ue
						}
						if dst, ok := destOf(lit); ok {
							if c := m.storeClass(dst, ef); c != "" {
								out[c] = true
							}
						}
					}
				}
			}
		}
		// o returned: the callers register the result
		if ret, ok := par[v].(*ast.ReturnStmt); ok {
			for k, res := range ret.Results {
				if res != v {
					continue
				}
				for _, site := range m.sites[fi.Obj] {
					cpar := m.view.parents(site.u.fi)
					as, ok := cpar[site.call].(*ast.AssignStmt)
					if !ok {
						continue
					}
					var dst ast.Expr
					switch {
					case len(as.Rhs) == 1 && k < len(as.Lhs) && len(ret.Results) == len(as.Lhs):
						dst = as.Lhs[k]
					}
					if dst == nil {
						continue
					}
					if c := m.storeClass(dst, nil); c != "" {
						if _, isIx := ast.Unparen(dst).(*ast.IndexExpr); isIx {
							out[c] = true
							continue
						}
					}
					for c := range m.classesOf(dst, seen) {
						out[c] = true
					}
				}
			}
		}
		return true
	})
	return out
}

// isWorkerChanSlice reports whether e is the decoder's slice of per-worker channels (or of lanes holding them),
// possibly re-sliced (`dec.outputs[:n]`): it has one element per worker, so it is never empty once the pipeline runs.
func (m *pbfModel) isWorkerChanSlice(e ast.Expr) bool {
	e = ast.Unparen(e)
	if se, ok := e.(*ast.SliceExpr); ok {
		if se.Low != nil {
			if v, isC := constInt(m.info, se.Low); !isC || v != 0 {
				return false
			}
		}
		e = ast.Unparen(se.X)
	}
	f := fieldOf(m.info, e)
	if f == nil || namedPath(selRecv(m.info, e)) != namedPath(m.decoderT) {
		return false
	}
	in, out, _ := m.pipelineClasses()
	return f == m.slotOf(in).slice || f == m.slotOf(out).slice
}
