package rules

// A small path-enumerating abstract interpreter over the type-checked syntax tree, shared by C03, C04 and C05.
//
// Why: the rules of these properties are about *decision functions* (which element name is decoded into which type,
// which attribute is written under which guard, which JSON `type` is stored into which field). Deciding them on
// statement shapes makes them fire on every extract-function / if<->switch / inverted-branch / renamed-local
// refactoring. Instead a rule picks a finite set of abstract inputs (scenarios: "the element name is node", "only
// the License field is non-empty", "the version key is absent"), lets this interpreter enumerate the paths of the
// function under that input - following static calls into unexported helpers of the repository with parameters bound
// to arguments - and compares what is *observed* on the paths (the calls made with their abstract arguments, the
// values stored, the values returned) with what the property requires. Surface form, local names, helper names,
// statement order of independent statements and the file a helper lives in do not influence the observation.
//
// Abstraction (sound for the use the rules make of it, see each rule):
//   - values: constants, nil, "some other string", pointers to objects allocated on the path, addresses of locals,
//     struct values (functional updates over a symbolic base), slices built on the path, symbolic initial values
//     addressed by root + field path, and unknown results of calls the interpreter does not enter;
//   - an unknown condition forks the path; a fork on a zero test (x == nil, x != "", len(x) == 0, a bool) refines
//     the value for the rest of the path, so repeated tests agree;
//   - every loop body is explored for at most one iteration (a range over a slice built on the path: once per
//     element); reaching the back edge of a `for { }` loop ends the path ("again");
//   - calls that are not entered are recorded as events with their abstract receiver and arguments; a local whose
//     address is handed to such a call is unknown afterwards unless it holds a pointer (encoding/xml and
//     encoding/json fill the pointee of a non-nil pointer and keep the pointer).
//   - pointers to fields (&x.F, out-parameters **T), function literals (closures share the variables of the path),
//     method values, deferred calls (arguments evaluated at the defer statement, run when the frame returns, named
//     results included), counted loops whose bound the path knows, and unexported package-level variables that are
//     never reassigned (dispatch tables, evaluated from their initialiser) are followed (c03_eval_ref.go,
//     c03_eval_func.go); a call through a repository interface on a value of known concrete type is the call of that
//     type's method.
// Anything outside the modelled forms - goroutines, goto, select, generic functions, a call whose target is not known
// on the path - makes the exploration undecided (Aborted, reported by every rule as UNDECIDED with the position and
// the reason); the interpreter never guesses.

import (
	"fmt"
	"go/ast"
	"go/constant"
	"go/token"
	"go/types"
	"strings"

	"osmcheck/core"
)

// value kinds
const (
	c03KUnk    = iota // unknown (opaque call result, unmodelled expression)
	c03KNil           // nil
	c03KStr           // known string (also []byte(<const>))
	c03KOther         // a string different from every constant it is compared with
	c03KBool          // known bool
	c03KInt           // known integer
	c03KPtr           // pointer to an object allocated on the path
	c03KAddr          // address of a local variable
	c03KStruct        // struct value
	c03KList          // slice / map built on the path
	c03KInit          // symbolic initial value: Root + Path
	c03KTuple         // multi-value result
	c03KSpread        // list element standing for "all elements of From[0]" (append(a, b...))
	c03KRef           // interior pointer: address of field Path of what Base points to
	c03KFunc          // function literal (closure over the path's variables)
)

// c03Root is what a symbolic value hangs off.
type c03Root struct {
	Kind string       // "param" | "global" | "assert" | "elem" | "key" | "heap"
	Obj  types.Object // param / global
	Node ast.Node     // assert: the type assertion; elem: the range statement
	Of   *c03V        // assert: the asserted value; elem/key: the ranged value
	T    types.Type
}

// c03V is an abstract value. Values are immutable once built.
type c03V struct {
	K      int
	T      types.Type // static type where known; for values stored in interfaces the concrete type they were built with
	Str    string
	Bool   bool
	Int    int64
	Obj    int          // KPtr: heap id
	Var    types.Object // KAddr
	Fields map[*types.Var]*c03V
	Base   *c03V   // KStruct: where unset fields come from (nil = zero value); KList: the slice appended to (nil = none)
	Elems  []*c03V // KList, KTuple
	NonNil bool    // KList: made by make / a literal (non-nil even when empty)
	Root   *c03Root
	Path   []*types.Var
	Key    string // identity for refinement (KInit, KUnk)
	Z      tri    // default zero-ness of a KInit/KUnk value (nil pointer, empty string/slice, false, nil error)
	From   []*c03V
	Call   *ast.CallExpr // KUnk: the call that produced the value
	Fn     *types.Func
	LenOf  *c03V // KUnk: the value is len(LenOf)
	Cnt    int64 // KUnk with HasCnt: the count the value stands for under the one-iteration abstraction (c03_eval_count.go)
	HasCnt bool
	Keys   []*c03V      // KList built from a map literal: the keys, parallel to Elems
	Lit    *ast.FuncLit // KFunc
	Env    *c03Frame    // KFunc: the frame the literal was evaluated in
	Site   ast.Node
	Shared types.Object // the package-level variable the value was read from (storage that outlives the call)
	Born   int          // number of events on the path when the value / object was created (freshness within a loop iteration)
}

func (v *c03V) String() string {
	if v == nil {
		return "<none>"
	}
	switch v.K {
	case c03KNil:
		return "nil"
	case c03KStr:
		return fmt.Sprintf("%q", v.Str)
	case c03KOther:
		return "<other string>"
	case c03KBool:
		return fmt.Sprint(v.Bool)
	case c03KInt:
		return fmt.Sprint(v.Int)
	case c03KPtr:
		return fmt.Sprintf("&%s{..}#%d", c03ShortT(c03DerefT(v.T)), v.Obj)
	case c03KAddr:
		return "&" + v.Var.Name()
	case c03KStruct:
		return c03ShortT(v.T) + "{..}"
	case c03KList:
		var s []string
		if v.Base != nil {
			s = append(s, v.Base.String()+"...")
		}
		for _, e := range v.Elems {
			s = append(s, e.String())
		}
		return "[" + strings.Join(s, ", ") + "]"
	case c03KInit:
		return v.PathString()
	case c03KTuple:
		var s []string
		for _, e := range v.Elems {
			s = append(s, e.String())
		}
		return "(" + strings.Join(s, ", ") + ")"
	case c03KSpread:
		return v.From[0].String() + "..."
	case c03KRef:
		s := "&" + v.Base.String()
		for _, f := range v.Path {
			s += "." + f.Name()
		}
		return s
	case c03KFunc:
		if v.Fn != nil {
			return "func " + funcName(v.Fn)
		}
		return "func literal"
	}
	if v.LenOf != nil {
		return "len(" + v.LenOf.String() + ")"
	}
	if v.Fn != nil {
		var s []string
		for _, a := range v.From {
			s = append(s, a.String())
		}
		return funcName(v.Fn) + "(" + strings.Join(s, ", ") + ")"
	}
	return "<unknown>"
}

// PathString renders a symbolic value as root.field.field.
func (v *c03V) PathString() string {
	if v == nil || v.K != c03KInit {
		return v.String()
	}
	s := "?"
	switch v.Root.Kind {
	case "param", "global":
		s = v.Root.Obj.Name()
	case "assert":
		s = v.Root.Of.String() + ".(" + c03ShortT(v.Root.T) + ")"
	case "elem":
		s = v.Root.Of.String() + "[i]"
	case "key":
		s = "key(" + v.Root.Of.String() + ")"
	}
	for _, f := range v.Path {
		s += "." + f.Name()
	}
	return s
}

func c03ShortT(t types.Type) string {
	if t == nil {
		return "?"
	}
	return c03Short(t)
}

// c03DerefT strips one pointer level.
func c03DerefT(t types.Type) types.Type {
	if t == nil {
		return nil
	}
	if p, ok := t.Underlying().(*types.Pointer); ok {
		return p.Elem()
	}
	return t
}

func c03IsIface(t types.Type) bool {
	if t == nil {
		return true
	}
	_, ok := t.Underlying().(*types.Interface)
	return ok
}

// c03Event is something observable that happened on a path.
type c03Event struct {
	Kind  string // "call" (not entered) | "enter" (inlined) | "store" (through a pointer / into a symbolic object) | "fork" | "range" | "assert" | "nilderef" | "badassert" | "unsupported"
	Node  ast.Node
	Frame *c03Frame
	// call / enter
	Call    *ast.CallExpr
	Fn      *types.Func
	Recv    *c03V
	Args    []*c03V
	Deref   []*c03V // per argument: the value a KAddr/KPtr argument pointed to at the time of the call
	Results []*c03V
	// store
	Target *c03V        // the pointer / symbolic object written through
	Field  []*types.Var // field path below the target
	Val    *c03V
	// fork
	Cond  ast.Expr
	Taken bool
	// assert: Val is the asserted value, Ok the comma-ok result (nil for the unchecked form), T the asserted type; range: Val is the element
	Ok  *c03V
	T   types.Type
	Why string
}

// c03Frame is one activation: the root function or an inlined callee.
type c03Frame struct {
	fi     *FuncInfo
	parent *c03Frame
	call   *ast.CallExpr
	depth  int
	label  string       // pseudo frames (function literals, package-level initialisers)
	lit    *ast.FuncLit // the literal a closure frame executes
}

func (fr *c03Frame) info() *types.Info { return fr.fi.Pkg.TypesInfo }

// Root returns the outermost frame.
func (fr *c03Frame) Root() *c03Frame {
	for fr.parent != nil {
		fr = fr.parent
	}
	return fr
}

// Stack renders the inlining stack for diagnostics ("Scan -> decodeObject").
func (fr *c03Frame) Stack() string {
	var s []string
	for f := fr; f != nil; f = f.parent {
		if f.label != "" {
			s = append([]string{f.label}, s...)
		} else {
			s = append([]string{f.fi.Name()}, s...)
		}
	}
	return strings.Join(s, " -> ")
}

// c03State is the abstract store of one path.
type c03State struct {
	vars   map[types.Object]*c03V
	heap   map[int]*c03V     // objects allocated on the path (struct values or whole values)
	mem    map[string]*c03V  // contents of symbolic objects written through (keyed by the Key of the symbolic pointer/struct)
	known  map[string]tri    // refinements: Key -> is zero
	strs   map[string]string // refinements: Key -> the string the value was found equal to
	Trace  []c03Event
	x      *c03Interp
	defers map[*c03Frame][]c03Deferred
}

func c03NewState() *c03State {
	return &c03State{vars: map[types.Object]*c03V{}, heap: map[int]*c03V{}, mem: map[string]*c03V{}, known: map[string]tri{}, strs: map[string]string{}}
}

func (st *c03State) clone() *c03State {
	n := &c03State{vars: make(map[types.Object]*c03V, len(st.vars)), heap: make(map[int]*c03V, len(st.heap)), mem: make(map[string]*c03V, len(st.mem)), known: make(map[string]tri, len(st.known)), strs: make(map[string]string, len(st.strs))}
	for k, v := range st.vars {
		n.vars[k] = v
	}
	for k, v := range st.heap {
		n.heap[k] = v
	}
	for k, v := range st.mem {
		n.mem[k] = v
	}
	for k, v := range st.known {
		n.known[k] = v
	}
	for k, v := range st.strs {
		n.strs[k] = v
	}
	n.Trace = st.Trace[:len(st.Trace):len(st.Trace)]
	n.x = st.x
	if len(st.defers) > 0 {
		n.defers = make(map[*c03Frame][]c03Deferred, len(st.defers))
		for k, v := range st.defers {
			n.defers[k] = v
		}
	}
	return n
}

func (st *c03State) event(e c03Event) { st.Trace = append(st.Trace, e) }

// Var returns the value of a variable on this path.
func (st *c03State) Var(o types.Object) *c03V { return st.vars[o] }

// Pointee returns what a pointer value points to on this path (nil when unknown).
func (st *c03State) Pointee(v *c03V) *c03V {
	if v == nil {
		return nil
	}
	switch v.K {
	case c03KPtr:
		return st.heap[v.Obj]
	case c03KAddr:
		return st.vars[v.Var]
	case c03KInit:
		if m := st.mem[v.Key]; m != nil {
			return m
		}
	case c03KRef:
		if st.x != nil {
			return st.x.refTarget(st, v, nil, nil)
		}
	}
	return nil
}

// Zero reports whether v is the zero value of its type (nil, "", empty, false) on this path.
func (st *c03State) Zero(v *c03V) tri {
	if v == nil {
		return triU
	}
	switch v.K {
	case c03KNil:
		return triT
	case c03KStr:
		if v.Str == "" {
			return triT
		}
		return triF
	case c03KOther:
		return triF
	case c03KBool:
		if v.Bool {
			return triF
		}
		return triT
	case c03KInt:
		if v.Int == 0 {
			return triT
		}
		return triF
	case c03KPtr, c03KAddr, c03KRef, c03KFunc:
		return triF
	case c03KList:
		if len(v.Elems) > 0 {
			return triF
		}
		if v.Base != nil {
			return st.Zero(v.Base)
		}
		return triT
	case c03KInit, c03KUnk:
		if v.LenOf != nil {
			return st.Zero(v.LenOf)
		}
		if v.Key != "" {
			if k, ok := st.known[v.Key]; ok {
				return k
			}
		}
		return v.Z
	}
	return triU
}

// Ident returns a string identifying the object a pointer value refers to ("" when it is not a pointer to something
// the path allocated or a local).
func (v *c03V) Ident() string {
	if v == nil {
		return ""
	}
	switch v.K {
	case c03KPtr:
		return fmt.Sprintf("h%d", v.Obj)
	case c03KAddr:
		return fmt.Sprintf("v%p", v.Var)
	case c03KRef:
		if b := v.Base.Ident(); b != "" || v.Base.Key != "" {
			s := "r" + b + v.Base.Key
			for _, f := range v.Path {
				s += "." + f.Name()
			}
			return s
		}
	}
	return ""
}

// IsInit reports whether v is the symbolic value root.path with root of the given kind; it returns the path.
func (v *c03V) IsInit(kind string) bool { return v != nil && v.K == c03KInit && v.Root.Kind == kind }

// c03Path is one explored path.
type c03Path struct {
	St   *c03State
	End  string // "return" | "again" | "panic" | "stuck" | "end"
	Ret  []*c03V
	Loop ast.Stmt // End == again: the loop whose back edge was reached
	Why  string
	Pos  token.Pos
}

// c03Interp configures and runs the interpreter.
type c03Interp struct {
	P *core.Program
	// Init is consulted whenever a symbolic value is created; it may return a replacement (a scenario constant) or
	// the value with Z set.
	Init func(v *c03V) *c03V
	// Model may model a call: it returns the results and true. It runs before inlining.
	Model func(x *c03Interp, st *c03State, fr *c03Frame, call *ast.CallExpr, fn *types.Func, recv *c03V, args []*c03V) ([]*c03V, bool)
	// Inline decides which repository functions are entered; nil = unexported functions and methods only.
	Inline func(fn *types.Func) bool
	// ErrNil makes error results of calls that are not entered nil ("assume the call succeeds").
	ErrNil func(fn *types.Func) bool

	// AllowDynamic: calls whose target is not known statically are treated as opaque calls instead of making the
	// exploration undecided.
	AllowDynamic bool

	MaxPaths int
	Aborted  string
	nid      int
	budget   int
	globals  map[*types.Var]*c03Global
	pending  []c03Out // paths that ended inside an expression (panic, stuck or loop back edge in an inlined callee)
}

func (x *c03Interp) fresh(prefix string) string {
	x.nid++
	return fmt.Sprintf("%s%d", prefix, x.nid)
}

func (x *c03Interp) unk(t types.Type) *c03V {
	return &c03V{K: c03KUnk, T: t, Key: x.fresh("u"), Z: triU}
}

// initVal builds the symbolic value root.path and passes it through the scenario hook.
func (x *c03Interp) initVal(root *c03Root, path []*types.Var, t types.Type, key string) *c03V {
	v := &c03V{K: c03KInit, Root: root, Path: path, T: t, Key: key, Z: triU}
	if x.Init != nil {
		if r := x.Init(v); r != nil {
			return r
		}
	}
	return v
}

// Param returns the symbolic value of a parameter / receiver / package-level variable.
func (x *c03Interp) Param(o types.Object) *c03V {
	kind := "param"
	if v, ok := o.(*types.Var); ok && v.Parent() != nil && v.Pkg() != nil && v.Parent() == v.Pkg().Scope() {
		kind = "global"
	}
	return x.initVal(&c03Root{Kind: kind, Obj: o, T: o.Type()}, nil, o.Type(), fmt.Sprintf("%s:%s@%d", kind, o.Name(), o.Pos()))
}

// Run explores fi from its entry with symbolic parameters (bind may override them).
func (x *c03Interp) Run(fi *FuncInfo, bind func(st *c03State)) []*c03Path {
	if x.MaxPaths == 0 {
		x.MaxPaths = 6000
	}
	x.budget = x.MaxPaths
	x.Aborted = ""
	x.pending = nil
	st := c03NewState()
	st.x = x
	fr := &c03Frame{fi: fi}
	sig := fi.Obj.Type().(*types.Signature)
	if rv := sig.Recv(); rv != nil {
		st.vars[rv] = x.Param(rv)
	}
	for i := 0; i < sig.Params().Len(); i++ {
		st.vars[sig.Params().At(i)] = x.Param(sig.Params().At(i))
	}
	for i := 0; i < sig.Results().Len(); i++ {
		if r := sig.Results().At(i); r.Name() != "" {
			st.vars[r] = c03ZeroValue(r.Type())
		}
	}
	if bind != nil {
		bind(st)
	}
	var paths []*c03Path
	outs := x.runDefers(fr, x.execBlock(fr, st, fi.Decl.Body.List), c03NamedResults(sig))
	// a construct the interpreter does not model makes the whole exploration undecided: the rules report Aborted
	for _, o := range append(append([]c03Out{}, outs...), x.pending...) {
		for _, e := range o.st.Trace {
			if e.Kind == "unsupported" && x.Aborted == "" {
				x.Aborted = "unmodelled construct at " + x.P.Rel(e.Node.Pos()) + ": " + e.Why
			}
			if e.Kind == "dynamic" && x.Aborted == "" && !x.AllowDynamic {
				x.Aborted = "at " + x.P.Rel(e.Node.Pos()) + ": " + e.Why + " (the code it runs is not followed)"
			}
		}
		if o.ctl == c03Stuck && x.Aborted == "" {
			x.Aborted = "unmodelled construct at " + x.P.Rel(o.pos) + ": " + o.why
		}
	}
	for _, o := range append(outs, x.pending...) {
		p := &c03Path{St: o.st, Ret: o.ret, Loop: o.loop, Why: o.why, Pos: o.pos}
		switch o.ctl {
		case c03Return:
			p.End = "return"
			if len(o.ret) == 0 && sig.Results().Len() > 0 {
				for i := 0; i < sig.Results().Len(); i++ {
					p.Ret = append(p.Ret, o.st.vars[sig.Results().At(i)])
				}
			}
		case c03Next:
			p.End = "end"
		case c03Again:
			p.End = "again"
		case c03Panic:
			p.End = "panic"
		default:
			p.End = "stuck"
			if p.Why == "" {
				p.Why = "break/continue outside a loop"
			}
		}
		paths = append(paths, p)
	}
	return paths
}

// c03ZeroValue is the abstract zero value of a type.
func c03ZeroValue(t types.Type) *c03V {
	switch u := t.Underlying().(type) {
	case *types.Basic:
		switch {
		case u.Info()&types.IsString != 0:
			return &c03V{K: c03KStr, T: t}
		case u.Info()&types.IsBoolean != 0:
			return &c03V{K: c03KBool, T: t}
		case u.Info()&types.IsInteger != 0:
			return &c03V{K: c03KInt, T: t}
		}
		return &c03V{K: c03KUnk, T: t, Z: triT}
	case *types.Struct:
		return &c03V{K: c03KStruct, T: t, Fields: map[*types.Var]*c03V{}}
	case *types.Pointer, *types.Slice, *types.Map, *types.Interface, *types.Chan, *types.Signature:
		return &c03V{K: c03KNil, T: t}
	}
	return &c03V{K: c03KUnk, T: t, Z: triT}
}

// c03ConstValue converts a compile-time constant.
func c03ConstValue(tv types.TypeAndValue) *c03V {
	if tv.Value == nil {
		return nil
	}
	switch tv.Value.Kind() {
	case constant.String:
		return &c03V{K: c03KStr, Str: constant.StringVal(tv.Value), T: tv.Type}
	case constant.Bool:
		return &c03V{K: c03KBool, Bool: constant.BoolVal(tv.Value), T: tv.Type}
	case constant.Int:
		if n, ok := constant.Int64Val(tv.Value); ok {
			return &c03V{K: c03KInt, Int: n, T: tv.Type}
		}
	}
	return &c03V{K: c03KUnk, T: tv.Type, Z: triU}
}

// retype returns v seen at type t (conversions, narrowing); identity and content are kept.
func c03Retype(v *c03V, t types.Type) *c03V {
	if v == nil {
		return nil
	}
	c := *v
	c.T = t
	return &c
}

// ---- field access ------------------------------------------------------------------------------

// field reads field f of value v (auto-dereferencing pointers).
func (x *c03Interp) field(st *c03State, v *c03V, f *types.Var, at ast.Node, fr *c03Frame) *c03V {
	if v == nil {
		return x.unk(f.Type())
	}
	switch v.K {
	case c03KStruct:
		if fv, ok := v.Fields[f]; ok {
			return fv
		}
		if v.Base != nil {
			if v.Base.K == c03KInit {
				return x.fieldInit(v.Base, f)
			}
			return x.field(st, v.Base, f, at, fr)
		}
		return c03ZeroValue(f.Type())
	case c03KPtr:
		return x.field(st, st.heap[v.Obj], f, at, fr)
	case c03KAddr:
		return x.field(st, st.vars[v.Var], f, at, fr)
	case c03KRef:
		return x.field(st, x.refTarget(st, v, at, fr), f, at, fr)
	case c03KNil:
		st.event(c03Event{Kind: "nilderef", Node: at, Frame: fr, Why: "field " + f.Name() + " of a nil pointer"})
		return x.unk(f.Type())
	case c03KInit:
		if m := st.mem[v.Key]; m != nil {
			return x.field(st, m, f, at, fr)
		}
		if _, isPtr := v.T.Underlying().(*types.Pointer); isPtr && st.Zero(v) == triT {
			st.event(c03Event{Kind: "nilderef", Node: at, Frame: fr, Val: v, Why: "field " + f.Name() + " of " + v.PathString() + ", which is nil on this path"})
			return x.unk(f.Type())
		}
		return x.fieldInit(v, f)
	}
	return &c03V{K: c03KUnk, T: f.Type(), Key: v.Key + "." + f.Name(), From: []*c03V{v}, Z: triU}
}

// fieldInit is the symbolic value one field below a symbolic value.
func (x *c03Interp) fieldInit(v *c03V, f *types.Var) *c03V {
	path := append(append([]*types.Var{}, v.Path...), f)
	return x.initVal(v.Root, path, f.Type(), v.Key+"."+f.Name())
}

// withField returns struct value v with field f replaced.
func c03WithField(v *c03V, f *types.Var, val *c03V, t types.Type) *c03V {
	n := &c03V{K: c03KStruct, T: t, Fields: map[*types.Var]*c03V{}}
	if v != nil && v.K == c03KStruct {
		n.T, n.Base, n.Born, n.Site = v.T, v.Base, v.Born, v.Site
		for k, fv := range v.Fields {
			n.Fields[k] = fv
		}
	} else if v != nil {
		n.Base = v
		if v.T != nil {
			n.T = c03DerefT(v.T)
		}
	}
	n.Fields[f] = val
	return n
}

// setField stores val into field path fs of the object/value base denotes; it returns the updated value when base is
// a struct *value* (the caller stores it back), nil when the store went through a pointer.
func (x *c03Interp) setField(st *c03State, base *c03V, fs []*types.Var, val *c03V, at ast.Node, fr *c03Frame) *c03V {
	if len(fs) == 0 {
		return val
	}
	f := fs[0]
	structT := func() types.Type {
		if base != nil && base.T != nil {
			return c03DerefT(base.T)
		}
		return nil
	}
	inner := func(cur *c03V) *c03V {
		var old *c03V
		if len(fs) > 1 {
			old = x.field(st, cur, f, at, fr)
		}
		nv := x.setField(st, old, fs[1:], val, at, fr)
		if nv == nil {
			return nil // deeper store went through a pointer
		}
		return c03WithField(cur, f, nv, structT())
	}
	if base == nil {
		return nil
	}
	switch base.K {
	case c03KRef:
		x.refStore(st, base, fs, val, at, fr)
		return nil
	case c03KPtr:
		if nv := inner(st.heap[base.Obj]); nv != nil {
			st.heap[base.Obj] = nv
			st.event(c03Event{Kind: "store", Node: at, Frame: fr, Target: base, Field: fs, Val: val})
		}
		return nil
	case c03KAddr:
		if nv := inner(st.vars[base.Var]); nv != nil {
			st.vars[base.Var] = nv
			st.event(c03Event{Kind: "store", Node: at, Frame: fr, Target: base, Field: fs, Val: val})
		}
		return nil
	case c03KInit:
		if _, isPtr := base.T.Underlying().(*types.Pointer); isPtr {
			cur := st.mem[base.Key]
			if cur == nil {
				// unset fields keep reading below the same symbolic path (same Key, so refinements carry over)
				cur = &c03V{K: c03KStruct, T: c03DerefT(base.T), Fields: map[*types.Var]*c03V{}, Base: c03Retype(base, c03DerefT(base.T))}
			}
			if nv := inner(cur); nv != nil {
				st.mem[base.Key] = nv
				st.event(c03Event{Kind: "store", Node: at, Frame: fr, Target: base, Field: fs, Val: val})
			}
			return nil
		}
		return inner(base)
	case c03KStruct:
		return inner(base)
	case c03KNil:
		st.event(c03Event{Kind: "nilderef", Node: at, Frame: fr, Why: "store into field " + f.Name() + " of a nil pointer"})
		return nil
	}
	st.event(c03Event{Kind: "store", Node: at, Frame: fr, Target: base, Field: fs, Val: val})
	return nil
}

// refine records the outcome of a fork on `key`: a zero test, or (keys made by c03StrKey) an equality with a string.
func (st *c03State) refine(key string, val tri) {
	if key == "" {
		return
	}
	st.known[key] = val
	if k, s, ok := c03SplitStrKey(key); ok && val == triT {
		st.strs[k] = s
	}
}

const c03StrKeyPrefix = "=str:"

// c03StrKey is the refinement key of "the value with key k equals the string s".
func c03StrKey(k, s string) string { return c03StrKeyPrefix + k + "\x00" + s }

func c03SplitStrKey(key string) (k, s string, ok bool) {
	if !strings.HasPrefix(key, c03StrKeyPrefix) {
		return "", "", false
	}
	rest := key[len(c03StrKeyPrefix):]
	i := strings.IndexByte(rest, 0)
	if i < 0 {
		return "", "", false
	}
	return rest[:i], rest[i+1:], true
}
