package rules

import (
	"go/ast"
	"go/types"
)

// allDefs reports whether every value that expression e can denote satisfies leaf, flow-insensitively: e itself, or,
// for a local variable, each of its definitions (a `var x T` declaration that is followed by assignments does not
// count), for a parameter the argument at every call, and for the result of a call of a function declared in the
// package the corresponding result of each of its return statements.
func (m *pbfModel) allDefs(e ast.Expr, seen map[types.Object]bool, leaf func(o pbfOrigin) bool) bool {
	e = ast.Unparen(e)
	if leaf(pbfOrigin{kind: "assign", e: e}) {
		return true
	}
	if call, ok := e.(*ast.CallExpr); ok {
		return m.allResults(call, 0, seen, leaf)
	}
	o, ok := objOf(m.info, e).(*types.Var)
	if !ok || o.IsField() || seen[o] {
		return false
	}
	seen[o] = true
	defer delete(seen, o)
	defs := m.defsOf(o)
	if len(defs) == 0 {
		return false
	}
	for _, d := range defs {
		switch d.kind {
		case "zero":
			if len(defs) == 1 {
				return false
			}
		case "assign", "arg":
			if !m.allDefs(d.e, seen, leaf) {
				return false
			}
		case "result":
			if leaf(d) {
				continue
			}
			call, ok := ast.Unparen(d.e).(*ast.CallExpr)
			if !ok || !m.allResults(call, d.idx, seen, leaf) {
				return false
			}
		default:
			if !leaf(d) {
				return false
			}
		}
	}
	return true
}

// allResults: every return statement of the declared callee gives, as its idx-th result, a value satisfying leaf.
func (m *pbfModel) allResults(call *ast.CallExpr, idx int, seen map[types.Object]bool, leaf func(o pbfOrigin) bool) bool {
	fn := callee(m.info, call)
	if fn == nil || m.funcs[fn] == nil {
		return false
	}
	rets := m.returnsOf(m.funcs[fn], idx)
	if len(rets) == 0 {
		return false
	}
	for _, ret := range rets {
		if ret == nil || !m.allDefs(ret, seen, leaf) {
			return false
		}
	}
	return true
}

// isZeroLit reports whether e is an empty composite literal `T{}` (the zero value, used for "nothing").
func pbfIsZeroLit(e ast.Expr) bool {
	cl, ok := ast.Unparen(e).(*ast.CompositeLit)
	return ok && len(cl.Elts) == 0
}

// boundTo reports whether variable o always denotes target: it is target, or a parameter / local whose every
// definition is an identifier bound to target (through any number of calls).
func (m *pbfModel) boundTo(o, target types.Object, seen map[types.Object]bool) bool {
	if o == nil || target == nil {
		return false
	}
	if o == target {
		return true
	}
	if seen[o] {
		return false
	}
	seen[o] = true
	defer delete(seen, o)
	defs := m.defsOf(o)
	if len(defs) == 0 {
		return false
	}
	for _, d := range defs {
		if (d.kind != "arg" && d.kind != "assign") || d.e == nil || !m.boundTo(objOf(m.info, d.e), target, seen) {
			return false
		}
	}
	return true
}

// perIteration reports whether local variable o is a fresh variable in every iteration of loop: it is declared inside
// the loop body, or inside the body of a helper (body) that is called from inside the loop (inLoopChain).
func pbfPerIteration(o types.Object, loop *ast.ForStmt, body *ast.BlockStmt, inLoopChain bool) bool {
	if o == nil || loop == nil {
		return false
	}
	if o.Pos() > loop.Body.Pos() && o.Pos() < loop.Body.End() {
		return true
	}
	return inLoopChain && body != nil && o.Pos() > body.Pos() && o.Pos() < body.End() && !(loop.Pos() >= body.Pos() && loop.End() <= body.End())
}

// fieldInits lists the expressions that give field f its value in the struct values expression x can denote: the
// keyed elements of composite literals, reached through `&lit` / `*p`, locals and parameters (every definition),
// results of declared functions (every return), and assignments `v.f = e` to a local v. A literal that leaves f out
// contributes nothing (the zero value). ok is false when some value cannot be followed.
func (m *pbfModel) fieldInits(x ast.Expr, idx int, f *types.Var, seen map[types.Object]bool, depth int) (out []ast.Expr, ok bool) {
	if x == nil || depth > 10 {
		return nil, false
	}
	x = ast.Unparen(x)
	switch y := x.(type) {
	case *ast.CompositeLit:
		for _, e := range y.Elts {
			kv, isKV := e.(*ast.KeyValueExpr)
			if !isKV {
				return nil, false
			}
			if id, isID := kv.Key.(*ast.Ident); isID && m.info.Uses[id] == f {
				out = append(out, kv.Value)
			}
		}
		return out, true
	case *ast.UnaryExpr:
		if y.Op.String() == "&" {
			return m.fieldInits(y.X, 0, f, seen, depth+1)
		}
	case *ast.StarExpr:
		return m.fieldInits(y.X, 0, f, seen, depth+1)
	case *ast.CallExpr:
		fn := callee(m.info, y)
		if fn == nil || m.funcs[fn] == nil {
			return nil, false
		}
		rets := m.returnsOf(m.funcs[fn], idx)
		if len(rets) == 0 {
			return nil, false
		}
		for _, ret := range rets {
			if ret == nil {
				return nil, false
			}
			es, ok := m.fieldInits(ret, 0, f, seen, depth+1)
			if !ok {
				return nil, false
			}
			out = append(out, es...)
		}
		return out, true
	case *ast.Ident:
		o, isVar := objOf(m.info, y).(*types.Var)
		if !isVar || o.IsField() {
			return nil, false
		}
		if seen[o] {
			return nil, true
		}
		seen[o] = true
		defer delete(seen, o)
		defs := m.defsOf(o)
		if len(defs) == 0 {
			return nil, false
		}
		for _, d := range defs {
			var es []ast.Expr
			ok := true
			switch d.kind {
			case "zero":
			case "assign", "arg":
				es, ok = m.fieldInits(d.e, 0, f, seen, depth+1)
			case "result":
				es, ok = m.fieldInits(d.e, d.idx, f, seen, depth+1)
			default:
				ok = false
			}
			if !ok {
				return nil, false
			}
			out = append(out, es...)
		}
		// field-wise assignments to the variable
		if fi := m.funcAt(o.Pos()); fi != nil {
			ast.Inspect(fi.Decl.Body, func(n ast.Node) bool {
				if as, isAs := n.(*ast.AssignStmt); isAs && len(as.Lhs) == len(as.Rhs) {
					for i, l := range as.Lhs {
						if fieldOf(m.info, l) == f && rootObj(m.info, l) == types.Object(o) {
							out = append(out, as.Rhs[i])
						}
					}
				}
				return true
			})
		}
		return out, true
	}
	return nil, false
}

// structLocalField: e is `v.f` (possibly `v.g.f` over nested struct values) where v is a local variable or parameter
// holding a struct value or a pointer to one; it returns v's expression and f.
func (m *pbfModel) structLocalField(e ast.Expr) (ast.Expr, *types.Var) {
	sel, ok := ast.Unparen(e).(*ast.SelectorExpr)
	if !ok {
		return nil, nil
	}
	f := fieldOf(m.info, sel)
	if f == nil {
		return nil, nil
	}
	if o, ok := objOf(m.info, sel.X).(*types.Var); ok && !o.IsField() {
		return sel.X, f
	}
	return nil, nil
}
