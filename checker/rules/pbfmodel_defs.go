package rules

import (
	"go/ast"
	"go/types"
)

// allDefs reports whether every value that expression e can denote satisfies leaf, flow-insensitively: e itself, or,
// for a local variable, each of its definitions (a `var x T` declaration that is followed by assignments does not
// count), for a parameter the argument at every call, and for the result of a call of a function declared in the
// package the corresponding result of each of its return statements.
func (m *pbfModel) allDefs(e ast.Expr, seen map[types.Object]bool, leaf func(o pbfOrigin) bool) bool {
	e = ast.Unparen(e)
	if leaf(pbfOrigin{kind: "assign", e: e}) {
		return true
	}
	if call, ok := e.(*ast.CallExpr); ok {
		return m.allResults(call, 0, seen, leaf)
	}
	o, ok := objOf(m.info, e).(*types.Var)
	if !ok || o.IsField() || seen[o] {
		return false
	}
	seen[o] = true
	defer delete(seen, o)
	defs := m.defsOf(o)
	if len(defs) == 0 {
		return false
	}
	for _, d := range defs {
		switch d.kind {
		case "zero":
			if len(defs) == 1 {
				return false
			}
		case "assign", "arg":
			if !m.allDefs(d.e, seen, leaf) {
				return false
			}
		case "result":
			if leaf(d) {
				continue
			}
			call, ok := ast.Unparen(d.e).(*ast.CallExpr)
			if !ok || !m.allResults(call, d.idx, seen, leaf) {
				return false
			}
		default:
			if !leaf(d) {
				return false
			}
		}
	}
	return true
}

// allResults: every return statement of the declared callee gives, as its idx-th result, a value satisfying leaf.
func (m *pbfModel) allResults(call *ast.CallExpr, idx int, seen map[types.Object]bool, leaf func(o pbfOrigin) bool) bool {
	fn := callee(m.info, call)
	if fn == nil || m.funcs[fn] == nil {
		return false
	}
	rets := m.returnsOf(m.funcs[fn], idx)
	if len(rets) == 0 {
		return false
	}
	for _, ret := range rets {
		if ret == nil || !m.allDefs(ret, seen, leaf) {
			return false
		}
	}
	return true
}

// isZeroLit reports whether e is an empty composite literal `T{}` (the zero value, used for "nothing").
func pbfIsZeroLit(e ast.Expr) bool {
	cl, ok := ast.Unparen(e).(*ast.CompositeLit)
	return ok && len(cl.Elts) == 0
}

// boundTo reports whether variable o always denotes target: it is target, or a parameter / local whose every
// definition is an identifier bound to target (through any number of calls).
func (m *pbfModel) boundTo(o, target types.Object, seen map[types.Object]bool) bool {
	if o == nil || target == nil {
		return false
	}
	if o == target {
		return true
	}
	if seen[o] {
		return false
	}
	seen[o] = true
	defer delete(seen, o)
	defs := m.defsOf(o)
	if len(defs) == 0 {
		return false
	}
	for _, d := range defs {
		if (d.kind != "arg" && d.kind != "assign") || d.e == nil || !m.boundTo(objOf(m.info, d.e), target, seen) {
			return false
		}
	}
	return true
}

// perIteration reports whether local variable o is a fresh variable in every iteration of loop: it is declared inside
// the loop body, or inside the body of a helper (body) that is called from inside the loop (inLoopChain).
func pbfPerIteration(o types.Object, loop *ast.ForStmt, body *ast.BlockStmt, inLoopChain bool) bool {
	if o == nil || loop == nil {
		return false
	}
	if o.Pos() > loop.Body.Pos() && o.Pos() < loop.Body.End() {
		return true
	}
	return inLoopChain && body != nil && o.Pos() > body.Pos() && o.Pos() < body.End() && !(loop.Pos() >= body.Pos() && loop.End() <= body.End())
}
