package rules

import (
	"go/ast"
	"go/token"
	"go/types"
)

// c14NonEmpty: the comparison e having the truth value val implies len(X) > 0 for the returned X (nil otherwise):
//
//	len(X) != 0, len(X) > 0, len(X) >= 1, 0 < len(X) …  found true;   len(X) == 0, len(X) < 1 …  found false
//
// A non-empty slice or map is in particular not nil, which is what the store records for X.
func c14NonEmpty(info *types.Info, e ast.Expr, val bool) ast.Expr {
	l, op, r, ok := cmpNorm(ast.Unparen(e)) // op in <, <=, ==, !=
	if !ok {
		return nil
	}
	lenArg := func(x ast.Expr) ast.Expr {
		if call, ok := ast.Unparen(x).(*ast.CallExpr); ok && builtinName(info, call) == "len" && len(call.Args) == 1 {
			return call.Args[0]
		}
		return nil
	}
	isK := func(x ast.Expr, k int64) bool { v, ok := constInt(info, x); return ok && v == k }
	switch {
	case op == token.EQL && !val, op == token.NEQ && val:
		if a := lenArg(l); a != nil && isK(r, 0) {
			return a
		}
		if a := lenArg(r); a != nil && isK(l, 0) {
			return a
		}
	case op == token.LSS && val: // 0 < len(X)
		if a := lenArg(r); a != nil && isK(l, 0) {
			return a
		}
	case op == token.LEQ && val: // 1 <= len(X)
		if a := lenArg(r); a != nil && isK(l, 1) {
			return a
		}
	case op == token.LSS && !val: // not (len(X) < 1)
		if a := lenArg(l); a != nil && isK(r, 1) {
			return a
		}
	case op == token.LEQ && !val: // not (len(X) <= 0)
		if a := lenArg(l); a != nil && isK(r, 0) {
			return a
		}
	}
	return nil
}
