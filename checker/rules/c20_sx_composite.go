package rules

import (
	"go/ast"
	"go/types"
)

// composite: T{...} / &T{...}: a package error type becomes an error value with its fields, any other
// struct a fresh abstract document (b = it was created empty).
func (x *c20SX) composite(cl *ast.CompositeLit, st *c20St, addr bool) []c20EV {
	t := x.info.TypeOf(cl)
	if sl, ok := t.Underlying().(*types.Slice); ok && !addr {
		// []string{a, b}: a string list
		if b, ok := sl.Elem().Underlying().(*types.Basic); ok && b.Info()&types.IsString != 0 {
			var out []c20EV
			for _, it := range x.evList(cl.Elts, st) {
				l := c20V{k: c20kList, typ: t, id: x.newID()}
				for _, v := range it.vs {
					if v.k != c20kStr {
						l = c20Unknown("list literal `%s`", x.srcOf(cl))
						break
					}
					l.elems = append(l.elems, v.sym)
				}
				out = append(out, c20EV{it.st, l})
			}
			return out
		}
	}
	if c20IsBuilderType(t) && !addr && len(cl.Elts) == 0 {
		return c20One(st, x.zero(t))
	}
	if out, ok := x.aggLit(cl, t, st); ok && !addr {
		return out
	}
	nt, _ := t.(*types.Named)
	stt, _ := t.Underlying().(*types.Struct)
	if stt == nil {
		return c20One(st, c20Unknown("composite literal `%s`", x.srcOf(cl)))
	}
	var vals []ast.Expr
	var names []string
	for i, el := range cl.Elts {
		if kv, ok := el.(*ast.KeyValueExpr); ok {
			if id, ok := kv.Key.(*ast.Ident); ok {
				names = append(names, id.Name)
				vals = append(vals, kv.Value)
				continue
			}
			return c20One(st, c20Unknown("composite literal `%s`", x.srcOf(cl)))
		}
		if i < stt.NumFields() {
			names = append(names, stt.Field(i).Name())
			vals = append(vals, el)
		}
	}
	var out []c20EV
	for _, it := range x.evList(vals, st) {
		if it.st.ctl != c20cRun {
			out = append(out, c20EV{it.st, c20V{}})
			continue
		}
		fields := map[string]c20V{}
		for i, n := range names {
			fields[n] = it.vs[i]
		}
		if nt == nil || nt.Obj().Pkg() == x.cx.pk.Types {
			// a struct of the package built here: fields not given hold their zero value
			for i := 0; i < stt.NumFields(); i++ {
				if _, given := fields[stt.Field(i).Name()]; !given {
					fields[stt.Field(i).Name()] = x.zero(stt.Field(i).Type())
				}
			}
		}
		name := "" // unnamed struct type (e.g. the element of a table of {code, constructor} pairs)
		if nt != nil {
			name = nt.Obj().Name()
			if en := x.pkgErrType(types.NewPointer(nt)); en != "" && nt.Obj().Pkg() == x.cx.pk.Types {
				out = append(out, c20EV{it.st, c20V{k: c20kErr, tag: en, fields: fields, b: addr, typ: t}})
				continue
			}
		}
		out = append(out, c20EV{it.st, c20V{k: c20kObj, tag: "doc", id: x.newID(), name: name, b: len(cl.Elts) == 0, typ: t, fields: fields}})
	}
	return out
}
