package rules

import (
	"go/ast"
	"go/token"
	"go/types"
	"sort"
	"strings"

	"osmcheck/core"
)

// ---------------------------------------------------------------- Q8
//
// Decoder-owned storage never leaves with a delivered object. The per-worker decoder value outlives the block: a slice
// or map kept in one of its fields is written again when the same worker decodes its next block. The objects appended
// to the block's result slice are handed to the consumer, who reads (and may retain) them while the worker goes on. So
// no such field may flow - through locals, re-slicing, the first argument of append, parameters and results of
// package functions - into a field of a value of an object type (the struct types whose values are appended to the
// result slice), and no field of such an object may be taken over into a decoder field. Copying the CONTENT
// (`append(fresh, dec.buf...)`, copy) is fine. One construct per slice / map field of the per-worker decoder struct
// other than the result slice itself (which Q3 owns).

// c02ResultField finds the field of the per-worker decoder that the decode entry returns: the block's result slice.
func c02ResultField(m *pbfModel) *types.Var {
	entry := m.decodeEntry()
	if entry == nil {
		return nil
	}
	var q *types.Var
	for _, ret := range m.returnsOf(entry, 0) {
		if ret == nil {
			continue
		}
		if f := fieldOf(m.info, ret); f != nil && namedPath(selRecv(m.info, ast.Unparen(ret))) == namedPath(m.ddT) {
			q = f
		}
	}
	return q
}

type c02Leak struct {
	m     *pbfModel
	info  *types.Info
	field *types.Var
	elems map[string]bool       // named paths of the object struct types
	taint map[types.Object]bool // locals / parameters that may hold the field's storage
	tfun  map[*types.Func]bool  // functions whose first result may be the field's storage
}

func (l *c02Leak) isField(e ast.Expr) bool {
	e = ast.Unparen(e)
	if !c02IsRefStorage(l.info.TypeOf(e)) {
		return false
	}
	// `dec.F`, or a path through a struct kept in it: `dec.F.x.y`
	for depth := 0; depth < 6; depth++ {
		sel, ok := e.(*ast.SelectorExpr)
		if !ok || fieldOf(l.info, sel) == nil {
			return false
		}
		if namedPath(selRecv(l.info, sel)) == namedPath(l.m.ddT) {
			return fieldOf(l.info, sel) == l.field
		}
		e = ast.Unparen(sel.X)
	}
	return false
}

// c02HoldsStorage: t is (a pointer to) a struct type declared in this module that has, at some depth, a field of slice
// or map type: state of the decoder grouped in a sub-struct.
func c02HoldsStorage(t types.Type, depth int) bool {
	if t == nil || depth > 3 {
		return false
	}
	if p, ok := t.Underlying().(*types.Pointer); ok {
		t = p.Elem()
	}
	if named, ok := t.(*types.Named); ok && (named.Obj().Pkg() == nil || !strings.HasPrefix(named.Obj().Pkg().Path(), core.ModulePath)) {
		return false
	}
	st, ok := t.Underlying().(*types.Struct)
	if !ok {
		return false
	}
	for i := 0; i < st.NumFields(); i++ {
		if ft := st.Field(i).Type(); c02IsRefStorage(ft) || c02HoldsStorage(ft, depth+1) {
			return true
		}
	}
	return false
}

// tainted: e may denote the storage of the decoder field.
func (l *c02Leak) tainted(e ast.Expr, depth int) bool {
	if e == nil || depth > 8 {
		return false
	}
	e = ast.Unparen(e)
	if l.isField(e) {
		return true
	}
	switch x := e.(type) {
	case *ast.Ident:
		return l.taint[objOf(l.info, x)]
	case *ast.SliceExpr:
		return l.tainted(x.X, depth+1)
	case *ast.CallExpr:
		if tv, ok := l.info.Types[x.Fun]; ok && tv.IsType() && len(x.Args) == 1 {
			return l.tainted(x.Args[0], depth+1)
		}
		if builtinName(l.info, x) == "append" && len(x.Args) > 0 {
			return l.tainted(x.Args[0], depth+1)
		}
		if fn := callee(l.info, x); fn != nil && l.tfun[fn] {
			return true
		}
	}
	return false
}

// isElem: t is (a pointer to) one of the object struct types.
func (l *c02Leak) isElem(t types.Type) bool {
	if t == nil {
		return false
	}
	if p, ok := t.Underlying().(*types.Pointer); ok {
		t = p.Elem()
	}
	return l.elems[namedPath(t)] && namedPath(t) != ""
}

// elemRooted: e denotes storage held in a field of an object value (`n.Tags`, `way.Nodes[:0]`, a local copied from it).
func (l *c02Leak) elemRooted(e ast.Expr, depth int) bool {
	if e == nil || depth > 6 {
		return false
	}
	e = ast.Unparen(e)
	switch x := e.(type) {
	case *ast.SliceExpr:
		return l.elemRooted(x.X, depth+1)
	case *ast.SelectorExpr:
		return fieldOf(l.info, x) != nil && l.isElem(selRecv(l.info, x)) && c02IsRefStorage(l.info.TypeOf(x))
	case *ast.Ident:
		o, ok := objOf(l.info, x).(*types.Var)
		if !ok || o.IsField() {
			return false
		}
		for _, d := range l.m.defsOf(o) {
			if d.kind == "assign" && l.elemRooted(d.e, depth+1) {
				return true
			}
		}
	}
	return false
}

// propagate computes the taint sets to a fixpoint over all declared functions of the package.
func (l *c02Leak) propagate() {
	m := l.m
	for changed, rounds := true, 0; changed && rounds < 20; rounds++ {
		changed = false
		mark := func(o types.Object) {
			if v, ok := o.(*types.Var); ok && !v.IsField() && !l.taint[o] && c02IsRefStorage(v.Type()) {
				l.taint[o] = true
				changed = true
			}
		}
		for _, fi := range m.funcs {
			if fi.Decl.Body == nil {
				continue
			}
			fi := fi
			ast.Inspect(fi.Decl.Body, func(n ast.Node) bool {
				switch x := n.(type) {
				case *ast.AssignStmt:
					if len(x.Lhs) == len(x.Rhs) {
						for i, lh := range x.Lhs {
							if id, ok := ast.Unparen(lh).(*ast.Ident); ok && l.tainted(x.Rhs[i], 0) {
								mark(objOf(l.info, id))
							}
						}
					}
				case *ast.ValueSpec:
					if len(x.Names) == len(x.Values) {
						for i, nm := range x.Names {
							if l.tainted(x.Values[i], 0) {
								mark(l.info.Defs[nm])
							}
						}
					}
				case *ast.CallExpr:
					fn := callee(l.info, x)
					if fn == nil || m.funcs[fn] == nil {
						return true
					}
					sig := fn.Type().(*types.Signature)
					for i, a := range x.Args {
						if i < sig.Params().Len() && !(sig.Variadic() && i >= sig.Params().Len()-1) && l.tainted(a, 0) {
							mark(sig.Params().At(i))
						}
					}
				case *ast.ReturnStmt:
					if len(x.Results) > 0 && l.tainted(x.Results[0], 0) && !l.tfun[fi.Obj] {
						l.tfun[fi.Obj] = true
						changed = true
					}
				}
				return true
			})
		}
	}
}

// sinks lists the places where the field's storage becomes part of an object value, or an object's storage is kept in
// the field.
func (l *c02Leak) sinks() (pos []token.Pos, why []string) {
	add := func(p token.Pos, s string) { pos, why = append(pos, p), append(why, s) }
	fset := l.m.p.Fset
	for _, fi := range l.m.funcs {
		if fi.Decl.Body == nil {
			continue
		}
		ast.Inspect(fi.Decl.Body, func(n ast.Node) bool {
			switch x := n.(type) {
			case *ast.CompositeLit:
				if !l.isElem(l.info.TypeOf(x)) {
					return true
				}
				for _, el := range x.Elts {
					v := el
					if kv, ok := el.(*ast.KeyValueExpr); ok {
						v = kv.Value
					}
					if l.tainted(v, 0) {
						add(v.Pos(), "`"+src(fset, v)+"` becomes a field of the object built by `"+c02Short(src(fset, x))+"`")
					}
				}
			case *ast.AssignStmt:
				if len(x.Lhs) != len(x.Rhs) {
					return true
				}
				for i, lh := range x.Lhs {
					lh = ast.Unparen(lh)
					if sel, ok := lh.(*ast.SelectorExpr); ok && fieldOf(l.info, sel) != nil && l.isElem(selRecv(l.info, sel)) && l.tainted(x.Rhs[i], 0) {
						add(x.Pos(), "`"+src(fset, x)+"` stores it in a field of an object")
					}
					if l.isField(lh) && l.elemRooted(x.Rhs[i], 0) {
						add(x.Pos(), "`"+src(fset, x)+"` keeps the storage of an object's field in the decoder")
					}
				}
			}
			return true
		})
	}
	return
}

// c02ObjectTypes adds the struct types of the values expression e can denote: its static type, or - when that is an
// interface (`emit(o osm.Object)`) - the types of what the variable is defined from (arguments at the call sites,
// assigned values).
func c02ObjectTypes(m *pbfModel, e ast.Expr, out map[string]bool, depth int) {
	if e == nil || depth > 5 {
		return
	}
	t := m.info.TypeOf(e)
	if t == nil {
		return
	}
	if p, ok := t.Underlying().(*types.Pointer); ok {
		t = p.Elem()
	}
	if _, isStruct := t.Underlying().(*types.Struct); isStruct {
		if namedPath(t) != "" {
			out[namedPath(t)] = true
		}
		return
	}
	if _, isIface := t.Underlying().(*types.Interface); !isIface {
		return
	}
	e = ast.Unparen(e)
	if call, ok := e.(*ast.CallExpr); ok {
		if tv, ok := m.info.Types[call.Fun]; ok && tv.IsType() && len(call.Args) == 1 {
			c02ObjectTypes(m, call.Args[0], out, depth+1)
		}
		return
	}
	if id, ok := e.(*ast.Ident); ok {
		for _, d := range m.defsOf(objOf(m.info, id)) {
			if d.kind == "assign" || d.kind == "arg" {
				c02ObjectTypes(m, d.e, out, depth+1)
			}
		}
	}
}

func c02Short(s string) string {
	if len(s) > 60 {
		return s[:57] + "..."
	}
	return s
}

func c02Q8(r *core.R) {
	m := modelOrAnchor(r)
	if m == nil {
		return
	}
	info := m.info
	q := c02ResultField(m)
	st, _ := m.ddT.Underlying().(*types.Struct)
	if q == nil || st == nil {
		r.Anchor("result slice field returned by the decode entry of the per-worker decoder")
		return
	}
	// object types: what is appended to the result slice
	elems := map[string]bool{}
	for _, fi := range m.funcs {
		if fi.Decl.Body == nil {
			continue
		}
		ast.Inspect(fi.Decl.Body, func(n ast.Node) bool {
			call, ok := n.(*ast.CallExpr)
			if !ok || builtinName(info, call) != "append" || len(call.Args) < 2 {
				return true
			}
			if fieldOf(info, call.Args[0]) != q || namedPath(selRecv(info, ast.Unparen(call.Args[0]))) != namedPath(m.ddT) {
				return true
			}
			for _, a := range call.Args[1:] {
				c02ObjectTypes(m, a, elems, 0)
			}
			return true
		})
	}
	if len(elems) == 0 {
		r.Anchor("objects appended to the result slice dec." + q.Name())
		return
	}
	var names []string
	for k := range elems {
		names = append(names, k)
	}
	sort.Strings(names)
	n := 0
	for i := 0; i < st.NumFields(); i++ {
		f := st.Field(i)
		if f == q || !(c02IsRefStorage(f.Type()) || c02HoldsStorage(f.Type(), 0)) {
			continue
		}
		n++
		c := "retained@" + f.Name()
		l := &c02Leak{m: m, info: info, field: f, elems: elems, taint: map[types.Object]bool{}, tfun: map[*types.Func]bool{}}
		l.propagate()
		pos, why := l.sinks()
		if len(pos) == 0 {
			r.OK(c, f.Pos(), "the storage of dec.%s, which the worker writes again for its next block, never becomes reachable from an object appended to dec.%s (no flow into a field of %v), and no object field's storage is kept in it", f.Name(), q.Name(), names)
			continue
		}
		for i := range pos {
			r.Bad(c, pos[i], "dec.%s is storage of the per-worker decoder that the worker writes again for its next block, but %s: an object the consumer already holds shares the array, so its content is overwritten (and raced on) while the consumer reads it", f.Name(), why[i])
		}
	}
	r.Stat("decoder_storage_fields", n)
}
