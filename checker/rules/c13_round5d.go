package rules

import "osmcheck/core"

// Round 5, part 4: the scan state (index, running maximum, found flag) kept in one struct instead of parallel locals.

const c13ScanStructWay = `type wayCandidate struct {
	pos, version int
	ok           bool
}

func findPreviousWay(ctx context.Context, w *osm.Way, ds osm.HistoryDatasourcer, ignoreMissing bool) (*osm.Way, error) {
	ways, err := ds.WayHistory(ctx, w.ID)
	if err != nil {
		return nil, err
	}
	best := wayCandidate{pos: -1, version: -1}
	for i, way := range ways {
		if way.Version < w.Version && way.Version > best.version {
			best = wayCandidate{pos: i, version: way.Version, ok: true}
		}
	}
	if !best.ok {
		if ignoreMissing {
			return nil, nil
		}
		return nil, &NoVisibleChildError{ID: w.FeatureID()}
	}
	return ways[best.pos], nil
}
`

const c13ScanStructRel = `func findPreviousRelation(ctx context.Context, r *osm.Relation, ds osm.HistoryDatasourcer, ignoreMissing bool) (*osm.Relation, error) {
	relations, err := ds.RelationHistory(ctx, r.ID)
	if err != nil {
		return nil, err
	}
	var state struct{ at, top int }
	state.at, state.top = -1, -1
	for i := range relations {
		v := relations[i].Version
		if v >= r.Version || v <= state.top {
			continue
		}
		state.top = v
		state.at = i
	}
	if state.at < 0 {
		if ignoreMissing {
			return nil, nil
		}
		return nil, &NoVisibleChildError{ID: r.FeatureID()}
	}
	return relations[state.at], nil
}
`

var c13Benign5d = []core.Mutant{
	{Name: "scan-state-in-struct-literal", File: c13Chg, Find: c13SrcFindWay, Replace: c13ScanStructWay},
	{Name: "scan-state-in-struct-fields", File: c13Chg, Find: c13SrcFindRel, Replace: c13ScanStructRel},
}

var c13Mutants5d = []core.Mutant{
	{Name: "struct-scan-flag-not-set", File: c13Chg, Find: c13SrcFindWay, Replace: c13Sub(c13ScanStructWay, "version: way.Version, ok: true}", "version: way.Version}"),
		ExpectRule: "S2", ExpectConstruct: "Way"},
	{Name: "struct-scan-index-without-maximum", File: c13Chg, Find: c13SrcFindRel, Replace: c13Sub(c13ScanStructRel, "\t\tstate.top = v\n", ""),
		ExpectRule: "S2", ExpectConstruct: "select@Relation"},
	{Name: "struct-scan-not-strict-below-own", File: c13Chg, Find: c13SrcFindRel, Replace: c13Sub(c13ScanStructRel, "v >= r.Version ||", "v > r.Version ||"),
		ExpectRule: "S2", ExpectConstruct: "select@Relation"},
	{Name: "lookup-table-visibility-inverted", File: c13Chg, Find: c13SrcVisible,
		Replace:    "\tcurrentVisible := map[osm.ActionType]bool{osm.ActionModify: true, osm.ActionDelete: true}[actionType]\n",
		ExpectRule: "S4", ExpectConstruct: "update@Delete/Way"},
}
