package rules

import (
	"fmt"
	"go/ast"
	"go/token"
	"go/types"
	"sort"
	"strings"

	"golang.org/x/tools/go/packages"

	"osmcheck/core"
)

// ---------------------------------------------------------------- P1

// c07Item is a wg.Add call or a go statement of the spawner, in execution order.
type c07Item struct {
	add    *ast.CallExpr // wg.Add call (nil for a go statement)
	g      *goSite
	key    [2]token.Pos // (position in the root spawner, own position)
	inLoop bool
	uncond bool
}

// c07OnlyUnder reports whether, between x and body, x is nested only in block statements, labels and the loop `loop`.
func c07OnlyUnder(par map[ast.Node]ast.Node, x ast.Node, body *ast.BlockStmt, loop ast.Node) bool {
	for p := par[x]; p != nil && p != ast.Node(body); p = par[p] {
		switch q := p.(type) {
		case *ast.BlockStmt, *ast.LabeledStmt, *ast.ExprStmt, *ast.AssignStmt, *ast.DeclStmt, *ast.GenDecl, *ast.ValueSpec,
			*ast.CallExpr, *ast.ParenExpr, *ast.UnaryExpr, *ast.StarExpr, *ast.SelectorExpr, *ast.IndexExpr, *ast.CompositeLit, *ast.KeyValueExpr:
			// (operands of simple statements are evaluated whenever the statement is)
		case *ast.BinaryExpr:
			if q.Op == token.LAND || q.Op == token.LOR {
				return false
			}
		default:
			if p != loop {
				return false
			}
		}
	}
	return true
}

// c07CountedLoop recognises a loop that runs exactly N times for an object N that the body does not modify:
// `for i := 0; i < N; i++`, `i != N`, `N > i`, `for i := 1; i <= N; i++`, `for i := N; i > 0; i--`, `i >= 1`.
func c07CountedLoop(info *types.Info, loop *ast.ForStmt) types.Object {
	if loop == nil {
		return nil
	}
	init, ok := loop.Init.(*ast.AssignStmt)
	if !ok || len(init.Lhs) != 1 || len(init.Rhs) != 1 || loop.Cond == nil || loop.Post == nil {
		return nil
	}
	i := objOf(info, init.Lhs[0])
	if i == nil {
		return nil
	}
	step := 0
	switch p := loop.Post.(type) {
	case *ast.IncDecStmt:
		if objOf(info, p.X) == i {
			step = map[token.Token]int{token.INC: 1, token.DEC: -1}[p.Tok]
		}
	case *ast.AssignStmt:
		if len(p.Lhs) == 1 && len(p.Rhs) == 1 && objOf(info, p.Lhs[0]) == i {
			if v, ok := constInt(info, p.Rhs[0]); ok && v == 1 {
				step = map[token.Token]int{token.ADD_ASSIGN: 1, token.SUB_ASSIGN: -1}[p.Tok]
			}
		}
	}
	l, op, r, ok := cmpNorm(loop.Cond)
	if !ok || step == 0 {
		return nil
	}
	var n types.Object
	c0, c0ok := constInt(info, init.Rhs[0])
	switch {
	case step == 1 && c0ok && objOf(info, l) == i && objOf(info, r) != nil && objOf(info, r) != i:
		// i from c0 up: i < N (c0=0), i != N (c0=0), i <= N (c0=1)
		if (c0 == 0 && (op == token.LSS || op == token.NEQ)) || (c0 == 1 && op == token.LEQ) {
			n = objOf(info, r)
		}
	case step == 1 && c0ok && c0 == 0 && op == token.NEQ && objOf(info, r) == i:
		n = objOf(info, l)
	case step == -1 && objOf(info, init.Rhs[0]) != nil:
		// i from N down: 0 < i, 1 <= i, i != 0
		start := objOf(info, init.Rhs[0])
		if lc, ok := constInt(info, l); ok && objOf(info, r) == i && ((lc == 0 && op == token.LSS) || (lc == 1 && op == token.LEQ)) {
			n = start
		}
		if rc, ok := constInt(info, r); ok && objOf(info, l) == i && rc == 0 && op == token.NEQ {
			n = start
		}
	}
	if n == nil {
		return nil
	}
	if _, isVar := n.(*types.Var); !isVar {
		return nil
	}
	// neither i nor n assigned in the body; the body does not leave the loop early
	bad := false
	ast.Inspect(loop.Body, func(x ast.Node) bool {
		switch s := x.(type) {
		case *ast.AssignStmt:
			for _, l := range s.Lhs {
				if o := objOf(info, l); o == i || o == n {
					bad = true
				}
			}
		case *ast.IncDecStmt:
			if o := objOf(info, s.X); o == i || o == n {
				bad = true
			}
		case *ast.UnaryExpr:
			if s.Op == token.AND {
				if o := objOf(info, s.X); o == i || o == n {
					bad = true
				}
			}
		case *ast.BranchStmt:
			if s.Tok == token.BREAK || s.Tok == token.GOTO {
				bad = true
			}
		case *ast.ReturnStmt:
			bad = true
		case *ast.FuncLit:
			return false
		}
		return true
	})
	if bad {
		return nil
	}
	return n
}

// loopRunsNTimes reports whether loop runs exactly n times (kept for the other rule files).
func loopRunsNTimes(info *types.Info, loop *ast.ForStmt, n types.Object) bool {
	return n != nil && c07CountedLoop(info, loop) == n
}

// c07EvalInt evaluates an integer expression built from constants, + - * and the object n (with value nv).
// c07EvalSame, when set, tells c07EvalInt that two variables hold the same worker count (a parameter bound to it).
var c07EvalSame func(a, b types.Object) bool

func c07EvalInt(info *types.Info, e ast.Expr, n types.Object, nv int64) (int64, bool) {
	e = stripConv(info, e)
	if v, ok := constInt(info, e); ok {
		return v, true
	}
	switch x := e.(type) {
	case *ast.Ident:
		if n != nil && objOf(info, x) == n {
			return nv, true
		}
		if n != nil && c07EvalSame != nil && c07EvalSame(objOf(info, x), n) {
			return nv, true
		}
	case *ast.BinaryExpr:
		a, ok1 := c07EvalInt(info, x.X, n, nv)
		b, ok2 := c07EvalInt(info, x.Y, n, nv)
		if ok1 && ok2 {
			switch x.Op {
			case token.ADD:
				return a + b, true
			case token.SUB:
				return a - b, true
			case token.MUL:
				return a * b, true
			}
		}
	}
	return 0, false
}

func c07P1(r *core.R) {
	m := modelOrAnchor(r)
	if m == nil {
		return
	}
	info := m.info
	r.Stat("go_statements", len(m.gos))
	startU := m.byDecl[m.start.Obj]

	// (a) the wait-group counter: simulate the spawner's Add calls and go statements in execution order
	c := "wg.Add@" + m.start.Name()
	var loop ast.Stmt
	multiLoop := false
	for _, g := range m.gos {
		if g.loopStmt != nil {
			if loop != nil && loop != g.loopStmt {
				multiLoop = true
			}
			loop = g.loopStmt
		}
	}
	var items []c07Item
	m.deepWalk(startU, func(s *pbfSite, n ast.Node) bool {
		var it *c07Item
		switch x := n.(type) {
		case *ast.CallExpr:
			if isMethod(callee(info, x), "sync.WaitGroup", "Add") {
				if sel, ok := x.Fun.(*ast.SelectorExpr); ok && m.isWaitGroup(sel.X, map[types.Object]bool{}) && len(x.Args) == 1 {
					it = &c07Item{add: x}
				}
			}
		case *ast.GoStmt:
			if g := m.goCalls[x.Call]; g != nil {
				it = &c07Item{g: g}
			}
		}
		if it == nil {
			return true
		}
		it.key = [2]token.Pos{s.rootPos(n), n.Pos()}
		it.uncond = true
		for i, fr := range s.frames {
			x := fr.link
			if i == len(s.frames)-1 {
				x = n
			}
			if fr.deferred {
				it.uncond = false
			}
			if loop != nil && loop.Pos() <= x.Pos() && x.End() <= loop.End() {
				it.inLoop = true
			}
			if !c07OnlyUnder(parentsOf(r.P, fr.u.fi), x, fr.body, loop) {
				it.uncond = false
			}
		}
		items = append(items, *it)
		return true
	})
	sort.SliceStable(items, func(i, j int) bool {
		if items[i].key[0] != items[j].key[0] {
			return items[i].key[0] < items[j].key[0]
		}
		return items[i].key[1] < items[j].key[1]
	})
	var firstAdd, lastGo token.Pos
	nAdds := 0
	for _, it := range items {
		if it.add != nil {
			nAdds++
			if !firstAdd.IsValid() {
				firstAdd = it.key[0]
			}
		} else {
			lastGo = it.key[0]
		}
	}
	nObj := c07CountedLoopStmt(m, loop)
	c07EvalSame = func(a, b types.Object) bool { return c07SameCount(m, a, b) }
	defer func() { c07EvalSame = nil }()
	why := ""
	switch {
	case nAdds == 0:
		why = "the spawner never calls wg.Add: Close's wg.Wait does not wait for the goroutines"
	case multiLoop:
		why = "go statements in more than one loop"
	case loop != nil && nObj == nil:
		why = "the spawning loop is not a counted loop that runs a fixed number N of times (`for i := 0; i < N; i++` or an equivalent form)"
	}
	if why == "" {
		for _, it := range items {
			if !it.uncond {
				why = fmt.Sprintf("the go statement at %s is executed conditionally", r.P.Rel(it.key[1]))
				if it.add != nil {
					why = fmt.Sprintf("`%s` at %s is executed conditionally", src(r.P.Fset, it.add), r.P.Rel(it.key[1]))
				}
			}
		}
	}
	if why == "" && nObj != nil && countAssignsTo(info, m.start.Decl.Body, nObj, firstAdd, m.start.Decl.End()) > 0 {
		why = nObj.Name() + " is reassigned after wg.Add"
	}
	if why == "" {
		// a return between the first Add and the last go statement leaves the counter above the number of goroutines
		ast.Inspect(m.start.Decl.Body, func(x ast.Node) bool {
			switch s := x.(type) {
			case *ast.FuncLit:
				return false
			case *ast.ReturnStmt:
				if s.Pos() > firstAdd && s.Pos() < lastGo {
					why = "the spawner can return at " + r.P.Rel(s.Pos()) + " after wg.Add and before all goroutines are started"
				}
			}
			return true
		})
	}
	if why == "" {
		// finite-domain evaluation: for several worker counts, replay Add calls and go statements in order
		for _, nv := range []int64{1, 2, 3, 7} {
			var added, started int64
			step := func(it c07Item) {
				if why != "" {
					return
				}
				if it.add != nil {
					v, ok := c07EvalInt(info, it.add.Args[0], nObj, nv)
					if !ok {
						why = fmt.Sprintf("the argument of `%s` is not an integer expression over constants and the worker count", src(r.P.Fset, it.add))
						return
					}
					added += v
					return
				}
				started++
				if added < started {
					why = fmt.Sprintf("with %d workers the go statement at %s starts goroutine #%d when only %d have been added to the wait group (Add must precede the go statement)", nv, r.P.Rel(it.key[1]), started, added)
				}
			}
			inLoopDone := false
			for _, it := range items {
				if it.inLoop {
					if inLoopDone {
						continue
					}
					inLoopDone = true
					for k := int64(0); k < nv; k++ {
						for _, jt := range items {
							if jt.inLoop {
								step(jt)
							}
						}
					}
					continue
				}
				step(it)
			}
			if why == "" && added != started {
				why = fmt.Sprintf("with %d workers %d are added to the wait group but %d goroutines are started", nv, added, started)
			}
		}
	}
	pos := m.start.Decl.Pos()
	if firstAdd.IsValid() {
		pos = firstAdd
	}
	if why == "" {
		nl, ns := 0, 0
		for _, it := range items {
			if it.g != nil {
				if it.inLoop {
					nl++
				} else {
					ns++
				}
			}
		}
		r.OK(c, pos, "replaying the %d wg.Add call(s) and %d go statement(s) of the spawner in execution order for 1, 2, 3 and 7 workers: the counter is never below the number of goroutines started and equals it at the end (%d per loop iteration + %d straight-line)", nAdds, len(items)-nAdds, nl, ns)
	} else {
		r.Bad(c, pos, "wg.Add does not account for exactly the goroutines started (%s): Close either returns while goroutines run or blocks forever", why)
	}

	// (b) every goroutine calls wg.Done exactly once, from a deferred context that always runs
	for _, g := range m.gos {
		c := "done@" + g.unit.name
		type doneSite struct {
			ok  bool
			why string
		}
		var sites []doneSite
		m.deepWalk(g.unit, func(s *pbfSite, n ast.Node) bool {
			call, ok := n.(*ast.CallExpr)
			if !ok || !isMethod(callee(info, call), "sync.WaitGroup", "Done") {
				return true
			}
			if sel, ok := call.Fun.(*ast.SelectorExpr); !ok || !m.isWaitGroup(sel.X, map[types.Object]bool{}) {
				return true
			}
			stmt, deferred := m.stmtOfCall(s, call)
			d := doneSite{ok: true}
			switch {
			case !deferred && !s.deferredCtx():
				d = doneSite{false, "Done at " + r.P.Rel(call.Pos()) + " is not deferred: a return or panic before it leaves the counter up"}
			case !m.mustExecDeep(s, stmt):
				d = doneSite{false, "Done at " + r.P.Rel(call.Pos()) + " is not reached on every path (conditional, in a loop, or after a return)"}
			}
			sites = append(sites, d)
			return true
		})
		switch {
		case len(sites) == 0:
			r.Bad(c, g.stmt.Pos(), "goroutine never calls wg.Done: Close's Wait never returns")
		case len(sites) > 1:
			r.Bad(c, g.stmt.Pos(), "goroutine has %d wg.Done call sites; exactly one deferred Done is required or Close's Wait never returns / panics", len(sites))
		case !sites[0].ok:
			r.Bad(c, g.stmt.Pos(), "%s; exactly one unconditional deferred Done is required or Close's Wait never returns / panics", sites[0].why)
		default:
			r.OK(c, g.stmt.Pos(), "the goroutine defers wg.Done() unconditionally, exactly once")
		}
	}

	// (c)+(e) Close: closed flag, then cancel, then wait
	c07CloseProtocol(r, m)

	// (d) serializer: deferred close of the channel the consumer receives from
	ops := m.chanOps()
	consumerRecv := map[string]bool{}
	for _, op := range ops {
		if (op.kind == "recv" || op.kind == "range") && op.u.roles["consumer"] {
			consumerRecv[op.class] = true
		}
	}
	if len(consumerRecv) == 0 {
		r.Anchor("receive of the ordered queue in the consumer")
	}
	sg := m.goOf("serializer")
	for cls := range consumerRecv {
		c := "queue-close@serializer " + cls
		found := false
		for _, op := range ops {
			if op.kind != "close" || op.class != cls {
				continue
			}
			found = true
			okSite := false
			if sg != nil && op.u.onlyRole("serializer") {
				m.deepWalk(sg.unit, func(s *pbfSite, n ast.Node) bool {
					if n == op.node {
						stmt, deferred := m.stmtOfCall(s, n.(*ast.CallExpr))
						okSite = (deferred || s.deferredCtx()) && m.mustExecDeep(s, stmt)
					}
					return true
				})
			}
			if okSite {
				r.OK(c, op.pos, "the serializer goroutine closes %s in a deferred function that runs on every exit, so the consumer's receive always terminates", cls)
			} else {
				r.Bad(c, op.pos, "%s is closed outside a deferred function of the serializer goroutine that runs on every exit", cls)
			}
		}
		if !found {
			r.Bad(c, m.start.Decl.Pos(), "the ordered queue %s is never closed: the consumer's receive blocks forever after the pipeline stops", cls)
		}
	}
}

// stmtOfCall returns the statement that executes call at its site: the defer statement for `defer f()`, else the call.
func (m *pbfModel) stmtOfCall(s *pbfSite, call *ast.CallExpr) (ast.Node, bool) {
	par := parentsOf(m.p, s.unit().fi)
	if ds, ok := par[call].(*ast.DeferStmt); ok && ds.Call == call {
		return ds, true
	}
	return call, false
}

// c07ScannerFields resolves, by role, the fields of a Scanner type: the stored error (type error), the closed flag
// (the bool field under which Err reports osm.ErrScannerClosed, else the bool field Close sets), the context.
type c07Scanner struct {
	rel                           string
	pk                            *packages.Package
	view                          *pbfPkgView
	T                             *types.Named
	errField, closedField, ctxFld *types.Var
	// localVal, while a function is evaluated for one abstract input along its (then single) path, holds what the
	// error-typed locals currently stand for (see c07TrackLocals)
	localVal map[types.Object]string
}

func c07LoadScanner(p *core.Program, rel string) *c07Scanner {
	return c07LoadScannerPkg(p.Pkg(rel))
}

func c07LoadScannerPkg(pk *packages.Package) *c07Scanner {
	if pk == nil {
		return nil
	}
	rel := strings.TrimPrefix(pk.PkgPath, core.ModulePath+"/")
	s := &c07Scanner{rel: rel, pk: pk, view: newPkgView(pk)}
	var st *types.Struct
	s.T, st = structType(pk, "Scanner")
	if st == nil {
		return nil
	}
	var bools []*types.Var
	for i := 0; i < st.NumFields(); i++ {
		f := st.Field(i)
		switch {
		case pbfIsError(f.Type()):
			if s.errField == nil || f.Name() == "err" {
				s.errField = f
			}
		case namedPath(f.Type()) == "context.Context":
			s.ctxFld = f
		}
		if b, ok := f.Type().Underlying().(*types.Basic); ok && b.Kind() == types.Bool && !f.Exported() {
			bools = append(bools, f)
		}
	}
	// closed flag: a bool field that Close (deep) sets to true
	if fi := findFunc(pk, "(*Scanner).Close"); fi != nil {
		inspectDeep(pk, fi, 3, func(_ deepSite, n ast.Node) bool {
			if as, ok := n.(*ast.AssignStmt); ok && len(as.Lhs) == len(as.Rhs) {
				for i, l := range as.Lhs {
					f := fieldOf(pk.TypesInfo, l)
					for _, b := range bools {
						if f == b && c07IsTrue(pk.TypesInfo, as.Rhs[i]) {
							s.closedField = f
						}
					}
				}
			}
			return true
		})
	}
	return s
}

func c07IsTrue(info *types.Info, e ast.Expr) bool {
	tv, ok := info.Types[e]
	return ok && tv.Value != nil && tv.Value.String() == "true"
}

// c07CloseProtocol checks Scanner.Close of both scanners on every path, through helpers:
// the closed flag is set before the shutdown starts; osmpbf: the decoder's cancel func is called before wg.Wait and
// Close does not return without waiting; osmxml: the cancel func paired with the scanner's context is called.
func c07CloseProtocol(r *core.R, m *pbfModel) {
	for _, rel := range []string{"osmpbf", "osmxml"} {
		sc := c07LoadScanner(r.P, rel)
		cFlag := "close@" + rel + ".(*Scanner).Close"
		cWait := "close@osmpbf decoder cancel-before-wait"
		if sc == nil {
			r.Anchor(rel + ".Scanner")
			continue
		}
		fi := findFunc(sc.pk, "(*Scanner).Close")
		if fi == nil {
			r.Anchor(rel + ".(*Scanner).Close")
			continue
		}
		info := sc.pk.TypesInfo
		const (
			bFlag = 1 << iota
			bCancel
			bWait
		)
		var flagBad, waitBad, noWait, noCancel, noFlag token.Pos
		var flagPos, cancelPos token.Pos
		isCancel := func(call *ast.CallExpr) bool {
			f := fieldOf(info, call.Fun)
			if f == nil {
				return false
			}
			if rel == "osmpbf" {
				return f == m.cancelField
			}
			if _, ok := f.Type().Underlying().(*types.Signature); ok {
				return cancelPairedWithCtx(sc.pk, f)
			}
			return false
		}
		t := sc.view.newTracer()
		t.Event = func(st int, ev *pbfEvent) int {
			switch ev.kind {
			case "node":
				if as, ok := ev.n.(*ast.AssignStmt); ok && len(as.Lhs) == len(as.Rhs) {
					for i, l := range as.Lhs {
						if f := fieldOf(info, l); f != nil && f == sc.closedField && c07IsTrue(info, as.Rhs[i]) {
							st |= bFlag
							flagPos = as.Pos()
						}
					}
				}
			case "call":
				call := ev.n.(*ast.CallExpr)
				switch {
				case isCancel(call):
					if st&bFlag == 0 {
						flagBad = call.Pos()
					}
					st |= bCancel
					cancelPos = call.Pos()
				case rel == "osmpbf" && isMethod(callee(info, call), "sync.WaitGroup", "Wait"):
					if sel, ok := call.Fun.(*ast.SelectorExpr); ok && fieldOf(info, sel.X) == m.wgField {
						if st&bCancel == 0 {
							waitBad = call.Pos()
						}
						if st&bFlag == 0 {
							flagBad = call.Pos()
						}
						st |= bWait
					}
				}
			}
			return st
		}
		// the final state is taken after the deferred calls of Close have run
		for _, x := range t.Run(fi, fi.Decl.Body, 0) {
			pos := fi.Decl.Pos()
			if x.ret != nil {
				pos = x.ret.Pos()
			}
			if x.st&bFlag == 0 {
				noFlag = pos
			}
			if x.st&bCancel == 0 {
				noCancel = pos
			}
			if x.st&bWait == 0 {
				noWait = pos
			}
		}
		if len(t.incomplete) > 0 {
			r.Unknown(cFlag, fi.Decl.Pos(), "Close could not be followed on every path: %s", strings.Join(t.incomplete, "; "))
			continue
		}
		switch {
		case sc.closedField == nil || noFlag.IsValid():
			r.Bad(cFlag, fi.Decl.Pos(), "Close does not set the closed flag on every path: later Scan calls are not refused and Err cannot report ErrScannerClosed")
		case noCancel.IsValid() && !(rel == "osmpbf" && !cancelPos.IsValid()):
			r.Bad(cFlag, noCancel, "Close can return without cancelling the scanner's context / shutting down the decoder: goroutines keep running / a blocked Scan is not released")
		case rel == "osmxml" && !cancelPos.IsValid():
			r.Bad(cFlag, fi.Decl.Pos(), "Close neither cancels the scanner's context nor closes the decoder: goroutines keep running / a blocked Scan is not released")
		case flagBad.IsValid():
			r.Bad(cFlag, flagBad, "the closed flag is set after the shutdown has started: an error produced by shutting down would be attributed wrongly and Scan could still run during shutdown")
		default:
			r.OK(cFlag, flagPos, "on every path `%s = true` precedes the shutdown (cancel%s)", sc.closedField.Name(), map[bool]string{true: " / wait", false: ""}[rel == "osmpbf"])
		}
		if rel != "osmpbf" {
			continue
		}
		switch {
		case noWait.IsValid():
			r.Bad(cWait, noWait, "Close does not wait for the goroutines (no wg.Wait on some path): goroutines may outlive Close")
		case !cancelPos.IsValid():
			r.Bad(cWait, fi.Decl.Pos(), "Close waits without cancelling the context: it blocks until the whole input has been read")
		case waitBad.IsValid():
			r.Bad(cWait, waitBad, "wg.Wait is reached on a path on which the cancel func has not been called: Close blocks until the whole input has been read")
		default:
			r.OK(cWait, cancelPos, "on every path through Scanner.Close and the functions it calls, cancel() precedes wg.Wait() and Close does not return before Wait")
		}
	}
}

// cancelPairedWithCtx: field f is assigned as the cancel result of context.WithCancel together with a context field.
func cancelPairedWithCtx(pk *packages.Package, f *types.Var) bool {
	ok := false
	for _, fi := range allFuncs(pk) {
		ast.Inspect(fi.Decl.Body, func(n ast.Node) bool {
			as, isAs := n.(*ast.AssignStmt)
			if !isAs || len(as.Lhs) != 2 || len(as.Rhs) != 1 {
				return true
			}
			call, isCall := as.Rhs[0].(*ast.CallExpr)
			if !isCall || !isPkgFunc(callee(pk.TypesInfo, call), "context", "WithCancel") {
				return true
			}
			if fieldOf(pk.TypesInfo, as.Lhs[1]) == f {
				if cf := fieldOf(pk.TypesInfo, as.Lhs[0]); cf != nil && namedPath(cf.Type()) == "context.Context" {
					ok = true
				}
				return true
			}
			// c, cancel := context.WithCancel(..) feeding a composite literal / later field assignments
			c, cancel := objOf(pk.TypesInfo, as.Lhs[0]), objOf(pk.TypesInfo, as.Lhs[1])
			if c == nil || cancel == nil {
				return true
			}
			gotC, gotF := false, false
			ast.Inspect(fi.Decl.Body, func(y ast.Node) bool {
				switch z := y.(type) {
				case *ast.KeyValueExpr:
					if k, ok := z.Key.(*ast.Ident); ok {
						if fv, ok := pk.TypesInfo.Uses[k].(*types.Var); ok && fv.IsField() {
							if fv == f && objOf(pk.TypesInfo, z.Value) == cancel {
								gotF = true
							}
							if namedPath(fv.Type()) == "context.Context" && objOf(pk.TypesInfo, z.Value) == c {
								gotC = true
							}
						}
					}
				case *ast.AssignStmt:
					if len(z.Lhs) == len(z.Rhs) {
						for i, l := range z.Lhs {
							if fv := fieldOf(pk.TypesInfo, l); fv != nil {
								if fv == f && objOf(pk.TypesInfo, z.Rhs[i]) == cancel {
									gotF = true
								}
								if namedPath(fv.Type()) == "context.Context" && objOf(pk.TypesInfo, z.Rhs[i]) == c {
									gotC = true
								}
							}
						}
					}
				}
				return true
			})
			if gotC && gotF {
				ok = true
			}
			return true
		})
	}
	return ok
}

// ---------------------------------------------------------------- P2

func c07P2(r *core.R) {
	m := modelOrAnchor(r)
	if m == nil {
		return
	}
	ops := m.chanOps()
	r.Stat("channel_operations", len(ops))
	// per class: closes, receivers, senders
	byClass := map[string][]*chanOp{}
	for _, op := range ops {
		byClass[op.class] = append(byClass[op.class], op)
	}
	// a class is "closed by a terminating goroutine" when it has close sites, all run at the exit of code that only
	// runs inside pipeline goroutines
	closedByDefer := func(cls string) (bool, string) {
		n := 0
		for _, op := range byClass[cls] {
			if op.kind != "close" {
				continue
			}
			n++
			if !op.defer_ {
				return false, "close at " + r.P.Rel(op.pos) + " is not deferred"
			}
			if !op.u.goroutineOnly() {
				return false, "close at " + r.P.Rel(op.pos) + " is not in a pipeline goroutine"
			}
		}
		if n == 0 {
			return false, "the channel is never closed"
		}
		return true, ""
	}
	closeRole := c07CloseRoleUnits(m)
	defer c07CloseRoleOps(r, m, closeRole, closedByDefer)
	defer c07WakeUpPath(r, m, closeRole)
	for _, op := range ops {
		if op.kind == "close" || op.kind == "done" {
			continue
		}
		c := fmt.Sprintf("%s %s@%s", op.kind, op.class, c07RoleName(m, op.u))
		if strings.HasPrefix(op.class, "?") {
			r.Unknown(c, op.pos, "channel expression `%s` could not be tied to a decoder channel field", src(r.P.Fset, op.expr))
			continue
		}
		if op.sel != nil {
			if c07HasDefault(op.sel) {
				r.OK(c, op.pos, "in a select with a default clause: the operation never blocks")
				continue
			}
			if m.doneCase(op.sel) != nil {
				r.OK(c, op.pos, "in a select with a `<-dec.ctx.Done()` case on the decoder's cancellable context")
			} else {
				r.Bad(c, op.pos, "select has no `<-dec.ctx.Done()` case: the operation blocks forever once the peer has stopped after Close/cancel")
			}
			continue
		}
		switch op.kind {
		case "recv", "range":
			if closeRole[op.u] {
				continue // judged by the Close-role obligation below: Close can run when the pipeline was never started
			}
			if ok, why := closedByDefer(op.class); ok {
				r.OK(c, op.pos, "bare %s on %s, which is closed by a deferred close in the producing goroutine (whose own termination is P2/P3)", op.kind, op.class)
			} else {
				r.Bad(c, op.pos, "bare %s on %s can block forever: %s", op.kind, op.class, why)
			}
		case "send":
			// every receiver of the class must be a range loop in a pipeline goroutine
			okRecv, n := true, 0
			early, earlyAt := token.NoPos, (*chanOp)(nil)
			for _, o2 := range byClass[op.class] {
				if o2.kind == "recv" || o2.kind == "range" {
					n++
					if o2.kind != "range" && !m.recvDrives(o2) {
						okRecv = false
					}
					if !o2.u.goroutineOnly() {
						okRecv = false
					}
					if at := m.loopEarlyExit(o2); at != token.NoPos && early == token.NoPos {
						early, earlyAt = at, o2
					}
				}
			}
			if okRecv && n > 0 && early != token.NoPos && m.firstSendOnClass(op, byClass[op.class]) && m.loopTakesFirstValue(earlyAt) {
				r.OK(c, op.pos, "bare send on %s that is the first value sent on the channel (not in a loop, no send on the class before it), and the receiving loop at %s is the first blocking statement of its goroutine: it takes its first value unconditionally, whatever the context's state", op.class, r.P.Rel(earlyAt.pos))
			} else if okRecv && n > 0 && early != token.NoPos {
				// the receiving loop does not outlive the sender: it can be left (return / break / goto / panic) while the
				// channel is still open, after which nobody takes the value and the bare send blocks forever
				r.Bad(c, op.pos, "bare send on %s, but its receiving loop at %s can be left at %s before the channel is closed: once the receiver has stopped (Close/cancel, an error) the send blocks forever and Close never returns; guard the send with a `<-dec.ctx.Done()` case", op.class, r.P.Rel(earlyAt.pos), r.P.Rel(early))
			} else if okRecv && n > 0 {
				r.OK(c, op.pos, "bare send on %s whose only receivers are `for range` loops (or their explicit form `v, ok := <-ch; if !ok { return }`) of worker goroutines that outlive the sender (the sender closes the channel on exit)", op.class)
			} else {
				r.Bad(c, op.pos, "bare send on %s is not cancellable and its receivers are not unconditional range loops: it can block forever after Close/cancel", op.class)
			}
		}
	}
}

// c07RoleName names the thread of control a unit belongs to, independent of which helper holds the code:
// the goroutine's name for goroutine bodies and helpers that only one goroutine role reaches, else the unit's own name.
func c07RoleName(m *pbfModel, u *unit) string {
	if u.goSite != nil {
		return u.name
	}
	if len(u.roles) == 1 {
		for role := range u.roles {
			if g := m.goOf(role); g != nil {
				return g.unit.name
			}
			return role
		}
	}
	return u.name
}
