package rules

import (
	"go/ast"
	"go/token"
	"go/types"
	"sort"

	"osmcheck/core"
)

// c15Slots: the geometry-at-time query writes, for every applied update, the update's coordinates into the point
// slots that WayNode.Point() uses: `ls[u.Index][k] = u.F` or `ls[u.Index] = orb.Point{…}`.
func c15Slots(r *core.R, w *c15World, roots []*c15Root) {
	const api = "(*Way).LineStringAt"
	slots := pointSlots(r, "WayNode.Point")
	rt := w.rootByName(roots, api)
	if rt == nil {
		r.Anchor(api)
		return
	}
	if slots == nil {
		return
	}
	found := map[int64]bool{}
	report := func(env *c15Env, as *ast.AssignStmt, k int64, upd *c15Path, rhs ast.Expr) {
		c := "slot@" + api + " [" + string(rune('0'+k)) + "]"
		found[k] = true
		rp := w.pathOf(env, rhs, false)
		name := ""
		if rp != nil && len(rp.steps) > 0 && rp.prefix(1).eq(upd) && rp.last().field != nil && c15FieldOwnerIsUpdate(rp.last().field) {
			name = rp.last().field.Name()
		}
		switch {
		case !w.elemOfSomeLoop(rt, upd):
			r.Bad(c, as.Pos(), "`%s`: the update whose Index selects the point is not the element of the scan", src(r.P.Fset, as))
		case name != slots[k]:
			r.Bad(c, as.Pos(), "`%s`: WayNode.Point() stores %s in slot %d, so geometry-at-time disagrees with applying the update", src(r.P.Fset, as), slots[k], k)
		default:
			if why := w.skippable(rt, env, as, 0); why != "" {
				r.Bad(c, as.Pos(), "`%s` is conditional: %s", src(r.P.Fset, as), why)
			} else {
				r.OK(c, as.Pos(), "point slot %d receives the update's %s, the field WayNode.Point() stores in slot %d, for every in-range update at or before t", k, name, k)
			}
		}
	}
	for _, env := range rt.envs {
		env := env
		inspectNoLit(env.fn.fi.Decl.Body, func(n ast.Node) bool {
			as, ok := n.(*ast.AssignStmt)
			if !ok || len(as.Lhs) != len(as.Rhs) || as.Tok != token.ASSIGN {
				return true
			}
			for i, l := range as.Lhs {
				if !c15IsPointy(w.info.TypeOf(l)) {
					continue
				}
				lp := w.pathOf(env, l, true)
				if lp == nil {
					continue
				}
				last := lp.last()
				switch {
				case last != nil && last.isK && len(lp.steps) >= 2:
					st := lp.steps[len(lp.steps)-2]
					if st.idx == nil || !c15IsUpdateIndexPath(st.idx) {
						continue
					}
					if _, ok := slots[last.k]; !ok {
						r.Bad("slot@"+api, as.Pos(), "`%s` writes point slot %d, which WayNode.Point() does not have", src(r.P.Fset, as), last.k)
						continue
					}
					report(env, as, last.k, st.idx.prefix(1), as.Rhs[i])
				case last != nil && last.idx != nil && c15IsUpdateIndexPath(last.idx):
					cl, ok := ast.Unparen(as.Rhs[i]).(*ast.CompositeLit)
					if !ok {
						r.Unknown("slot@"+api, as.Pos(), "`%s` replaces the whole point by something other than a composite literal", src(r.P.Fset, as))
						continue
					}
					for k, e := range c15LitElts(w.info, cl) {
						report(env, as, k, last.idx.prefix(1), e)
					}
				}
			}
			return true
		})
	}
	var ks []int64
	for k := range slots {
		ks = append(ks, k)
	}
	sort.Slice(ks, func(i, j int) bool { return ks[i] < ks[j] })
	for _, k := range ks {
		if !found[k] {
			r.Bad("slot@"+api+" ["+string(rune('0'+k))+"]", rt.f.fi.Decl.Pos(), "LineStringAt never writes point slot %d (%s) from the update", k, slots[k])
		}
	}
}

// c15IsPointy: a float64 slot of a point, or a whole point ([2]float64).
func c15IsPointy(t types.Type) bool {
	if t == nil {
		return false
	}
	switch u := t.Underlying().(type) {
	case *types.Basic:
		return u.Kind() == types.Float64
	case *types.Array:
		b, ok := u.Elem().Underlying().(*types.Basic)
		return ok && b.Kind() == types.Float64 && u.Len() == 2
	}
	return false
}

// c15LitElts maps slot -> element expression of an array composite literal (positional or keyed).
func c15LitElts(info *types.Info, cl *ast.CompositeLit) map[int64]ast.Expr {
	out := map[int64]ast.Expr{}
	next := int64(0)
	for _, e := range cl.Elts {
		if kv, ok := e.(*ast.KeyValueExpr); ok {
			if k, ok := constInt(info, kv.Key); ok {
				out[k] = kv.Value
				next = k + 1
			}
			continue
		}
		out[next] = e
		next++
	}
	return out
}

// pointSlots derives slot -> field name from the composite literal returned by a Point() method.
func pointSlots(r *core.R, fn string) map[int64]string {
	pk := r.P.Pkg("")
	fi := findFunc(pk, fn)
	if fi == nil {
		r.Anchor(fn)
		return nil
	}
	var res map[int64]string
	ast.Inspect(fi.Decl.Body, func(n ast.Node) bool {
		ret, ok := n.(*ast.ReturnStmt)
		if !ok || len(ret.Results) != 1 {
			return true
		}
		cl, ok := ast.Unparen(ret.Results[0]).(*ast.CompositeLit)
		if !ok {
			return true
		}
		res = map[int64]string{}
		for k, e := range c15LitElts(pk.TypesInfo, cl) {
			if f := fieldOf(pk.TypesInfo, e); f != nil {
				res[k] = f.Name()
			}
		}
		return true
	})
	if len(res) != 2 {
		r.Anchor(fn + " returning orb.Point{a.X, a.Y}")
		return nil
	}
	return res
}
