package rules

import (
	"fmt"
	"go/ast"
	"go/token"
	"go/types"
)

// call interprets the body of fd with the given receiver and arguments and returns every way it can end.
func (ev *c10Eval) call(fd *ast.FuncDecl, recv *c10Val, args []c10Val, depth int) []c10Outcome {
	env := c10Env{}
	if fd.Recv != nil && len(fd.Recv.List) == 1 && len(fd.Recv.List[0].Names) == 1 && recv != nil {
		if o := ev.info.Defs[fd.Recv.List[0].Names[0]]; o != nil {
			env[o] = *recv
		}
	}
	return ev.callBody(fd.Type, fd.Body, env, args, depth)
}

// callBody interprets a function body (declaration or literal); env holds the receiver / captured variables.
func (ev *c10Eval) callBody(ft *ast.FuncType, body *ast.BlockStmt, env c10Env, args []c10Val, depth int) []c10Outcome {
	if depth > c10MaxDepth {
		return []c10Outcome{{Unsupported: "inlining depth exceeded", Pos: body.Pos()}}
	}
	ev.Inlined++
	savedPan, savedFork := ev.pan, ev.fork
	ev.fork = nil // fork points inside the callee belong to the callee's own statements
	defer func() { ev.pan, ev.fork = savedPan, savedFork }()
	e2 := make(c10Env, len(env)+4)
	for k, v := range env {
		e2[k] = v
	}
	env = e2
	k := 0
	for _, f := range ft.Params.List {
		if len(f.Names) == 0 {
			k++
			continue
		}
		for _, nm := range f.Names {
			if o := ev.info.Defs[nm]; o != nil && k < len(args) {
				env[o] = args[k]
			}
			k++
		}
	}
	var named []types.Object
	if ft.Results != nil {
		for _, f := range ft.Results.List {
			for _, nm := range f.Names {
				if o := ev.info.Defs[nm]; o != nil {
					named = append(named, o)
					env[o] = ev.zeroOf(o.Type())
				}
			}
		}
	}
	outs, cont := ev.execList(body.List, c10State{env: env}, depth, named)
	for _, st := range cont {
		if ft.Results == nil || len(ft.Results.List) == 0 {
			outs = append(outs, c10Outcome{Conds: st.conds, Pos: body.Rbrace, Final: st.env})
		} else {
			outs = append(outs, c10Outcome{Unsupported: "control reaches the end of a function with results", Conds: st.conds, Pos: body.Rbrace})
		}
	}
	if depth > 1 {
		// slices are shared with the caller: an inlined callee that stores into a slice parameter would leave
		// the caller with a stale value, so such a callee is outside the interpreted forms
		k = 0
		for _, f := range ft.Params.List {
			for _, nm := range f.Names {
				o := ev.info.Defs[nm]
				if o != nil && k < len(args) && args[k].K == c10VSlice {
					for i := range outs {
						// an element store keeps the length; re-binding the parameter (buf = append(buf, ...)) is local
						if fin, ok := outs[i].Final[o]; ok && outs[i].Unsupported == "" && fin.K == c10VSlice && len(fin.Args) == len(args[k].Args) && !c10SameSlice(fin, args[k]) {
							outs[i] = c10Outcome{Unsupported: "a callee stores into the slice parameter " + nm.Name, Pos: body.Pos(), Conds: outs[i].Conds}
						}
					}
				}
				k++
			}
			if len(f.Names) == 0 {
				k++
			}
		}
	}
	return outs
}

// c10SameSlice: same length and element-wise the same abstract values (shallow, by rendering).
func c10SameSlice(a, b c10Val) bool {
	if a.K != c10VSlice || b.K != c10VSlice || len(a.Args) != len(b.Args) {
		return false
	}
	for i := range a.Args {
		if a.Args[i].String() != b.Args[i].String() || a.Args[i].Tag != b.Args[i].Tag {
			return false
		}
	}
	return true
}

func (ev *c10Eval) execList(list []ast.Stmt, st c10State, depth int, named []types.Object) (outs []c10Outcome, cont []c10State) {
	states := []c10State{st}
	for _, s := range list {
		var next []c10State
		for _, cur := range states {
			if cur.ctl != c10CtlNone {
				cont = append(cont, cur)
				continue
			}
			o, c := ev.execStmt(s, cur, depth, named)
			outs = append(outs, o...)
			next = append(next, c...)
		}
		states = next
		if len(states) == 0 {
			break
		}
		if len(states)+len(outs) > 48 {
			return append(outs, c10Outcome{Unsupported: "too many paths", Pos: s.Pos()}), nil
		}
	}
	return outs, append(cont, states...)
}

// evalP folds an expression and reports a definite panic raised by it.
func (ev *c10Eval) evalP(e ast.Expr, env c10Env, depth int) (c10Val, string) {
	ev.pan = ""
	v := ev.expr(e, env, depth)
	p := ev.pan
	ev.pan = ""
	return v, p
}

// assignTo stores v into the place denoted by l.
func (ev *c10Eval) assignTo(l ast.Expr, v c10Val, env c10Env, depth int) (c10Env, string) {
	l = ast.Unparen(l)
	switch x := l.(type) {
	case *ast.Ident:
		if x.Name == "_" {
			return env, ""
		}
		o := ev.info.Defs[x]
		if o == nil {
			o = ev.info.Uses[x]
		}
		if o == nil {
			return env, "assignment target"
		}
		if ev.addrTaken[o] && ev.info.Defs[x] == nil {
			return env, "assignment to a variable whose address is taken"
		}
		if vr, ok := o.(*types.Var); ok && vr.Parent() == ev.pk.Types.Scope() {
			return env, "assignment to a package-level variable"
		}
		if n := len(ev.litStack); n > 0 && ev.info.Defs[x] == nil {
			if lit := ev.litStack[n-1]; o.Pos() < lit.Pos() || o.Pos() > lit.End() {
				return env, "a function literal assigns to a captured variable"
			}
		}
		return env.with(o, v), ""
	case *ast.IndexExpr:
		id, ok := ast.Unparen(x.X).(*ast.Ident)
		if !ok {
			break
		}
		o := ev.info.Uses[id]
		base, tracked := env[o]
		idx := ev.expr(x.Index, env, depth)
		if !tracked || (base.K != c10VSlice && base.K != c10VMap) {
			if tracked {
				return env, "store into an untracked indexed value"
			}
			return env, "" // effect on a value nothing is known about
		}
		if tracked && base.K == c10VMap {
			if (idx.K != c10VStr && idx.K != c10VInt) || (idx.K == c10VInt && !c10IsConst(idx.V)) || ev.addrTaken[o] {
				return env, "store into a map at a non-constant key"
			}
			nm := c10Val{K: c10VMap, Dyn: base.Dyn}
			done := false
			for k, key := range base.Keys {
				val := base.Args[k]
				if ev.eqVals(key, idx) == 1 {
					val, done = v, true
				}
				nm.Keys, nm.Args = append(nm.Keys, key), append(nm.Args, val)
			}
			if !done {
				nm.Keys, nm.Args = append(nm.Keys, idx), append(nm.Args, v)
			}
			return env.with(o, nm), ""
		}
		i, isConst := idx.V.signedConst()
		if idx.K != c10VInt || !isConst {
			return env, "store at a non-constant index"
		}
		if i < 0 || i >= int64(len(base.Args)) {
			ev.pan = fmt.Sprintf("index out of range [%d] with length %d", i, len(base.Args))
			return env, ""
		}
		nb := c10SliceVal(base.Args)
		nb.Why = base.Why // the identity of a list under test survives element stores
		nb.Args[i] = v
		return env.with(o, nb), ""
	case *ast.SelectorExpr:
		base := ev.expr(x.X, env, depth)
		if id, ok := ast.Unparen(x.X).(*ast.Ident); ok && base.K == c10VStruct {
			// a field of a struct-typed local (value semantics: no alias can observe the store)
			o := ev.info.Uses[id]
			f := fieldOf(ev.info, x)
			_, isStruct := ev.info.TypeOf(id).Underlying().(*types.Struct)
			if _, tracked := env[o]; tracked && isStruct && f != nil && !ev.addrTaken[o] {
				if n := len(ev.litStack); n > 0 {
					if lit := ev.litStack[n-1]; o.Pos() < lit.Pos() || o.Pos() > lit.End() {
						return env, "a function literal assigns to a captured variable"
					}
				}
				ns := c10Val{K: c10VStruct, Fields: map[*types.Var]c10Val{}}
				for k, fv := range base.Fields {
					ns.Fields[k] = fv
				}
				ns.Fields[f] = v
				return env.with(o, ns), ""
			}
		}
		if base.K == c10VStruct || base.K == c10VDyn {
			return env, "store into a field of a tracked struct"
		}
		return env, "" // effect on a value nothing is known about
	case *ast.StarExpr:
		base := ev.expr(x.X, env, depth)
		if base.K == c10VOpaque {
			return env, ""
		}
		return env, "store through a pointer"
	}
	return env, "assignment to a non-variable"
}

func (ev *c10Eval) execStmt(s ast.Stmt, st c10State, depth int, named []types.Object) ([]c10Outcome, []c10State) {
	unsupported := func(why string) ([]c10Outcome, []c10State) {
		return []c10Outcome{{Unsupported: why, Conds: st.conds, Pos: s.Pos()}}, nil
	}
	panics := func(why string) ([]c10Outcome, []c10State) {
		return []c10Outcome{{Panic: true, PanicWhy: why, Conds: st.conds, Pos: s.Pos()}}, nil
	}
	next := func(env c10Env) ([]c10Outcome, []c10State) {
		return nil, []c10State{{env: env, conds: st.conds}}
	}
	switch x := s.(type) {
	case *ast.EmptyStmt:
		return next(st.env)
	case *ast.ReturnStmt:
		if len(x.Results) == 0 {
			out := c10Outcome{Conds: st.conds, Pos: x.Pos(), Final: st.env}
			for _, o := range named {
				out.Res = append(out.Res, st.env[o])
			}
			return []c10Outcome{out}, nil
		}
		var outs []c10Outcome
		for _, alt := range ev.evalAll(x.Results, st, depth) {
			out := c10Outcome{Conds: alt.conds, Pos: x.Pos(), Final: st.env}
			switch {
			case alt.over:
				out = c10Outcome{Unsupported: "too many combinations of callee outcomes", Conds: alt.conds, Pos: x.Pos()}
			case alt.pan != "":
				out = c10Outcome{Panic: true, PanicWhy: alt.pan, Conds: alt.conds, Pos: x.Pos()}
			default:
				for _, v := range alt.vals {
					if v.K == c10VTuple {
						out.Res = append(out.Res, v.Args...)
					} else {
						out.Res = append(out.Res, v)
					}
				}
			}
			outs = append(outs, out)
		}
		return outs, nil
	case *ast.BlockStmt:
		return ev.execList(x.List, st, depth, named)
	case *ast.ExprStmt:
		call, ok := ast.Unparen(x.X).(*ast.CallExpr)
		if !ok {
			return unsupported("expression statement")
		}
		if env2, handled, why := ev.builderStmt(call, st.env, depth); handled {
			if why != "" {
				return unsupported(why)
			}
			return next(env2)
		}
		// a call evaluated for its effects: slices passed along could be modified by it
		for _, a := range call.Args {
			if id, ok := ast.Unparen(a).(*ast.Ident); ok {
				fn := callee(ev.info, call)
				if fn != nil && fn.Pkg() != nil && fn.Pkg().Path() == "sort" {
					continue // package sort has a transfer function (c10_interp_sort.go)
				}
				if v, tracked := st.env[ev.info.Uses[id]]; tracked && v.K == c10VSlice && builtinName(ev.info, call) == "" {
					return unsupported("a tracked slice is passed to a call statement")
				}
			}
		}
		var outs []c10Outcome
		var conts []c10State
		for _, alt := range ev.evalAll([]ast.Expr{call}, st, depth) {
			switch {
			case alt.over:
				outs = append(outs, c10Outcome{Unsupported: "too many combinations of callee outcomes", Conds: alt.conds, Pos: x.Pos()})
			case alt.pan != "":
				outs = append(outs, c10Outcome{Panic: true, PanicWhy: alt.pan, Conds: alt.conds, Pos: x.Pos()})
			default:
				conts = append(conts, c10State{env: st.env, conds: alt.conds})
			}
		}
		return outs, conts
	case *ast.DeclStmt:
		gd, ok := x.Decl.(*ast.GenDecl)
		if !ok || (gd.Tok != token.VAR && gd.Tok != token.CONST && gd.Tok != token.TYPE) {
			return unsupported("declaration")
		}
		if gd.Tok != token.VAR {
			return next(st.env)
		}
		var outs []c10Outcome
		states := []c10State{st}
		for _, sp := range gd.Specs {
			vs := sp.(*ast.ValueSpec)
			var nextStates []c10State
			for _, cur := range states {
				for _, alt := range ev.evalAll(vs.Values, cur, depth) {
					switch {
					case alt.over:
						outs = append(outs, c10Outcome{Unsupported: "too many combinations of callee outcomes", Conds: alt.conds, Pos: x.Pos()})
						continue
					case alt.pan != "":
						outs = append(outs, c10Outcome{Panic: true, PanicWhy: alt.pan, Conds: alt.conds, Pos: x.Pos()})
						continue
					}
					env := cur.env
					for i, nm := range vs.Names {
						o := ev.info.Defs[nm]
						if o == nil {
							continue
						}
						switch {
						case len(vs.Values) == len(vs.Names):
							env = env.with(o, alt.vals[i])
						case len(vs.Values) == 0:
							env = env.with(o, ev.zeroOf(o.Type()))
						case len(vs.Values) == 1 && alt.vals[0].K == c10VTuple && i < len(alt.vals[0].Args):
							env = env.with(o, alt.vals[0].Args[i])
						default:
							env = env.with(o, c10OpaqueVal("multi-value right-hand side"))
						}
					}
					nextStates = append(nextStates, c10State{env: env, conds: alt.conds})
				}
			}
			states = nextStates
		}
		return outs, states
	case *ast.IncDecStmt:
		v, p := ev.evalP(x.X, st.env, depth)
		if p != "" {
			return panics(p)
		}
		if v.K != c10VInt {
			return unsupported("++/-- on an untracked value")
		}
		one := c10ConstVec(1, v.V.W, v.V.Signed)
		nv := c10IntVal(v.V.add(one))
		if x.Tok == token.DEC {
			d, ok := v.V.sub(one)
			if !ok {
				d = c10TopVec(v.V.W, v.V.Signed)
			}
			nv = c10IntVal(d)
		}
		env, why := ev.assignTo(x.X, nv, st.env, depth)
		if why != "" {
			return unsupported(why)
		}
		return next(env)
	case *ast.AssignStmt:
		var vals []c10Val
		if x.Tok != token.DEFINE && x.Tok != token.ASSIGN {
			// compound assignment: l op= r is l = l op r
			if len(x.Lhs) != 1 || len(x.Rhs) != 1 {
				return unsupported("compound assignment shape")
			}
			ops := map[token.Token]token.Token{token.ADD_ASSIGN: token.ADD, token.SUB_ASSIGN: token.SUB, token.OR_ASSIGN: token.OR, token.AND_ASSIGN: token.AND,
				token.XOR_ASSIGN: token.XOR, token.SHL_ASSIGN: token.SHL, token.SHR_ASSIGN: token.SHR, token.AND_NOT_ASSIGN: token.AND_NOT}
			op, ok := ops[x.Tok]
			if !ok {
				return unsupported("compound assignment " + x.Tok.String())
			}
			be := &ast.BinaryExpr{X: x.Lhs[0], Op: op, Y: x.Rhs[0], OpPos: x.TokPos}
			v, p := ev.evalP(be, st.env, depth)
			if p != "" {
				return panics(p)
			}
			if v.K == c10VOpaque {
				// the synthesised node has no recorded type: give integers their lanes back as unknown
				v = ev.unknownOf(ev.info.TypeOf(x.Lhs[0]), v.Why)
			}
			vals = []c10Val{v}
		} else if len(x.Rhs) != 1 && len(x.Rhs) != len(x.Lhs) {
			return unsupported("assignment shape")
		}
		store := func(vals []c10Val, s2 c10State) ([]c10Outcome, []c10State) {
			env := s2.env
			for i, l := range x.Lhs {
				ev.pan = ""
				var why string
				env, why = ev.assignTo(l, vals[i], env, depth)
				if why != "" {
					return []c10Outcome{{Unsupported: why, Conds: s2.conds, Pos: s.Pos()}}, nil
				}
				if ev.pan != "" {
					p := ev.pan
					ev.pan = ""
					return []c10Outcome{{Panic: true, PanicWhy: p, Conds: s2.conds, Pos: s.Pos()}}, nil
				}
			}
			return nil, []c10State{{env: env, conds: s2.conds}}
		}
		if vals != nil {
			return store(vals, st)
		}
		var outs []c10Outcome
		var conts []c10State
		for _, alt := range ev.evalAll(x.Rhs, st, depth) {
			switch {
			case alt.over:
				outs = append(outs, c10Outcome{Unsupported: "too many combinations of callee outcomes", Conds: alt.conds, Pos: x.Pos()})
				continue
			case alt.pan != "":
				outs = append(outs, c10Outcome{Panic: true, PanicWhy: alt.pan, Conds: alt.conds, Pos: x.Pos()})
				continue
			}
			vs := alt.vals
			if len(x.Rhs) == 1 && len(x.Lhs) > 1 {
				v := vs[0]
				vs = nil
				if v.K != c10VTuple || len(v.Args) != len(x.Lhs) {
					for range x.Lhs {
						vs = append(vs, c10OpaqueVal("multi-value right-hand side: "+v.Why))
					}
				} else {
					vs = v.Args
				}
			}
			o, c := store(vs, c10State{env: st.env, conds: alt.conds})
			outs, conts = append(outs, o...), append(conts, c...)
		}
		return outs, conts
	case *ast.IfStmt:
		if x.Init != nil {
			return ev.afterInit(x.Init, st, depth, named, func(s2 c10State) ([]c10Outcome, []c10State) {
				return ev.execIf(x, s2, depth, named)
			})
		}
		return ev.execIf(x, st, depth, named)
	case *ast.SwitchStmt:
		return ev.execSwitch(x, st, depth, named)
	case *ast.TypeSwitchStmt:
		return ev.execTypeSwitch(x, st, depth, named)
	case *ast.BranchStmt:
		if x.Label != nil {
			return unsupported("labelled " + x.Tok.String())
		}
		switch x.Tok {
		case token.BREAK:
			return nil, []c10State{{env: st.env, conds: st.conds, ctl: c10CtlBreak}}
		case token.CONTINUE:
			return nil, []c10State{{env: st.env, conds: st.conds, ctl: c10CtlContinue}}
		}
		return unsupported("branch statement " + x.Tok.String())
	case *ast.RangeStmt:
		if x.Tok != token.DEFINE && x.Key != nil {
			return unsupported("range assigning to existing variables")
		}
		coll, p := ev.evalP(x.X, st.env, depth)
		if p != "" {
			return panics(p)
		}
		if coll.K == c10VNil {
			coll = c10SliceVal(nil)
		}
		if coll.K != c10VSlice {
			return unsupported("range over a value that is not a slice of known length")
		}
		iw, is, _ := ev.intType(types.Typ[types.Int])
		bind := func(env c10Env, e ast.Expr, v c10Val) c10Env {
			if e == nil {
				return env
			}
			if id, ok := e.(*ast.Ident); ok && id.Name != "_" {
				if o := ev.info.Defs[id]; o != nil {
					return env.with(o, v)
				}
			}
			return env
		}
		return ev.loop(st, len(coll.Args), func(i int, s2 c10State) (int, c10State, string) {
			if i >= len(coll.Args) {
				return 0, s2, ""
			}
			s2.env = bind(bind(s2.env, x.Key, c10IntVal(c10ConstVec(uint64(i), iw, is))), x.Value, coll.Args[i])
			return 1, s2, ""
		}, x.Body, nil, depth, named)
	case *ast.ForStmt:
		if x.Init != nil {
			y := *x
			y.Init = nil
			return ev.afterInit(x.Init, st, depth, named, func(s2 c10State) ([]c10Outcome, []c10State) {
				return ev.execStmt(&y, s2, depth, named)
			})
		}
		if x.Cond == nil {
			return unsupported("for without condition")
		}
		return ev.loop(st, 64, func(i int, s2 c10State) (int, c10State, string) {
			c, p := ev.evalP(x.Cond, s2.env, depth)
			if p != "" {
				return -1, s2, p
			}
			if c.K != c10VBool || c.Tri == -1 {
				return -2, s2, "loop condition is not decided"
			}
			return c.Tri, s2, ""
		}, x.Body, x.Post, depth, named)
	}
	return unsupported(fmt.Sprintf("statement %T", s))
}

// loop unrolls a loop: enter(i, state) returns 1 to run iteration i, 0 to leave, -1 panic, -2 unsupported.
func (ev *c10Eval) loop(st c10State, maxIter int, enter func(int, c10State) (int, c10State, string), body *ast.BlockStmt, post ast.Stmt, depth int, named []types.Object) ([]c10Outcome, []c10State) {
	var outs []c10Outcome
	var done []c10State
	states := []c10State{st}
	for i := 0; len(states) > 0; i++ {
		if i > maxIter {
			return append(outs, c10Outcome{Unsupported: "loop bound exceeded", Pos: body.Pos()}), nil
		}
		var next []c10State
		for _, cur := range states {
			go_, s2, why := enter(i, cur)
			switch go_ {
			case 0:
				done = append(done, s2)
				continue
			case -1:
				outs = append(outs, c10Outcome{Panic: true, PanicWhy: why, Conds: cur.conds, Pos: body.Pos()})
				continue
			case -2:
				return append(outs, c10Outcome{Unsupported: why, Conds: cur.conds, Pos: body.Pos()}), nil
			}
			o, conts := ev.execList(body.List, s2, depth, named)
			outs = append(outs, o...)
			for _, c := range conts {
				switch c.ctl {
				case c10CtlBreak:
					c.ctl = c10CtlNone
					done = append(done, c)
					continue
				case c10CtlContinue:
					c.ctl = c10CtlNone
				}
				if post != nil {
					o2, c2 := ev.execStmt(post, c, depth, named)
					outs = append(outs, o2...)
					next = append(next, c2...)
				} else {
					next = append(next, c)
				}
			}
		}
		states = next
		if len(states)+len(outs)+len(done) > 48 {
			return append(outs, c10Outcome{Unsupported: "too many paths", Pos: body.Pos()}), nil
		}
	}
	return outs, done
}

func (ev *c10Eval) execSwitch(x *ast.SwitchStmt, st c10State, depth int, named []types.Object) ([]c10Outcome, []c10State) {
	unsupported := func(why string) ([]c10Outcome, []c10State) {
		return []c10Outcome{{Unsupported: why, Conds: st.conds, Pos: x.Pos()}}, nil
	}
	if x.Init != nil {
		y := *x
		y.Init = nil
		return ev.afterInit(x.Init, st, depth, named, func(s2 c10State) ([]c10Outcome, []c10State) {
			return ev.execSwitch(&y, s2, depth, named)
		})
	}
	var tag c10Val
	if x.Tag != nil {
		var p string
		tag, p = ev.evalP(x.Tag, st.env, depth)
		if p != "" {
			return []c10Outcome{{Panic: true, PanicWhy: p, Conds: st.conds, Pos: x.Pos()}}, nil
		}
	}
	// The clauses are tried in order like an if / else-if chain: a decided test selects or skips its clause,
	// an undecided one forks the path (taken: run the clause under the assumption; not taken: go on).
	bodyOf := func(cc *ast.CaseClause) ([]ast.Stmt, string) {
		var body []ast.Stmt
		for cur := cc; cur != nil; {
			body = append(body, cur.Body...)
			n := len(cur.Body)
			if n == 0 {
				break
			}
			br, ok := cur.Body[n-1].(*ast.BranchStmt)
			if !ok || br.Tok != token.FALLTHROUGH {
				break
			}
			body = body[:len(body)-1]
			var nextCC *ast.CaseClause
			for i, cs := range x.Body.List {
				if cs == ast.Stmt(cur) && i+1 < len(x.Body.List) {
					nextCC = x.Body.List[i+1].(*ast.CaseClause)
				}
			}
			cur = nextCC
		}
		return body, ""
	}
	var outs []c10Outcome
	var conts []c10State
	runClause := func(cc *ast.CaseClause, s2 c10State) {
		body, _ := bodyOf(cc)
		o, c := ev.execList(body, s2, depth, named)
		outs = append(outs, o...)
		for i := range c {
			if c[i].ctl == c10CtlBreak {
				c[i].ctl = c10CtlNone
			}
		}
		conts = append(conts, c...)
	}
	pending := &st
	var deflt *ast.CaseClause
	for _, cs := range x.Body.List {
		cc := cs.(*ast.CaseClause)
		if cc.List == nil {
			deflt = cc
			continue
		}
		for _, ce := range cc.List {
			if pending == nil {
				break
			}
			cv, p := ev.evalP(ce, pending.env, depth)
			if p != "" {
				outs = append(outs, c10Outcome{Panic: true, PanicWhy: p, Conds: pending.conds, Pos: ce.Pos()})
				pending = nil
				break
			}
			cond := cv
			if x.Tag != nil {
				ev.noteStrCmp(x.Tag, ce, tag, cv)
				if tag.K == c10VInt && cv.K == c10VInt {
					ev.noteLenCmp(tag, cv)
				}
				eq := ev.eqVals(tag, cv)
				cond = c10Val{K: c10VBool, Tri: eq}
				if eq == -1 {
					cond.Cmp = &c10Cmp{Op: token.EQL, L: tag, R: cv}
				}
			}
			if cond.K != c10VBool {
				return unsupported("switch case " + cv.String() + " is not a tracked boolean")
			}
			switch cond.Tri {
			case 1:
				runClause(cc, *pending)
				pending = nil
			case 0:
			default:
				taken := c10State{env: pending.env, conds: append(append([]c10PathCond{}, pending.conds...), c10PathCond{Cond: cond, Taken: true})}
				runClause(cc, taken)
				pending = &c10State{env: pending.env, conds: append(append([]c10PathCond{}, pending.conds...), c10PathCond{Cond: cond, Taken: false})}
			}
			if len(outs)+len(conts) > 48 {
				return append(outs, c10Outcome{Unsupported: "too many paths", Pos: x.Pos()}), nil
			}
		}
	}
	if pending != nil {
		if deflt != nil {
			runClause(deflt, *pending)
		} else {
			conts = append(conts, *pending)
		}
	}
	return outs, conts
}

func (ev *c10Eval) execTypeSwitch(x *ast.TypeSwitchStmt, st c10State, depth int, named []types.Object) ([]c10Outcome, []c10State) {
	unsupported := func(why string) ([]c10Outcome, []c10State) {
		return []c10Outcome{{Unsupported: why, Conds: st.conds, Pos: x.Pos()}}, nil
	}
	if x.Init != nil {
		y := *x
		y.Init = nil
		return ev.afterInit(x.Init, st, depth, named, func(s2 c10State) ([]c10Outcome, []c10State) {
			return ev.execTypeSwitch(&y, s2, depth, named)
		})
	}
	var ta *ast.TypeAssertExpr
	switch g := x.Assign.(type) {
	case *ast.ExprStmt:
		ta, _ = ast.Unparen(g.X).(*ast.TypeAssertExpr)
	case *ast.AssignStmt:
		if len(g.Rhs) == 1 {
			ta, _ = ast.Unparen(g.Rhs[0]).(*ast.TypeAssertExpr)
		}
	}
	if ta == nil {
		return unsupported("type switch guard")
	}
	v, p := ev.evalP(ta.X, st.env, depth)
	if p != "" {
		return []c10Outcome{{Panic: true, PanicWhy: p, Conds: st.conds, Pos: x.Pos()}}, nil
	}
	if v.K != c10VDyn && v.K != c10VNil {
		return unsupported("type switch on a value whose dynamic type is not known")
	}
	var chosen, deflt *ast.CaseClause
	var bound c10Val
search:
	for _, cs := range x.Body.List {
		cc := cs.(*ast.CaseClause)
		if cc.List == nil {
			deflt = cc
			continue
		}
		for _, te := range cc.List {
			if tv := ev.info.Types[te]; tv.IsNil() {
				if v.K == c10VNil {
					chosen, bound = cc, v
					break search
				}
				continue
			}
			if r, ok := ev.assert(v, ev.info.TypeOf(te)); ok {
				chosen, bound = cc, r
				if len(cc.List) > 1 {
					bound = v
				}
				break search
			}
		}
	}
	if chosen == nil {
		chosen, bound = deflt, v
	}
	if chosen == nil {
		return nil, []c10State{st}
	}
	env := st.env
	if o := ev.info.Implicits[chosen]; o != nil {
		env = env.with(o, bound)
	}
	outs, conts := ev.execList(chosen.Body, c10State{env: env, conds: st.conds}, depth, named)
	for i := range conts {
		if conts[i].ctl == c10CtlBreak {
			conts[i].ctl = c10CtlNone
		}
	}
	return outs, conts
}

// afterInit runs an init statement and then rest on every path it leaves.
func (ev *c10Eval) afterInit(init ast.Stmt, st c10State, depth int, named []types.Object, rest func(c10State) ([]c10Outcome, []c10State)) ([]c10Outcome, []c10State) {
	outs, conts := ev.execStmt(init, st, depth, named)
	var after []c10State
	for _, c := range conts {
		o, c2 := rest(c)
		outs, after = append(outs, o...), append(after, c2...)
	}
	return outs, after
}

func (ev *c10Eval) execIf(x *ast.IfStmt, st c10State, depth int, named []types.Object) ([]c10Outcome, []c10State) {
	var outs []c10Outcome
	var cont []c10State
	branch := func(taken bool, s2 c10State) {
		if taken {
			o, c2 := ev.execList(x.Body.List, s2, depth, named)
			outs, cont = append(outs, o...), append(cont, c2...)
			return
		}
		if x.Else == nil {
			cont = append(cont, s2)
			return
		}
		o, c2 := ev.execStmt(x.Else, s2, depth, named)
		outs, cont = append(outs, o...), append(cont, c2...)
	}
	for _, alt := range ev.evalAll([]ast.Expr{x.Cond}, st, depth) {
		switch {
		case alt.over:
			outs = append(outs, c10Outcome{Unsupported: "too many combinations of callee outcomes", Conds: alt.conds, Pos: x.Pos()})
			continue
		case alt.pan != "":
			outs = append(outs, c10Outcome{Panic: true, PanicWhy: alt.pan, Conds: alt.conds, Pos: x.Pos()})
			continue
		}
		c := alt.vals[0]
		if c.K != c10VBool {
			outs = append(outs, c10Outcome{Unsupported: "if condition is not a tracked boolean", Conds: alt.conds, Pos: x.Pos()})
			continue
		}
		s2 := c10State{env: st.env, conds: alt.conds}
		switch c.Tri {
		case 1:
			branch(true, s2)
		case 0:
			branch(false, s2)
		default:
			for _, taken := range []bool{true, false} {
				cs := append(append([]c10PathCond{}, alt.conds...), c10PathCond{Cond: c, Taken: taken})
				branch(taken, c10State{env: st.env, conds: cs})
			}
		}
	}
	return outs, cont
}
