package rules

// c16_expr2.go — binary operators, conditions, composite literals and lvalues of the C16 abstract evaluator.

import (
	"go/ast"
	"go/token"
	"go/types"
	"math"
)

// cond evaluates a boolean expression to a concrete boolean: an opaque atom is decided by the decision script
// (both ways are explored over the paths).
func (m *c16M) cond(f *c16Frame, e ast.Expr) bool {
	e = ast.Unparen(e)
	if b, ok := e.(*ast.BinaryExpr); ok && f.info.Types[e].Value == nil {
		switch b.Op {
		case token.LAND:
			return m.cond(f, b.X) && m.cond(f, b.Y)
		case token.LOR:
			return m.cond(f, b.X) || m.cond(f, b.Y)
		}
	}
	if u, ok := e.(*ast.UnaryExpr); ok && u.Op == token.NOT {
		return !m.cond(f, u.X)
	}
	switch v := m.eval(f, e).(type) {
	case bool:
		return v
	case *c16Opq:
		b := m.choose("cond "+src(m.p.Fset, e)+" @"+m.pos(e), 2) == 1
		m.decided(v, b)
		return b
	default:
		m.abort("condition is %T at %s", v, m.pos(e))
	}
	return false
}

func (m *c16M) evalBinary(f *c16Frame, x *ast.BinaryExpr) c16Val {
	if x.Op == token.LAND || x.Op == token.LOR {
		return m.cond(f, x)
	}
	l, r := m.eval(f, x.X), m.eval(f, x.Y)
	return m.binop(x.Op, l, r, f.info.TypeOf(x), x)
}

func (m *c16M) binop(op token.Token, l, r c16Val, t types.Type, at ast.Node) c16Val {
	switch op {
	case token.EQL, token.NEQ:
		_, lsym := l.(*c16Sym)
		_, rsym := r.(*c16Sym)
		if lsym || rsym {
			if v, ok := m.symBinop(op, l, r, t); ok {
				return v
			}
		}
		eq, known := c16Equal(l, r)
		if !known {
			deps := map[string]bool{}
			c16DepsOf(l, deps)
			c16DepsOf(r, deps)
			return &c16Opq{typ: t, why: "comparison with an opaque value", deps: deps}
		}
		return eq == (op == token.EQL)
	}
	if v, ok := m.symBinop(op, l, r, t); ok {
		return v
	}
	if c16IsOpq(l) || c16IsOpq(r) {
		return &c16Opq{typ: t, why: "arithmetic on an opaque value"}
	}
	switch a := l.(type) {
	case int64:
		b, ok := r.(int64)
		if !ok {
			break
		}
		switch op {
		case token.ADD:
			return a + b
		case token.SUB:
			return a - b
		case token.MUL:
			return a * b
		case token.QUO:
			if b == 0 {
				m.gopanic("integer divide by zero at %s", m.pos(at))
			}
			return a / b
		case token.REM:
			if b == 0 {
				m.gopanic("integer divide by zero at %s", m.pos(at))
			}
			return a % b
		case token.AND:
			return a & b
		case token.OR:
			return a | b
		case token.XOR:
			return a ^ b
		case token.SHL:
			return a << uint(b)
		case token.SHR:
			return a >> uint(b)
		case token.AND_NOT:
			return a &^ b
		case token.LSS:
			return a < b
		case token.LEQ:
			return a <= b
		case token.GTR:
			return a > b
		case token.GEQ:
			return a >= b
		}
	case string:
		b, ok := r.(string)
		if !ok {
			break
		}
		switch op {
		case token.ADD:
			return a + b
		case token.LSS:
			return a < b
		case token.LEQ:
			return a <= b
		case token.GTR:
			return a > b
		case token.GEQ:
			return a >= b
		}
	case c16Flt:
		b, ok := r.(c16Flt)
		if !ok {
			break
		}
		if a.tok != "" || b.tok != "" { // symbolic coordinates: only identity is known
			return &c16Opq{typ: t, why: "float arithmetic on symbolic coordinates"}
		}
		switch op {
		case token.ADD:
			return c16Flt{v: a.v + b.v}
		case token.SUB:
			return c16Flt{v: a.v - b.v}
		case token.MUL:
			return c16Flt{v: a.v * b.v}
		case token.QUO:
			if b.v == 0 {
				return c16Flt{v: math.Inf(1)}
			}
			return c16Flt{v: a.v / b.v}
		case token.LSS:
			return a.v < b.v
		case token.LEQ:
			return a.v <= b.v
		case token.GTR:
			return a.v > b.v
		case token.GEQ:
			return a.v >= b.v
		}
	}
	m.abort("unsupported binary %s on %T,%T at %s", op, l, r, m.pos(at))
	return nil
}

// evalComposite builds a struct, array, slice or map from a composite literal of type t.
func (m *c16M) evalComposite(f *c16Frame, cl *ast.CompositeLit, t types.Type) c16Val {
	elt := func(e ast.Expr, et types.Type) c16Val {
		if inner, ok := e.(*ast.CompositeLit); ok && inner.Type == nil { // elided type
			if pt, ok := et.Underlying().(*types.Pointer); ok {
				return m.newPtr(pt.Elem(), &c16Cell{v: m.evalComposite(f, inner, pt.Elem())})
			}
			return m.evalComposite(f, inner, et)
		}
		v := c16Copy(m.eval(f, e))
		if _, isNil := v.(c16Nil); isNil {
			if _, isSlice := et.Underlying().(*types.Slice); isSlice {
				return c16Slice{typ: et}
			}
		}
		return v
	}
	switch u := t.Underlying().(type) {
	case *types.Struct:
		s := c16Zero(t).(*c16Struct)
		for i, e := range cl.Elts {
			if kv, ok := e.(*ast.KeyValueExpr); ok {
				name := kv.Key.(*ast.Ident).Name
				for j := 0; j < u.NumFields(); j++ {
					if u.Field(j).Name() == name {
						s.f[name] = elt(kv.Value, u.Field(j).Type())
					}
				}
			} else {
				s.f[u.Field(i).Name()] = elt(e, u.Field(i).Type())
			}
		}
		return s
	case *types.Slice, *types.Array:
		var et types.Type
		if sl, ok := u.(*types.Slice); ok {
			et = sl.Elem()
		} else {
			et = u.(*types.Array).Elem()
		}
		var elems []c16Val
		idx := 0
		for _, e := range cl.Elts {
			if kv, ok := e.(*ast.KeyValueExpr); ok {
				i, ok := m.toInt(m.eval(f, kv.Key), kv)
				if !ok {
					m.abort("opaque index in composite literal at %s", m.pos(kv))
				}
				idx, e = i, kv.Value
			}
			for len(elems) <= idx {
				elems = append(elems, c16Zero(et))
			}
			elems[idx] = elt(e, et)
			idx++
		}
		if ar, ok := u.(*types.Array); ok {
			for int64(len(elems)) < ar.Len() {
				elems = append(elems, c16Zero(et))
			}
			return &c16Arr{typ: t, e: elems}
		}
		if elems == nil {
			elems = []c16Val{}
		}
		return c16NewSlice(t, elems)
	case *types.Map:
		mp := &c16Map{typ: t, m: map[string]c16Val{}, k: map[string]c16Val{}}
		for _, e := range cl.Elts {
			kv := e.(*ast.KeyValueExpr)
			var key c16Val
			if inner, ok := kv.Key.(*ast.CompositeLit); ok && inner.Type == nil {
				key = m.evalComposite(f, inner, u.Key())
			} else {
				key = m.eval(f, kv.Key)
			}
			k, ok := c16Key(key)
			if !ok {
				m.abort("opaque key in map literal at %s", m.pos(kv))
			}
			mp.m[k], mp.k[k] = elt(kv.Value, u.Elem()), key
		}
		return mp
	}
	m.abort("composite literal of %s at %s", t, m.pos(cl))
	return nil
}

// c16Ref is an assignable location.
type c16Ref struct {
	get  func() c16Val
	set  func(c16Val)
	cell *c16Cell
}

func (r c16Ref) ident(m *c16M) *int {
	if r.cell != nil {
		if r.cell.id == nil {
			r.cell.id = m.newID()
		}
		return r.cell.id
	}
	return m.newID()
}

func (m *c16M) lvalue(f *c16Frame, e ast.Expr) c16Ref {
	switch x := ast.Unparen(e).(type) {
	case *ast.Ident:
		if x.Name == "_" {
			return c16Ref{get: func() c16Val { return c16Nil{} }, set: func(c16Val) {}}
		}
		obj := f.info.Uses[x]
		if obj == nil {
			obj = f.info.Defs[x]
		}
		var c *c16Cell
		if v, ok := obj.(*types.Var); ok {
			if c = f.lookup(v); c == nil {
				c = m.global(v)
			}
		}
		if c == nil {
			m.abort("no storage for %s at %s", x.Name, m.pos(x))
		}
		return c16Ref{get: func() c16Val { return c.v }, set: func(v c16Val) { c.v = v }, cell: c}
	case *ast.StarExpr:
		p, ok := m.eval(f, x.X).(*c16Ptr)
		if !ok {
			m.abort("assignment through a non-pointer at %s", m.pos(x))
		}
		return c16Ref{get: p.load, set: p.store}
	case *ast.SelectorExpr:
		sel := f.info.Selections[x]
		if sel == nil || sel.Kind() != types.FieldVal {
			return m.lvalue(f, x.Sel) // package-qualified variable
		}
		// the container: a struct stored in a location (mutated in place) or reached through a pointer
		index := sel.Index()
		var holder c16Val
		if _, isPtr := sel.Recv().Underlying().(*types.Pointer); isPtr || !c16Addressable(x.X) {
			holder = m.eval(f, x.X)
		} else {
			holder = m.lvalue(f, x.X).get()
		}
		holder = m.fieldPath(holder, sel.Recv(), index[:len(index)-1], x)
		if p, ok := holder.(*c16Ptr); ok {
			holder = p.load()
		}
		st, ok := holder.(*c16Struct)
		if !ok {
			if _, opq := holder.(*c16Opq); opq {
				return c16Ref{get: func() c16Val { return m.eval(f, x) }, set: func(c16Val) {}}
			}
			if _, isNil := holder.(c16Nil); isNil {
				m.gopanic("nil pointer dereference at %s", m.pos(x))
			}
			m.abort("field assignment on %T at %s", holder, m.pos(x))
		}
		name := x.Sel.Name
		return c16Ref{get: func() c16Val { return st.f[name] }, set: func(v c16Val) { st.f[name] = v }}
	case *ast.IndexExpr:
		return m.indexRef(f, x)
	}
	m.abort("unsupported assignment target %T at %s", e, m.pos(e))
	return c16Ref{}
}

// c16Addressable: identifiers, fields of addressable values, derefs and slice elements have their own storage.
func c16Addressable(e ast.Expr) bool {
	switch x := ast.Unparen(e).(type) {
	case *ast.Ident, *ast.StarExpr, *ast.IndexExpr:
		return true
	case *ast.SelectorExpr:
		return c16Addressable(x.X)
	}
	return false
}
