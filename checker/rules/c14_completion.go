package rules

import (
	"go/ast"
	"go/token"
)

// Completion carrier: the happens-before edge that lets Close return only after the producer goroutine has finished.
//
//	sync.WaitGroup field     armed by Add(1) before the go statement, signalled by Done(), awaited by Wait()
//	channel field (not out)  armed by make(…) before the go statement, signalled by close(ch), awaited by `<-ch`
//
// Whatever the carrier, the obligations are the same: it is armed before the goroutine starts, the producer signals on
// every way out (deferred), the signal is the producer's LAST action (anything after it can still be running when Close
// has returned), nobody else signals, and Close awaits it after cancelling.

func (m *c14Model) carrierName() string {
	if m.fWG != nil {
		return "wait group " + m.fWG.Name()
	}
	return "completion channel " + m.fStop.Name()
}

func (m *c14Model) signalText() string {
	if m.fWG != nil {
		return "….." + m.fWG.Name() + ".Done()"
	}
	return "close(…." + m.fStop.Name() + ")"
}

func (m *c14Model) waitText() string {
	if m.fWG != nil {
		return "…." + m.fWG.Name() + ".Wait()"
	}
	return "<-…." + m.fStop.Name()
}

// isSignal: the call tells Close that the producer has finished.
func (m *c14Model) isSignal(g *c14Graph, n *c14Node, ce *ast.CallExpr) bool {
	if m.fWG != nil {
		return m.isMethodOn(g, g.canon(n.ctx, ce, n), m.fWG, "sync.WaitGroup", "Done")
	}
	return builtinName(n.ctx.fn.info, ce) == "close" && len(ce.Args) == 1 && m.isField(g, g.canon(n.ctx, ce.Args[0], n), m.fStop)
}

// isWaitCall: a call that blocks until the signal (wait group only).
func (m *c14Model) isWaitCall(g *c14Graph, n *c14Node, ce *ast.CallExpr) bool {
	return m.fWG != nil && m.isMethodOn(g, g.canon(n.ctx, ce, n), m.fWG, "sync.WaitGroup", "Wait")
}

// awaits lists the nodes of g (outside go/defer statements) that block until the producer's signal: calls of Wait, or
// plain receives from the completion channel (a receive that is one case of a select does not wait for it).
func (m *c14Model) awaits(g *c14Graph) []*c14Node {
	var out []*c14Node
	if m.fWG != nil {
		for _, c := range m.callsWhere(g, func(n *c14Node, ce *ast.CallExpr) bool { return m.isWaitCall(g, n, ce) }) {
			out = append(out, c.n)
		}
		return out
	}
	for _, n := range g.execNodes() {
		switch n.ast.(type) {
		case *ast.ExprStmt, *ast.AssignStmt:
		default:
			continue
		}
		if cl, ok := n.ctx.fn.par[n.ast].(*ast.CommClause); ok && cl.Comm == n.ast {
			continue
		}
		found := false
		ast.Inspect(n.ast, func(x ast.Node) bool {
			if _, ok := x.(*ast.FuncLit); ok {
				return false
			}
			if ue, ok := x.(*ast.UnaryExpr); ok && ue.Op == token.ARROW && m.isField(g, g.canon(n.ctx, ue.X, n), m.fStop) {
				found = true
			}
			return true
		})
		if found {
			out = append(out, n)
		}
	}
	return out
}

// arming lists the nodes of the constructor graph that make the carrier ready for the producer's signal, and whether
// each of them is well formed: `wg.Add(1)` / the channel field initialised with make(…).
func (m *c14Model) arming() (nodes []*c14Node, bad *c14Node, why string) {
	cg := m.cg
	if m.fWG != nil {
		for _, a := range m.callsWhere(cg, func(n *c14Node, ce *ast.CallExpr) bool {
			return m.isMethodOn(cg, cg.canon(n.ctx, ce, n), m.fWG, "sync.WaitGroup", "Add")
		}) {
			nodes = append(nodes, a.n)
			v := cg.canon(a.n.ctx, a.call, a.n)
			one := len(v.args) == 1 && v.args[0].k == 'c' && v.args[0].key == "c(1)"
			if !one || len(nodes) > 1 {
				bad, why = a.n, "`"+src(m.p.Fset, a.call)+"` does not add exactly 1, once, for the single producer goroutine: Wait never returns (or panics)"
			}
		}
		return
	}
	for _, in := range m.fieldInits(m.fStop) {
		nodes = append(nodes, in.n)
		if in.val == nil || in.val.k != 'C' || in.val.name != "make" {
			bad, why = in.n, "the completion channel is initialised with `"+src(m.p.Fset, in.val.node)+"`, not with make(…): closing a nil channel panics and a receive from it blocks for ever"
		}
	}
	return
}
