package rules

import (
	"go/ast"
	"go/token"
	"go/types"
)

// Statements of the C13 path evaluator.

func (x *c13Exec) block(st *c13State, fr *c13Fr, list []ast.Stmt, k c13K) {
	var step func(s *c13State, i int)
	step = func(s *c13State, i int) {
		if i == len(list) {
			k(s, c13Next, "", nil)
			return
		}
		x.stmt(s, fr, list[i], "", func(s2 *c13State, ctl int, label string, vals []*c13Term) {
			if ctl == c13Next {
				step(s2, i+1)
				return
			}
			k(s2, ctl, label, vals)
		})
	}
	step(st, 0)
}

func (x *c13Exec) stmt(st *c13State, fr *c13Fr, s ast.Stmt, label string, k c13K) {
	if !x.tick() {
		return
	}
	st.last = s.Pos()
	next := func(s2 *c13State) { k(s2, c13Next, "", nil) }
	switch v := s.(type) {
	case *ast.BlockStmt:
		x.block(st, fr, v.List, k)
	case *ast.EmptyStmt:
		next(st)
	case *ast.ExprStmt:
		if call, ok := ast.Unparen(v.X).(*ast.CallExpr); ok {
			x.evalCall(st, fr, call, func(s2 *c13State, _ []*c13Term) { next(s2) })
			return
		}
		x.eval(st, fr, v.X, func(s2 *c13State, _ *c13Term) { next(s2) })
	case *ast.AssignStmt:
		x.assignStmt(st, fr, v, next)
	case *ast.IncDecStmt:
		op := token.ADD
		if v.Tok == token.DEC {
			op = token.SUB
		}
		x.eval(st, fr, v.X, func(s2 *c13State, a *c13Term) {
			x.assign(s2, fr, []ast.Expr{v.X}, []*c13Term{x.arith(op, a, c13Int(1))}, next)
		})
	case *ast.DeclStmt:
		gd, ok := v.Decl.(*ast.GenDecl)
		if !ok || gd.Tok != token.VAR {
			next(st)
			return
		}
		var step func(s2 *c13State, i int)
		step = func(s2 *c13State, i int) {
			if i == len(gd.Specs) {
				next(s2)
				return
			}
			vs := gd.Specs[i].(*ast.ValueSpec)
			var lhs []ast.Expr
			for _, nm := range vs.Names {
				lhs = append(lhs, nm)
			}
			if len(vs.Values) == 0 {
				for _, nm := range vs.Names {
					if o := fr.info.Defs[nm]; o != nil {
						s2.env[o] = x.zero(o.Type())
					}
				}
				step(s2, i+1)
				return
			}
			x.evalRHS(s2, fr, vs.Values, len(lhs), func(s3 *c13State, vals []*c13Term) {
				vals = x.convertAll(vals, c13SrcTypes(fr.info, vs.Values, len(vals)), func(i int) types.Type { return c13LhsType(fr.info, lhs[i]) })
				x.assign(s3, fr, lhs, vals, func(s4 *c13State) { step(s4, i+1) })
			})
		}
		step(st, 0)
	case *ast.IfStmt:
		run := func(s2 *c13State) {
			x.cond(s2, fr, v.Cond,
				func(s3 *c13State) { x.block(s3, fr, v.Body.List, k) },
				func(s3 *c13State) {
					if v.Else == nil {
						next(s3)
						return
					}
					x.stmt(s3, fr, v.Else, "", k)
				})
		}
		if v.Init != nil {
			x.stmt(st, fr, v.Init, "", func(s2 *c13State, ctl int, _ string, _ []*c13Term) {
				if ctl == c13Next {
					run(s2)
				}
			})
			return
		}
		run(st)
	case *ast.SwitchStmt:
		x.switchStmt(st, fr, v, label, k)
	case *ast.ReturnStmt:
		if len(v.Results) == 0 {
			k(st, c13Return, "", nil)
			return
		}
		x.evalRHS(st, fr, v.Results, -1, func(s2 *c13State, vals []*c13Term) {
			s2.last = v.Pos()
			if fr.res != nil && fr.res.Len() == len(vals) {
				// a concrete nil returned in an interface-typed result is a non-nil interface value
				vals = x.convertAll(vals, c13SrcTypes(fr.info, v.Results, len(vals)), func(i int) types.Type { return fr.res.At(i).Type() })
			}
			k(s2, c13Return, "", vals)
		})
	case *ast.BranchStmt:
		lbl := ""
		if v.Label != nil {
			lbl = v.Label.Name
		}
		switch v.Tok {
		case token.BREAK:
			k(st, c13Break, lbl, nil)
		case token.CONTINUE:
			k(st, c13Continue, lbl, nil)
		default:
			x.unsupported(st, v.Pos(), "%s statement", v.Tok)
		}
	case *ast.LabeledStmt:
		x.stmt(st, fr, v.Stmt, v.Label.Name, func(s2 *c13State, ctl int, lbl string, vals []*c13Term) {
			if ctl == c13Break && lbl == v.Label.Name {
				next(s2)
				return
			}
			k(s2, ctl, lbl, vals)
		})
	case *ast.RangeStmt:
		x.rangeStmt(st, fr, v, label, k)
	case *ast.ForStmt:
		x.forStmt(st, fr, v, label, k)
	default:
		x.unsupported(st, s.Pos(), "statement `%s`", src(x.fset, s))
	}
}

// evalRHS evaluates the right-hand sides of an assignment / the results of a return; a single call may yield
// several values (want = number of values needed, -1 = whatever the expressions yield).
func (x *c13Exec) evalRHS(st *c13State, fr *c13Fr, rhs []ast.Expr, want int, k func(*c13State, []*c13Term)) {
	if len(rhs) == 1 {
		if call, ok := ast.Unparen(rhs[0]).(*ast.CallExpr); ok {
			if tv, isC := fr.info.Types[rhs[0]]; !isC || tv.Value == nil {
				if _, isTuple := fr.info.TypeOf(call).(*types.Tuple); isTuple || want != 1 {
					x.evalCall(st, fr, call, k)
					return
				}
			}
		}
		if want == 2 {
			// comma-ok forms
			x.unsupported(st, rhs[0].Pos(), "comma-ok form `%s`", src(x.fset, rhs[0]))
			return
		}
	}
	x.evalList(st, fr, rhs, k)
}

func (x *c13Exec) assignStmt(st *c13State, fr *c13Fr, v *ast.AssignStmt, next func(*c13State)) {
	switch v.Tok {
	case token.ASSIGN, token.DEFINE:
		x.evalRHS(st, fr, v.Rhs, len(v.Lhs), func(s2 *c13State, vals []*c13Term) {
			if len(vals) != len(v.Lhs) {
				x.unsupported(s2, v.Pos(), "assignment `%s` with %d values", src(x.fset, v), len(vals))
				return
			}
			vals = x.convertAll(vals, c13SrcTypes(fr.info, v.Rhs, len(vals)), func(i int) types.Type { return c13LhsType(fr.info, v.Lhs[i]) })
			x.assign(s2, fr, v.Lhs, vals, next)
		})
	default:
		// x op= y
		ops := map[token.Token]token.Token{token.ADD_ASSIGN: token.ADD, token.SUB_ASSIGN: token.SUB, token.MUL_ASSIGN: token.MUL, token.QUO_ASSIGN: token.QUO,
			token.REM_ASSIGN: token.REM, token.AND_ASSIGN: token.AND, token.OR_ASSIGN: token.OR, token.XOR_ASSIGN: token.XOR, token.SHL_ASSIGN: token.SHL, token.SHR_ASSIGN: token.SHR}
		op, ok := ops[v.Tok]
		if !ok || len(v.Lhs) != 1 || len(v.Rhs) != 1 {
			x.unsupported(st, v.Pos(), "assignment `%s`", src(x.fset, v))
			return
		}
		x.eval(st, fr, v.Lhs[0], func(s2 *c13State, a *c13Term) {
			x.eval(s2, fr, v.Rhs[0], func(s3 *c13State, b *c13Term) {
				x.assign(s3, fr, v.Lhs, []*c13Term{x.arith(op, a, b)}, next)
			})
		})
	}
}

// assign stores vals into the left-hand sides.
func (x *c13Exec) assign(st *c13State, fr *c13Fr, lhs []ast.Expr, vals []*c13Term, next func(*c13State)) {
	var step func(s *c13State, i int)
	step = func(s *c13State, i int) {
		if i == len(lhs) {
			next(s)
			return
		}
		cont := func(s2 *c13State) { step(s2, i+1) }
		val := vals[i]
		switch l := ast.Unparen(lhs[i]).(type) {
		case *ast.Ident:
			if l.Name == "_" {
				cont(s)
				return
			}
			o, _ := objOf(fr.info, l).(*types.Var)
			if o == nil {
				x.unsupported(s, l.Pos(), "assignment to `%s`", l.Name)
				return
			}
			if o.Pkg() != nil && o.Parent() == o.Pkg().Scope() {
				s.trace = append(s.trace, c13Event{kind: "store", pos: l.Pos(), lhs: x.symFor(s, o), val: val, what: src(x.fset, l)})
				cont(s)
				return
			}
			s.env[o] = val
			cont(s)
		case *ast.SelectorExpr:
			f := fieldOf(fr.info, l)
			sel := fr.info.Selections[l]
			if f == nil || sel == nil || len(sel.Index()) != 1 {
				x.unsupported(s, l.Pos(), "assignment to `%s`", src(x.fset, l))
				return
			}
			// field of a local struct value: functional update of the variable
			if id, ok := ast.Unparen(l.X).(*ast.Ident); ok {
				if o, isVar := objOf(fr.info, id).(*types.Var); isVar {
					if cur, bound := s.env[o]; bound && cur.op == c13OpLit && cur.keys != nil {
						if _, isStruct := o.Type().Underlying().(*types.Struct); isStruct {
							s.env[o] = x.withField(cur, f, val)
							cont(s)
							return
						}
					}
				}
			}
			x.eval(s, fr, l.X, func(s2 *c13State, base *c13Term) {
				for base.op == c13OpAddr {
					base = base.args[0]
				}
				if base.op == c13OpAddrVar {
					if cur, bound := s2.env[base.obj]; bound && cur.op == c13OpLit && cur.keys != nil {
						s2.env[base.obj] = x.withField(cur, f, val)
						cont(s2)
						return
					}
				}
				if base.op == c13OpRef {
					if c := s2.heap[base.id]; c != nil && !c.escaped {
						nc := &c13Cell{typ: c.typ, fields: map[*types.Var]*c13Term{}, ver: c.ver}
						for kf, kv := range c.fields {
							nc.fields[kf] = kv
						}
						if val.key == x.zero(f.Type()).key {
							delete(nc.fields, f)
						} else {
							nc.fields[f] = val
						}
						s2.heap[base.id] = nc
						x.noteHeapStore(s2, base.id, f)
						cont(s2)
						return
					}
				}
				s2.trace = append(s2.trace, c13Event{kind: "store", pos: l.Pos(), lhs: x.field(base, f, 0), val: val, what: src(x.fset, l)})
				cont(s2)
			})
		case *ast.IndexExpr:
			x.eval(s, fr, l.X, func(s2 *c13State, a *c13Term) {
				x.eval(s2, fr, l.Index, func(s3 *c13State, ix *c13Term) {
					x.escape(s3, []*c13Term{a})
					s3.trace = append(s3.trace, c13Event{kind: "store", pos: l.Pos(), lhs: x.index(a, ix), val: val, what: src(x.fset, l)})
					cont(s3)
				})
			})
		case *ast.StarExpr:
			x.eval(s, fr, l.X, func(s2 *c13State, a *c13Term) {
				if a.op == c13OpAddrVar {
					s2.env[a.obj] = val
					cont(s2)
					return
				}
				x.escape(s2, []*c13Term{a})
				s2.trace = append(s2.trace, c13Event{kind: "store", pos: l.Pos(), lhs: x.deref(a), val: val, what: src(x.fset, l)})
				cont(s2)
			})
		default:
			x.unsupported(s, lhs[i].Pos(), "assignment to `%s`", src(x.fset, lhs[i]))
		}
	}
	step(st, 0)
}

func (x *c13Exec) switchStmt(st *c13State, fr *c13Fr, v *ast.SwitchStmt, label string, k c13K) {
	after := func(s2 *c13State, ctl int, lbl string, vals []*c13Term) {
		if ctl == c13Break && (lbl == "" || lbl == label) {
			k(s2, c13Next, "", nil)
			return
		}
		k(s2, ctl, lbl, vals)
	}
	var clauses []*ast.CaseClause
	var def *ast.CaseClause
	for _, c := range v.Body.List {
		cc := c.(*ast.CaseClause)
		if cc.List == nil {
			def = cc
		} else {
			clauses = append(clauses, cc)
		}
		for _, b := range cc.Body {
			if br, ok := b.(*ast.BranchStmt); ok && br.Tok == token.FALLTHROUGH {
				x.unsupported(st, br.Pos(), "fallthrough")
				return
			}
		}
	}
	run := func(s2 *c13State, tag *c13Term) {
		var try func(s3 *c13State, ci, ei int)
		try = func(s3 *c13State, ci, ei int) {
			if ci == len(clauses) {
				if def != nil {
					x.block(s3, fr, def.Body, after)
				} else {
					k(s3, c13Next, "", nil)
				}
				return
			}
			cc := clauses[ci]
			if ei == len(cc.List) {
				try(s3, ci+1, 0)
				return
			}
			hit := func(s4 *c13State) { x.block(s4, fr, cc.Body, after) }
			miss := func(s4 *c13State) { try(s4, ci, ei+1) }
			if tag == nil {
				x.cond(s3, fr, cc.List[ei], hit, miss)
				return
			}
			x.eval(s3, fr, cc.List[ei], func(s4 *c13State, cv *c13Term) {
				atom, neg := x.compare(s4, token.EQL, tag, cv)
				x.branch(s4, atom, neg, cc.List[ei], hit, miss)
			})
		}
		try(s2, 0, 0)
	}
	start := func(s2 *c13State) {
		if v.Tag == nil {
			run(s2, nil)
			return
		}
		x.eval(s2, fr, v.Tag, run)
	}
	if v.Init != nil {
		x.stmt(st, fr, v.Init, "", func(s2 *c13State, ctl int, _ string, _ []*c13Term) {
			if ctl == c13Next {
				start(s2)
			}
		})
		return
	}
	start(st)
}

// carried lists the variables assigned in the given nodes that are declared outside [lo, hi): the loop-carried
// variables of a loop whose per-iteration scope is that extent.
func (x *c13Exec) carried(st *c13State, info *types.Info, nodes []ast.Node, lo, hi token.Pos) []types.Object {
	seen := map[types.Object]bool{}
	var out []types.Object
	add := func(e ast.Expr) {
		for {
			switch v := ast.Unparen(e).(type) {
			case *ast.StarExpr:
				// a write through a pointer to a local variable changes that variable
				if id, ok := ast.Unparen(v.X).(*ast.Ident); ok {
					if o := objOf(info, id); o != nil {
						if t, bound := st.env[o]; bound && t.op == c13OpAddrVar {
							if tv, isVar := t.obj.(*types.Var); isVar && !seen[tv] {
								seen[tv] = true
								out = append(out, tv)
							}
						}
					}
				}
				return
			case *ast.SelectorExpr:
				if id, ok := ast.Unparen(v.X).(*ast.Ident); ok {
					if o := objOf(info, id); o != nil {
						if t, bound := st.env[o]; bound && t.op == c13OpAddrVar {
							if tv, isVar := t.obj.(*types.Var); isVar && !seen[tv] {
								seen[tv] = true
								out = append(out, tv)
							}
							return
						}
					}
				}
				// a field of a struct-valued local: the variable changes
				if id, ok := ast.Unparen(v.X).(*ast.Ident); ok {
					if o, isVar := objOf(info, id).(*types.Var); isVar {
						if _, isStruct := o.Type().Underlying().(*types.Struct); isStruct {
							e = id
							continue
						}
					}
				}
				return
			case *ast.Ident:
				o, _ := objOf(info, v).(*types.Var)
				if o == nil || o.IsField() || seen[o] || (lo <= o.Pos() && o.Pos() < hi) {
					return
				}
				if o.Pkg() != nil && o.Parent() == o.Pkg().Scope() {
					return
				}
				seen[o] = true
				out = append(out, o)
				return
			default:
				return
			}
		}
	}
	visited := map[ast.Node]bool{}
	var scan func(n ast.Node)
	scan = func(n ast.Node) {
		if n == nil || visited[n] {
			return
		}
		visited[n] = true
		ast.Inspect(n, func(m ast.Node) bool {
			switch v := m.(type) {
			case *ast.CallExpr:
				// a call of a local closure: what the closure assigns is assigned by the loop body
				if id, ok := ast.Unparen(v.Fun).(*ast.Ident); ok {
					if o := objOf(info, id); o != nil {
						if t, bound := st.env[o]; bound && t.op == c13OpFuncLit {
							scan(t.node.(*ast.FuncLit).Body)
						}
					}
				}
			case *ast.AssignStmt:
				for _, l := range v.Lhs {
					add(l)
				}
			case *ast.IncDecStmt:
				add(v.X)
			case *ast.UnaryExpr:
				if v.Op == token.AND {
					add(v.X) // the address of an outer variable is taken: whoever receives it may write the variable
				}
			case *ast.Ident:
				// a pointer to a local variable is mentioned (e.g. handed to a helper): the variable may be written
				if o := objOf(info, v); o != nil {
					if t, bound := st.env[o]; bound && t.op == c13OpAddrVar {
						if tv, isVar := t.obj.(*types.Var); isVar && !seen[tv] {
							seen[tv] = true
							out = append(out, tv)
						}
					}
				}
			case *ast.RangeStmt:
				if v.Tok == token.ASSIGN {
					if v.Key != nil {
						add(v.Key)
					}
					if v.Value != nil {
						add(v.Value)
					}
				}
			}
			return true
		})
	}
	for _, n := range nodes {
		scan(n)
	}
	return out
}

func (x *c13Exec) newLoop(st *c13State, fr *c13Fr, s ast.Stmt, xs *c13Term, vars []types.Object) *c13Loop {
	x.nextLoop++
	l := &c13Loop{id: x.nextLoop, stmt: s, xs: xs, vars: vars, pre: map[types.Object]*c13Term{}, pcLen: len(st.pc), trLen: len(st.trace),
		depth: len(st.loops), touched: map[int]bool{}}
	if fr.fn != nil {
		l.fnName = funcName(fr.fn)
	}
	for _, w := range vars {
		if v, ok := st.env[w]; ok {
			l.pre[w] = v
		} else {
			l.pre[w] = x.symFor(st, w)
		}
	}
	x.loops = append(x.loops, l)
	return l
}

// loopBody handles the outcome of one body path of loop l; it returns true when the path goes on to the next iteration.
func (x *c13Exec) loopDone(l *c13Loop, label string, s *c13State, ctl int, lbl string, vals []*c13Term, k c13K) {
	out := map[types.Object]*c13Term{}
	for _, w := range l.vars {
		if hs, isHeap := x.heapSlots[w]; isHeap {
			out[w] = x.heapRead(s, hs)
			continue
		}
		out[w] = s.env[w]
	}
	switch {
	case ctl == c13Next, ctl == c13Continue && (lbl == "" || lbl == label):
		l.iters = append(l.iters, &c13Iter{st: s, out: out})
	case ctl == c13Break && (lbl == "" || lbl == label):
		l.breaks = append(l.breaks, &c13Iter{st: s, out: out})
	case ctl == c13Return:
		l.exits++
		k(s, ctl, lbl, vals)
	default:
		// break/continue of an enclosing loop
		l.breaks = append(l.breaks, &c13Iter{st: s, out: out})
		s.loops = s.loops[:l.depth]
		k(s, ctl, lbl, vals)
	}
}

// afterLoop continues after loop l from the state before it: carried variables hold loopout values and fresh
// objects touched by the body have unknown content.
func (x *c13Exec) afterLoop(st *c13State, l *c13Loop, k c13K) {
	for _, w := range l.vars {
		// a variable no path through the body changes keeps its value
		in := x.loopVal(c13OpLoopIn, l, w)
		same := true
		for _, its := range [][]*c13Iter{l.iters, l.breaks} {
			for _, it := range its {
				if it.out[w] == nil || it.out[w].key != in.key {
					same = false
				}
			}
		}
		if hs, isHeap := x.heapSlots[w]; isHeap {
			if !same {
				x.heapWrite(st, hs, x.loopVal(c13OpLoopOut, l, w))
			}
			continue
		}
		if same && l.pre[w] != nil {
			st.env[w] = l.pre[w]
			continue
		}
		st.env[w] = x.loopVal(c13OpLoopOut, l, w)
	}
	for id := range l.touched {
		if c := st.heap[id]; c != nil {
			st.heap[id] = &c13Cell{typ: c.typ, fields: c.fields, escaped: true, ver: c.ver + 1}
		}
	}
	st.trace = append(st.trace, c13Event{kind: "loop", pos: l.stmt.Pos(), loop: l})
	k(st, c13Next, "", nil)
}

func (x *c13Exec) rangeStmt(st *c13State, fr *c13Fr, v *ast.RangeStmt, label string, k c13K) {
	x.eval(st, fr, v.X, func(s *c13State, xs *c13Term) {
		if xs.op == c13OpLit && xs.keys == nil && len(xs.args) <= 16 {
			x.unrollRange(s, fr, v, xs, label, k)
			return
		}
		hv := x.probeHeap(s, func(ps *c13State, pk c13K) *c13Loop { return x.rangeCore(ps, fr, v, xs, label, nil, pk) })
		x.rangeCore(s, fr, v, xs, label, hv, k)
	})
}

// rangeCore executes a range loop over xs; hvars are the fields of fresh objects the body writes (carried like variables).
func (x *c13Exec) rangeCore(s *c13State, fr *c13Fr, v *ast.RangeStmt, xs *c13Term, label string, hvars []types.Object, k c13K) *c13Loop {
	{
		vars := x.carried(s, fr.info, []ast.Node{v.Body}, v.Body.Pos(), v.Body.End())
		if v.Tok == token.ASSIGN {
			vars = x.carried(s, fr.info, []ast.Node{v}, v.Body.Pos(), v.Body.End())
		}
		l := x.newLoop(s, fr, v, xs, vars)
		b := s.clone()
		for _, w := range vars {
			b.env[w] = x.loopVal(c13OpLoopIn, l, w)
		}
		x.bindHeapVars(l, b, hvars)
		b.loops = append(b.loops, l)
		// key and value of the iteration
		var keyT, valT *c13Term
		switch u := fr.info.TypeOf(v.X).Underlying().(type) {
		case *types.Slice, *types.Array:
			keyT = x.idx(l)
			valT = x.index(xs, keyT)
		case *types.Pointer:
			if _, isArr := u.Elem().Underlying().(*types.Array); isArr {
				keyT = x.idx(l)
				valT = x.index(x.deref(xs), keyT)
			}
		}
		if keyT == nil {
			keyT = x.sym("range key", nil)
			valT = x.sym("range value", nil)
		}
		bind := func(e ast.Expr, t *c13Term) {
			if e == nil {
				return
			}
			if id, ok := ast.Unparen(e).(*ast.Ident); ok && id.Name != "_" {
				if o := objOf(fr.info, id); o != nil {
					b.env[o] = t
				}
			}
		}
		bind(v.Key, keyT)
		bind(v.Value, valT)
		x.block(b, fr, v.Body.List, func(s2 *c13State, ctl int, lbl string, vals []*c13Term) {
			x.loopDone(l, label, s2, ctl, lbl, vals, k)
		})
		x.afterLoop(s, l, k)
		return l
	}
}

func (x *c13Exec) forStmt(st *c13State, fr *c13Fr, v *ast.ForStmt, label string, k c13K) {
	core := func(s *c13State, hvars []types.Object, k c13K) *c13Loop {
		var nodes []ast.Node
		if v.Cond != nil {
			nodes = append(nodes, v.Cond)
		}
		if v.Post != nil {
			nodes = append(nodes, v.Post)
		}
		nodes = append(nodes, v.Body)
		vars := x.carried(s, fr.info, nodes, v.Body.Pos(), v.Body.End())
		l := x.newLoop(s, fr, v, nil, vars)
		b := s.clone()
		for _, w := range vars {
			b.env[w] = x.loopVal(c13OpLoopIn, l, w)
		}
		x.bindHeapVars(l, b, hvars)
		b.loops = append(b.loops, l)
		body := func(s2 *c13State) {
			x.block(s2, fr, v.Body.List, func(s3 *c13State, ctl int, lbl string, vals []*c13Term) {
				if v.Post != nil && (ctl == c13Next || ctl == c13Continue && (lbl == "" || lbl == label)) {
					x.stmt(s3, fr, v.Post, "", func(s4 *c13State, c2 int, l2 string, v2 []*c13Term) {
						x.loopDone(l, label, s4, c13Next, "", nil, k)
					})
					return
				}
				x.loopDone(l, label, s3, ctl, lbl, vals, k)
			})
		}
		if v.Cond != nil {
			x.cond(b, fr, v.Cond, body, func(*c13State) {})
		} else {
			body(b)
		}
		if v.Cond == nil && len(l.breaks) == 0 {
			return l // `for { ... }` without break: nothing follows
		}
		x.afterLoop(s, l, k)
		return l
	}
	run := func(s *c13State) {
		hv := x.probeHeap(s, func(ps *c13State, pk c13K) *c13Loop { return core(ps, nil, pk) })
		core(s, hv, k)
	}
	if v.Init != nil {
		x.stmt(st, fr, v.Init, "", func(s *c13State, ctl int, _ string, _ []*c13Term) {
			if ctl == c13Next {
				run(s)
			}
		})
		return
	}
	run(st)
}

// unrollRange executes a range loop over a slice literal element by element.
func (x *c13Exec) unrollRange(st *c13State, fr *c13Fr, v *ast.RangeStmt, xs *c13Term, label string, k c13K) {
	var step func(s *c13State, i int)
	step = func(s *c13State, i int) {
		if i == len(xs.args) {
			k(s, c13Next, "", nil)
			return
		}
		bind := func(e ast.Expr, t *c13Term) {
			if e == nil {
				return
			}
			if id, ok := ast.Unparen(e).(*ast.Ident); ok && id.Name != "_" {
				if o := objOf(fr.info, id); o != nil {
					s.env[o] = t
				}
			}
		}
		bind(v.Key, c13Int(int64(i)))
		bind(v.Value, xs.args[i])
		x.block(s, fr, v.Body.List, func(s2 *c13State, ctl int, lbl string, vals []*c13Term) {
			switch {
			case ctl == c13Next, ctl == c13Continue && (lbl == "" || lbl == label):
				step(s2, i+1)
			case ctl == c13Break && (lbl == "" || lbl == label):
				k(s2, c13Next, "", nil)
			default:
				k(s2, ctl, lbl, vals)
			}
		})
	}
	step(st, 0)
}

// withField is the struct literal cur with field f set to val.
func (x *c13Exec) withField(cur *c13Term, f *types.Var, val *c13Term) *c13Term {
	var ks []*types.Var
	var as []*c13Term
	for j, kf := range cur.keys {
		if kf != f {
			ks = append(ks, kf)
			as = append(as, cur.args[j])
		}
	}
	if val.key != x.zero(f.Type()).key {
		ks = append(ks, f)
		as = append(as, val)
	}
	if ks == nil {
		ks = []*types.Var{}
	}
	return x.lit(cur.typ, ks, as)
}

// loopVal is the value of carried variable w at the start of an iteration (op loopin) or after the loop (op loopout).
// A struct-valued variable is presented field by field (a literal of its symbolic fields), so that code which keeps
// several loop-carried values in one struct reads and updates them like separate variables.
func (x *c13Exec) loopVal(op string, l *c13Loop, w types.Object) *c13Term {
	v := x.loopVar(op, l, w)
	st, ok := w.Type().Underlying().(*types.Struct)
	if !ok || st.NumFields() == 0 || st.NumFields() > 16 {
		return v
	}
	keys := make([]*types.Var, st.NumFields())
	args := make([]*c13Term, st.NumFields())
	for i := 0; i < st.NumFields(); i++ {
		keys[i] = st.Field(i)
		args[i] = x.field(v, st.Field(i), 0)
	}
	return x.lit(w.Type(), keys, args)
}
