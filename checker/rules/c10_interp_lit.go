package rules

// Composite literals, lookup tables, maps, make and function literals for the C10 interpreter.
//
// Representation changes this covers: a switch over the kind bits replaced by an array / slice / map TABLE indexed
// by a computed bit field (the index expression is folded over the bit-vector domain: for the id of one kind the
// kind lanes are constants, so the index is a constant and the element is looked up); parallel locals replaced
// by a small struct (struct literals, field reads, field stores on struct-typed locals); append-built slices
// replaced by presized make + indexed stores; a helper written as a local closure.

import (
	"go/ast"
	"go/token"
	"go/types"
)

const (
	c10VMap  c10VK = 100 + iota // map literal with constant keys: Keys[i] -> Args[i]
	c10VFunc                    // function literal: Lit, captured environment Cap
)

// tableVars finds the package-level variables that are read-only tables: initialised by a composite literal
// and never assigned, never stored into (v[i] = x, v[i]++), never address-taken in the package.
func (ev *c10Eval) tableVars() map[types.Object]ast.Expr {
	if ev.tables != nil {
		return ev.tables
	}
	ev.tables = map[types.Object]ast.Expr{}
	written := map[types.Object]bool{}
	root := func(e ast.Expr) types.Object {
		for {
			switch y := ast.Unparen(e).(type) {
			case *ast.IndexExpr:
				e = y.X
				continue
			case *ast.SelectorExpr:
				if _, isField := ev.info.Selections[y]; isField {
					e = y.X
					continue
				}
			case *ast.StarExpr:
				e = y.X
				continue
			case *ast.Ident:
				return ev.info.Uses[y]
			}
			return nil
		}
	}
	for _, f := range ev.pk.Syntax {
		ast.Inspect(f, func(n ast.Node) bool {
			switch x := n.(type) {
			case *ast.AssignStmt:
				for _, l := range x.Lhs {
					if o := root(l); o != nil {
						written[o] = true
					}
				}
			case *ast.IncDecStmt:
				if o := root(x.X); o != nil {
					written[o] = true
				}
			case *ast.SliceExpr:
				if o := root(x.X); o != nil {
					written[o] = true // a slice of the table may be written through
				}
			case *ast.RangeStmt:
				for _, e := range []ast.Expr{x.Key, x.Value} {
					if e != nil && x.Tok == token.ASSIGN {
						if o := root(e); o != nil {
							written[o] = true
						}
					}
				}
			}
			return true
		})
	}
	for _, f := range ev.pk.Syntax {
		for _, d := range f.Decls {
			gd, ok := d.(*ast.GenDecl)
			if !ok || gd.Tok != token.VAR {
				continue
			}
			for _, sp := range gd.Specs {
				vs := sp.(*ast.ValueSpec)
				if len(vs.Values) != len(vs.Names) {
					continue
				}
				for i, nm := range vs.Names {
					o := ev.info.Defs[nm]
					if _, isLit := ast.Unparen(vs.Values[i]).(*ast.CompositeLit); isLit && o != nil && !written[o] && !ev.addrTaken[o] {
						ev.tables[o] = vs.Values[i]
					}
				}
			}
		}
	}
	return ev.tables
}

// compositeLit folds a struct, array, slice or map literal.
func (ev *c10Eval) compositeLit(x *ast.CompositeLit, env c10Env, depth int) c10Val {
	t := ev.info.TypeOf(x)
	if t == nil {
		return c10OpaqueVal("composite literal without type")
	}
	switch u := t.Underlying().(type) {
	case *types.Struct:
		out := c10Val{K: c10VStruct, Fields: map[*types.Var]c10Val{}}
		for i := 0; i < u.NumFields(); i++ {
			out.Fields[u.Field(i)] = ev.zeroOf(u.Field(i).Type())
		}
		for i, el := range x.Elts {
			if kv, ok := el.(*ast.KeyValueExpr); ok {
				id, _ := kv.Key.(*ast.Ident)
				f, _ := ev.info.Uses[id].(*types.Var)
				if id == nil || f == nil {
					return c10OpaqueVal("struct literal key")
				}
				out.Fields[f] = ev.expr(kv.Value, env, depth)
			} else if i < u.NumFields() {
				out.Fields[u.Field(i)] = ev.expr(el, env, depth)
			}
		}
		return out
	case *types.Array, *types.Slice:
		var elemT types.Type
		n := int64(-1)
		if a, ok := u.(*types.Array); ok {
			elemT, n = a.Elem(), a.Len()
		} else {
			elemT = u.(*types.Slice).Elem()
		}
		vals := map[int64]c10Val{}
		next, max := int64(0), int64(-1)
		for _, el := range x.Elts {
			v := el
			if kv, ok := el.(*ast.KeyValueExpr); ok {
				k, isConst := constInt(ev.info, kv.Key)
				if !isConst {
					return c10OpaqueVal("non-constant index in an array literal")
				}
				next, v = k, kv.Value
			}
			vals[next] = ev.elemLit(v, elemT, env, depth)
			if next > max {
				max = next
			}
			next++
		}
		if n < 0 {
			n = max + 1
		}
		if n > 4096 {
			return c10OpaqueVal("table too large")
		}
		out := c10Val{K: c10VSlice, Args: make([]c10Val, n)}
		zero := ev.zeroOf(elemT)
		for i := int64(0); i < n; i++ {
			if v, ok := vals[i]; ok {
				out.Args[i] = v
			} else {
				out.Args[i] = zero
			}
		}
		return out
	case *types.Map:
		out := c10Val{K: c10VMap, Dyn: u.Elem()}
		for _, el := range x.Elts {
			kv, ok := el.(*ast.KeyValueExpr)
			if !ok {
				return c10OpaqueVal("map literal element")
			}
			k := ev.elemLit(kv.Key, u.Key(), env, depth)
			if (k.K != c10VStr && k.K != c10VInt) || (k.K == c10VInt && !c10IsConst(k.V)) {
				return c10OpaqueVal("map literal with a non-constant key")
			}
			out.Keys = append(out.Keys, k)
			out.Args = append(out.Args, ev.elemLit(kv.Value, u.Elem(), env, depth))
		}
		return out
	}
	return c10OpaqueVal("composite literal of " + t.String())
}

func c10IsConst(v c10Vec) bool { _, ok := v.constant(); return ok }

// elemLit folds an element of a literal; `{a, b}` without a type takes the element type.
func (ev *c10Eval) elemLit(e ast.Expr, elemT types.Type, env c10Env, depth int) c10Val {
	if cl, ok := e.(*ast.CompositeLit); ok {
		return ev.compositeLit(cl, env, depth)
	}
	return ev.expr(e, env, depth)
}

// mapIndex looks a key up in a map literal: (value, found). ok=false when the comparison with some key is undecided.
func (ev *c10Eval) mapIndex(mp, key c10Val) (c10Val, bool, bool) {
	for i, k := range mp.Keys {
		if key.K == c10VStr || key.K == c10VText {
			if ev.cmpStrs != nil && k.K == c10VStr {
				ev.cmpStrs[k.S] = true // a text looked up in a table is compared with every key
			}
		}
		switch ev.eqVals(key, k) {
		case 1:
			return mp.Args[i], true, true
		case -1:
			return c10Val{}, false, false
		}
	}
	return ev.zeroOf(mp.Dyn), false, true
}

// makeCall folds make([]T, n) / make([]T, n, c) with constant n.
func (ev *c10Eval) makeCall(call *ast.CallExpr, env c10Env, depth int) (c10Val, bool) {
	if len(call.Args) < 2 {
		if len(call.Args) == 1 {
			if mt, ok := ev.info.TypeOf(call.Args[0]).Underlying().(*types.Map); ok {
				return c10Val{K: c10VMap, Dyn: mt.Elem()}, true
			}
		}
		return c10Val{}, false
	}
	sl, ok := ev.info.TypeOf(call.Args[0]).Underlying().(*types.Slice)
	if !ok {
		return c10Val{}, false
	}
	n := ev.expr(call.Args[1], env, depth)
	k, isConst := n.V.signedConst()
	if n.K != c10VInt || !isConst || k < 0 || k > 4096 {
		return c10Val{}, false
	}
	out := c10Val{K: c10VSlice, Args: make([]c10Val, k)}
	for i := range out.Args {
		out.Args[i] = ev.zeroOf(sl.Elem())
	}
	return out, true
}
