package rules

import (
	"go/ast"
	"go/types"
)

// C01.R3, who denotes the cached block. The cached PrimitiveBlock is reached not only as `dec.<field>`: a helper may
// return it (`pb := dec.resetBlock()`), a local may be re-pointed at a fresh block that is then stored in the decoder,
// a function may receive it as a parameter (`paramsOf(pb)`). c01BlockAlias collects, over the worker role, the locals
// and parameters that may hold the cached block and the functions that may return it.
type c01BlockAlias struct {
	cm      *c01Model
	pbField *types.Var
	obj     map[types.Object]bool
	ret     map[*types.Func]bool
}

func c01NewBlockAlias(cm *c01Model, pbField *types.Var) *c01BlockAlias {
	ba := &c01BlockAlias{cm: cm, pbField: pbField, obj: map[types.Object]bool{}, ret: map[*types.Func]bool{}}
	info := cm.m.info
	isBlockT := func(t types.Type) bool { return t != nil && c01IsGenerated(t, "PrimitiveBlock") }
	for changed, round := true, 0; changed && round < 6; round++ {
		changed = false
		add := func(o types.Object) {
			if o != nil && !ba.obj[o] && isBlockT(o.Type()) {
				ba.obj[o] = true
				changed = true
			}
		}
		for _, fi := range cm.worker {
			fi := fi
			ast.Inspect(fi.Decl.Body, func(n ast.Node) bool {
				switch s := n.(type) {
				case *ast.AssignStmt:
					for i, l := range s.Lhs {
						var rh ast.Expr
						if len(s.Rhs) == len(s.Lhs) {
							rh = s.Rhs[i]
						} else if len(s.Rhs) == 1 && i == 0 {
							rh = s.Rhs[0]
						}
						if rh == nil {
							continue
						}
						if id, ok := ast.Unparen(l).(*ast.Ident); ok && ba.isBlock(fi, rh) {
							add(objOf(info, id))
						}
						// a local stored into the decoder's block field is the cached block from then on
						if fieldOf(info, l) == pbField {
							add(objOf(info, ast.Unparen(rh)))
						}
					}
				case *ast.ValueSpec:
					for i, nm := range s.Names {
						if i < len(s.Values) && ba.isBlock(fi, s.Values[i]) {
							add(info.Defs[nm])
						}
					}
				case *ast.CallExpr:
					if tf := c01Callee(cm.m.pk, s); tf != nil {
						for i, a := range s.Args {
							if ba.isBlock(fi, a) {
								add(c01Param(info, tf, i))
							}
						}
					}
				case *ast.ReturnStmt:
					for _, e := range s.Results {
						if isBlockT(info.TypeOf(e)) && ba.isBlock(fi, e) && !ba.ret[fi.Obj] {
							ba.ret[fi.Obj] = true
							changed = true
						}
					}
				}
				return true
			})
		}
	}
	return ba
}

// isBlock: e denotes the cached block itself.
func (ba *c01BlockAlias) isBlock(fi *FuncInfo, e ast.Expr) bool {
	info := ba.cm.m.info
	e = ast.Unparen(e)
	if call, ok := e.(*ast.CallExpr); ok {
		if fn := callee(info, call); fn != nil && ba.ret[fn] {
			return true
		}
		return false
	}
	if o := objOf(info, e); o != nil && ba.obj[o] {
		return true
	}
	ch := c01Chain(info, fi.Decl.Body, e)
	flds := c01ChainFields(info, ch)
	if len(flds) > 0 {
		return flds[len(flds)-1] == ba.pbField
	}
	if o := c01RootObj(info, ch); o != nil && ba.obj[o] {
		if _, isId := ast.Unparen(ch).(*ast.Ident); isId {
			return true
		}
	}
	return false
}

// through: e is the cached block or something below it; last is the last field selected (the block field itself when e
// is the block).
func (ba *c01BlockAlias) through(scope ast.Node, e ast.Expr) (bool, *types.Var) {
	info := ba.cm.m.info
	ch := c01Chain(info, scope, e)
	flds := c01ChainFields(info, ch)
	for _, fl := range flds {
		if fl == ba.pbField {
			return true, flds[len(flds)-1]
		}
	}
	// rooted at an alias, or at a call that returns the block
	root := ast.Unparen(ch)
	for {
		switch x := root.(type) {
		case *ast.SelectorExpr:
			root = ast.Unparen(x.X)
			continue
		case *ast.StarExpr:
			root = ast.Unparen(x.X)
			continue
		case *ast.IndexExpr:
			root = ast.Unparen(x.X)
			continue
		case *ast.CallExpr:
			if fn := callee(info, x); fn != nil {
				if ba.ret[fn] {
					if len(flds) == 0 {
						return true, ba.pbField
					}
					return true, flds[len(flds)-1]
				}
				// a getter of a sub-message applied to the block
				if sel, ok := ast.Unparen(x.Fun).(*ast.SelectorExpr); ok && len(x.Args) == 0 {
					root = ast.Unparen(sel.X)
					continue
				}
			}
		}
		break
	}
	if o := objOf(info, root); o != nil && ba.obj[o] {
		if len(flds) == 0 {
			return true, ba.pbField
		}
		return true, flds[len(flds)-1]
	}
	return false, nil
}
