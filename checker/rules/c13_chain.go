package rules

import "fmt"

// actionChain reads the value of an action list back to its origin: it must be an empty list extended only by
// element loops (each contributing the actions of its iterations, in element order) or by the concatenation of
// such lists. It returns the (section, kind) of the loops in the order their actions appear in the list.
func (m *c13Model) actionChain(t *c13Term, depth int) (seq [][2]int, bad string) {
	x := m.x
	if depth > 64 {
		return nil, "the action list is built by more steps than the rule follows"
	}
	switch {
	case t.op == c13OpLoopOut:
		el := m.byLoop[t.loop]
		if el == nil {
			return nil, fmt.Sprintf("the action list passes through the loop at %s, which does not range over the nodes, ways or relations of a section of the change", x.prog.Rel(t.loop.stmt.Pos()))
		}
		if len(t.loop.breaks) > 0 {
			return nil, fmt.Sprintf("the loop over change.%s.%s can be left by break: the remaining elements get no action", c13Secs[el.sec].Field, c13Kinds[el.kind].Elems)
		}
		// every iteration must extend the list it received: list(after) = list(before) ++ actions of the iterations
		in := x.loopVar(c13OpLoopIn, t.loop, t.obj)
		for _, it := range t.loop.iters {
			o := it.out[t.obj]
			if o == nil || !(o.key == in.key || (o.op == c13OpApp && (o.args[0].key == in.key || m.lazyBase(it.st, o.args[0], in)))) {
				return nil, fmt.Sprintf("an iteration of the loop over change.%s.%s turns the action list into `%s` instead of appending to it", c13Secs[el.sec].Field, c13Kinds[el.kind].Elems, m.show(o))
			}
		}
		pre, b := m.actionChain(t.loop.pre[t.obj], depth+1)
		if b != "" {
			return nil, b
		}
		return append(pre, [2]int{el.sec, el.kind}), ""
	case t.op == c13OpAppV && len(t.args) == 2:
		// append(a, b...): the actions of a followed by those of b
		a, b := m.actionChain(t.args[0], depth+1)
		if b != "" {
			return nil, b
		}
		c, b2 := m.actionChain(t.args[1], depth+1)
		if b2 != "" {
			return nil, b2
		}
		return append(a, c...), ""
	case t.op == c13OpApp || t.op == c13OpAppV:
		return nil, fmt.Sprintf("actions are appended outside the element loops: `%s`", m.show(t))
	case t.op == c13OpNil, t.op == c13OpLit && t.keys == nil && len(t.args) == 0:
		return nil, ""
	case t.op == c13OpMake:
		if len(t.args) >= 1 {
			if n, ok := c13IntOf(t.args[0]); ok && n == 0 {
				return nil, ""
			}
		}
		return nil, fmt.Sprintf("the action list starts as `%s`, which is not empty", m.show(t))
	}
	return nil, fmt.Sprintf("the action list starts from `%s`, not from an empty list", m.show(t))
}

// emptyList reports whether t is an empty action list (nil, an empty literal, make with length 0).
func c13EmptyList(t *c13Term) bool {
	switch {
	case t.op == c13OpNil, t.op == c13OpLit && t.keys == nil && len(t.args) == 0:
		return true
	case t.op == c13OpMake && len(t.args) >= 1:
		n, ok := c13IntOf(t.args[0])
		return ok && n == 0
	}
	return false
}

// lazyBase recognises a lazily allocated list: the path appends to a fresh empty list `base` on a path on which the
// carried list `in` is known to be nil or empty, which is appending to `in`.
func (m *c13Model) lazyBase(st *c13State, base, in *c13Term) bool {
	if !c13EmptyList(base) {
		return false
	}
	x := m.x
	if v, ok := st.pcIdx[x.eq(in, c13NilTerm).key]; ok && v {
		return true
	}
	if v, ok := st.pcIdx[x.eq(x.un(c13OpLen, in), c13Int(0)).key]; ok && v {
		return true
	}
	return false
}
