package rules

import "osmcheck/core"

// c14AllBenign lists the behaviour-preserving variants of every round.
func c14AllBenign() []core.Mutant {
	var out []core.Mutant
	for _, l := range [][]core.Mutant{c14Benign, c14Benign5, c14Benign6, c14Benign7, c14Benign8, c14Benign8DS, c14Benign9} {
		out = append(out, l...)
	}
	return out
}

// c14ExtraMutants lists the generated defects of every round (the hand-written ones are in c14_reg.go).
func c14ExtraMutants() []core.Mutant {
	var out []core.Mutant
	for _, l := range [][]core.Mutant{c14MoreMutants, c14Mutants5, c14Mutants6, c14Mutants7, c14Mutants8, c14Mutants8DS, c14Mutants9} {
		out = append(out, l...)
	}
	return out
}
