package rules

import (
	"go/ast"
	"go/token"
	"go/types"

	"golang.org/x/tools/go/packages"

	"osmcheck/core"
)

// Sort operands that are built where the sort is called.
//
// `sort.Sort(sorter{us: us, less: byIndex})`, `sort.Slice(us, less)` with a closure variable, `sort.Slice(us, us.before)`:
// the comparator that runs is decided at the construction site. The operand expression is evaluated in the function it
// is written in (the slice being sorted bound to "the slice", the simple assignments that precede the call executed
// first), which yields a struct value with the slice and the function value in its fields, or the function value
// itself; the methods of the adapter are then interpreted on that value, so `s.less(&s.us[i], &s.us[j])` runs the
// function bound at this particular call.

func c12IsStruct(nt *types.Named) bool {
	_, ok := nt.Underlying().(*types.Struct)
	return ok
}

// c12EvalInHost evaluates expression e of function host as it is when control reaches call. bind maps the variables
// that denote the sorted slice. Locals are known through the top-level assignments of the body that precede the call;
// a local assigned anywhere else (in a branch, in a loop, after the call) makes the value unknown.
func c12EvalInHost(pk *packages.Package, host *FuncInfo, bind map[types.Object]c12Val, elem types.Type, call *ast.CallExpr, e ast.Expr) (c12Val, *c12Cmp) {
	info := pk.TypesInfo
	c := &c12Cmp{pk: pk, pos: call.Pos(), bind: bind, elem: elem}
	ru := &c12Run{c: c, rel: map[string]c12Rel{}, same: -1}
	env := c12Env{}
	top := map[ast.Stmt]bool{}
	for _, st := range host.Decl.Body.List {
		if st.End() > call.Pos() {
			break
		}
		switch st.(type) {
		case *ast.AssignStmt, *ast.DeclStmt:
			top[st] = true
			ru.stmt(st, env, 3)
		}
	}
	// every assignment to a local used by e must be one of the executed statements
	bad := ""
	ast.Inspect(e, func(n ast.Node) bool {
		id, ok := n.(*ast.Ident)
		if !ok || bad != "" {
			return true
		}
		o, isVar := info.Uses[id].(*types.Var)
		if !isVar || o.IsField() {
			return true
		}
		if _, known := env[o]; !known {
			return true
		}
		ast.Inspect(host.Decl.Body, func(m ast.Node) bool {
			switch st := m.(type) {
			case *ast.AssignStmt:
				for _, l := range st.Lhs {
					if c12RootVar(info, l) == types.Object(o) && !top[st] {
						bad = "`" + o.Name() + "` is also assigned in `" + src(pk.Fset, st) + "`"
					}
				}
			case *ast.IncDecStmt:
				if c12RootVar(info, st.X) == types.Object(o) {
					bad = "`" + o.Name() + "` is modified in `" + src(pk.Fset, st) + "`"
				}
			case *ast.UnaryExpr:
				if st.Op == token.AND && objOf(info, st.X) == types.Object(o) && !(st.Pos() >= e.Pos() && st.End() <= e.End()) {
					bad = "the address of `" + o.Name() + "` is taken"
				}
			}
			return bad == ""
		})
		return true
	})
	if bad != "" {
		return c12Unknown("%s", bad), c
	}
	return ru.expr(e, env, 3), c
}

// c12DynamicAdapter: when the operand of sort.Sort has an interface type (the result of a constructor declared to
// return sort.Interface), the operand is evaluated and the type of the struct value it yields is the adapter.
func c12DynamicAdapter(pk *packages.Package, fi *FuncInfo, so *c12Sort) {
	if so.adapter != nil || (so.fn != "Sort" && so.fn != "Stable") || so.host == nil || so.host.Obj != fi.Obj {
		return
	}
	recv := c12RecvObj(pk.TypesInfo, fi.Decl)
	if recv == nil {
		return
	}
	val, _ := c12EvalInHost(pk, fi, map[types.Object]c12Val{recv: {k: c12KSlice}}, c12SliceElem(recv.Type()), so.call, so.sorted)
	if val.k != c12KStruct || val.typ == nil {
		return
	}
	t := val.typ
	if pt, ok := t.(*types.Pointer); ok {
		t = pt.Elem()
	}
	if nt, ok := t.(*types.Named); ok && c12IsStruct(nt) {
		so.adapter, so.opExpr, so.opHost = nt, so.sorted, fi
	}
}

func c12RecvObj(info *types.Info, fd *ast.FuncDecl) types.Object {
	if fd.Recv != nil && len(fd.Recv.List) == 1 && len(fd.Recv.List[0].Names) == 1 {
		return info.Defs[fd.Recv.List[0].Names[0]]
	}
	return nil
}

func c12IdxArgs() []c12Val {
	return []c12Val{{k: c12KIdx, side: 0}, {k: c12KIdx, side: 1}}
}

// c12StructAdapter handles sort.Sort(adapter) where the adapter is a struct: it emits the sort@, Len and Swap
// obligations and returns the comparator (the adapter's Less bound to the value built at the call).
func c12StructAdapter(r *core.R, pk *packages.Package, fi *FuncInfo, so *c12Sort, method, c string) (*c12Cmp, bool) {
	info := pk.TypesInfo
	ad := so.adapter.Obj().Name()
	sortC := "sort@" + method
	recv := c12RecvObj(info, fi.Decl)
	fail := func(format string, args ...interface{}) (*c12Cmp, bool) {
		r.Unknown(sortC, so.call.Pos(), format, args...)
		for _, sfx := range []string{".Len", ".Swap", ".Less"} {
			r.Unknown(c+sfx, so.call.Pos(), "undecided: see %s", sortC)
		}
		return nil, false
	}
	if recv == nil || so.opHost == nil || so.opHost.Obj != fi.Obj {
		return fail("the %s handed to sort.%s is not built in %s itself; the rule does not follow it", ad, so.fn, method)
	}
	elem := c12SliceElem(recv.Type())
	val, _ := c12EvalInHost(pk, fi, map[types.Object]c12Val{recv: {k: c12KSlice}}, elem, so.call, so.opExpr)
	if val.k != c12KStruct {
		return fail("the operand `%s` of sort.%s could not be evaluated to a value of %s (%s)", src(r.P.Fset, so.opExpr), so.fn, ad, val.why)
	}
	// the fields that hold the sorted slice
	data := map[*types.Var]bool{}
	st := so.adapter.Underlying().(*types.Struct)
	var other []string
	for i := 0; i < st.NumFields(); i++ {
		f := st.Field(i)
		if v, ok := val.flds[f]; ok && v.k == c12KSlice {
			data[f] = true
		} else if c12SliceElem(f.Type()) != nil && types.Identical(c12SliceElem(f.Type()), elem) {
			other = append(other, f.Name())
		}
	}
	switch {
	case len(data) == 0:
		r.Bad(sortC, so.call.Pos(), "no field of the %s built in `%s` holds the receiver of %s: the caller's list stays unsorted", ad, src(r.P.Fset, so.opExpr), method)
	case len(other) > 0:
		r.Unknown(sortC, so.call.Pos(), "field %s of the %s holds a list that is not the receiver of %s", other[0], ad, method)
	default:
		r.OK(sortC, so.call.Pos(), "sort.%s is applied to a %s whose slice field is the receiver of %s", so.fn, ad, method)
	}
	lessFi, swapFi, lenFi := findFunc(pk, ad+".Less"), findFunc(pk, ad+".Swap"), findFunc(pk, ad+".Len")
	if lessFi == nil || swapFi == nil || lenFi == nil || lessFi.Decl.Body == nil || swapFi.Decl.Body == nil || lenFi.Decl.Body == nil {
		r.Anchor(ad + " Len/Less/Swap")
		return nil, false
	}
	emit := func(cc string, pos token.Pos, st int, why string) {
		switch st {
		case c12OK:
			r.OK(cc, pos, "%s", why)
		case c12Bad:
			r.Bad(cc, pos, "%s", why)
		default:
			r.Unknown(cc, pos, "%s", why)
		}
	}
	sst, swhy := c12SwapVerdictOn(pk, swapFi, data)
	emit(c+".Swap", swapFi.Decl.Pos(), sst, swhy)
	lst, lwhy := c12LenVerdictOn(pk, lenFi, &val)
	emit(c+".Len", lenFi.Decl.Pos(), lst, lwhy)
	cmp := &c12Cmp{pk: pk, name: ad + ".Less", pos: lessFi.Decl.Pos(), body: lessFi.Decl.Body,
		bind: map[types.Object]c12Val{recv: {k: c12KSlice}}, elem: elem,
		entry: &c12FuncVal{fn: lessFi.Obj, recv: &val}, args: c12IdxArgs()}
	// point the diagnostics at the comparator bound at this call, when it is a declared function
	for _, v := range val.flds {
		if v.k == c12KFunc && v.fv.fn != nil && v.fv.fn.Pkg() == pk.Types {
			if d := findFunc(pk, funcName(v.fv.fn)); d != nil {
				cmp.pos = d.Decl.Pos()
				cmp.name += " -> " + d.Name()
			}
		}
	}
	return cmp, true
}

// c12SliceCmp prepares the comparator of sort.Slice(slice, less): less may be a function literal, a local holding
// one, a declared function, or a method value; it is evaluated where the call is written.
func c12SliceCmp(pk *packages.Package, s *c12Sort, name string) (*c12Cmp, string) {
	info := pk.TypesInfo
	if s.slice == nil {
		return nil, "the slice argument of sort." + s.fn + " is not a variable"
	}
	elem := c12SliceElem(s.slice.Type())
	if elem == nil {
		return nil, "the argument of sort." + s.fn + " is not a slice"
	}
	if len(s.call.Args) != 2 || s.host == nil {
		return nil, "sort." + s.fn + " without a less argument"
	}
	bind := map[types.Object]c12Val{s.slice: {k: c12KSlice}}
	// a single-assignment alias of the sorted slice inside the host function denotes the same slice
	if root := c12SliceAliasRoot(info, s.host, s.slice); root != nil {
		bind[root] = c12Val{k: c12KSlice}
	}
	val, c := c12EvalInHost(pk, s.host, bind, elem, s.call, s.call.Args[1])
	if val.k != c12KFunc {
		why := val.why
		if why == "" {
			why = "not a function value"
		}
		return nil, "the less argument `" + src(pk.Fset, s.call.Args[1]) + "` of sort." + s.fn + " could not be resolved to a function (" + why + ")"
	}
	c.name, c.entry, c.args = name, val.fv, c12IdxArgs()
	switch {
	case val.fv.lit != nil:
		c.pos, c.body = val.fv.lit.Pos(), val.fv.lit.Body
	case val.fv.fn != nil:
		if d := findFunc(pk, funcName(val.fv.fn)); d != nil {
			c.pos, c.body = d.Decl.Pos(), d.Decl.Body
		}
	}
	return c, ""
}
