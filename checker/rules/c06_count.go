package rules

import (
	"go/ast"
	"go/token"
	"go/types"

	"osmcheck/core"
)

// c06CountAxiom proves x[idx] in range by the axiom on protoscan.Iterator.Count:
//
//	x := make(T, IT.Count(W))        the only definition of x
//	loop controlled by IT.HasNext()  the innermost loop around the use
//	v, err := IT.Read()              dominates the use, and the use is only reached when err is nil
//	x[idx] ...                       idx is a counter (zero, only ever incremented)
//	idx++                            the only change of idx in the loop, dominated by the use, not in a nested loop
//
// so idx < number of successful reads of IT <= Count. The shapes are decided on the CFG (dominance and guard facts),
// not on the statement list of the loop body.
func c06CountAxiom(r *core.R, info *types.Info, fi *FuncInfo, e *ast.IndexExpr, idx types.Object) (bool, string) {
	xo := objOf(info, e.X)
	if xo == nil || !c06IsCounter(info, fi, idx) {
		return false, ""
	}
	f := c01FnOf(r.P, fi).innermost(e)
	// single definition of x: make(T, IT.Count(...))
	ds := c01Defs(info, fi.Decl.Body, xo)
	if len(ds) != 1 || ds[0].rhs == nil || ds[0].index >= 0 {
		return false, ""
	}
	mk, ok := ast.Unparen(c01Expand(info, fi.Decl.Body, ds[0].rhs)).(*ast.CallExpr)
	if !ok || builtinName(info, mk) != "make" || len(mk.Args) != 2 {
		return false, ""
	}
	cnt, ok := c01StripConv(info, c01Expand(info, fi.Decl.Body, c01StripConv(info, mk.Args[1]))).(*ast.CallExpr)
	if !ok || !isMethod(callee(info, cnt), protoscanIter, "Count") {
		return false, ""
	}
	itExpr := ast.Unparen(cnt.Fun).(*ast.SelectorExpr).X
	sameIt := func(x ast.Expr) bool { return c01Same(info, fi.Decl.Body, x, itExpr) }
	// innermost loop around the use, controlled by IT.HasNext()
	ub := f.blockOf(e.Pos())
	loops := c01Loops(f)
	loop := c01InnermostLoop(loops, ub)
	if loop == nil {
		return false, ""
	}
	cond := f.condOf(loop.head)
	if cond == nil {
		return false, ""
	}
	var hasNext *ast.CallExpr
	ast.Inspect(cond, func(n ast.Node) bool {
		if c, ok := n.(*ast.CallExpr); ok && isMethod(callee(info, c), protoscanIter, "HasNext") {
			if sel, ok := ast.Unparen(c.Fun).(*ast.SelectorExpr); ok && sameIt(sel.X) {
				hasNext = c
			}
		}
		return true
	})
	if hasNext == nil {
		return false, ""
	}
	// the body is only entered when HasNext() holds
	if c01Eval(info, cond, func(a ast.Expr) c01Tri {
		if ast.Unparen(a) == ast.Expr(hasNext) {
			return c01F
		}
		return c01U
	}) != c01F {
		return false, ""
	}
	// a read of IT inside the loop dominating the use, whose error is known nil at the use
	facts := f.factsAt(ub)
	readOK := false
	ast.Inspect(f.body, func(n ast.Node) bool {
		as, ok := n.(*ast.AssignStmt)
		if !ok || len(as.Rhs) != 1 || len(as.Lhs) != 2 {
			return true
		}
		call, ok := ast.Unparen(as.Rhs[0]).(*ast.CallExpr)
		if !ok {
			return true
		}
		sel, ok := ast.Unparen(call.Fun).(*ast.SelectorExpr)
		if !ok || namedPath(info.TypeOf(sel.X)) != protoscanIter || !sameIt(sel.X) {
			return true
		}
		rb := f.blockOf(as.Pos())
		if rb == nil || !loop.blocks[rb] || !f.dominatesPos(as.Pos(), e.Pos()) {
			return true
		}
		eo := objOf(info, as.Lhs[1])
		if eo == nil || !isErrorType(eo.Type()) {
			return true
		}
		for _, ft := range facts {
			if x, neq, ok := c01NilCmp(ft.expr); ok && objOf(info, x) == eo && ft.val != neq {
				readOK = true // `err != nil` is false / `err == nil` is true on the way to the use
			}
		}
		return true
	})
	// exactly one change of idx in the loop: idx++ after the use, in the same loop
	incs, other := 0, 0
	for _, d := range c01Defs(info, f.body, idx) {
		db := f.blockOf(d.stmt.Pos())
		if db == nil || !loop.blocks[db] {
			continue
		}
		if d.tok == token.INC && f.dominatesPos(e.Pos(), d.stmt.Pos()) && c01InnermostLoop(loops, db) == loop {
			incs++
		} else {
			other++
		}
	}
	if readOK && incs == 1 && other == 0 {
		return true, "counter `" + idx.Name() + "` into `" + xo.Name() + " = make(_, " + src(r.P.Fset, itExpr) + ".Count(...))`, advanced once per successful read of the same iterator (Count axiom)"
	}
	return false, ""
}
