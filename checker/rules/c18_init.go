package rules

import (
	"go/ast"
	"go/token"
	"go/types"

	"golang.org/x/tools/go/cfg"

	"osmcheck/core"
)

// C18.L2 (b) and (c): the value lists are sorted before the first lookup, and the table is not written
// afterwards.
//
// (b) is a forward must-analysis over the control-flow graph of the package init function(s) with three
// facts: U "the table has been unmarshalled", S "every value list has been sorted since", E "the value list
// of the entry the current sorting loop is at has been sorted". Calls to functions of the package are
// analysed in place with their parameters bound to the roles of the arguments (the table address, an
// entry, an entry's value list), so the unmarshal and the sort may live in helpers, in methods of the rule
// struct, behind pointer or slice aliases, in range or index loops. Being path-insensitive, the analysis
// makes no assumption about the conditions inside init: a sort that some path skips does not count.

// c18UF: facts about one slice of rule structs (the package table, or a local one that is decoded, sorted and
// then returned or assigned to the table): u "holds the unmarshalled literal", s "every value list sorted since".
type c18UF struct {
	u, s bool
	grp  types.Object // the variable whose entries this one shares after `a = b` (nil: its own)
	errv types.Object // the facts hold only where this error variable is nil (`v, err := load()`); nil: unconditional
}

// c18Ret is what a package function returns: the facts of the slice result over its value returns, and whether
// it also has error returns (`return nil, err`), which the caller must rule out by testing the error.
type c18Ret struct {
	uf      c18UF
	errPath bool
}

// c18Grp is the share group of v: slices assigned from one another share their entries, so sorting the lists
// through one sorts them for all (until one of them is decoded into or assigned again).
func (a c18Flow) grpOf(v types.Object) types.Object {
	if g := a.f[v].grp; g != nil {
		return g
	}
	return v
}

// c18Flow is the state of the must-analysis: the facts of every tracked slice variable and e "the value list
// of the entry the current loop is at has been sorted". A missing variable has no facts (both false).
type c18Flow struct {
	e bool
	f map[types.Object]c18UF
}

// leave re-homes the slices that share the entries of v when v itself is about to get other entries (decoded
// into or assigned): they keep sharing with each other, under a member as the group name.
func (a c18Flow) leave(v types.Object) c18Flow {
	var rep types.Object
	for k, uf := range a.f {
		if k != v && uf.grp == v && (rep == nil || k.Pos() < rep.Pos()) {
			rep = k
		}
	}
	if rep == nil {
		return a
	}
	n := a
	for k, uf := range a.f {
		if k != v && uf.grp == v {
			uf.grp = rep
			if k == rep {
				uf.grp = nil
			}
			n = n.with(k, uf)
		}
	}
	return n
}

func (a c18Flow) with(o types.Object, uf c18UF) c18Flow {
	n := c18Flow{e: a.e, f: map[types.Object]c18UF{}}
	for k, v := range a.f {
		n.f[k] = v
	}
	n.f[o] = uf
	return n
}

func (a c18Flow) meet(b c18Flow) c18Flow {
	n := c18Flow{e: a.e && b.e, f: map[types.Object]c18UF{}}
	for k, v := range a.f {
		w := b.f[k]
		m := c18UF{u: v.u && w.u, s: v.s && w.s}
		if v.grp == w.grp {
			m.grp = v.grp
		}
		switch {
		case v.errv == w.errv || w.errv == nil:
			m.errv = v.errv
		case v.errv == nil:
			m.errv = w.errv
		default:
			m.u, m.s = false, false // conditional on two different errors
		}
		n.f[k] = m
	}
	return n
}

func (a c18Flow) eq(b c18Flow) bool {
	if a.e != b.e {
		return false
	}
	for k, v := range a.f {
		if b.f[k] != v {
			return false
		}
	}
	for k, v := range b.f {
		if a.f[k] != v {
			return false
		}
	}
	return true
}

// c18Loop is a loop over all entries of the table.
type c18Loop struct {
	stmt             ast.Stmt
	over             types.Object // the slice variable whose entries are visited
	key, val         types.Object
	head, body, done *cfg.Block
	in               map[*cfg.Block]bool
}

type c18LoopDiag struct {
	pos       token.Pos
	elem      string
	everyIter bool // every iteration passes a sort of the entry's value list
	onlyHead  bool // the loop is left only when the table is exhausted
	loaded    bool // U holds at the loop head
	hasSort   bool
	copyAsg   bool
	sortText  string
	sortPos   token.Pos
}

type c18FlowEnv struct {
	r      *core.R
	c      *c18Ctx
	lit    *c18Lit
	tableP map[types.Object]types.Object  // parameters bound to a tracked slice (the header is copied, the entries are shared)
	addrOf map[*ast.CallExpr]types.Object // call site -> tracked slice whose address it passes
	writes map[ast.Node]bool              // assignments to the package table the analysis has accounted for
	entryP map[types.Object]bool
	valsP  map[types.Object]bool
	stack  []*ast.CallExpr
	active []*ast.FuncDecl
	loops  []c18LoopDiag
	reach  bool // the unmarshal call was seen
}

// slot resolves e to the tracked slice variable it denotes: the package table, a parameter bound to a tracked
// slice, a local of the table's type (decoded into, or filled from a helper's result), or a single-assignment
// local copy of one of those (the copy shares the entries).
func (env *c18FlowEnv) slot(fd *ast.FuncDecl, e ast.Expr) types.Object {
	return env.slotN(fd, e, 3)
}

func (env *c18FlowEnv) slotN(fd *ast.FuncDecl, e ast.Expr, depth int) types.Object {
	info := env.c.info
	o, _ := objOf(info, ast.Unparen(e)).(*types.Var)
	if o == nil || o.IsField() {
		return nil
	}
	if o == env.c.table {
		return o
	}
	if v, ok := env.tableP[o]; ok {
		if c18Reassigned(info, fd.Body, o) {
			return nil
		}
		return v
	}
	if o.Parent() == env.c.pk.Types.Scope() || !types.Identical(o.Type().Underlying(), env.c.table.Type().Underlying()) {
		return nil
	}
	if t, ptr := aliasTarget(info, fd.Body, o); t != nil && !ptr && depth > 0 {
		if _, isID := ast.Unparen(t).(*ast.Ident); isID {
			if v := env.slotN(fd, t, depth-1); v != nil {
				return v
			}
		}
	}
	return o
}

func (env *c18FlowEnv) isTable(fd *ast.FuncDecl, e ast.Expr) bool { return env.slot(fd, e) != nil }

// c18Reassigned reports whether variable o is assigned, incremented or address-taken in body (a parameter or
// loop variable that is reassigned no longer denotes what it was bound to).
func c18Reassigned(info *types.Info, body ast.Node, o types.Object) bool {
	found := false
	ast.Inspect(body, func(n ast.Node) bool {
		switch s := n.(type) {
		case *ast.AssignStmt:
			for _, l := range s.Lhs {
				if id, ok := ast.Unparen(l).(*ast.Ident); ok && info.Uses[id] == o {
					found = true
				}
			}
		case *ast.IncDecStmt:
			if objOf(info, s.X) == o {
				found = true
			}
		case *ast.UnaryExpr:
			if s.Op == token.AND && objOf(info, s.X) == o {
				found = true
			}
		case *ast.RangeStmt:
			if s.Tok == token.ASSIGN && ((s.Key != nil && objOf(info, s.Key) == o) || (s.Value != nil && objOf(info, s.Value) == o)) {
				found = true
			}
		}
		return !found
	})
	return found
}

// c18FieldAssigned reports whether `<o>.<f> = ...` occurs in body.
func c18FieldAssigned(info *types.Info, body ast.Node, o types.Object, f *types.Var) bool {
	found := false
	ast.Inspect(body, func(n ast.Node) bool {
		if as, ok := n.(*ast.AssignStmt); ok {
			for _, l := range as.Lhs {
				if fieldOf(info, l) == f && objOf(info, ast.Unparen(ast.Unparen(l).(*ast.SelectorExpr).X)) == o {
					found = true
				}
			}
		}
		return !found
	})
	return found
}

func c18StripRef(e ast.Expr) ast.Expr {
	for {
		switch t := e.(type) {
		case *ast.ParenExpr:
			e = t.X
		case *ast.StarExpr:
			e = t.X
		case *ast.UnaryExpr:
			if t.Op != token.AND {
				return e
			}
			e = t.X
		default:
			return e
		}
	}
}

// isEntry: e denotes the entry a table loop of fd is at (range value, table[key], a local alias or copy of
// those — a copy shares the backing array of its value list), or a parameter bound to one.
func (env *c18FlowEnv) isEntry(fd *ast.FuncDecl, loops []*c18Loop, e ast.Expr, depth int) bool {
	info := env.c.info
	switch t := c18StripRef(e).(type) {
	case *ast.Ident:
		o := objOf(info, t)
		if o == nil {
			return false
		}
		if env.entryP[o] {
			return !c18Reassigned(info, fd.Body, o)
		}
		for _, l := range loops {
			if o == l.val {
				return !c18Reassigned(info, fd.Body, o)
			}
		}
		if _, isVar := o.(*types.Var); isVar && depth > 0 {
			if tg, _ := aliasTarget(info, fd.Body, o); tg != nil {
				return env.isEntry(fd, loops, tg, depth-1)
			}
		}
	case *ast.IndexExpr:
		over := env.slot(fd, t.X)
		if over == nil {
			return false
		}
		k := objOf(info, ast.Unparen(t.Index))
		for _, l := range loops {
			if k != nil && k == l.key && over == l.over {
				var body ast.Node = fd.Body
				switch st := l.stmt.(type) {
				case *ast.RangeStmt:
					body = st.Body
				case *ast.ForStmt:
					body = st.Body
				}
				return !c18Reassigned(info, body, k)
			}
		}
	}
	return false
}

// isVals: e denotes the value list of such an entry (the slice header may have been copied to a local).
func (env *c18FlowEnv) isVals(fd *ast.FuncDecl, loops []*c18Loop, e ast.Expr, depth int) bool {
	info := env.c.info
	e = ast.Unparen(e)
	if f := fieldOf(info, e); f != nil {
		x := e.(*ast.SelectorExpr).X
		if f != env.c.valsF || !env.isEntry(fd, loops, x, 3) {
			return false
		}
		// a struct COPY of the entry (range value, `c := table[i]`) whose list field is replaced no longer shares
		// the table's backing array
		if o, ok := objOf(info, ast.Unparen(x)).(*types.Var); ok {
			if _, isPtr := o.Type().Underlying().(*types.Pointer); !isPtr && c18FieldAssigned(info, fd.Body, o, f) {
				return false
			}
		}
		return true
	}
	if id, ok := e.(*ast.Ident); ok {
		o := objOf(info, id)
		if o == nil {
			return false
		}
		if env.valsP[o] {
			return !c18Reassigned(info, fd.Body, o)
		}
		if _, isVar := o.(*types.Var); isVar && depth > 0 {
			if tg, ptr := aliasTarget(info, fd.Body, o); tg != nil && !ptr {
				return env.isVals(fd, loops, tg, depth-1)
			}
		}
	}
	return false
}
