package rules

import (
	"go/ast"
	"go/token"
	"go/types"
	"sort"

	"golang.org/x/tools/go/cfg"

	"osmcheck/core"
)

// C18.L2 (b) and (c): the value lists are sorted before the first lookup, and the table is not written
// afterwards.
//
// (b) is a forward must-analysis over the control-flow graph of the package init function(s) with three
// facts: U "the table has been unmarshalled", S "every value list has been sorted since", E "the value list
// of the entry the current sorting loop is at has been sorted". Calls to functions of the package are
// analysed in place with their parameters bound to the roles of the arguments (the table address, an
// entry, an entry's value list), so the unmarshal and the sort may live in helpers, in methods of the rule
// struct, behind pointer or slice aliases, in range or index loops. Being path-insensitive, the analysis
// makes no assumption about the conditions inside init: a sort that some path skips does not count.

type c18Flow struct{ u, s, e bool }

func (a c18Flow) meet(b c18Flow) c18Flow { return c18Flow{a.u && b.u, a.s && b.s, a.e && b.e} }

// c18Loop is a loop over all entries of the table.
type c18Loop struct {
	stmt             ast.Stmt
	key, val         types.Object
	head, body, done *cfg.Block
	in               map[*cfg.Block]bool
}

type c18LoopDiag struct {
	pos       token.Pos
	elem      string
	everyIter bool // every iteration passes a sort of the entry's value list
	onlyHead  bool // the loop is left only when the table is exhausted
	loaded    bool // U holds at the loop head
	hasSort   bool
	copyAsg   bool
	sortText  string
	sortPos   token.Pos
}

type c18FlowEnv struct {
	r      *core.R
	c      *c18Ctx
	lit    *c18Lit
	tableP map[types.Object]bool // parameters bound to the table (the slice header is copied, the entries are shared)
	entryP map[types.Object]bool
	valsP  map[types.Object]bool
	stack  []*ast.CallExpr
	active []*ast.FuncDecl
	loops  []c18LoopDiag
	reach  bool // the unmarshal call was seen
}

func (env *c18FlowEnv) isTable(fd *ast.FuncDecl, e ast.Expr) bool {
	info := env.c.info
	o := objOf(info, ast.Unparen(e))
	if o == nil {
		return false
	}
	if o == env.c.table {
		return true
	}
	if env.tableP[o] {
		return !c18Reassigned(info, fd.Body, o)
	}
	if _, isVar := o.(*types.Var); isVar && o.Parent() != env.c.pk.Types.Scope() {
		if t, ptr := aliasTarget(info, fd.Body, o); t != nil && !ptr {
			return objOf(info, ast.Unparen(t)) == env.c.table
		}
	}
	return false
}

// c18Reassigned reports whether variable o is assigned, incremented or address-taken in body (a parameter or
// loop variable that is reassigned no longer denotes what it was bound to).
func c18Reassigned(info *types.Info, body ast.Node, o types.Object) bool {
	found := false
	ast.Inspect(body, func(n ast.Node) bool {
		switch s := n.(type) {
		case *ast.AssignStmt:
			for _, l := range s.Lhs {
				if id, ok := ast.Unparen(l).(*ast.Ident); ok && info.Uses[id] == o {
					found = true
				}
			}
		case *ast.IncDecStmt:
			if objOf(info, s.X) == o {
				found = true
			}
		case *ast.UnaryExpr:
			if s.Op == token.AND && objOf(info, s.X) == o {
				found = true
			}
		case *ast.RangeStmt:
			if s.Tok == token.ASSIGN && ((s.Key != nil && objOf(info, s.Key) == o) || (s.Value != nil && objOf(info, s.Value) == o)) {
				found = true
			}
		}
		return !found
	})
	return found
}

func c18StripRef(e ast.Expr) ast.Expr {
	for {
		switch t := e.(type) {
		case *ast.ParenExpr:
			e = t.X
		case *ast.StarExpr:
			e = t.X
		case *ast.UnaryExpr:
			if t.Op != token.AND {
				return e
			}
			e = t.X
		default:
			return e
		}
	}
}

// isEntry: e denotes the entry a table loop of fd is at (range value, table[key], a local alias or copy of
// those — a copy shares the backing array of its value list), or a parameter bound to one.
func (env *c18FlowEnv) isEntry(fd *ast.FuncDecl, loops []*c18Loop, e ast.Expr, depth int) bool {
	info := env.c.info
	switch t := c18StripRef(e).(type) {
	case *ast.Ident:
		o := objOf(info, t)
		if o == nil {
			return false
		}
		if env.entryP[o] {
			return !c18Reassigned(info, fd.Body, o)
		}
		for _, l := range loops {
			if o == l.val {
				return !c18Reassigned(info, fd.Body, o)
			}
		}
		if _, isVar := o.(*types.Var); isVar && depth > 0 {
			if tg, _ := aliasTarget(info, fd.Body, o); tg != nil {
				return env.isEntry(fd, loops, tg, depth-1)
			}
		}
	case *ast.IndexExpr:
		if !env.isTable(fd, t.X) {
			return false
		}
		k := objOf(info, ast.Unparen(t.Index))
		for _, l := range loops {
			if k != nil && k == l.key {
				var body ast.Node = fd.Body
				switch st := l.stmt.(type) {
				case *ast.RangeStmt:
					body = st.Body
				case *ast.ForStmt:
					body = st.Body
				}
				return !c18Reassigned(info, body, k)
			}
		}
	}
	return false
}

// isVals: e denotes the value list of such an entry (the slice header may have been copied to a local).
func (env *c18FlowEnv) isVals(fd *ast.FuncDecl, loops []*c18Loop, e ast.Expr, depth int) bool {
	info := env.c.info
	e = ast.Unparen(e)
	if f := fieldOf(info, e); f != nil {
		return f == env.c.valsF && env.isEntry(fd, loops, e.(*ast.SelectorExpr).X, 3)
	}
	if id, ok := e.(*ast.Ident); ok {
		o := objOf(info, id)
		if o == nil {
			return false
		}
		if env.valsP[o] {
			return !c18Reassigned(info, fd.Body, o)
		}
		if _, isVar := o.(*types.Var); isVar && depth > 0 {
			if tg, ptr := aliasTarget(info, fd.Body, o); tg != nil && !ptr {
				return env.isVals(fd, loops, tg, depth-1)
			}
		}
	}
	return false
}

// loopsOf finds the loops of fd that visit every entry of the table: `range table` and the canonical
// `for i := 0; i < len(table); i++`.
func (env *c18FlowEnv) loopsOf(fd *ast.FuncDecl, g *cfg.CFG) []*c18Loop {
	info := env.c.info
	byStmt := map[ast.Stmt]*c18Loop{}
	var out []*c18Loop
	get := func(st ast.Stmt) *c18Loop {
		if l, ok := byStmt[st]; ok {
			return l
		}
		l := &c18Loop{stmt: st}
		byStmt[st] = l
		return l
	}
	for _, b := range g.Blocks {
		if !b.Live || b.Stmt == nil {
			continue
		}
		switch st := b.Stmt.(type) {
		case *ast.RangeStmt:
			if !env.isTable(fd, st.X) {
				continue
			}
			l := get(st)
			switch b.Kind {
			case cfg.KindRangeLoop:
				l.head = b
			case cfg.KindRangeBody:
				l.body = b
			case cfg.KindRangeDone:
				l.done = b
			}
			if st.Key != nil {
				l.key = objOf(info, st.Key)
			}
			if st.Value != nil {
				l.val = objOf(info, st.Value)
			}
		case *ast.ForStmt:
			key := env.indexLoop(fd, st)
			if key == nil {
				continue
			}
			l := get(st)
			l.key = key
			switch b.Kind {
			case cfg.KindForLoop:
				l.head = b
			case cfg.KindForBody:
				l.body = b
			case cfg.KindForDone:
				l.done = b
			}
		}
	}
	for _, l := range byStmt {
		if l.head == nil || l.body == nil || l.done == nil {
			continue
		}
		l.in = reachableFrom([]*cfg.Block{l.body}, func(b *cfg.Block) bool { return b == l.head })
		delete(l.in, l.head)
		out = append(out, l)
	}
	sort.Slice(out, func(i, j int) bool { return out[i].stmt.Pos() < out[j].stmt.Pos() })
	return out
}

// indexLoop recognises `for i := 0; i < len(table); i++` with i untouched in the body and returns i.
func (env *c18FlowEnv) indexLoop(fd *ast.FuncDecl, fs *ast.ForStmt) types.Object {
	info := env.c.info
	init, ok := fs.Init.(*ast.AssignStmt)
	if !ok || len(init.Lhs) != 1 || len(init.Rhs) != 1 || fs.Cond == nil {
		return nil
	}
	key := objOf(info, init.Lhs[0])
	if v, ok := constInt(info, init.Rhs[0]); !ok || v != 0 || key == nil {
		return nil
	}
	l, op, r, ok := cmpNorm(fs.Cond)
	if !ok || (op != token.LSS && op != token.NEQ) || objOf(info, ast.Unparen(l)) != key {
		return nil
	}
	call, ok := ast.Unparen(r).(*ast.CallExpr)
	if !ok || builtinName(info, call) != "len" || len(call.Args) != 1 || !env.isTable(fd, call.Args[0]) {
		return nil
	}
	post, ok := fs.Post.(*ast.IncDecStmt)
	if !ok || post.Tok != token.INC || objOf(info, post.X) != key {
		return nil
	}
	touched := false
	ast.Inspect(fs.Body, func(n ast.Node) bool {
		switch s := n.(type) {
		case *ast.AssignStmt:
			for _, l := range s.Lhs {
				if objOf(info, l) == key {
					touched = true
				}
			}
		case *ast.IncDecStmt:
			if objOf(info, s.X) == key {
				touched = true
			}
		case *ast.UnaryExpr:
			if s.Op == token.AND && objOf(info, s.X) == key {
				touched = true
			}
		}
		return true
	})
	if touched {
		return nil
	}
	return key
}
