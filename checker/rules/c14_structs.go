package rules

import (
	"fmt"
	"go/ast"
	"go/token"
	"go/types"
)

// Struct-valued locals and results in the abstract store.
//
// "Parallel values -> struct" is a common representation change: `(cut bool, err error)` becomes
// `type outcome struct{ cut bool; err error }`, `(versions, ok, err)` a lookup-result struct. The store therefore also
// tracks the boolean / nil-able fields of struct-typed locals (by value) and of struct-typed results of followed calls:
//
//	v<ctx>.<var>;f<field>;      field of a local          r<ctx>.<i>;f<field>;      field of result i of a followed call
//
// written by composite literals (absent fields are zero), copies, field assignments and `var x T`.

// scalarFields lists the fields of struct type t whose value the store can hold.
func c14ScalarFields(t types.Type) []*types.Var {
	if t == nil {
		return nil
	}
	st, ok := t.Underlying().(*types.Struct)
	if !ok {
		return nil
	}
	var out []*types.Var
	for i := 0; i < st.NumFields(); i++ {
		f := st.Field(i)
		if c14ZeroVal(f.Type()) != 0 {
			out = append(out, f)
		}
	}
	return out
}

func (g *c14Graph) fkey(base string, f *types.Var) string {
	return fmt.Sprintf("%sf%d;", base, g.e.oid(f))
}

// structVarKey returns the store key prefix of a struct-typed local held by value.
func (g *c14Graph) structVarKey(ctx *c14Ctx, e ast.Expr) (string, types.Type, bool) {
	id, ok := ast.Unparen(e).(*ast.Ident)
	if !ok {
		return "", nil, false
	}
	o := objOf(ctx.fn.info, id)
	if o == nil {
		return "", nil, false
	}
	if _, isStruct := o.Type().Underlying().(*types.Struct); !isStruct {
		return "", nil, false
	}
	k, ok := g.trackable(ctx, o)
	return k, o.Type(), ok
}

// fieldKey returns the store key of `x.f` for a struct-typed local x.
func (g *c14Graph) fieldKey(ctx *c14Ctx, e ast.Expr) (string, bool) {
	sel, ok := ast.Unparen(e).(*ast.SelectorExpr)
	if !ok {
		return "", false
	}
	f := fieldOf(ctx.fn.info, sel)
	if f == nil {
		return "", false
	}
	base, _, ok := g.structVarKey(ctx, sel.X)
	if !ok {
		return "", false
	}
	return g.fkey(base, f), true
}

// lvalKey returns the store key of a local variable or of a field of a struct-typed local.
func (g *c14Graph) lvalKey(ctx *c14Ctx, e ast.Expr) (string, bool) {
	if id, ok := ast.Unparen(e).(*ast.Ident); ok {
		if o := objOf(ctx.fn.info, id); o != nil {
			return g.trackable(ctx, o)
		}
		return "", false
	}
	return g.fieldKey(ctx, e)
}

// structVals evaluates a struct-valued expression field by field: a composite literal, a struct-typed local, or the
// result of a followed call.
func (g *c14Graph) structVals(st *c14Store, ctx *c14Ctx, e ast.Expr) (map[*types.Var]int8, bool) {
	info := ctx.fn.info
	e = ast.Unparen(e)
	fields := c14ScalarFields(info.TypeOf(e))
	if len(fields) == 0 {
		return nil, false
	}
	out := map[*types.Var]int8{}
	switch x := e.(type) {
	case *ast.CompositeLit:
		for _, f := range fields {
			out[f] = c14ZeroVal(f.Type())
		}
		for i, el := range x.Elts {
			if kv, ok := el.(*ast.KeyValueExpr); ok {
				if f, _ := objOf(info, kv.Key).(*types.Var); f != nil {
					if _, tracked := out[f]; tracked {
						out[f] = g.absval(st, ctx, kv.Value)
					}
				}
				continue
			}
			// positional literal
			if sty, ok := info.TypeOf(e).Underlying().(*types.Struct); ok && i < sty.NumFields() {
				if _, tracked := out[sty.Field(i)]; tracked {
					out[sty.Field(i)] = g.absval(st, ctx, el)
				}
			}
		}
		return out, true
	case *ast.Ident:
		base, _, ok := g.structVarKey(ctx, x)
		if !ok {
			return nil, false
		}
		for _, f := range fields {
			out[f] = st.m[g.fkey(base, f)]
		}
		return out, true
	case *ast.CallExpr:
		if cc := g.ctxs[c14CtxKey{ctx, x}]; cc != nil && cc.fn.nres == 1 {
			for _, f := range fields {
				out[f] = st.m[g.fkey(c14RetKey(cc, 0), f)]
			}
			return out, true
		}
	}
	return nil, false
}

// transferStructs adds the effect of a plain node on the fields of struct-typed locals (before: store in which the
// node's operands are evaluated; st: store after the scalar effects, in which a written variable has been forgotten).
func (g *c14Graph) transferStructs(before, st *c14Store, n *c14Node) *c14Store {
	ctx := n.ctx
	type wr struct {
		key string
		v   int8
	}
	var ws []wr
	whole := func(lhs, rhs ast.Expr) {
		base, _, ok := g.structVarKey(ctx, lhs)
		if !ok {
			return
		}
		if vals, ok := g.structVals(before, ctx, rhs); ok {
			for f, v := range vals {
				ws = append(ws, wr{g.fkey(base, f), v})
			}
		}
	}
	switch x := c14EffectAst(n).(type) {
	case *ast.AssignStmt:
		if (x.Tok != token.ASSIGN && x.Tok != token.DEFINE) || len(x.Lhs) != len(x.Rhs) {
			// op-assignment or tuple: a written field is simply forgotten
			for _, l := range x.Lhs {
				if k, ok := g.fieldKey(ctx, l); ok {
					ws = append(ws, wr{k, 0})
				}
			}
			break
		}
		for i, l := range x.Lhs {
			if k, ok := g.fieldKey(ctx, l); ok {
				ws = append(ws, wr{k, g.absval(before, ctx, x.Rhs[i])})
				continue
			}
			whole(l, x.Rhs[i])
		}
	case *ast.ValueSpec:
		for i, nm := range x.Names {
			switch {
			case len(x.Values) == len(x.Names):
				whole(nm, x.Values[i])
			case len(x.Values) == 0:
				if base, t, ok := g.structVarKey(ctx, nm); ok {
					for _, f := range c14ScalarFields(t) {
						ws = append(ws, wr{g.fkey(base, f), c14ZeroVal(f.Type())})
					}
				}
			}
		}
	}
	if len(ws) == 0 {
		return st
	}
	return st.with(func(m map[string]int8) {
		for _, w := range ws {
			delete(m, w.key)
			if w.v != 0 {
				m[w.key] = w.v
			}
		}
	})
}

// fieldOfLiteral: the term of field f of a struct value that is known to be the composite literal b (`outcome{cut: true}`):
// the operand written for f, or the zero value when the literal leaves it out.
func (g *c14Graph) fieldOfLiteral(b *c14Val, f *types.Var) *c14Val {
	if b == nil || b.k != 'L' || b.ctx == nil {
		return nil
	}
	cl, ok := b.node.(*ast.CompositeLit)
	if !ok {
		return nil
	}
	sty, ok := b.typ.Underlying().(*types.Struct)
	if !ok {
		return nil
	}
	info := b.ctx.fn.info
	for i, el := range cl.Elts {
		if kv, ok := el.(*ast.KeyValueExpr); ok {
			if objOf(info, kv.Key) == types.Object(f) {
				return g.canon(b.ctx, kv.Value, b.at)
			}
			continue
		}
		if i < sty.NumFields() && sty.Field(i) == f {
			return g.canon(b.ctx, el, b.at)
		}
	}
	switch c14ZeroVal(f.Type()) {
	case c14Nil:
		return &c14Val{k: 'n', key: "nil"}
	case c14False:
		return &c14Val{k: 'c', key: "c(false)"}
	}
	return nil
}
