package rules

// C11.A3 — copy agreement of Parent.SetChild, Child.Update and FromNode/FromWay/FromRelation.
//
// All three are decided on the paths of the path interpreter (c11_interp.go): the functions are executed on
// symbolic inputs with unexported helpers of their package inlined, and the rule looks at WHAT is stored /
// returned under WHICH decisions, not at how the statements are spelled. Extracting or inlining helpers,
// construct-then-patch vs. a single literal, pointer aliases, inverted or merged guards, switch forms and
// renamed locals all give the same paths.

import (
	"go/ast"
	"go/types"
	"sort"
	"strings"

	"osmcheck/core"
)

func c11A3(r *core.R) {
	c11A3SetChild(r)
	c11A3Update(r)
	c11A3From(r)
}

// c11ParentImpls lists the named types of package annotate whose pointer implements core.Parent.
func c11ParentImpls(p *core.Program) []*types.Named {
	apk, cpk := p.Pkg("annotate"), p.Pkg("annotate/internal/core")
	if apk == nil || cpk == nil {
		return nil
	}
	po := cpk.Types.Scope().Lookup("Parent")
	if po == nil {
		return nil
	}
	iface, ok := po.Type().Underlying().(*types.Interface)
	if !ok {
		return nil
	}
	var out []*types.Named
	for _, nm := range apk.Types.Scope().Names() {
		tn, ok := apk.Types.Scope().Lookup(nm).(*types.TypeName)
		if !ok || tn.IsAlias() {
			continue
		}
		nt, ok := tn.Type().(*types.Named)
		if !ok {
			continue
		}
		if _, isIface := nt.Underlying().(*types.Interface); isIface {
			continue
		}
		if types.Implements(types.NewPointer(nt), iface) {
			out = append(out, nt)
		}
	}
	return out
}

func c11StructField(st *types.Struct, name string) *types.Var {
	if st == nil {
		return nil
	}
	for i := 0; i < st.NumFields(); i++ {
		if st.Field(i).Name() == name {
			return st.Field(i)
		}
	}
	return nil
}

func c11RecvObj(info *types.Info, fd *ast.FuncDecl) types.Object {
	if fd.Recv == nil || len(fd.Recv.List) != 1 || len(fd.Recv.List[0].Names) != 1 {
		return nil
	}
	return info.Defs[fd.Recv.List[0].Names[0]]
}

// c11AllPaths runs fi and returns every path end: returns, panics and the ends of loop iterations.
func c11AllPaths(it *c11Interp, fi *FuncInfo, bind map[types.Object]*c11V) []c11Out {
	outs, _ := it.run(fi, bind)
	return append(outs, it.done...)
}

// c11PathNotes collects the imprecision notes of the paths (a rule that meets one answers Unknown).
func c11PathNotes(it *c11Interp, paths []c11Out) []string {
	seen := map[string]bool{}
	var out []string
	if it.overflow {
		out = append(out, "too many paths")
	}
	for _, p := range paths {
		for _, n := range p.st.notes {
			if !seen[n] {
				seen[n] = true
				out = append(out, n)
			}
		}
	}
	sort.Strings(out)
	return out
}

// c11ElemFieldOwner reports whether f is a field of the struct type named osm.<name>.
func c11FieldOwnedBy(p *core.Program, f *types.Var, names ...string) *types.Struct {
	pk := p.Pkg("")
	if pk == nil || f == nil {
		return nil
	}
	for _, n := range names {
		if _, st := structType(pk, n); st != nil {
			for i := 0; i < st.NumFields(); i++ {
				if st.Field(i) == f {
					return st
				}
			}
		}
	}
	return nil
}

func c11A3SetChild(r *core.R) {
	apk := r.P.Pkg("annotate")
	_, childST := structType(r.P.Pkg("annotate/shared"), "Child")
	impls := c11ParentImpls(r.P)
	if apk == nil || childST == nil || len(impls) == 0 {
		r.Anchor("types of package annotate implementing core.Parent / shared.Child")
		return
	}
	info := apk.TypesInfo
	for _, nt := range impls {
		fi := findFunc(apk, nt.Obj().Name()+".SetChild")
		if fi == nil || fi.Decl.Body == nil {
			r.Anchor(nt.Obj().Name() + ".SetChild")
			continue
		}
		name := fi.Name()
		sig := fi.Obj.Type().(*types.Signature)
		recv := c11RecvObj(info, fi.Decl)
		if sig.Params().Len() != 2 || recv == nil || sig.Params().At(0).Name() == "" || sig.Params().At(0).Name() == "_" || sig.Params().At(1).Name() == "_" {
			r.Anchor(name + " (idx int, child *shared.Child) with a named receiver")
			continue
		}
		idx, child := c11Param(sig.Params().At(0)), c11Param(sig.Params().At(1))
		recvKey := c11Param(recv).key()
		it := c11NewInterp(apk)
		paths := c11AllPaths(it, fi, nil)

		var bad, unknown, unguarded []string
		var elemST *types.Struct
		nUse := 0
		usesChild := func(v *c11V) bool {
			hit := false
			v.walk(func(x *c11V) {
				if (x.k == "field" || x.k == "deref") && x.xs[0].key() == child.key() {
					hit = true
				}
			})
			return hit
		}
		var sets []string // per completed path with a non-nil child: the element fields written
		for _, p := range paths {
			st := p.st
			// every use of child.<field> needs child != nil decided before it
			for i, a := range st.as {
				if usesChild(a.atom) {
					nUse++
					if st.isNil(child, i) != c11F {
						unguarded = append(unguarded, "condition `"+a.atom.key()+"`")
					}
				}
			}
			got := map[string]bool{}
			for _, ev := range st.ev {
				var terms []*c11V
				switch ev.kind {
				case "store":
					terms = []*c11V{ev.lhs, ev.rhs}
				case "call":
					terms = []*c11V{ev.call}
				}
				for _, t := range terms {
					if usesChild(t) {
						nUse++
						if st.isNil(child, ev.nas) != c11F {
							unguarded = append(unguarded, "`"+src(r.P.Fset, ev.node)+"` ("+r.P.Rel(ev.node.Pos())+")")
						}
					}
				}
				if ev.kind != "store" || ev.lhs.k != "field" {
					continue
				}
				est := c11FieldOwnedBy(r.P, ev.lhs.obj.(*types.Var), "WayNode", "Member")
				if est == nil {
					continue
				}
				elemST = est
				f := ev.lhs.obj.Name()
				el := ev.lhs.xs[0]
				if el.k != "index" || el.xs[1].key() != idx.key() || !el.xs[0].mentions(recvKey) {
					unknown = append(unknown, "`"+src(r.P.Fset, ev.node)+"` writes "+ev.lhs.key())
					continue
				}
				if !ev.rhs.isFieldOf(child.key(), f) {
					bad = append(bad, "`"+src(r.P.Fset, ev.node)+"` ("+r.P.Rel(ev.node.Pos())+") stores "+ev.rhs.key()+": child field "+f+" must be copied from the child's "+f)
					continue
				}
				if got[f] {
					bad = append(bad, "field "+f+" assigned twice on one path")
				}
				got[f] = true
			}
			if p.ctl != c11Return {
				continue
			}
			var have []string
			for k := range got {
				have = append(have, k)
			}
			sort.Strings(have)
			switch st.isNil(child, -1) {
			case c11T:
				if len(have) > 0 {
					bad = append(bad, "fields {"+strings.Join(have, ",")+"} are written although the child is nil")
				}
			default:
				sets = append(sets, strings.Join(have, ","))
			}
		}
		var want []string
		if elemST != nil {
			for i := 0; i < elemST.NumFields(); i++ {
				f := elemST.Field(i)
				if cf := c11StructField(childST, f.Name()); cf != nil && types.Identical(cf.Type(), f.Type()) {
					want = append(want, f.Name())
				}
			}
		}
		sort.Strings(want)
		c := "copy@" + name
		notes := c11PathNotes(it, paths)
		wrongSet := ""
		for _, s := range sets {
			if s != strings.Join(want, ",") {
				wrongSet = s
			}
		}
		switch {
		case len(notes) > 0:
			r.Unknown(c, fi.Decl.Pos(), "%s could not be followed on every path: %s", name, strings.Join(notes, "; "))
		case len(unknown) > 0:
			r.Unknown(c, fi.Decl.Pos(), "%s: the child reference written is not <receiver's member list>[%s].F", strings.Join(c11Uniq(unknown), ", "), sig.Params().At(0).Name())
		case len(bad) > 0:
			r.Bad(c, fi.Decl.Pos(), "%s: the annotated reference would not carry the version/changeset/location of the child current at the parent's commit", strings.Join(c11Uniq(bad), "; "))
		case elemST == nil:
			r.Bad(c, fi.Decl.Pos(), "%s assigns no field of an osm.WayNode / osm.Member: the child reference is never annotated", name)
		case len(sets) == 0 || wrongSet != "":
			r.Bad(c, fi.Decl.Pos(), "on some path with a non-nil child %s assigns {%s} of the child reference; shared.Child carries {%s} for it", name, wrongSet, strings.Join(want, ","))
		default:
			r.OK(c, fi.Decl.Pos(), "on each of the %d paths with a non-nil child exactly {%s} of <children>[%s] are assigned, each from the same-named field of the child; nothing is written for a nil child", len(sets), strings.Join(want, ","), sig.Params().At(0).Name())
		}
		c = "nilchild@" + name
		switch {
		case len(notes) > 0:
			r.Unknown(c, fi.Decl.Pos(), "%s could not be followed on every path: %s", name, strings.Join(notes, "; "))
		case len(unguarded) > 0:
			r.Bad(c, fi.Decl.Pos(), "%s evaluated where %s may be nil: Compute passes a nil child when no visible version exists and IgnoreInconsistency is set, which must leave the reference untouched instead of panicking", strings.Join(c11Uniq(unguarded), ", "), sig.Params().At(1).Name())
		case nUse == 0:
			r.OKTrivial(c, fi.Decl.Pos(), "%s is never dereferenced", sig.Params().At(1).Name())
		default:
			r.OK(c, fi.Decl.Pos(), "every use of %s.<field> (on every path) is preceded by the decision %s != nil", sig.Params().At(1).Name(), sig.Params().At(1).Name())
		}
	}
}

func c11Uniq(xs []string) []string {
	seen := map[string]bool{}
	var out []string
	for _, x := range xs {
		if !seen[x] {
			seen[x] = true
			out = append(out, x)
		}
	}
	return out
}

// c11IsCIS reports whether v is the package-level variable osm.CommitInfoStart.
func c11IsCIS(v *c11V) bool {
	if v == nil || v.k != "sym" || v.obj == nil {
		return false
	}
	o, ok := v.obj.(*types.Var)
	return ok && o.Pkg() != nil && o.Pkg().Path() == core.ModulePath && o.Name() == "CommitInfoStart" && o.Parent() == o.Pkg().Scope()
}

// c11ResultStruct returns the struct value (built on the path) a path returns, through a pointer or not.
func c11ResultStruct(p c11Out, typePath string) *c11Obj {
	if len(p.res) != 1 {
		return nil
	}
	v := c11StripPtr(p.res[0])
	if v.k != "struct" {
		return nil
	}
	o := p.st.heap[v.id]
	if o == nil || namedPath(o.typ) != typePath {
		return nil
	}
	return o
}

func c11IsZeroVal(st *c11St, v *c11V) bool {
	switch v.k {
	case "zero":
		return true
	case "struct":
		o := st.heap[v.id]
		return o != nil && len(o.f) == 0 && !o.unkey && o.base == nil && o.hv == ""
	}
	return false
}

func c11A3Update(r *core.R) {
	spk := r.P.Pkg("annotate/shared")
	fi := findFunc(spk, "(*Child).Update")
	if fi == nil || fi.Decl.Body == nil {
		r.Anchor("shared.(*Child).Update")
		return
	}
	info := spk.TypesInfo
	name := fi.Name()
	recvO := c11RecvObj(info, fi.Decl)
	if recvO == nil {
		r.Unknown("update@"+name, fi.Decl.Pos(), "Update has no named receiver")
		return
	}
	recv := c11Param(recvO)
	it := c11NewInterp(spk)
	outs, _ := it.run(fi, nil)
	if notes := c11PathNotes(it, outs); len(notes) > 0 || len(outs) == 0 {
		r.Unknown("update@"+name, fi.Decl.Pos(), "Update could not be followed on every path: %s", strings.Join(notes, "; "))
		return
	}
	want := map[string]string{"Version": "Version", "ChangesetID": "ChangesetID", "Lat": "Lat", "Lon": "Lon", "Reverse": "ReverseOfPrevious"}
	type verdict struct{ bad, unk string }
	res := map[string]*verdict{}
	for k := range want {
		res[k] = &verdict{}
	}
	ts, comm := c11Field(recv, c11StructFieldOf(recvO, "Timestamp")), c11Field(recv, c11StructFieldOf(recvO, "Committed"))
	var roleBad, tableBad []string
	nTS, nComm := 0, 0
	isBefore := func(a *c11V) (*c11V, bool) {
		rv, args, ok := a.isMethodCall("time.Time", "Before")
		if ok && len(args) == 1 && c11IsCIS(args[0]) {
			return rv, true
		}
		return nil, false
	}
	isZero := func(a *c11V) (*c11V, bool) {
		rv, args, ok := a.isMethodCall("time.Time", "IsZero")
		if ok && len(args) == 0 {
			return rv, true
		}
		return nil, false
	}
	pos := fi.Decl.Pos()
	for _, p := range outs {
		o := c11ResultStruct(p, core.ModulePath+".Update")
		if o == nil || o.unkey {
			r.Unknown("update@"+name, p.ret.Pos(), "Update does not return an osm.Update value built with field names")
			return
		}
		pos = p.ret.Pos()
		for k, w := range want {
			v, ok := o.f[k]
			switch {
			case !ok:
				res[k].bad = "Update() does not set " + k + ": every update would carry the zero " + k + " instead of the child version's"
			case !v.isFieldOf(recv.key(), w):
				res[k].bad = "Update." + k + " is " + v.key() + ": it must be the child's " + w + "; applying the update would give the reference a wrong " + k
			}
		}
		v, ok := o.f["Timestamp"]
		if !ok {
			roleBad = append(roleBad, "Update() does not set Timestamp: ApplyUpdatesUpTo(t) could not place the update in time")
			continue
		}
		// roles: the tests decided on the path are about the child's Timestamp (Before CommitInfoStart) and Committed (IsZero)
		before := p.st.decided(-1, func(a *c11V) bool { _, ok := isBefore(a); return ok })
		zero := p.st.decided(-1, func(a *c11V) bool { _, ok := isZero(a); return ok })
		for _, a := range p.st.as {
			if rv, ok := isBefore(a.atom); ok && rv.key() != ts.key() {
				roleBad = append(roleBad, "`"+a.atom.key()+"`: the comparison with osm.CommitInfoStart must be made on the child's Timestamp (the timestamp role)")
			}
			if rv, ok := isZero(a.atom); ok && rv.key() != comm.key() {
				roleBad = append(roleBad, "`"+a.atom.key()+"`: the is-set test must be made on the child's Committed (the commit-time role)")
			}
		}
		switch v.key() {
		case comm.key():
			nComm++
			if before != c11F {
				tableBad = append(tableBad, "the commit time is returned on a path that has not decided !Timestamp.Before(osm.CommitInfoStart) (no commit information existed then)")
			}
			if zero != c11F {
				tableBad = append(tableBad, "the commit time is returned on a path that has not decided !Committed.IsZero(): children without commit information would stamp their updates with the zero time")
			}
		case ts.key():
			nTS++
			if before != c11T && zero != c11T {
				tableBad = append(tableBad, "the element timestamp is returned although the commit time is known and applicable (neither Timestamp.Before(osm.CommitInfoStart) nor Committed.IsZero() holds on that path)")
			}
		default:
			roleBad = append(roleBad, "Update.Timestamp is "+v.key()+": updates must be stamped with the child's commit time when it is known and with its timestamp otherwise")
		}
	}
	for _, k := range []string{"ChangesetID", "Lat", "Lon", "Reverse", "Version"} {
		c := "update@" + name + " " + k
		if res[k].bad != "" {
			r.Bad(c, pos, "%s", res[k].bad)
		} else {
			r.OK(c, pos, "on every path Update.%s = %s.%s", k, recvO.Name(), want[k])
		}
	}
	c := "update@" + name + " Timestamp"
	if len(roleBad) > 0 {
		r.Bad(c, pos, "%s; otherwise updates are stamped with the edit time although the commit time is known (or vice versa)", strings.Join(c11Uniq(roleBad), "; "))
		r.Unknown("stamp@"+name, pos, "roles of timestamp and commit time not established")
		return
	}
	r.OK(c, pos, "on every path Update.Timestamp is %s.Timestamp or %s.Committed, chosen by tests on %s.Timestamp (Before osm.CommitInfoStart) and %s.Committed (IsZero)", recvO.Name(), recvO.Name(), recvO.Name(), recvO.Name())
	c = "stamp@" + name
	if nTS == 0 {
		tableBad = append(tableBad, "the element timestamp is never used")
	}
	if nComm == 0 {
		tableBad = append(tableBad, "the commit time is never used: updates must be stamped with their commit time when it is known")
	}
	if len(tableBad) > 0 {
		r.Bad(c, pos, "%s", strings.Join(c11Uniq(tableBad), "; "))
	} else {
		r.OK(c, pos, "truth table over (Timestamp.Before(CommitInfoStart), Committed.IsZero()): the commit time is used exactly when both are false (%d paths), the element timestamp otherwise (%d paths)", nComm, nTS)
	}
}

// c11StructFieldOf finds field `name` of the struct the (pointer) variable o points to.
func c11StructFieldOf(o types.Object, name string) *types.Var {
	t := o.Type()
	if p, ok := t.Underlying().(*types.Pointer); ok {
		t = p.Elem()
	}
	st, _ := t.Underlying().(*types.Struct)
	if f := c11StructField(st, name); f != nil {
		return f
	}
	return types.NewField(0, nil, name, types.Typ[types.Invalid], false)
}

func c11A3From(r *core.R) {
	spk := r.P.Pkg("annotate/shared")
	_, childST := structType(spk, "Child")
	if childST == nil {
		r.Anchor("shared.Child")
		return
	}
	for _, fname := range []string{"FromNode", "FromWay", "FromRelation"} {
		fi := findFunc(spk, fname)
		if fi == nil || fi.Decl.Body == nil {
			r.Anchor("shared." + fname)
			continue
		}
		sig := fi.Obj.Type().(*types.Signature)
		if sig.Params().Len() != 1 || sig.Params().At(0).Name() == "" || sig.Params().At(0).Name() == "_" {
			r.Anchor("single named parameter of shared." + fname)
			continue
		}
		po := sig.Params().At(0)
		pt, _ := po.Type().(*types.Pointer)
		var srcNT *types.Named
		if pt != nil {
			srcNT, _ = pt.Elem().(*types.Named)
		}
		var srcST *types.Struct
		if srcNT != nil {
			srcST, _ = srcNT.Underlying().(*types.Struct)
		}
		if srcST == nil {
			r.Anchor("parameter of shared." + fname + " pointing to an osm element struct")
			continue
		}
		p := c11Param(po)
		it := c11NewInterp(spk)
		outs, _ := it.run(fi, nil)
		if notes := c11PathNotes(it, outs); len(notes) > 0 || len(outs) == 0 {
			r.Unknown("from@"+fname, fi.Decl.Pos(), "%s could not be followed on every path: %s", fname, strings.Join(notes, "; "))
			continue
		}
		var objs []*c11Obj
		okShape := true
		for _, o := range outs {
			co := c11ResultStruct(o, c11SharedPath+".Child")
			if co == nil || co.unkey {
				okShape = false
				break
			}
			objs = append(objs, co)
		}
		if !okShape {
			r.Unknown("from@"+fname, fi.Decl.Pos(), "%s does not return a shared.Child built on the path with field names", fname)
			continue
		}
		ms := types.NewMethodSet(po.Type())
		pos := outs[0].ret.Pos()
		for i := 0; i < childST.NumFields(); i++ {
			cf := childST.Field(i)
			k := cf.Name()
			sf := c11StructField(srcST, k)
			wantKind, wantName := "", ""
			switch {
			case sf != nil && types.Identical(sf.Type(), cf.Type()):
				wantKind, wantName = "field", k
			case sf != nil && types.Identical(sf.Type(), types.NewPointer(cf.Type())):
				wantKind, wantName = "deref", k
			case types.Identical(cf.Type(), types.NewPointer(srcNT)):
				wantKind = "param"
			default:
				if cnt, ok := cf.Type().(*types.Named); ok {
					if m := ms.Lookup(cnt.Obj().Pkg(), cnt.Obj().Name()); m != nil {
						if msig, ok := m.Type().(*types.Signature); ok && msig.Params().Len() == 0 && msig.Results().Len() == 1 && types.Identical(msig.Results().At(0).Type(), cf.Type()) {
							wantKind, wantName = "method", cnt.Obj().Name()
						}
					}
				}
			}
			c := "from@" + fname + " " + k
			if wantKind == "" {
				// no counterpart in the source element: must not be wired to one of its fields
				for _, co := range objs {
					if v, ok := co.f[k]; ok && v.mentions(p.key()) {
						r.Bad(c, pos, "Child.%s has no counterpart in %s but is set from %s", k, srcNT.Obj().Name(), v.key())
						break
					}
				}
				continue
			}
			wantText := map[string]string{"field": po.Name() + "." + wantName, "deref": "*" + po.Name() + "." + wantName + " when it is non-nil, the zero value otherwise", "param": po.Name(), "method": po.Name() + "." + wantName + "()"}[wantKind]
			bad := ""
			for n, co := range objs {
				st := outs[n].st
				v, set := co.f[k]
				switch wantKind {
				case "field":
					if !set {
						bad = "is not set on some path"
					} else if !v.isFieldOf(p.key(), wantName) {
						bad = "is " + v.key()
					}
				case "param":
					if !set || v.key() != p.key() {
						bad = "is not the element itself"
					}
				case "method":
					rv, args, isCall := (*c11V)(nil), []*c11V(nil), false
					if set && v.k == "call" && v.recv && v.fn != nil && v.fn.Name() == wantName {
						rv, args, isCall = v.xs[0], v.xs[1:], true
					}
					if !isCall || len(args) != 0 || rv.key() != p.key() {
						bad = "is not " + wantText
					}
				case "deref":
					ptr := c11Field(p, sf)
					switch st.isNil(ptr, -1) {
					case c11T:
						if set && !c11IsZeroVal(st, v) {
							bad = "is " + v.key() + " on the path where " + po.Name() + "." + wantName + " is nil"
						}
					case c11F:
						if !set || v.key() != c11Deref(ptr).key() {
							bad = "is not *" + po.Name() + "." + wantName + " on the path where that pointer is non-nil (elements with commit information lose it)"
						}
					default:
						if set && v.mentions(ptr.key()) {
							bad = "dereferences " + po.Name() + "." + wantName + " on a path that has not decided it is non-nil (elements without commit information)"
						} else {
							bad = "does not depend on " + po.Name() + "." + wantName
						}
					}
				}
				if bad != "" {
					break
				}
			}
			if bad != "" {
				r.Bad(c, pos, "Child.%s %s: it must be %s (no cross-wiring); child versions built from %s histories would carry a wrong %s, which Compute / FindVisible / Update rely on", k, bad, wantText, srcNT.Obj().Name(), k)
			} else {
				r.OK(c, pos, "on every path Child.%s = %s", k, wantText)
			}
		}
	}
}
