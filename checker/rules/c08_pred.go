package rules

import (
	"go/ast"
	"go/types"

	"golang.org/x/tools/go/packages"
)

// Predicate helpers: `func (s *Scanner) keep(w *osm.Way) bool { return s.F == nil || s.F(w) }` used in a condition is
// the condition it returns. c08InlinePreds replaces calls of single-return boolean functions of the package by
// their returned expression with the receiver and the parameters substituted by the call's operands, so that the
// decision-table evaluation sees the same atoms whether or not the test was extracted.

// c08Subst copies e replacing identifiers bound in env; subtrees without a replacement are returned as they are
// (so type information recorded for the original nodes stays usable).
func c08Subst(info *types.Info, e ast.Expr, env map[types.Object]ast.Expr) ast.Expr {
	switch x := e.(type) {
	case *ast.Ident:
		if o := info.Uses[x]; o != nil {
			if r, ok := env[o]; ok {
				return r
			}
		}
	case *ast.ParenExpr:
		if r := c08Subst(info, x.X, env); r != x.X {
			return &ast.ParenExpr{X: r}
		}
	case *ast.UnaryExpr:
		if r := c08Subst(info, x.X, env); r != x.X {
			return &ast.UnaryExpr{Op: x.Op, X: r, OpPos: x.OpPos}
		}
	case *ast.StarExpr:
		if r := c08Subst(info, x.X, env); r != x.X {
			return &ast.StarExpr{X: r}
		}
	case *ast.BinaryExpr:
		l, r := c08Subst(info, x.X, env), c08Subst(info, x.Y, env)
		if l != x.X || r != x.Y {
			return &ast.BinaryExpr{X: l, Op: x.Op, Y: r, OpPos: x.OpPos}
		}
	case *ast.SelectorExpr:
		if r := c08Subst(info, x.X, env); r != x.X {
			return &ast.SelectorExpr{X: r, Sel: x.Sel}
		}
	case *ast.IndexExpr:
		l, r := c08Subst(info, x.X, env), c08Subst(info, x.Index, env)
		if l != x.X || r != x.Index {
			return &ast.IndexExpr{X: l, Index: r, Lbrack: x.Lbrack, Rbrack: x.Rbrack}
		}
	case *ast.CallExpr:
		fun := c08Subst(info, x.Fun, env)
		changed := fun != x.Fun
		args := make([]ast.Expr, len(x.Args))
		for i, a := range x.Args {
			args[i] = c08Subst(info, a, env)
			if args[i] != a {
				changed = true
			}
		}
		if changed {
			return &ast.CallExpr{Fun: fun, Args: args, Lparen: x.Lparen, Rparen: x.Rparen, Ellipsis: x.Ellipsis}
		}
	}
	return e
}

// c08InlinePreds rewrites e, replacing calls of single-return functions of the package that yield a bool.
func c08InlinePreds(pk *packages.Package, e ast.Expr, depth int) ast.Expr {
	info := pk.TypesInfo
	if e == nil || depth > 3 {
		return e
	}
	switch x := e.(type) {
	case *ast.ParenExpr:
		if r := c08InlinePreds(pk, x.X, depth); r != x.X {
			return &ast.ParenExpr{X: r}
		}
	case *ast.UnaryExpr:
		if r := c08InlinePreds(pk, x.X, depth); r != x.X {
			return &ast.UnaryExpr{Op: x.Op, X: r, OpPos: x.OpPos}
		}
	case *ast.BinaryExpr:
		l, r := c08InlinePreds(pk, x.X, depth), c08InlinePreds(pk, x.Y, depth)
		if l != x.X || r != x.Y {
			return &ast.BinaryExpr{X: l, Op: x.Op, Y: r, OpPos: x.OpPos}
		}
	case *ast.CallExpr:
		tf := c01Callee(pk, x)
		if tf == nil {
			return e
		}
		sig := tf.Obj.Type().(*types.Signature)
		if sig.Results().Len() != 1 || !types.Identical(sig.Results().At(0).Type().Underlying(), types.Typ[types.Bool]) {
			return e
		}
		body := singleReturnExpr(tf)
		if body == nil {
			return e
		}
		env := map[types.Object]ast.Expr{}
		if ro := c01RecvObj(info, tf); ro != nil {
			if sel, ok := ast.Unparen(x.Fun).(*ast.SelectorExpr); ok {
				env[ro] = sel.X
			}
		}
		for i, po := range c01ParamObjs(info, tf) {
			if po != nil && i < len(x.Args) {
				env[po] = x.Args[i]
			}
		}
		return c08InlinePreds(pk, &ast.ParenExpr{X: c08Subst(info, body, env)}, depth+1)
	}
	return e
}
