package rules

// c16_env.go — anchors of the C16 rules and builders for abstract inputs.
//
// Anchors (API of the packages, resolved through the type checker): mputil.Segment{Index, Orientation, Reversed,
// Line}, mputil.MultiSegment, mputil.Join, mputil.Group, (*Segment).Reverse, MultiSegment.Ring,
// MultiSegment.Orientation, osm.Member / Way / WayNode / Node / Relation / OSM and their exported fields,
// osmgeojson.Convert and its exported option constructors, orb.Point / LineString / Ring / Orientation.
// Unexported functions (annotate.orientation, osmgeojson.polygonContains today) are found by role, see c16Env.

import (
	"go/types"
	"strings"

	"golang.org/x/tools/go/packages"

	"osmcheck/core"
)

const (
	c16OrbPath    = "github.com/paulmach/orb"
	c16MputilPath = core.ModulePath + "/internal/mputil"
	c16CW         = int64(-1)
	c16CCW        = int64(1)
)

type c16Env struct {
	r                                *core.R
	osm, mp, gj, an, orb             *packages.Package
	segT, msT                        types.Type
	ptT, lsT, ringT                  types.Type
	join, group, reverse, ring, msOr *FuncInfo
	ok                               bool
}

func c16Named(pk *packages.Package, name string) types.Type {
	if pk == nil || pk.Types == nil {
		return nil
	}
	if o, ok := pk.Types.Scope().Lookup(name).(*types.TypeName); ok {
		return o.Type()
	}
	return nil
}

// c16NewEnv resolves the anchors; every missing one is reported through r.Anchor.
func c16NewEnv(r *core.R) *c16Env {
	e := &c16Env{r: r, ok: true}
	e.osm, e.mp, e.gj, e.an = r.P.Pkg(""), r.P.Pkg("internal/mputil"), r.P.Pkg("osmgeojson"), r.P.Pkg("annotate")
	e.orb = r.P.ByPath[c16OrbPath]
	miss := func(name string) { r.Anchor(name); e.ok = false }
	for name, pk := range map[string]*packages.Package{"package osm": e.osm, "package internal/mputil": e.mp, "package osmgeojson": e.gj, "package annotate": e.an, "package orb": e.orb} {
		if pk == nil {
			miss(name)
		}
	}
	if !e.ok {
		return e
	}
	e.segT, e.msT = c16Named(e.mp, "Segment"), c16Named(e.mp, "MultiSegment")
	e.ptT, e.lsT, e.ringT = c16Named(e.orb, "Point"), c16Named(e.orb, "LineString"), c16Named(e.orb, "Ring")
	for name, t := range map[string]types.Type{"mputil.Segment": e.segT, "mputil.MultiSegment": e.msT, "orb.Point": e.ptT, "orb.LineString": e.lsT, "orb.Ring": e.ringT} {
		if t == nil {
			miss("type " + name)
		}
	}
	if e.segT != nil {
		st, _ := e.segT.Underlying().(*types.Struct)
		have := map[string]bool{}
		for i := 0; st != nil && i < st.NumFields(); i++ {
			have[st.Field(i).Name()] = true
		}
		for _, f := range []string{"Index", "Orientation", "Reversed", "Line"} {
			if !have[f] {
				miss("field mputil.Segment." + f)
			}
		}
	}
	e.join, e.group = findFunc(e.mp, "Join"), findFunc(e.mp, "Group")
	e.reverse, e.ring, e.msOr = findFunc(e.mp, "(*Segment).Reverse"), findFunc(e.mp, "MultiSegment.Ring"), findFunc(e.mp, "MultiSegment.Orientation")
	for name, fi := range map[string]*FuncInfo{"mputil.Join": e.join, "mputil.Group": e.group, "(*mputil.Segment).Reverse": e.reverse, "mputil.MultiSegment.Ring": e.ring, "mputil.MultiSegment.Orientation": e.msOr} {
		if fi == nil || fi.Decl.Body == nil {
			miss("func " + name)
		}
	}
	return e
}

// ---- builders -------------------------------------------------------------------------------------------------

// pt is the point with the symbolic coordinates (tok.x, tok.y).
func (e *c16Env) pt(tok string) c16Val {
	x, y := c16Coord(tok)
	return &c16Arr{typ: e.ptT, e: []c16Val{x, y}}
}

func (e *c16Env) line(t types.Type, toks []string) c16Slice {
	elems := make([]c16Val, len(toks))
	for i, tk := range toks {
		elems[i] = e.pt(tk)
	}
	return c16NewSlice(t, elems)
}

// c16Seg describes a segment handed to the code under evaluation.
type c16Seg struct {
	idx      int
	toks     []string
	orient   int64
	reversed bool
}

func (e *c16Env) segment(s c16Seg) c16Val {
	v := c16Zero(e.segT).(*c16Struct)
	v.f["Index"], v.f["Orientation"], v.f["Reversed"] = int64(s.idx), s.orient, s.reversed
	v.f["Line"] = e.line(e.lsT, s.toks)
	return v
}

func (e *c16Env) segments(t types.Type, ss []c16Seg) c16Slice {
	elems := make([]c16Val, len(ss))
	for i, s := range ss {
		elems[i] = e.segment(s)
	}
	return c16NewSlice(t, elems)
}

// ---- readers --------------------------------------------------------------------------------------------------

// c16PtTok returns the token of a point, "" with ok=false when the value is not a well-formed symbolic point
// (x and y of the same token in this order).
func c16PtTok(v c16Val) (string, bool) {
	a, ok := v.(*c16Arr)
	if !ok || len(a.e) != 2 {
		return "", false
	}
	x, ok1 := a.e[0].(c16Flt)
	y, ok2 := a.e[1].(c16Flt)
	if !ok1 || !ok2 {
		return "", false
	}
	tok := ""
	switch {
	case len(x.tok) > 2:
		tok = x.tok[:len(x.tok)-2]
	case len(y.tok) > 2:
		tok = y.tok[:len(y.tok)-2]
	default:
		return "", false
	}
	wx, wy := c16Coord(tok)
	return tok, x == wx && y == wy
}

// c16Coord: the coordinates of the point named tok. Names starting with X0 / Y0 have a concrete 0 as x / y (points
// on the prime meridian / the equator), every other coordinate is symbolic.
func c16Coord(tok string) (x, y c16Flt) {
	x, y = c16Flt{tok: tok + ".x"}, c16Flt{tok: tok + ".y"}
	if strings.HasPrefix(tok, "X0") {
		x = c16Flt{}
	}
	if strings.HasPrefix(tok, "Y0") {
		y = c16Flt{}
	}
	return x, y
}

// c16Toks reads a slice of points.
func c16Toks(v c16Val) ([]string, bool) {
	s, ok := v.(c16Slice)
	if !ok {
		return nil, false
	}
	out := []string{}
	for _, p := range s.elems() {
		t, ok := c16PtTok(p)
		if !ok {
			return nil, false
		}
		out = append(out, t)
	}
	return out, true
}

// c16ReadSeg reads a Segment value back.
func c16ReadSeg(v c16Val) (c16Seg, bool) {
	st, ok := v.(*c16Struct)
	if !ok {
		return c16Seg{}, false
	}
	idx, ok1 := st.f["Index"].(int64)
	or, ok2 := st.f["Orientation"].(int64)
	rev, ok3 := st.f["Reversed"].(bool)
	toks, ok4 := c16Toks(st.f["Line"])
	return c16Seg{idx: int(idx), toks: toks, orient: or, reversed: rev}, ok1 && ok2 && ok3 && ok4
}

func c16Rev(s []string) []string {
	out := make([]string, len(s))
	for i, x := range s {
		out[len(s)-1-i] = x
	}
	return out
}

func c16SameToks(a, b []string) bool {
	if len(a) != len(b) {
		return false
	}
	for i := range a {
		if a[i] != b[i] {
			return false
		}
	}
	return true
}
