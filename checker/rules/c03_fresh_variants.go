package rules

import (
	"strings"

	"osmcheck/core"
)

// Mutants and silent variants for C03.T6. They add a hand-written Member.UnmarshalXML (the shape of seed C03-e:
// attributes read off the start element, <nd> children handed to DecodeElement in a token loop) to osm.go, which
// already imports encoding/xml and fmt. The variants differ only in where the scratch WayNode lives.

const c03MemberAnchor = "// Append will add the given object to the OSM object.\n"

// c03MemberDecoder builds the method: pre = statements before the token loop, top = statements at the start of the
// <nd> branch, target = the DecodeElement target expression, keep = the statement storing the decoded node.
func c03MemberDecoder(global, pre, top, target, keep string) string {
	return global + "// UnmarshalXML reads a member's attributes off the start element.\nfunc (m *Member) UnmarshalXML(d *xml.Decoder, start xml.StartElement) error {\n" +
		"\tfor _, a := range start.Attr {\n\t\tvar err error\n\t\tswitch a.Name.Local {\n\t\tcase \"type\":\n\t\t\tm.Type = Type(a.Value)\n\t\tcase \"role\":\n\t\t\tm.Role = a.Value\n" +
		"\t\tcase \"ref\":\n\t\t\t_, err = fmt.Sscan(a.Value, &m.Ref)\n\t\tcase \"version\":\n\t\t\t_, err = fmt.Sscan(a.Value, &m.Version)\n\t\tcase \"changeset\":\n\t\t\t_, err = fmt.Sscan(a.Value, &m.ChangesetID)\n" +
		"\t\tcase \"orientation\":\n\t\t\t_, err = fmt.Sscan(a.Value, &m.Orientation)\n\t\tcase \"lat\":\n\t\t\t_, err = fmt.Sscan(a.Value, &m.Lat)\n\t\tcase \"lon\":\n\t\t\t_, err = fmt.Sscan(a.Value, &m.Lon)\n\t\t}\n\t\tif err != nil {\n\t\t\treturn err\n\t\t}\n\t}\n\n" +
		pre + "\tfor {\n\t\ttok, err := d.Token()\n\t\tif err != nil {\n\t\t\treturn err\n\t\t}\n\n\t\tswitch t := tok.(type) {\n\t\tcase xml.StartElement:\n\t\t\tif t.Name.Local != \"nd\" {\n\t\t\t\tif err := d.Skip(); err != nil {\n\t\t\t\t\treturn err\n\t\t\t\t}\n\t\t\t\tcontinue\n\t\t\t}\n\n" +
		top + "\t\t\tif err := d.DecodeElement(" + target + ", &t); err != nil {\n\t\t\t\treturn err\n\t\t\t}\n" + keep +
		"\t\tcase xml.EndElement:\n\t\t\treturn nil\n\t\t}\n\t}\n}\n\n" + c03MemberAnchor
}

const c03KeepValue = "\t\t\tm.Nodes = append(m.Nodes, nd)\n"

var c03FreshMutants = []core.Mutant{
	{Name: "t6-scratch-node-declared-before-loop", File: "osm.go", Find: c03MemberAnchor,
		Replace: c03MemberDecoder("", "\tvar nd WayNode\n", "", "&nd", c03KeepValue), ExpectRule: "T6", ExpectConstruct: "fresh \"nd\"@(*Member).UnmarshalXML"},
	{Name: "t6-scratch-node-partially-reset", File: "osm.go", Find: c03MemberAnchor,
		Replace: c03MemberDecoder("", "\tvar nd WayNode\n", "\t\t\tnd.Lat, nd.Lon = 0, 0\n", "&nd", c03KeepValue), ExpectRule: "T6", ExpectConstruct: "fresh \"nd\"@(*Member).UnmarshalXML"},
	{Name: "t6-scratch-pointer-allocated-once", File: "osm.go", Find: c03MemberAnchor,
		Replace: c03MemberDecoder("", "\tnd := new(WayNode)\n", "", "nd", "\t\t\tm.Nodes = append(m.Nodes, *nd)\n"), ExpectRule: "T6", ExpectConstruct: "fresh \"nd\"@(*Member).UnmarshalXML"},
	{Name: "t6-node-slice-shared-through-package-scratch", File: "osm.go", Find: c03MemberAnchor,
		Replace: c03MemberDecoder("var memberNodeScratch WayNodes\n\n", "\tmemberNodeScratch = memberNodeScratch[:0]\n", "\t\t\tvar nd WayNode\n", "&nd", "\t\t\tmemberNodeScratch = append(memberNodeScratch, nd)\n\t\t\tm.Nodes = memberNodeScratch\n"), ExpectRule: "T6", ExpectConstruct: "noalias@(*Member).UnmarshalXML"},
	{Name: "t6-attribute-stored-into-other-field", File: "osm.go", Find: c03MemberAnchor,
		Replace: strings.Replace(c03MemberDecoder("", "", "\t\t\tvar nd WayNode\n", "&nd", c03KeepValue), "fmt.Sscan(a.Value, &m.Lat)", "fmt.Sscan(a.Value, &m.Lon)", 1), ExpectRule: "T6", ExpectConstruct: "attr@(*Member).UnmarshalXML lat"},
}

// c03FreshBenign: the same decoder with a fresh target per <nd>; every rule must be silent.
var c03FreshBenign = []core.Mutant{
	{Name: "t6-scratch-node-declared-in-loop", File: "osm.go", Find: c03MemberAnchor, Replace: c03MemberDecoder("", "", "\t\t\tvar nd WayNode\n", "&nd", c03KeepValue)},
	{Name: "t6-scratch-node-reset-at-loop-top", File: "osm.go", Find: c03MemberAnchor, Replace: c03MemberDecoder("", "\tvar nd WayNode\n", "\t\t\tnd = WayNode{}\n", "&nd", c03KeepValue)},
	{Name: "t6-new-pointer-per-node", File: "osm.go", Find: c03MemberAnchor, Replace: c03MemberDecoder("", "", "\t\t\tnd := new(WayNode)\n", "nd", "\t\t\tm.Nodes = append(m.Nodes, *nd)\n")},
}
