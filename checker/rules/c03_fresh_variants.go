package rules

import (
	"strings"

	"osmcheck/core"
)

// Mutants and silent variants for C03.T6. They add a hand-written Member.UnmarshalXML (the shape of seeds C03-e and
// C03-f: attributes read off the start element with strconv, <nd> children handed to DecodeElement in a token loop)
// to osm.go, right after its import block (which the overlay extends). The variants differ in where the scratch
// WayNode lives and in how the numeric attributes are converted.

const c03OsmImports = "import (\n\t\"encoding/xml\"\n\t\"fmt\"\n)\n"

const c03OsmImportsPlus = "import (\n\t\"encoding/xml\"\n\t\"fmt\"\n\t\"strconv\"\n\t\"strings\"\n\n\t\"github.com/paulmach/orb\"\n)\n\n"

// c03MemberDecoder builds the method: global = extra package-level declarations, pre = statements before the token
// loop, top = statements at the start of the <nd> branch, target = the DecodeElement target, keep = the statement
// storing the decoded node.
func c03MemberDecoder(global, pre, top, target, keep string) string {
	return c03OsmImportsPlus + global + "// UnmarshalXML reads a member's attributes off the start element.\nfunc (m *Member) UnmarshalXML(d *xml.Decoder, start xml.StartElement) error {\n" +
		"\tfor _, a := range start.Attr {\n\t\tvar (\n\t\t\ti   int64\n\t\t\terr error\n\t\t)\n\t\ttext := strings.TrimSpace(a.Value)\n\t\tswitch a.Name.Local {\n\t\tcase \"type\":\n\t\t\tm.Type = Type(a.Value)\n\t\tcase \"role\":\n\t\t\tm.Role = a.Value\n" +
		"\t\tcase \"ref\":\n\t\t\tm.Ref, err = strconv.ParseInt(text, 10, 64)\n\t\tcase \"version\":\n\t\t\ti, err = strconv.ParseInt(text, 10, strconv.IntSize)\n\t\t\tm.Version = int(i)\n\t\tcase \"changeset\":\n\t\t\ti, err = strconv.ParseInt(text, 10, 64)\n\t\t\tm.ChangesetID = ChangesetID(i)\n" +
		"\t\tcase \"orientation\":\n\t\t\ti, err = strconv.ParseInt(text, 10, 8)\n\t\t\tm.Orientation = orb.Orientation(i)\n\t\tcase \"lat\":\n\t\t\tm.Lat, err = strconv.ParseFloat(text, 64)\n\t\tcase \"lon\":\n\t\t\tm.Lon, err = strconv.ParseFloat(text, 64)\n\t\t}\n\t\tif err != nil {\n\t\t\treturn fmt.Errorf(\"member attribute %s: %v\", a.Name.Local, err)\n\t\t}\n\t}\n\n" +
		pre + "\tfor {\n\t\ttok, err := d.Token()\n\t\tif err != nil {\n\t\t\treturn err\n\t\t}\n\n\t\tswitch t := tok.(type) {\n\t\tcase xml.StartElement:\n\t\t\tif t.Name.Local != \"nd\" {\n\t\t\t\tif err := d.Skip(); err != nil {\n\t\t\t\t\treturn err\n\t\t\t\t}\n\t\t\t\tcontinue\n\t\t\t}\n\n" +
		top + "\t\t\tif err := d.DecodeElement(" + target + ", &t); err != nil {\n\t\t\t\treturn err\n\t\t\t}\n" + keep +
		"\t\tcase xml.EndElement:\n\t\t\treturn nil\n\t\t}\n\t}\n}\n"
}

const c03KeepValue = "\t\t\tm.Nodes = append(m.Nodes, nd)\n"

// c03GoodMember is the decoder with a fresh scratch node per <nd> and strconv conversions.
var c03GoodMember = c03MemberDecoder("", "", "\t\t\tvar nd WayNode\n", "&nd", c03KeepValue)

func c03MemberWith(old, new string) string { return strings.Replace(c03GoodMember, old, new, 1) }

const c03HandInt = "func parseDigits(s string) (int64, error) {\n\tvar n int64\n\tfor i := 0; i < len(s); i++ {\n\t\tif s[i] < '0' || s[i] > '9' {\n\t\t\treturn strconv.ParseInt(s, 10, 64)\n\t\t}\n\t\tn = n*10 + int64(s[i]-'0')\n\t}\n\treturn n, nil\n}\n"

const c03HandCoord = "func parseCoord(s string) (float64, error) {\n\tvar mant uint64\n\tfrac, point := 0, false\n\tfor i := 0; i < len(s); i++ {\n\t\tswitch c := s[i]; {\n\t\tcase c == '.' && !point:\n\t\t\tpoint = true\n\t\tcase '0' <= c && c <= '9' && i < 19:\n\t\t\tmant = mant*10 + uint64(c-'0')\n\t\t\tif point {\n\t\t\t\tfrac++\n\t\t\t}\n\t\tdefault:\n\t\t\treturn strconv.ParseFloat(s, 64)\n\t\t}\n\t}\n\tf := float64(mant)\n\tfor ; frac > 0; frac-- {\n\t\tf /= 10\n\t}\n\treturn f, nil\n}\n"

var c03FreshMutants = []core.Mutant{
	{Name: "t6-scratch-node-declared-before-loop", File: "osm.go", Find: c03OsmImports,
		Replace: c03MemberDecoder("", "\tvar nd WayNode\n", "", "&nd", c03KeepValue), ExpectRule: "T6", ExpectConstruct: "fresh \"nd\"@(*Member).UnmarshalXML"},
	{Name: "t6-scratch-node-partially-reset", File: "osm.go", Find: c03OsmImports,
		Replace: c03MemberDecoder("", "\tvar nd WayNode\n", "\t\t\tnd.Lat, nd.Lon = 0, 0\n", "&nd", c03KeepValue), ExpectRule: "T6", ExpectConstruct: "fresh \"nd\"@(*Member).UnmarshalXML"},
	{Name: "t6-scratch-pointer-allocated-once", File: "osm.go", Find: c03OsmImports,
		Replace: c03MemberDecoder("", "\tnd := new(WayNode)\n", "", "nd", "\t\t\tm.Nodes = append(m.Nodes, *nd)\n"), ExpectRule: "T6", ExpectConstruct: "fresh \"nd\"@(*Member).UnmarshalXML"},
	{Name: "t6-node-slice-shared-through-package-scratch", File: "osm.go", Find: c03OsmImports,
		Replace: c03MemberDecoder("var memberNodeScratch WayNodes\n\n", "\tmemberNodeScratch = memberNodeScratch[:0]\n", "\t\t\tvar nd WayNode\n", "&nd", "\t\t\tmemberNodeScratch = append(memberNodeScratch, nd)\n\t\t\tm.Nodes = memberNodeScratch\n"), ExpectRule: "T6", ExpectConstruct: "noalias@(*Member).UnmarshalXML"},
	{Name: "t6-attribute-stored-into-other-field", File: "osm.go", Find: c03OsmImports,
		Replace: c03MemberWith("m.Lat, err = strconv.ParseFloat(text, 64)", "m.Lon, err = strconv.ParseFloat(text, 64)"), ExpectRule: "T6", ExpectConstruct: "attr@(*Member).UnmarshalXML lat"},
	{Name: "t6-coordinate-from-own-digit-arithmetic", File: "osm.go", Find: c03OsmImports,
		Replace: c03MemberWith("m.Lat, err = strconv.ParseFloat(text, 64)", "m.Lat, err = parseCoord(text)") + "\n" + c03HandCoord, ExpectRule: "T6", ExpectConstruct: "conv@(*Member).UnmarshalXML lat"},
	{Name: "t6-integer-from-hand-written-digit-loop", File: "osm.go", Find: c03OsmImports,
		Replace: c03MemberWith("m.Ref, err = strconv.ParseInt(text, 10, 64)", "m.Ref, err = parseDigits(text)") + "\n" + c03HandInt, ExpectRule: "T6", ExpectConstruct: "conv@(*Member).UnmarshalXML ref"},
	{Name: "t6-coordinate-parsed-at-32-bits", File: "osm.go", Find: c03OsmImports,
		Replace: c03MemberWith("m.Lon, err = strconv.ParseFloat(text, 64)", "m.Lon, err = strconv.ParseFloat(text, 32)"), ExpectRule: "T6", ExpectConstruct: "conv@(*Member).UnmarshalXML lon"},
	{Name: "t6-reference-parsed-in-base-0", File: "osm.go", Find: c03OsmImports,
		Replace: c03MemberWith("m.Ref, err = strconv.ParseInt(text, 10, 64)", "m.Ref, err = strconv.ParseInt(text, 0, 64)"), ExpectRule: "T6", ExpectConstruct: "conv@(*Member).UnmarshalXML ref"},
}

// c03FreshBenign: the same decoder with a fresh target per <nd> and strconv on the trimmed text of every numeric
// attribute; every rule must be silent.
var c03FreshBenign = []core.Mutant{
	{Name: "t6-scratch-node-declared-in-loop", File: "osm.go", Find: c03OsmImports, Replace: c03GoodMember},
	{Name: "t6-scratch-node-reset-at-loop-top", File: "osm.go", Find: c03OsmImports, Replace: c03MemberDecoder("", "\tvar nd WayNode\n", "\t\t\tnd = WayNode{}\n", "&nd", c03KeepValue)},
	{Name: "t6-new-pointer-per-node", File: "osm.go", Find: c03OsmImports, Replace: c03MemberDecoder("", "", "\t\t\tnd := new(WayNode)\n", "nd", "\t\t\tm.Nodes = append(m.Nodes, *nd)\n")},
	{Name: "t6-conversions-through-helper", File: "osm.go", Find: c03OsmImports,
		Replace: c03MemberWith("m.Lat, err = strconv.ParseFloat(text, 64)", "m.Lat, err = attrFloat(a)") + "\nfunc attrFloat(a xml.Attr) (float64, error) {\n\treturn strconv.ParseFloat(strings.TrimSpace(a.Value), 64)\n}\n"},
}
