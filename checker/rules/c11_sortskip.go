package rules

// C11.A4 sorted@ — a guarded fast path that SKIPS the sort: `if !inOrder(X) { X.SortByIDVersion() }`.
// The path that does not sort is accepted when it has checked, for every adjacent pair of X, that the pair is in
// strictly ascending (ID, Version) order — then X already is the only order SortByIDVersion can produce:
//   - a loop over the positions q = 1 .. len(X)-1 (starts at 1, runs while q < len(X), advances by one) precedes
//     the fill loop on that path and was left because its condition became false (no break, no return from
//     inside it on this path);
//   - every completed iteration of that loop has decided X[q-1].ID < X[q].ID, or X[q-1].ID == X[q].ID and
//     X[q-1].Version < X[q].Version (in any spelling: De Morgan, >=, early `return false` for the other cases).

import (
	"go/token"
	"go/types"
)

func c11AscendingChecked(paths []c11Out, st *c11St, X *c11V, before int, elem *types.Struct) bool {
	idF, verF := c11StructField(elem, "ID"), c11StructField(elem, "Version")
	if idF == nil || verF == nil {
		return false
	}
	lenX := &c11V{k: "call", name: "len", xs: []*c11V{X}}
	for i, ev := range st.ev[:before] {
		if ev.kind != "loop" {
			continue
		}
		for o, pre := range ev.pre {
			if pre == nil || !pre.isConstInt(1) {
				continue
			}
			q := c11Sym("loop@"+ev.key+":"+o.Name(), o)
			// left through its condition, on this path
			clean := true
			sawExit := false
			for _, e2 := range st.ev[i+1 : before] {
				if e2.kind == "break" && e2.key == ev.key {
					clean = false
				}
			}
			end := len(st.as)
			if before < len(st.ev) {
				end = st.ev[before].nas
			}
			for _, a := range st.as[ev.nas:end] {
				if !a.atom.mentions(q.key()) {
					continue
				}
				if a.atom.key() == c11Bin(token.LSS, q, lenX).key() && !a.val && !sawExit {
					sawExit = true
					continue
				}
				clean = false
			}
			if !clean || !sawExit {
				continue
			}
			// every completed iteration decided the pair (q-1, q) strictly ascending
			n := 0
			ok := true
			for _, p := range paths {
				if p.ctl != c11Back || p.loopKey != ev.key {
					continue
				}
				n++
				a := &c11V{k: "index", xs: []*c11V{X, c11Bin(token.SUB, q, c11Int(1))}}
				b := &c11V{k: "index", xs: []*c11V{X, q}}
				idLess := c11Bin(token.LSS, c11Field(a, idF), c11Field(b, idF))
				idEq := c11Bin(token.EQL, c11Field(a, idF), c11Field(b, idF))
				verLess := c11Bin(token.LSS, c11Field(a, verF), c11Field(b, verF))
				strict := c11TriOr(p.st.truth(idLess), c11TriAnd(p.st.truth(idEq), p.st.truth(verLess)))
				step := p.st.env[o]
				if strict != c11T || p.st.truth(c11Bin(token.LSS, q, lenX)) != c11T || step == nil || step.key() != c11Bin(token.ADD, q, c11Int(1)).key() {
					ok = false
				}
			}
			if ok && n > 0 {
				return true
			}
		}
	}
	return false
}
