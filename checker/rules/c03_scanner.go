package rules

import (
	"fmt"
	"go/token"
	"go/types"
	"strings"

	"osmcheck/core"
)

// c03ScanModel is the observed behaviour of osmxml.(*Scanner).Scan for every element name of interest.
type c03ScanModel struct {
	fi      *FuncInfo
	recv    *types.Var
	next    *types.Var // the field (*Scanner).Object returns
	nextBy  string
	labels  []string              // names explored ("" = any other name is always explored too)
	runs    map[string][]*c03Iter // label -> observed paths
	aborted string
}

// c03PublishedField finds, by role, the receiver field the object accessor returns: the method of the scanner type
// with no parameters whose single result is the osm.Object interface and whose every path returns recv.<field>.
func c03PublishedField(p *core.Program, scan *FuncInfo) (*types.Var, string) {
	recv := c03Receiver(scan)
	if recv == nil {
		return nil, ""
	}
	for _, fi := range allFuncs(scan.Pkg) {
		sig := fi.Obj.Type().(*types.Signature)
		if sig.Recv() == nil || !types.Identical(c03Deref(sig.Recv().Type()), c03Deref(recv.Type())) {
			continue
		}
		if sig.Params().Len() != 0 || sig.Results().Len() != 1 || namedPath(sig.Results().At(0).Type()) != core.ModulePath+".Object" {
			continue
		}
		x := &c03Interp{P: p}
		var f *types.Var
		ok := true
		for _, pa := range x.Run(fi, nil) {
			if pa.End != "return" || len(pa.Ret) != 1 || !pa.Ret[0].IsInit("param") || pa.Ret[0].Root.Obj != sig.Recv() || len(pa.Ret[0].Path) != 1 {
				ok = false
				continue
			}
			if f != nil && f != pa.Ret[0].Path[0] {
				ok = false
			}
			f = pa.Ret[0].Path[0]
		}
		if ok && f != nil {
			return f, fi.Name()
		}
	}
	return nil, ""
}

// c03BuildScanModel runs Scan once per element name.
func c03BuildScanModel(r *core.R, extra []string) *c03ScanModel {
	fi := findFunc(r.P.Pkg("osmxml"), "(*Scanner).Scan")
	if fi == nil {
		r.Anchor("osmxml.(*Scanner).Scan")
		return nil
	}
	m := &c03ScanModel{fi: fi, recv: c03Receiver(fi), runs: map[string][]*c03Iter{}}
	m.next, m.nextBy = c03PublishedField(r.P, fi)
	if m.next == nil {
		r.Anchor("the field of osmxml.Scanner returned by its object accessor (a method `func() osm.Object` returning recv.<field>)")
		return nil
	}
	m.labels = c03SortedLabels(c03CompareStrings(r.P, fi), extra)
	for _, l := range append([]string{""}, m.labels...) {
		x := c03NewDecoderInterp(r.P, c03Scenario{Elem: l})
		x.Model = c03DecodedFieldsModel
		paths := x.Run(fi, nil)
		c03DumpPaths(r.P, fi, "element "+l, paths)
		if x.Aborted != "" {
			m.aborted = x.Aborted
		}
		for _, pa := range paths {
			m.runs[l] = append(m.runs[l], c03Digest(x, pa))
		}
	}
	r.Stat("scan_paths_explored", func() int {
		n := 0
		for _, its := range m.runs {
			n += len(its)
		}
		return n
	}())
	return m
}

// published returns what the published field holds at the end of the path.
func (m *c03ScanModel) published(it *c03Iter) *c03V {
	return it.x.field(it.path.St, it.path.St.Var(m.recv), m.next, m.fi.Decl, nil)
}

// yields lists the paths of label l on which Scan returns true after binding a start element.
func (m *c03ScanModel) yields(l string) []*c03Iter {
	var out []*c03Iter
	for _, it := range m.runs[l] {
		if it.assert == nil || it.ok != triT {
			continue
		}
		if ret, v := it.returned(); ret && v != nil && v.K == c03KBool && v.Bool {
			out = append(out, it)
		}
	}
	return out
}

func c03Quote(l string) string {
	if l == "" {
		return "any other name"
	}
	return fmt.Sprintf("%q", l)
}

func c03EvPos(e *c03Event, fallback token.Pos) token.Pos {
	if e != nil && e.Node != nil {
		return e.Node.Pos()
	}
	return fallback
}

// c03T2Scanner: the scanner yields, for every element name osm.OSM decodes, an object of the field's element type,
// decoded from that element; for no other name.
func c03T2Scanner(r *core.R, osmTI *c03Struct) {
	var fieldNames []string
	for _, f := range osmTI.Fields {
		if f.Kind == c03Elem && len(f.Parents) == 0 {
			fieldNames = append(fieldNames, f.Name)
		}
	}
	// spellings only a dispatch on something else than the element name itself would accept (exact-name dispatch)
	extra := append([]string{}, fieldNames...)
	for _, n := range fieldNames {
		extra = append(extra, c03NameVariants(n)...)
	}
	m := c03BuildScanModel(r, extra)
	if m == nil {
		return
	}
	name := m.fi.Name()
	if m.aborted != "" {
		r.Unknown("tag@"+name, m.fi.Decl.Pos(), "Scan could not be explored completely: %s", m.aborted)
		return
	}
	var decoded []string
	for _, l := range m.labels {
		if len(m.yields(l)) > 0 {
			decoded = append(decoded, l)
		}
	}
	if len(decoded) == 0 {
		r.Anchor("an element name for which osmxml.(*Scanner).Scan binds a start element (tok.(xml.StartElement)) and returns true")
		return
	}
	r.OK("tag@"+name, m.fi.Decl.Pos(), "the name of the start element read in an iteration decides what is yielded: %d name(s) yield an object (%s); the published field is Scanner.%s (returned by %s)", len(decoded), strings.Join(decoded, ", "), m.next.Name(), m.nextBy)
	seen := map[string]bool{}
	for _, l := range decoded {
		c := fmt.Sprintf("case %q@%s", l, name)
		seen[l] = true
		f := osmTI.Lookup(false, []string{l})
		bad := false
		var okPos token.Pos
		var okT types.Type
		for _, it := range m.yields(l) {
			pos := c03EvPos(it.assert, m.fi.Decl.Pos())
			switch {
			case f == nil:
				r.Bad(c, pos, "the scanner yields objects for <%s> but no field of osm.OSM is tagged %q: whole-document decoding drops what the scanner yields", l, l)
			case len(it.decode) == 0:
				r.Bad(c, pos, "for <%s> Scan returns true without a DecodeElement call in the iteration: Object() returns nil or a stale object", l)
			case len(it.decode) > 1:
				r.Unknown(c, c03EvPos(it.decode[1], pos), "for <%s> more than one DecodeElement call happens before Scan returns (expected exactly one)", l)
			default:
				dc := it.decode[0]
				obj, vt, why := c03DecodeTarget(dc)
				want := c03ElemType(f.Var.Type())
				pub := m.published(it)
				switch {
				case why != "":
					r.Bad(c, c03EvPos(dc, pos), "<%s>: %s", l, why)
				case !types.Identical(c03Deref(vt), want):
					r.Bad(c, c03EvPos(dc, pos), "<%s> is decoded into %s by the scanner but osm.OSM.%s (tag %q) holds %s: the two decoders yield different objects for the same element", l, c03Short(c03Deref(vt)), f.Var.Name(), l, c03Short(want))
				case func() bool {
					ti := c03XMLTypeInfo(vt)
					return ti != nil && ti.XMLName != nil && ti.XMLName.Name != "" && ti.XMLName.Name != l
				}():
					r.Bad(c, c03EvPos(dc, pos), "%s.XMLName is %q: DecodeElement of a <%s> start element fails with \"expected element type <%s>\"", c03Short(c03Deref(vt)), c03XMLTypeInfo(vt).XMLName.Name, l, c03XMLTypeInfo(vt).XMLName.Name)
				case pub == nil || pub.Ident() == "" || pub.Ident() != obj.Ident():
					r.Bad(c, c03EvPos(dc, pos), "the object decoded for <%s> is not what Scanner.%s holds when Scan returns true (it holds %s): Object() returns nil/a stale/another object", l, m.next.Name(), pub.String())
				default:
					okPos, okT = c03EvPos(dc, pos), vt
					continue
				}
			}
			bad = true
			break
		}
		if !bad {
			r.OK(c, okPos, "decodes into a new %s = element type of osm.OSM.%s (tag %q) and publishes it in Scanner.%s on every path that returns true", c03Short(c03Deref(okT)), f.Var.Name(), l, m.next.Name())
		}
	}
	for _, f := range osmTI.Fields {
		if f.Kind != c03Elem {
			continue
		}
		c := "field OSM." + f.Var.Name() + "@" + name
		if seen[f.Name] && len(f.Parents) == 0 {
			r.OK(c, f.Var.Pos(), "element <%s> is yielded by the scanner", f.Name)
		} else {
			r.Bad(c, f.Var.Pos(), "osm.OSM.%s decodes <%s> but Scan never returns true for a start element named %q: the streaming scan silently drops these objects (it walks into them as if they were wrappers)", f.Var.Name(), f.Path(), f.Name)
		}
	}
}

// c03T3 (scanner walks into wrappers) on the observed behaviour.
func c03T3(r *core.R) {
	c03Init(r)
	tbl, err := c03LoadTable()
	if err != nil {
		r.Anchor("tables/osmxml.json: " + err.Error())
		return
	}
	containers, objects := c03ScanContainers(r.P, tbl)
	extra := append([]string{}, containers...)
	for _, n := range containers {
		extra = append(extra, c03NameVariants(n)...)
	}
	for n := range objects {
		extra = append(extra, c03NameVariants(n)...)
	}
	m := c03BuildScanModel(r, extra)
	if m == nil {
		return
	}
	name := m.fi.Name()
	if m.aborted != "" {
		r.Unknown("loop@"+name, m.fi.Decl.Pos(), "Scan could not be explored completely: %s", m.aborted)
		return
	}
	// a token that is not a start element takes the iteration back to the head of a loop that reads the next token;
	// what happens to start elements that are no objects is judged by c03T3Unknown
	var loopPos token.Pos
	nonstartBad := ""
	var nonstartPos token.Pos
	nNon := 0
	describe := func(it *c03Iter) string {
		if it.again == nil {
			ret, v := it.returned()
			if ret {
				return "Scan returns " + v.String()
			}
			return "the path ends with " + it.path.End + " " + it.path.Why
		}
		return ""
	}
	for _, l := range append([]string{""}, m.labels...) {
		for _, it := range m.runs[l] {
			if it.assert == nil {
				continue
			}
			tokenLoop := it.again != nil && it.token != nil && c03FrameWithin(it.token.Frame, it.token.Node, it.again.Node)
			if tokenLoop {
				loopPos = it.again.Node.Pos()
			}
			if it.ok == triF {
				nNon++
				if !tokenLoop && nonstartBad == "" {
					nonstartBad, nonstartPos = describe(it), c03EvPos(it.assert, m.fi.Decl.Pos())
					if it.again != nil {
						nonstartBad = "the iteration continues a loop that does not read the next token"
					}
				}
			}
		}
	}
	switch {
	case !loopPos.IsValid():
		r.Unknown("loop@"+name, m.fi.Decl.Pos(), "no path of Scan goes back to the head of a loop that reads the next token")
	default:
		r.OK("loop@"+name, loopPos, "token loop: an iteration that yields nothing goes back to read the next token")
	}
	switch {
	case nNon == 0:
		r.Unknown("nonstart@"+name, m.fi.Decl.Pos(), "no path on which the token read is not a start element (expected `se, ok := tok.(xml.StartElement)` with both outcomes)")
	case nonstartBad != "":
		r.Bad("nonstart@"+name, nonstartPos, "a token that is not a start element does not take Scan back to reading the next token (%s): whitespace or a comment before an element ends the scan, whole-document decoding ignores it", nonstartBad)
	default:
		r.OK("nonstart@"+name, loopPos, "tokens that are not start elements (text, comments, end tags, directives) continue the token loop (%d path(s))", nNon)
	}
	c03T3Unknown(r, m, containers, objects, loopPos)
	// every DecodeElement gets the start element just read, on the decoder the token came from
	for _, l := range m.labels {
		var first *c03Event
		why := ""
		for _, it := range m.runs[l] {
			for _, dc := range it.decode {
				if first == nil {
					first = dc
				}
				if ok, w := it.startJustRead(dc); !ok && why == "" {
					why, first = w, dc
				}
			}
		}
		if first == nil {
			continue
		}
		c := fmt.Sprintf("decode@%s case %q", name, l)
		if why == "" {
			r.OK(c, first.Node.Pos(), "`%s` decodes the element whose start tag was read in this iteration", src(r.P.Fset, first.Call))
		} else {
			r.Bad(c, first.Node.Pos(), "`%s`: %s", src(r.P.Fset, first.Call), why)
		}
	}
}

// c03T5: between DecodeElement and the return of Scan nothing writes through the decoded object or hands it to code
// the analysis does not enter: what the scanner yields is what encoding/xml decoded, as in a whole-document decode.
func c03T5(r *core.R) {
	c03Init(r)
	m := c03BuildScanModel(r, nil)
	if m == nil {
		return
	}
	name := m.fi.Name()
	if m.aborted != "" {
		r.Unknown("unmodified@"+name, m.fi.Decl.Pos(), "Scan could not be explored completely: %s", m.aborted)
		return
	}
	n := 0
	for _, l := range m.labels {
		its := m.yields(l)
		if len(its) == 0 {
			continue
		}
		n++
		c := fmt.Sprintf("unmodified %q@%s", l, name)
		reported := false
		var pos token.Pos
		for _, it := range its {
			if len(it.decode) != 1 {
				continue // reported by T2
			}
			obj, _, why := c03DecodeTarget(it.decode[0])
			if why != "" {
				continue // reported by T2
			}
			pos = it.decode[0].Node.Pos()
			all, escapes := it.touches(obj, it.decode[0])
			var stores []c03Event
			for i := range all {
				if !it.c03ValuePreservingStore(&all[i], obj) {
					stores = append(stores, all[i])
				}
			}
			switch {
			case len(stores) > 0:
				e := stores[0]
				var fs []string
				for _, f := range e.Field {
					fs = append(fs, f.Name())
				}
				r.Bad(c, e.Node.Pos(), "after DecodeElement the scanner assigns to `%s` of the decoded <%s> object (field %s, in %s) before publishing it: the object Scan yields is no longer what the document says, while xml.Unmarshal of the same document is untouched, so streaming scan and whole-document decode disagree", src(r.P.Fset, e.Node), l, strings.Join(fs, "."), e.Frame.Stack())
				reported = true
			case len(escapes) > 0:
				e := escapes[0]
				r.Unknown(c, e.Node.Pos(), "after DecodeElement the decoded <%s> object is handed to `%s`, which the analysis does not enter: it may modify the object before Scan publishes it", l, src(r.P.Fset, e.Call))
				reported = true
			}
			if reported {
				break
			}
		}
		if !reported {
			r.OK(c, pos, "between DecodeElement and `return true` nothing is stored through the decoded object and it is handed to no other code (%d path(s))", len(its))
		}
	}
	if n == 0 {
		r.Anchor("an element name for which osmxml.(*Scanner).Scan yields an object")
	}
}
