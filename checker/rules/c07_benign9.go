package rules

import "osmcheck/core"

// c07Benign9: values cached in locals (aliases of the scanner's context / decoder).
var c07Benign9 = []core.Mutant{
	{ // alias class: `ctx, dec := s.ctx, s.decoder` at the top of Scan (neither field is assigned after New); the loop tests ctx.Err() on the local
		Name: "xml-scan-context-and-decoder-cached-in-locals", File: "osmxml/scanner.go",
		Find:    "Loop:\n\tfor {\n\t\tif s.ctx.Err() != nil {\n\t\t\treturn false\n\t\t}\n\n\t\tt, err := s.decoder.Token()\n\t\tif err != nil {\n\t\t\ts.err = err\n\t\t\treturn false\n\t\t}\n\n\t\tse, ok := t.(xml.StartElement)\n\t\tif !ok {\n\t\t\tcontinue\n\t\t}\n\n\t\troot := !s.rootSeen\n\t\ts.rootSeen = true\n\n\t\ts.next = nil\n\t\tswitch se.Name.Local {\n\t\tcase \"bounds\":\n\t\t\tbounds := &osm.Bounds{}\n\t\t\terr = s.decoder.DecodeElement(&bounds, &se)\n\t\t\ts.next = bounds\n\t\tcase \"node\":\n\t\t\tnode := &osm.Node{}\n\t\t\terr = s.decoder.DecodeElement(&node, &se)\n\t\t\ts.next = node\n\t\tcase \"way\":\n\t\t\tway := &osm.Way{}\n\t\t\terr = s.decoder.DecodeElement(&way, &se)\n\t\t\ts.next = way\n\t\tcase \"relation\":\n\t\t\trelation := &osm.Relation{}\n\t\t\terr = s.decoder.DecodeElement(&relation, &se)\n\t\t\ts.next = relation\n\t\tcase \"changeset\":\n\t\t\tcs := &osm.Changeset{}\n\t\t\terr = s.decoder.DecodeElement(&cs, &se)\n\t\t\ts.next = cs\n\t\tcase \"note\":\n\t\t\tn := &osm.Note{}\n\t\t\terr = s.decoder.DecodeElement(&n, &se)\n\t\t\ts.next = n\n\t\tcase \"user\":\n\t\t\tu := &osm.User{}\n\t\t\terr = s.decoder.DecodeElement(&u, &se)\n\t\t\ts.next = u\n\t\tcase \"osm\", \"osmChange\", \"create\", \"modify\", \"delete\", \"action\", \"old\", \"new\":\n\t\t\t// the containers of the osm, osmChange and augmented diff formats\n\t\t\tcontinue Loop\n\t\tdefault:\n\t\t\tif root {\n\t\t\t\t// the document element, whatever its name\n\t\t\t\tcontinue Loop\n\t\t\t}\n\n\t\t\t// an unknown element is ignored with all of its content,\n\t\t\t// like decoding the whole document does.\n\t\t\tif err := s.decoder.Skip(); err != nil {",
		Replace: "\t// neither field is reassigned after New\n\tctx, dec := s.ctx, s.decoder\n\nLoop:\n\tfor {\n\t\tif ctx.Err() != nil {\n\t\t\treturn false\n\t\t}\n\n\t\tt, err := dec.Token()\n\t\tif err != nil {\n\t\t\ts.err = err\n\t\t\treturn false\n\t\t}\n\n\t\tse, ok := t.(xml.StartElement)\n\t\tif !ok {\n\t\t\tcontinue\n\t\t}\n\n\t\troot := !s.rootSeen\n\t\ts.rootSeen = true\n\n\t\ts.next = nil\n\t\tswitch se.Name.Local {\n\t\tcase \"bounds\":\n\t\t\tbounds := &osm.Bounds{}\n\t\t\terr = dec.DecodeElement(&bounds, &se)\n\t\t\ts.next = bounds\n\t\tcase \"node\":\n\t\t\tnode := &osm.Node{}\n\t\t\terr = dec.DecodeElement(&node, &se)\n\t\t\ts.next = node\n\t\tcase \"way\":\n\t\t\tway := &osm.Way{}\n\t\t\terr = dec.DecodeElement(&way, &se)\n\t\t\ts.next = way\n\t\tcase \"relation\":\n\t\t\trelation := &osm.Relation{}\n\t\t\terr = dec.DecodeElement(&relation, &se)\n\t\t\ts.next = relation\n\t\tcase \"changeset\":\n\t\t\tcs := &osm.Changeset{}\n\t\t\terr = dec.DecodeElement(&cs, &se)\n\t\t\ts.next = cs\n\t\tcase \"note\":\n\t\t\tn := &osm.Note{}\n\t\t\terr = dec.DecodeElement(&n, &se)\n\t\t\ts.next = n\n\t\tcase \"user\":\n\t\t\tu := &osm.User{}\n\t\t\terr = dec.DecodeElement(&u, &se)\n\t\t\ts.next = u\n\t\tcase \"osm\", \"osmChange\", \"create\", \"modify\", \"delete\", \"action\", \"old\", \"new\":\n\t\t\t// the containers of the osm, osmChange and augmented diff formats\n\t\t\tcontinue Loop\n\t\tdefault:\n\t\t\tif root {\n\t\t\t\t// the document element, whatever its name\n\t\t\t\tcontinue Loop\n\t\t\t}\n\n\t\t\t// an unknown element is ignored with all of its content,\n\t\t\t// like decoding the whole document does.\n\t\t\tif err := dec.Skip(); err != nil {",
	},
	{ // the context reaches the test through two single-definition locals
		Name: "xml-scan-context-alias-of-alias", File: "osmxml/scanner.go",
		Find:    "Loop:\n\tfor {\n\t\tif s.ctx.Err() != nil {",
		Replace: "\tc := s.ctx\n\tctx := c\n\nLoop:\n\tfor {\n\t\tif ctx.Err() != nil {",
	},
	{ // osmpbf Scan tests the context through a local copy of the field
		Name: "pbf-scan-context-cached-in-local", File: "osmpbf/scanner.go",
		Find:    "\tif s.err != nil || s.closed || s.ctx.Err() != nil {",
		Replace: "\tctx := s.ctx\n\tif s.err != nil || s.closed || ctx.Err() != nil {",
	},
}
