package rules

import (
	"go/ast"
	"go/token"
	"go/types"
)

// c20EV is a path together with the value an expression has on it.
type c20EV struct {
	st *c20St
	v  c20V
}

func (x *c20SX) srcOf(n ast.Node) string { return src(x.cx.r.P.Fset, n) }

// evList evaluates expressions left to right; every result is a path with the values in order.
func (x *c20SX) evList(es []ast.Expr, st *c20St) []struct {
	st *c20St
	vs []c20V
} {
	type item = struct {
		st *c20St
		vs []c20V
	}
	cur := []item{{st, nil}}
	for _, e := range es {
		var next []item
		for _, it := range cur {
			if it.st.ctl != c20cRun {
				next = append(next, it)
				continue
			}
			for _, r := range x.ev(e, it.st) {
				vs := append(append([]c20V(nil), it.vs...), r.v)
				next = append(next, item{r.st, vs})
			}
		}
		cur = next
	}
	return cur
}

func (x *c20SX) stmt(s ast.Stmt, st *c20St) []*c20St {
	switch s := s.(type) {
	case *ast.BlockStmt:
		return x.block(s.List, []*c20St{st})
	case *ast.EmptyStmt:
		return []*c20St{st}
	case *ast.ExprStmt:
		var out []*c20St
		for _, r := range x.ev(s.X, st) {
			out = append(out, r.st)
		}
		return out
	case *ast.DeclStmt:
		return x.declStmt(s, st)
	case *ast.AssignStmt:
		return x.assignStmt(s, st)
	case *ast.IncDecStmt:
		x.assign(s.X, c20Unknown("`%s`", x.srcOf(s)), st)
		return []*c20St{st}
	case *ast.IfStmt:
		return x.ifStmt(s, st)
	case *ast.SwitchStmt:
		return x.switchStmt(s, st)
	case *ast.TypeSwitchStmt:
		return x.typeSwitchStmt(s, st)
	case *ast.ReturnStmt:
		return x.returnStmt(s, st)
	case *ast.RangeStmt:
		x.labels = append(x.labels, x.pendingLabel)
		x.pendingLabel = ""
		out := x.rangeStmt(s, st)
		x.labels = x.labels[:len(x.labels)-1]
		return out
	case *ast.DeferStmt:
		// A deferred call runs after the results are fixed; it is not part of the model. It must not hide
		// a request or a call into the package.
		if why := x.opaqueOrLocalCallIn(s.Call); why != "" {
			return []*c20St{st.abort(s, "deferred %s", why)}
		}
		if why := c20AssignsIn(s.Call); why != "" {
			return []*c20St{st.abort(s, "deferred closure %s (it could change what the returned pointers refer to)", why)}
		}
		return []*c20St{st}
	case *ast.BranchStmt:
		switch {
		case s.Tok == token.CONTINUE:
			st.ctl = c20cCont
		case s.Tok == token.BREAK:
			st.ctl = c20cBrk
		default:
			st.abort(s, "`%s` is not among the understood statements", x.srcOf(s))
		}
		if s.Label != nil && st.ctl != c20cAbort {
			st.lbl = s.Label.Name
		}
		return []*c20St{st}
	case *ast.LabeledStmt:
		switch s.Stmt.(type) {
		case *ast.ForStmt, *ast.RangeStmt:
			x.pendingLabel = s.Label.Name
			return x.stmt(s.Stmt, st)
		}
	case *ast.ForStmt:
		label := x.pendingLabel
		x.pendingLabel = ""
		x.labels = append(x.labels, label)
		out, ok := x.indexLoop(s, st)
		x.labels = x.labels[:len(x.labels)-1]
		if ok {
			return out
		}
		if why := x.opaqueOrLocalCallIn(s); why != "" {
			return []*c20St{st.abort(s, "loop:%s sits in a `for` loop", why)}
		}
		return []*c20St{st.abort(s, "`for` loop (only `range` loops over options or ids are understood)")}
	}
	return []*c20St{st.abort(s, "statement `%s` is not among the understood statements", x.srcOf(s))}
}

// opaqueOrLocalCallIn reports a call to an event function (request), an HTTP function or any function of the package inside n.
func (x *c20SX) opaqueOrLocalCallIn(n ast.Node) string {
	why := ""
	ast.Inspect(n, func(m ast.Node) bool {
		call, ok := m.(*ast.CallExpr)
		if !ok || why != "" {
			return why == ""
		}
		fn := callee(x.info, call)
		if fn == nil {
			return true
		}
		switch {
		case x.cx.reqFns[fn]:
			why = "request call `" + x.srcOf(call) + "`"
		case c20HTTPCall(fn) != "":
			why = "HTTP call `" + x.srcOf(call) + "`"
		}
		return true
	})
	return why
}

func (x *c20SX) declStmt(s *ast.DeclStmt, st *c20St) []*c20St {
	gd, ok := s.Decl.(*ast.GenDecl)
	if !ok || gd.Tok != token.VAR {
		return []*c20St{st} // const / type declarations: constants are read from the type checker
	}
	cur := []*c20St{st}
	for _, sp := range gd.Specs {
		vs := sp.(*ast.ValueSpec)
		var next []*c20St
		for _, c := range cur {
			if c.ctl != c20cRun {
				next = append(next, c)
				continue
			}
			if len(vs.Values) == 0 {
				for _, nm := range vs.Names {
					if o := x.info.Defs[nm]; o != nil {
						x.born(o)
						c.env[o] = x.zero(o.Type())
					}
				}
				next = append(next, c)
				continue
			}
			for _, it := range x.evList(vs.Values, c) {
				if it.st.ctl == c20cRun {
					x.bind(c20Idents(vs.Names), it.vs, it.st, s)
				}
				next = append(next, it.st)
			}
		}
		cur = next
	}
	return cur
}

func c20Idents(ids []*ast.Ident) []ast.Expr {
	var out []ast.Expr
	for _, id := range ids {
		out = append(out, id)
	}
	return out
}

// bind assigns values to targets, spreading a single tuple.
func (x *c20SX) bind(lhs []ast.Expr, vs []c20V, st *c20St, at ast.Node) {
	if len(vs) == 1 && len(lhs) > 1 {
		if vs[0].k == c20kTuple && len(vs[0].vs) == len(lhs) {
			vs = vs[0].vs
		} else if vs[0].k == c20kUnknown {
			u := vs[0]
			vs = nil
			for range lhs {
				vs = append(vs, u)
			}
		}
	}
	if len(vs) != len(lhs) {
		st.abort(at, "`%s`: %d value(s) for %d target(s)", x.srcOf(at), len(vs), len(lhs))
		return
	}
	for i, l := range lhs {
		x.assign(l, vs[i], st)
	}
}

func (x *c20SX) assignStmt(s *ast.AssignStmt, st *c20St) []*c20St {
	var out []*c20St
	if s.Tok != token.DEFINE && s.Tok != token.ASSIGN {
		op := c20AssignOp(s.Tok)
		if op == token.ILLEGAL || len(s.Lhs) != 1 || len(s.Rhs) != 1 {
			return []*c20St{st.abort(s, "`%s` is not among the understood assignments", x.srcOf(s))}
		}
		for _, it := range x.evList([]ast.Expr{s.Lhs[0], s.Rhs[0]}, st) {
			if it.st.ctl == c20cRun {
				x.assign(s.Lhs[0], x.binop(op, it.vs[0], it.vs[1], s), it.st)
			}
			out = append(out, it.st)
		}
		return out
	}
	// comma-ok type assertion
	if len(s.Lhs) == 2 && len(s.Rhs) == 1 {
		if ta, ok := ast.Unparen(s.Rhs[0]).(*ast.TypeAssertExpr); ok && ta.Type != nil {
			for _, r := range x.ev(ta.X, st) {
				if r.st.ctl == c20cRun {
					v, okv := x.typeAssert(ta, r.v)
					x.bind(s.Lhs, []c20V{v, okv}, r.st, s)
				}
				out = append(out, r.st)
			}
			return out
		}
	}
	// comma-ok lookup in a table: `v, ok := table[key]`
	if len(s.Lhs) == 2 && len(s.Rhs) == 1 {
		if ix, ok := ast.Unparen(s.Rhs[0]).(*ast.IndexExpr); ok {
			if _, isMap := x.info.TypeOf(ix.X).Underlying().(*types.Map); isMap {
				for _, it := range x.evList([]ast.Expr{ix.X, ix.Index}, st) {
					switch {
					case it.st.ctl != c20cRun:
						out = append(out, it.st)
					case it.vs[0].k != c20kAgg:
						u := c20Unknown("lookup `%s` in a map that is not a constant table", x.srcOf(ix))
						x.bind(s.Lhs, []c20V{u, u}, it.st, s)
						out = append(out, it.st)
					default:
						for _, l := range x.lookup(it.vs[0], it.vs[1], it.st, ix) {
							if l.st.ctl == c20cRun {
								x.bind(s.Lhs, []c20V{l.v, {k: c20kBool, b: l.ok}}, l.st, s)
							}
							out = append(out, l.st)
						}
					}
				}
				return out
			}
		}
	}
	for _, it := range x.evList(s.Rhs, st) {
		if it.st.ctl == c20cRun {
			x.bind(s.Lhs, it.vs, it.st, s)
		}
		out = append(out, it.st)
	}
	return out
}

func (x *c20SX) returnStmt(s *ast.ReturnStmt, st *c20St) []*c20St {
	var out []*c20St
	if vs, ok := x.bareReturn(s, st); ok {
		st.ctl, st.ret, st.retAt = c20cRet, vs, s
		return []*c20St{st}
	}
	for _, it := range x.evList(s.Results, st) {
		if it.st.ctl == c20cRun {
			vs := it.vs
			if len(vs) == 1 && vs[0].k == c20kTuple {
				vs = vs[0].vs
			}
			if want := x.frame().sig.Results().Len(); len(vs) == 1 && want > 1 && vs[0].k == c20kUnknown {
				u := vs[0]
				vs = nil
				for i := 0; i < want; i++ {
					vs = append(vs, u)
				}
			}
			if want := x.frame().sig.Results().Len(); len(vs) != want {
				it.st.abort(s, "`%s` yields %d value(s) for %d result(s)", x.srcOf(s), len(vs), want)
				out = append(out, it.st)
				continue
			}
			for i := range vs {
				vs[i] = x.toIface(vs[i], x.frame().sig.Results().At(i).Type())
			}
			it.st.ctl, it.st.ret, it.st.retAt = c20cRet, vs, s
		}
		out = append(out, it.st)
	}
	return out
}

func (x *c20SX) ifStmt(s *ast.IfStmt, st *c20St) []*c20St {
	cur := []*c20St{st}
	if s.Init != nil {
		cur = x.block([]ast.Stmt{s.Init}, cur)
	}
	var out []*c20St
	for _, c := range cur {
		if c.ctl != c20cRun {
			out = append(out, c)
			continue
		}
		for _, cv := range x.cond(s.Cond, c) {
			switch {
			case cv.st.ctl != c20cRun:
				out = append(out, cv.st)
			case cv.val:
				out = append(out, x.block(s.Body.List, []*c20St{cv.st})...)
			case s.Else != nil:
				out = append(out, x.stmt(s.Else, cv.st)...)
			default:
				out = append(out, cv.st)
			}
		}
	}
	return out
}

// c20AssignsIn reports an assignment or ++/-- inside n (a deferred closure must only release resources).
func c20AssignsIn(n ast.Node) string {
	why := ""
	ast.Inspect(n, func(m ast.Node) bool {
		switch a := m.(type) {
		case *ast.AssignStmt:
			if a.Tok != token.DEFINE {
				why = "assigns"
			}
		case *ast.IncDecStmt:
			why = "assigns"
		}
		return why == ""
	})
	return why
}
