package rules

import (
	"strings"

	"osmcheck/core"
)

// c16GroupTail is mputil.Group from the construction of the segment to its end (anchor text of several variants).
const c16GroupTail = "\t\tl := Segment{\n\t\t\tIndex:       uint32(i),\n\t\t\tOrientation: m.Orientation,\n\t\t\tReversed:    false,\n\t\t\tLine:        line,\n\t\t}\n\n\t\tif m.Role == \"outer\" {\n\t\t\tif l.Orientation == orb.CW {\n\t\t\t\tl.Reverse()\n\t\t\t}\n\t\t\touter = append(outer, l)\n\t\t} else if m.Role == \"inner\" {\n\t\t\tif l.Orientation == orb.CCW {\n\t\t\t\tl.Reverse()\n\t\t\t}\n\t\t\tinner = append(inner, l)\n\t\t}\n\t}\n\n\treturn outer, inner, tainted\n}\n"

// c16GroupHelperForm: Group with the construction of the segment extracted (the shape of corpus patch C15-c);
// INDEX and TURN are filled in (c16_mutants2.go breaks them).
const c16GroupHelperForm = "\t\tswitch m.Role {\n\t\tcase \"outer\":\n\t\t\touter = append(outer, newSegment(INDEX, m.Orientation, line, orb.CW))\n\t\tcase \"inner\":\n\t\t\tinner = append(inner, newSegment(INDEX, m.Orientation, line, orb.CCW))\n\t\t}\n\t}\n\n\treturn outer, inner, tainted\n}\n\n// newSegment creates the segment for the member at the given index.\n// The line is reversed if the member has the unwanted orientation.\nfunc newSegment(index int, o orb.Orientation, line orb.LineString, unwanted orb.Orientation) Segment {\n\ts := Segment{\n\t\tIndex:       uint32(index),\n\t\tOrientation: o,\n\t\tReversed:    false,\n\t\tLine:        line,\n\t}\n\n\tif s.Orientation == unwanted {\n\t\tTURN\n\t}\n\n\treturn s\n}\n"

func c16GroupHelperText(index, turn string) string {
	return c16Subst(c16GroupHelperForm, "INDEX", index, "TURN", turn)
}

func c16Subst(s string, kv ...string) string {
	for i := 0; i+1 < len(kv); i += 2 {
		s = strings.ReplaceAll(s, kv[i], kv[i+1])
	}
	return s
}

// c16AnnotBody is annotate.annotateOrientation as it stands.
const c16AnnotBody = "\tfactor := orb.Orientation(1)\n\tif ms.Orientation() != o {\n\t\tfactor = -1\n\t}\n\n\tfor _, segment := range ms {\n\t\tif segment.Reversed {\n\t\t\tmembers[segment.Index].Orientation = -1 * factor * o\n\t\t} else {\n\t\t\tmembers[segment.Index].Orientation = factor * o\n\t\t}\n\t}\n"

// c16AnnotDirect: annotateOrientation without the factor (pointer alias, index loop).
const c16AnnotDirect = "\tdirection := ms.Orientation()\n\tfor k := range ms {\n\t\tmember := &members[ms[k].Index]\n\t\tmember.Orientation = direction\n\t\tif ms[k].Reversed {\n\t\t\tmember.Orientation = -direction\n\t\t}\n\t}\n"

// c16AddToMP is the search loop of addToMultiPolygon as it stands.
const c16AddToMP = "\tfor i := range mp {\n\t\tif polygonContains(mp[i][0], ring) {\n\t\t\tmp[i] = append(mp[i], ring)\n\t\t\treturn mp\n\t\t}\n\t}\n"

// c16AddToMPSplit: the search split from the update.
const c16AddToMPSplit = "\tat := -1\n\tfor i, polygon := range mp {\n\t\tif at < 0 && polygonContains(polygon[0], ring) {\n\t\t\tat = i\n\t\t}\n\t}\n\n\tif at >= 0 {\n\t\tmp[at] = append(mp[at], ring)\n\t\treturn mp\n\t}\n"

// c16WayLoop is the loop of wayToLineString as it stands.
const c16WayLoop = "\tfor _, wn := range w.Nodes {\n\t\tif wn.Lon != 0 || wn.Lat != 0 {\n\t\t\tls = append(ls, orb.Point{wn.Lon, wn.Lat})\n\t\t} else if n := ctx.getNode(wn.ID); n != nil {\n\t\t\tls = append(ls, orb.Point{n.Lon, n.Lat})\n\t\t} else {\n\t\t\ttainted = true\n\t\t}\n\t}\n"

// c16WayLoopPtr: index loop with element pointer, De Morgan, early continue.
const c16WayLoopPtr = "\tfor i := range w.Nodes {\n\t\twn := &w.Nodes[i]\n\t\tif !(wn.Lon == 0 && wn.Lat == 0) {\n\t\t\tls = append(ls, orb.Point{wn.Lon, wn.Lat})\n\t\t\tcontinue\n\t\t}\n\n\t\tn := ctx.getNode(wn.ID)\n\t\tif n == nil {\n\t\t\ttainted = true\n\t\t\tcontinue\n\t\t}\n\n\t\tls = append(ls, orb.Point{n.Lon, n.Lat})\n\t}\n"

var c16Benign2 = []core.Mutant{
	// Group: switch on the role, renamed local (corpus patch C15-a), roles tested in the other order
	{Name: "group-switch-reordered", File: c16MputilGo, Find: c16GroupTail,
		Replace: "\t\tseg := Segment{\n\t\t\tIndex:       uint32(i),\n\t\t\tOrientation: m.Orientation,\n\t\t\tLine:        line,\n\t\t}\n\n\t\tswitch m.Role {\n\t\tcase \"inner\":\n\t\t\tif seg.Orientation == orb.CCW {\n\t\t\t\tseg.Reverse()\n\t\t\t}\n\t\t\tinner = append(inner, seg)\n\t\tcase \"outer\":\n\t\t\tif seg.Orientation == orb.CW {\n\t\t\t\tseg.Reverse()\n\t\t\t}\n\t\t\touter = append(outer, seg)\n\t\t}\n\t}\n\n\treturn outer, inner, tainted\n}\n"},
	// Group: construction extracted into a helper (corpus patch C15-c)
	{Name: "group-segment-helper", File: c16MputilGo, Find: c16GroupTail, Replace: c16GroupHelperText("i", "s.Reverse()")},
	// Group: named role constants, pointer to the collector
	{Name: "group-collector-pointer", File: c16MputilGo, Find: c16GroupTail,
		Replace: "\t\tconst roleOuter, roleInner = \"outer\", \"inner\"\n\n\t\tl := Segment{Index: uint32(i), Orientation: m.Orientation, Line: line}\n\n\t\tvar into *[]Segment\n\t\tunwanted := orb.Orientation(0)\n\t\tswitch m.Role {\n\t\tcase roleOuter:\n\t\t\tinto, unwanted = &outer, orb.CW\n\t\tcase roleInner:\n\t\t\tinto, unwanted = &inner, orb.CCW\n\t\tdefault:\n\t\t\tcontinue\n\t\t}\n\n\t\tif l.Orientation == unwanted {\n\t\t\tl.Reverse()\n\t\t}\n\t\t*into = append(*into, l)\n\t}\n\n\treturn outer, inner, tainted\n}\n"},
	// Group is used by annotate only, and the annotation does not depend on which annotated members are turned round
	// beforehand: turning none gives the same annotations (this is why the pre-normalisation policy is no rule)
	{Name: "group-no-prenormalisation", File: c16MputilGo, Find: c16GroupTail,
		Replace: "\t\tl := Segment{\n\t\t\tIndex:       uint32(i),\n\t\t\tOrientation: m.Orientation,\n\t\t\tReversed:    false,\n\t\t\tLine:        line,\n\t\t}\n\n\t\tif m.Role == \"outer\" {\n\t\t\touter = append(outer, l)\n\t\t} else if m.Role == \"inner\" {\n\t\t\tinner = append(inner, l)\n\t\t}\n\t}\n\n\treturn outer, inner, tainted\n}\n"},
	// annotate: the requested orientation cancels out of factor*o, so the direct form and any o are equivalent
	{Name: "annotate-direct-form", File: c16GeoGo, Find: c16AnnotBody, Replace: c16AnnotDirect},
	{Name: "annotate-inner-requested-ccw", File: c16GeoGo, Find: "annotateOrientation(members, inner, orb.CW)", Replace: "annotateOrientation(members, inner, orb.CCW)"},
	{Name: "annotate-inverted-branch", File: c16GeoGo, Find: c16AnnotBody,
		Replace: "\tfactor := orb.Orientation(-1)\n\tif ms.Orientation() == o {\n\t\tfactor = 1\n\t}\n\n\tfor _, segment := range ms {\n\t\tsign := factor\n\t\tif segment.Reversed {\n\t\t\tsign = -sign\n\t\t}\n\t\tmembers[segment.Index].Orientation = sign * o\n\t}\n"},
	{Name: "annotate-loops-merged", File: c16GeoGo,
		Find:    "\touters := mputil.Join(outer)\n\tinners := mputil.Join(inner)\n\n\tfor _, outer := range outers {\n\t\tannotateOrientation(members, outer, orb.CCW)\n\t}\n\n\tfor _, inner := range inners {\n\t\tannotateOrientation(members, inner, orb.CW)\n\t}\n",
		Replace: "\tfor want, segments := range map[orb.Orientation][]mputil.Segment{orb.CCW: outer, orb.CW: inner} {\n\t\tfor _, ring := range mputil.Join(segments) {\n\t\t\tannotateOrientation(members, ring, want)\n\t\t}\n\t}\n"},
	// buildPolygon: boolean local for the role (corpus patch C17-b), role constants (C17-a)
	{Name: "polygon-role-boolean", File: c16BuildGo,
		Find:    "\t\tif m.Role == \"outer\" {\n\t\t\touterWay = way\n",
		Replace: "\t\tif isOuter := m.Role == \"outer\"; isOuter {\n\t\t\touterWay = way\n"},
	{Name: "polygon-rings-helper", File: c16BuildGo,
		Find:    "\t\tinnerSections := mputil.Join(inner)\n\t\tfor _, is := range innerSections {\n\t\t\tring := is.Ring(orb.CW)\n\t\t\tmp = addToMultiPolygon(mp, ring, ctx.includeInvalidPolygons)\n\t\t}\n",
		Replace: "\t\trings := func(segments []mputil.Segment, o orb.Orientation) []orb.Ring {\n\t\t\tvar out []orb.Ring\n\t\t\tfor _, section := range mputil.Join(segments) {\n\t\t\t\tout = append(out, section.Ring(o))\n\t\t\t}\n\t\t\treturn out\n\t\t}\n\n\t\tfor _, hole := range rings(inner, orb.CW) {\n\t\t\tmp = addToMultiPolygon(mp, hole, ctx.includeInvalidPolygons)\n\t\t}\n"},
	{Name: "polygon-inverted-role-branch", File: c16BuildGo,
		Find:    "\t\tif m.Role == \"outer\" {\n\t\t\touterWay = way\n\n\t\t\tif segment.Orientation == orb.CW {\n\t\t\t\tsegment.Reverse()\n\t\t\t}\n\n\t\t\touter = append(outer, segment)\n\t\t} else {\n\t\t\tif segment.Orientation == orb.CCW {\n\t\t\t\tsegment.Reverse()\n\t\t\t}\n\n\t\t\tinner = append(inner, segment)\n\t\t}\n",
		Replace: "\t\tif m.Role != \"outer\" {\n\t\t\tif segment.Orientation == orb.CCW {\n\t\t\t\tsegment.Reverse()\n\t\t\t}\n\n\t\t\tinner = append(inner, segment)\n\t\t\tcontinue\n\t\t}\n\n\t\touterWay = way\n\t\tif segment.Orientation == orb.CW {\n\t\t\tsegment.Reverse()\n\t\t}\n\n\t\touter = append(outer, segment)\n"},
	// hole assignment: range with value, search split from the update
	{Name: "holes-search-then-add", File: c16BuildGo, Find: c16AddToMP, Replace: c16AddToMPSplit},
	// coordinate sources: index loop with element pointer (C17-b), De Morgan, located-test helper closure
	{Name: "coordinates-demorgan-pointer", File: c16ConvGo, Find: c16WayLoop, Replace: c16WayLoopPtr},
	{Name: "coordinates-switch-form", File: c16ConvGo, Find: c16WayLoop,
		Replace: "\tlocated := func(lon, lat float64) bool { return lon != 0 || lat != 0 }\n\tfor _, wn := range w.Nodes {\n\t\tswitch n := ctx.getNode; {\n\t\tcase located(wn.Lon, wn.Lat):\n\t\t\tls = append(ls, wn.Point())\n\t\tcase n(wn.ID) != nil:\n\t\t\tnode := n(wn.ID)\n\t\t\tls = append(ls, orb.Point{node.Lon, node.Lat})\n\t\tdefault:\n\t\t\ttainted = true\n\t\t}\n\t}\n"},
}
