package rules

import (
	"go/ast"
	"go/token"
	"go/types"
)

// C08.O3, decisions kept in a table. A skip decision may be looked up instead of spelled per field:
// `skip := [5]bool{2: s.SkipNodes, 3: s.SkipWays, 4: s.SkipRelations}` ... `if skip[fn] {...}`. When the index is the
// field number of the group message and the rule is looking at field k, the lookup denotes the table's element for k
// (the zero value when the literal has none). The table must be constant: a local defined once by a composite literal
// and never written by element, or a package-level table that is nowhere written.

// c08TableLit returns the literal of the constant table x denotes, or nil.
func c08TableLit(cm *c01Model, f *c01Fn, x ast.Expr) *ast.CompositeLit {
	info := cm.m.info
	o := objOf(info, ast.Unparen(x))
	if o == nil {
		return nil
	}
	if lit := c01ConstTable(cm.m.pk, o); lit != nil {
		return lit
	}
	v, ok := o.(*types.Var)
	if !ok || v.IsField() || v.Parent() == cm.m.pk.Types.Scope() {
		return nil
	}
	ds := c01Defs(info, f.body, o)
	if len(ds) != 1 || ds[0].rhs == nil || ds[0].index >= 0 {
		return nil
	}
	lit, ok := ast.Unparen(ds[0].rhs).(*ast.CompositeLit)
	if !ok {
		return nil
	}
	written := false
	ast.Inspect(f.body, func(n ast.Node) bool {
		switch s := n.(type) {
		case *ast.AssignStmt:
			for _, l := range s.Lhs {
				if _, isId := ast.Unparen(l).(*ast.Ident); !isId && c01RootObj(info, l) == o {
					written = true
				}
			}
		case *ast.IncDecStmt:
			if c01RootObj(info, s.X) == o {
				written = true
			}
		case *ast.UnaryExpr:
			if s.Op == token.AND && c01RootObj(info, s.X) == o {
				written = true
			}
		case *ast.CallExpr:
			if builtinName(info, s) == "" {
				for _, a := range s.Args {
					if objOf(info, a) == o {
						if _, isArr := o.Type().Underlying().(*types.Array); !isArr {
							written = true // a slice or map handed to a function may be written there
						}
					}
				}
			}
		}
		return true
	})
	if written {
		return nil
	}
	return lit
}

// c08TableElem returns the element of table literal lit for integer key k; zero=true when the literal has none.
func c08TableElem(info *types.Info, lit *ast.CompositeLit, k int64) (elem ast.Expr, zero, ok bool) {
	next := int64(0)
	_, isMap := info.TypeOf(lit).Underlying().(*types.Map)
	for _, el := range lit.Elts {
		v := el
		if kv, isKV := el.(*ast.KeyValueExpr); isKV {
			kk, okc := constInt(info, kv.Key)
			if !okc {
				return nil, false, false
			}
			next, v = kk, kv.Value
		} else if isMap {
			return nil, false, false
		}
		if next == k {
			return v, false, true
		}
		next++
	}
	return nil, true, true
}

// c08TableSubst: e, when it is a lookup of a constant table by the field number of message variable mvo, becomes the
// table's element for field k (nil, true: the zero value). Anything else is returned unchanged.
func c08TableSubst(cm *c01Model, f *c01Fn, e ast.Expr, mvo types.Object, k int64) (ast.Expr, bool) {
	info := cm.m.info
	x := ast.Unparen(c01Expand(info, f.body, e))
	ix, ok := x.(*ast.IndexExpr)
	if !ok || !cm.isFieldNumberOf(f, c01StripConv(info, ix.Index), mvo) {
		return e, false
	}
	lit := c08TableLit(cm, f, ix.X)
	if lit == nil {
		return e, false
	}
	elem, zero, ok := c08TableElem(info, lit, k)
	if !ok {
		return e, false
	}
	if zero {
		return nil, true
	}
	return elem, false
}
