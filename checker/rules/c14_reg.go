package rules

import (
	"osmcheck/core"
)

// ---------------------------------------------------------------------------
// registration, sensitivity suite

// exact source fragments of annotate/order.go used by the mutants
const (
	c14SrcLoop = `	for _, r := range relations {
		for _, m := range r.Members {
			if m.Type != osm.TypeRelation {
				continue
			}

			mid := osm.RelationID(m.Ref)
			for _, pid := range path {
				if pid == mid {
					// circular relations are allowed,
					// source: https://github.com/openstreetmap/openstreetmap-website/issues/1465#issuecomment-282323187

					// since this relation is already being worked through higher
					// up the stack, we can just return here.
					return nil
				}
			}

			err := o.walk(mid, append(path, mid))
			if err != nil {
				return err
			}
		}
	}
`
	c14SrcCtxCheck = `	if o.ctx.Err() != nil {
		return o.ctx.Err()
	}
`
	c14SrcEmit = `	o.visited[id] = struct{}{}
	select {
	case o.out <- id:
	case <-o.ctx.Done():
		return o.ctx.Err()
	}
`
	c14SrcScan = `			for _, pid := range path {
				if pid == mid {
					// circular relations are allowed,
					// source: https://github.com/openstreetmap/openstreetmap-website/issues/1465#issuecomment-282323187

					// since this relation is already being worked through higher
					// up the stack, we can just return here.
					return nil
				}
			}
`
	c14SrcMembersToCut = `		for _, m := range r.Members {
			if m.Type != osm.TypeRelation {
				continue
			}

			mid := osm.RelationID(m.Ref)
			for _, pid := range path {
				if pid == mid {
					// circular relations are allowed,
					// source: https://github.com/openstreetmap/openstreetmap-website/issues/1465#issuecomment-282323187

					// since this relation is already being worked through higher
					// up the stack, we can just return here.
					return nil
`
	c14SrcNextSelect = `	select {
	case id := <-o.out:
		if id == 0 {
			return false
		}
		o.id = id
		return true
	case <-o.ctx.Done():
		return false
	}
`
)

func init() {
	const f = "annotate/order.go"
	register(&core.Property{
		ID:    "C14",
		Title: "Child-first relation ordering emits children before parents, once, always ends",
		Explanation: "Structural necessary conditions on package annotate's child-first ordering, decided on every path of a path-sensitive exploration of the DFS, the constructor, the producer goroutine, Next and Close. Each of these functions is explored together with everything it statically calls inside the module (parameters bound to arguments, results bound back), with a finite abstract store (booleans; nil/non-nil; pure local comparisons) that decides branches where it can; values are compared as canonical terms that look through locals with a unique reaching definition, followed parameters, results of followed calls (path-sensitively: the one return statement that can have produced the value seen at a point, so `(value, ok, err)` triples and `(cut, err)` results are transparent), struct-valued results and locals field by field (`outcome{cut: true}`), named results with bare returns, callbacks passed as function literals (a literal that is only called by followed code is part of the explored paths, so a flag or result variable it captures and assigns is tracked like a local of a loop body), small integer constants (flags turned into enums) and zero / non-zero ids, conversions, aliases and named constants; loops may be range loops or counting loops in either direction (`i := len(X)-1; i >= 0; i--`, `i := len(X); i > 0; i--` with X[i-1], `i, n := 0, len(X)`), scans may live in methods of a named path type; what the producer defers may be a method or closure that closes the channel and releases the wait group, Close may defer its Wait; the ordering's state may be grouped into struct types of the package (a context/cancel pair, a set type with methods around the map). The rules are therefore independent of how the code is cut into helpers, of if/switch/early-return shape, of temporaries and of names. Decided: " +
			"(W1) every send on the output channel in the package is the DFS's emission of its own (never reassigned) id parameter, no second emission and no recursive call is reachable after an emission, and the emission is unreachable from the entry unless the outermost loop around the recursion is exhausted (post-order); " +
			"(W2) every path to the emission takes the not-yet-visited edge of a membership test on the id and passes the store of the id into the visited set (or the store lies on every path after the emission); between a store and the emission attempt there is no recursion and no return; the set is only added to, and only by the DFS; every function taking part in the DFS or the producer loop is called only from the DFS and from the single producer goroutine; the explored functions contain no defer/go/recursion the exploration does not model; the producer loop evaluates the DFS for every element of the complete request list and leaves the loop unless the result is known to be nil; " +
			"(W3) each recursive call extends the path with the id it enters and is reached only through the exhaustion edge of a complete scan of the path that compares every element with that id; a match leaves the DFS without recursing or emitting (path elements stay distinct, so depth <= number of distinct ids + 1; an inner activation of an id that is being walked higher up never reaches the emission, so cycles do not emit twice); the path parameter is only ever replaced by a slice with the same length and elements (capacity grown by re-slice / append-copy / make+copy); the root call's path is empty; a non-nil child result, and a non-nil history error, end the activation with a non-nil error; a not-found history ends it with nil before any recursion or emission; " +
			"(W4) the ordering's context and cancel fields hold the two results of context.WithCancel applied to the constructor's context parameter; the send is a select case next to that context's Done (spelled directly, through a local, or through a field that only ever holds Done() of the stored context and is set before the producer starts), whose case leaves the DFS with a non-nil result; Next receives in a select with Done (or relies on the producer's deferred close) and returns false unless the received value was found valid; Close cancels on every path to the wait and waits on every path, where the completion carrier is a sync.WaitGroup (Add(1) / Done / Wait) or a channel the producer closes and Close receives from (make / close / plain receive): the carrier is armed before the single go statement, the producer defers close(out) and the completion signal before its first way out, the signal is the producer's last action (registered before the close of the output channel), nobody else signals, and the output channel is closed nowhere else; " +
			"(W5) the recursion sits in a loop over the complete history nested around a loop over the complete Members of each version (range or counting loops, left only by exhaustion or return), walks the member's Ref, is reached only through the is-a-relation edge of a test of the member's Type against osm.TypeRelation, and — guard whitelist — no other condition between the start of a version's iteration and the recursive call decides whether the call is reached, except the member-type test and the already-visited test on the member (which may only skip the member, not end the walk) and the cycle cut; " +
			"(W6) every way out of the DFS before the emission is explained by one of: already visited (nil), history not found, non-nil error, cycle cut (nil), cancellation, Done case of the emission select; an unexplained way out with a nil result (a depth or size cut-off, a member reported as \"cut\" for another reason) is a violation: the caller takes the id for done and emits the parent first. " +
			"(W7) every way out of the DFS that can follow a recursive call and lets the iteration go on (nil result; not a cancellation) passes a store of the id into the set whose membership test on entry guards all walking (memo: no relation is walked twice) and a test of the ordering's context made by the walk itself (cancel-latency). On the pinned tree the cycle-cut `return nil` does neither — relations on a cycle are re-walked from every parent, exponentially on ladders of cycles — which is recorded as a known finding (memo@dfs cycle-cut, cancel-latency@dfs cycle-cut); any other such way out fails. " +
			"(W8) never an id without history: the DFS either tests the lookup result itself or relies on the datasource contract (nil error implies a non-empty history), and the root package's own datasource type(s) implementing the ordering's datasource interface return a nil error only on paths that tested the looked-up value non-nil / non-empty (key presence alone is not evidence); user datasources are trusted. " +
			"Together these give, for every graph: termination, at most one emission per id, no emission without a found history, every requested id with a history reaches the emission unless the iteration was stopped, and children-first order on acyclic graphs. " +
			"NOT decided: behaviour of the user's datasource (determinism of RelationHistory, honouring the context while blocked, the NotFound classification), id 0 (used by Next as the closed-channel sentinel), running time on cyclic graphs (cut activations are not memoised), data races on err/CompletedIndex, wall-clock promptness. Shapes outside the explored idioms (function values, a DFS without a path parameter, member ids collected into a slice first, reverse or stepped index loops, defer in Close) are reported as undecided rather than accepted.",
		Assumptions: []string{"go/types, go/cfg (x/tools v0.29.0)", "RelationHistory returns the same history for the same id during one iteration", "the datasource returns when its context is cancelled", "0 is not a valid relation id", "Go channel/select/WaitGroup/context semantics", "heap values read into a term (struct fields, map and slice elements other than the visited set) do not change between the two program points at which equal terms are compared"},
		LevelText:   "Structural necessary conditions of the child-first ordering decided on every path of an inter-procedural, path-sensitive exploration (finite abstract store) of the DFS and of the producer/consumer protocol: post-order emission, visited test/store around the emission, path-based cycle cut that leaves the activation, empty root path, guard whitelist before the recursion, exits before the emission enumerated, select-with-Done on send and receive, cancel-before-Wait, deferred close/Done. The graph-theoretic conclusions (termination, once, children first, every requested id) follow from these by the argument in the explanation; they are not computed on graphs.",
		LevelNote:   "Trusts the type checker and go/cfg; assumes a deterministic datasource that honours cancellation and that relation id 0 does not occur.",
		Technique:   "explicit-state exploration of go/cfg graphs across static calls inside the module with a finite abstract store (finite-domain evaluation of branch atoms), reachability-with-removed-edges queries, canonical value terms through reaching definitions; role-based anchoring (fields by type, the DFS as the recursive function reaching the send, the producer as what the constructor's go statement starts)",
		DesignRef:   "DESIGN.md §5 C14",
		Rules: []*core.Rule{
			{ID: "W1", Floor: 3, Doc: "emit after children: every send is the DFS's emission of the walked id, nothing recursive and no second emission after it, member loops exhausted before it", Run: c14W1},
			{ID: "W2", Floor: 7, Doc: "emit once: visited test and store around the emission, set only grows and only in the DFS, DFS confined to the single producer goroutine, nothing unmodelled, producer loop over all requested ids", Run: c14W2},
			{ID: "W3", Floor: 7, Doc: "cycle cut and termination: append(path, child), complete path scan before the recursion whose match leaves the walk, empty root path, not-found/err handling", Run: c14W3},
			{ID: "W4", Floor: 9, Doc: "no deadlock on stop: own cancellable context, select with Done on send and receive, cancel before Wait, deferred close/Done, Add(1) before go", Run: c14W4},
			{ID: "W5", Floor: 5, Doc: "all versions' members are walked, only relation members are followed, and nothing but the member-type test / cycle cut / visited test keeps a relation member from being walked (guard whitelist)", Run: c14W5},
			{ID: "W6", Floor: 5, Doc: "ways out of the DFS before the emission are exactly visited / not found / error / cycle cut / cancellation", Run: c14W6},
			{ID: "W7", Floor: 2, Doc: "every walk is remembered and looks at the context: each way out that can follow a recursive call and lets the iteration go on passes a store of the id into the set tested on entry (no exponential re-walks of relations on cycles) and a test of the ordering's context made by the walk itself", Run: c14W7},
			{ID: "W8", Floor: 2, Doc: "no emission without a history: the DFS guards the emission with its own test of the lookup result or relies on the datasource contract, and the module's own in-memory datasource returns a nil error only with a history it has tested to be non-nil / non-empty", Run: c14W8},
		},
		Benign: c14AllBenign(),
		Mutants: append([]core.Mutant{
			{Name: "send-before-members", File: f, Find: c14SrcLoop + "\n" + c14SrcCtxCheck + "\n" + c14SrcEmit, Replace: c14SrcEmit + "\n" + c14SrcLoop + "\n" + c14SrcCtxCheck, ExpectRule: "W1", ExpectConstruct: "post-order@dfs"},
			{Name: "members-only-near-root", File: f, Find: c14SrcLoop, Replace: "\tif len(path) < 2 {\n" + c14SrcLoop + "\t}\n", ExpectRule: "W1", ExpectConstruct: "members-complete@dfs"},
			{Name: "send-other-id", File: f, Find: "case o.out <- id:", Replace: "case o.out <- o.id + id:", ExpectRule: "W1", ExpectConstruct: "send-site@dfs"},
			{Name: "visited-store-on-entry", File: f, Find: "\tfor _, r := range relations {\n\t\tfor _, m := range r.Members {", Replace: "\to.visited[id] = struct{}{}\n\tfor _, r := range relations {\n\t\tfor _, m := range r.Members {", ExpectRule: "W2", ExpectConstruct: "visited-only-when-emitting@dfs"},
			{Name: "drop-visited-store", File: f, Find: "\to.visited[id] = struct{}{}\n", Replace: "", ExpectRule: "W2", ExpectConstruct: "visited-store@dfs"},
			{Name: "visited-store-wrong-key", File: f, Find: "o.visited[id] = struct{}{}", Replace: "o.visited[o.id] = struct{}{}", ExpectRule: "W2", ExpectConstruct: "visited-store@dfs"},
			{Name: "drop-visited-test", File: f, Find: "\tif _, ok := o.visited[id]; ok {\n\t\treturn nil\n\t}\n", Replace: "", ExpectRule: "W2", ExpectConstruct: "visited-test@dfs"},
			{Name: "visited-test-inverted", File: f, Find: "if _, ok := o.visited[id]; ok {", Replace: "if _, ok := o.visited[id]; !ok && len(path) > 50 {", ExpectRule: "W2", ExpectConstruct: "visited-test@dfs"},
			{Name: "visited-forgotten", File: f, Find: "\t\to.CompletedIndex = i\n", Replace: "\t\to.CompletedIndex = i\n\t\tdelete(o.visited, id)\n", ExpectRule: "W2", ExpectConstruct: "visited-monotone"},
			{Name: "producer-skips-first", File: f, Find: "for i, id := range ids {", Replace: "for i, id := range ids[1:] {", ExpectRule: "W2", ExpectConstruct: "producer-loop@producer"},
			{Name: "producer-ignores-error", File: f, Find: "\t\t\t\to.err = err\n\t\t\t\treturn\n", Replace: "\t\t\t\to.err = err\n", ExpectRule: "W2", ExpectConstruct: "producer-loop@producer"},
			{Name: "path-without-append", File: f, Find: "o.walk(mid, append(path, mid))", Replace: "o.walk(mid, path)", ExpectRule: "W3", ExpectConstruct: "path-arg@dfs"},
			{Name: "drop-path-scan", File: f, Find: c14SrcScan, Replace: "", ExpectRule: "W3", ExpectConstruct: "cycle-scan@dfs"},
			{Name: "cut-breaks-scan-only", File: f, Find: "\t\t\t\t\t// up the stack, we can just return here.\n\t\t\t\t\treturn nil\n", Replace: "\t\t\t\t\t// up the stack, we can just return here.\n\t\t\t\t\tbreak\n", ExpectRule: "W3", ExpectConstruct: "cycle-scan@dfs"},
			{Name: "cut-continues-with-next-member", File: f, Find: c14SrcMembersToCut, Replace: "\tmembers:\n" + c14SrcMembersToCut[:len(c14SrcMembersToCut)-len("return nil\n")] + "continue members\n", ExpectRule: "W3", ExpectConstruct: "cycle-scan@dfs"},
			{Name: "root-on-own-path", File: f, Find: "err := o.walk(id, path)", Replace: "err := o.walk(id, append(path, id))", ExpectRule: "W3", ExpectConstruct: "root-path@producer"},
			{Name: "child-error-swallowed", File: f, Find: "\t\t\terr := o.walk(mid, append(path, mid))\n\t\t\tif err != nil {\n\t\t\t\treturn err\n\t\t\t}\n", Replace: "\t\t\to.walk(mid, append(path, mid))\n", ExpectRule: "W3", ExpectConstruct: "rec-error@dfs"},
			{Name: "notfound-is-fatal", File: f, Find: "\tif o.ds.NotFound(err) {\n\t\treturn nil\n\t}\n\n", Replace: "", ExpectRule: "W3", ExpectConstruct: "notfound@dfs"},
			{Name: "notfound-is-emitted", File: f, Find: "\tif o.ds.NotFound(err) {\n\t\treturn nil\n\t}\n", Replace: "\tif o.ds.NotFound(err) {\n\t\terr = nil\n\t}\n", ExpectRule: "W3", ExpectConstruct: "notfound@dfs"},
			{Name: "bare-send", File: f, Find: "\tselect {\n\tcase o.out <- id:\n\tcase <-o.ctx.Done():\n\t\treturn o.ctx.Err()\n\t}\n", Replace: "\to.out <- id\n", ExpectRule: "W4", ExpectConstruct: "send-select@dfs"},
			{Name: "send-select-foreign-done", File: f, Find: "\tcase o.out <- id:\n\tcase <-o.ctx.Done():", Replace: "\tcase o.out <- id:\n\tcase <-context.Background().Done():", ExpectRule: "W4", ExpectConstruct: "send-select@dfs"},
			{Name: "close-without-cancel", File: f, Find: "\to.done()\n\to.wg.Wait()\n", Replace: "\to.wg.Wait()\n", ExpectRule: "W4", ExpectConstruct: "close-order@"},
			{Name: "close-waits-before-cancel", File: f, Find: "\to.done()\n\to.wg.Wait()\n", Replace: "\to.wg.Wait()\n\to.done()\n", ExpectRule: "W4", ExpectConstruct: "close-order@"},
			{Name: "drop-defer-close", File: f, Find: "\t\tdefer close(o.out)\n", Replace: "", ExpectRule: "W4", ExpectConstruct: "goroutine-defers@producer"},
			{Name: "drop-defer-wg-done", File: f, Find: "\t\tdefer o.wg.Done()\n", Replace: "", ExpectRule: "W4", ExpectConstruct: "goroutine-defers@producer"},
			{Name: "drop-wg-add", File: f, Find: "\to.wg.Add(1)\n", Replace: "", ExpectRule: "W4", ExpectConstruct: "wg-add@"},
			{Name: "ctx-not-the-derived-one", File: f, Find: "ctx, done := context.WithCancel(ctx)", Replace: "_, done := context.WithCancel(ctx)", ExpectRule: "W4", ExpectConstruct: "ctx@"},
			{Name: "ctx-detached-from-caller", File: f, Find: "context.WithCancel(ctx)", Replace: "context.WithCancel(context.Background())", ExpectRule: "W4", ExpectConstruct: "ctx@"},
			{Name: "next-ignores-closed-channel", File: f, Find: "\t\tif id == 0 {\n\t\t\treturn false\n\t\t}\n", Replace: "", ExpectRule: "W4", ExpectConstruct: "recv-select@"},
			{Name: "next-done-returns-true", File: f, Find: "\tcase <-o.ctx.Done():\n\t\treturn false\n", Replace: "\tcase <-o.ctx.Done():\n\t\treturn true\n", ExpectRule: "W4", ExpectConstruct: "recv-select@"},
			{Name: "follow-way-members", File: f, Find: "if m.Type != osm.TypeRelation {", Replace: "if m.Type != osm.TypeWay {", ExpectRule: "W5", ExpectConstruct: "relation-only@dfs"},
			{Name: "drop-member-type-test", File: f, Find: "\t\t\tif m.Type != osm.TypeRelation {\n\t\t\t\tcontinue\n\t\t\t}\n", Replace: "", ExpectRule: "W5", ExpectConstruct: "relation-only@dfs"},
			{Name: "latest-version-only", File: f, Find: "for _, r := range relations {", Replace: "for _, r := range relations[len(relations)-1:] {", ExpectRule: "W5", ExpectConstruct: "all-versions@dfs"},
			{Name: "first-member-only", File: f, Find: "\t\t\tif err != nil {\n\t\t\t\treturn err\n\t\t\t}\n\t\t}\n", Replace: "\t\t\tif err != nil {\n\t\t\t\treturn err\n\t\t\t}\n\t\t\tbreak\n\t\t}\n", ExpectRule: "W5", ExpectConstruct: "all-members@dfs"},
			{Name: "depth-limited-walk", File: f, Find: "\tfor _, r := range relations {\n", Replace: "\tif len(path) > 2 {\n\t\treturn nil\n\t}\n\n\tfor _, r := range relations {\n", ExpectRule: "W6", ExpectConstruct: "exit@dfs"},
			{Name: "visited-is-an-error", File: f, Find: "\tif _, ok := o.visited[id]; ok {\n\t\treturn nil\n", Replace: "\tif _, ok := o.visited[id]; ok {\n\t\treturn context.Canceled\n", ExpectRule: "W6", ExpectConstruct: "exit@dfs"},
		}, c14ExtraMutants()...),
	})
}
