package rules

import (
	"fmt"
	"go/ast"
	"go/token"
	"go/types"

	"osmcheck/core"
)

// c02Serializer: round-robin collection. On every path of the serializer goroutine (through helpers), per turn of its
// loop: `dec.outputs[i]` is evaluated once before the step, exactly one receive from the picked channel, the received
// pair is forwarded unchanged exactly once to the consumer's queue after the receive, and the counter is stepped once
// by (i+1)%n; the counter starts at 0.
func c02Serializer(r *core.R, p *c02Pipe) {
	m, info := p.m, p.info
	g := m.goOf("serializer")
	if g == nil {
		r.Anchor("serializer goroutine")
		return
	}
	c, c2 := "collect@"+g.unit.name, "forward@"+g.unit.name
	loop := p.mainLoop(g, p.out)
	if loop == nil {
		r.Anchor("serializer loop that collects from dec." + p.out)
		return
	}
	jObj, okCounter := p.counterOf(g, p.outF)
	if !okCounter {
		// the round robin may be written as nested loops: an endless loop around a range over the outputs
		if rs := p.rangeOver(g, p.out, loop); rs != nil {
			c02SerializerByRange(r, p, g, loop, rs)
			return
		}
		r.Bad(c, loop.Pos(), "the serializer does not pick the channel to collect from as `dec.%s[i]` with one round-robin counter i", p.out)
		return
	}
	const (
		picked = 1 << iota
		stepped
		received
		forwarded
		inLoop
	)
	var coll, fwd []c02Viol
	var recvVars = map[types.Object]bool{}
	nSteps, nRecv, nFwd := 0, 0, 0
	if !p.startsAtZero(jObj) {
		coll = append(coll, c02Viol{jObj.Pos(), fmt.Sprintf("the serializer does not start collecting at slot 0 (the counter %s is not initialised to 0 once), where the reader puts the first block", jObj.Name())})
	}
	doPick := func(st int, ix *ast.IndexExpr) int {
		if c02Ref(info, ix.Index) != jObj {
			coll = append(coll, c02Viol{ix.Pos(), fmt.Sprintf("`%s` is not indexed by the round-robin counter %s", src(r.P.Fset, ix), jObj.Name())})
		}
		if st&picked != 0 {
			coll = append(coll, c02Viol{ix.Pos(), "the channel to collect from is chosen more than once per turn"})
		}
		if st&stepped != 0 {
			coll = append(coll, c02Viol{ix.Pos(), "the channel is picked after the counter was stepped: the turn collects from the next worker's slot"})
		}
		return st | picked
	}
	doRecv := func(st int, from, lhs ast.Expr) int {
		nRecv++
		for _, ix := range c02Picks(info, from, p.outF) {
			st = doPick(st, ix)
		}
		if !p.pickedChan(from, p.outF, map[types.Object]bool{}) {
			coll = append(coll, c02Viol{from.Pos(), fmt.Sprintf("the serializer receives from `%s`, which is not (only) the channel picked as dec.%s[%s]", src(r.P.Fset, from), p.out, jObj.Name())})
		}
		if st&picked == 0 {
			coll = append(coll, c02Viol{from.Pos(), "a pair is received before the channel of this turn was picked"})
		}
		if st&received != 0 {
			coll = append(coll, c02Viol{from.Pos(), "the serializer must receive exactly once per turn (found a second receive in one turn)"})
		}
		if lhs != nil {
			if o := objOf(info, lhs); o != nil {
				recvVars[o] = true
			}
		}
		return st | received
	}
	doFwd := func(st int, s *ast.SendStmt) int {
		nFwd++
		if !m.allDefs(s.Value, map[types.Object]bool{}, func(o pbfOrigin) bool {
			if o.e == nil {
				return false
			}
			if v := objOf(info, o.e); v != nil && o.kind == "assign" {
				return recvVars[v] || c09RecvPair(m, v, p.out, map[types.Object]bool{})
			}
			return o.kind == "assign" && pbfIsZeroLit(o.e) // "nothing received" of a helper's cancelled path; never forwarded (the turn needs a receive first)
		}) {
			fwd = append(fwd, c02Viol{s.Pos(), fmt.Sprintf("`%s` is forwarded to dec.%s, not the pair variable that was received from the worker", src(r.P.Fset, s.Value), p.queue)})
		}
		if st&received == 0 {
			fwd = append(fwd, c02Viol{s.Pos(), "a pair is forwarded to the queue before one was received in this turn"})
		}
		if st&forwarded != 0 {
			fwd = append(fwd, c02Viol{s.Pos(), "a pair is forwarded to the queue more than once per turn"})
		}
		return st | forwarded
	}
	t := m.newTracer()
	t.inlineOnly(m, func(u *unit) bool { return m.hasChanOp(u) || c02TouchesCounter(m, u) })
	t.Event = func(st int, ev *pbfEvent) int {
		switch ev.kind {
		case "head":
			if ev.n == ast.Node(loop) {
				if st&inLoop != 0 {
					if st&received != 0 && st&forwarded == 0 {
						fwd = append(fwd, c02Viol{loop.Pos(), fmt.Sprintf("a turn can end without forwarding the received pair to dec.%s: that block is lost and every later block is delivered one slot early", p.queue)})
					}
					if st&received == 0 {
						coll = append(coll, c02Viol{loop.Pos(), fmt.Sprintf("a turn can end without a receive from dec.%s[%s] (found no receive on some path)", p.out, jObj.Name())})
					}
					if st&stepped == 0 {
						coll = append(coll, c02Viol{loop.Pos(), fmt.Sprintf("the serializer's counter is not advanced by `(%s+1) %% %s` on every turn", jObj.Name(), p.nObj.Name())})
					}
				}
				return inLoop
			}
		case "comm":
			sel := p.selectOf(ev)
			if from, lhs := p.recvClause(sel, p.out); from != nil {
				return doRecv(st, from, lhs)
			}
			if s := p.sendClause(sel, p.queue); s != nil {
				return doFwd(st, s)
			}
		case "node":
			if s, ok := ev.n.(*ast.SendStmt); ok {
				if m.chanClass(nil, s.Chan) == p.queue {
					return doFwd(st, s)
				}
				return st
			}
			if k, nn, ok := c02Step(info, ev.n, jObj); ok {
				nSteps++
				if k != 1 || !p.sameCountExpr(nn, map[types.Object]bool{}) {
					coll = append(coll, c02Viol{ev.n.Pos(), fmt.Sprintf("`%s`: the serializer's counter is not advanced by `(%s+1) %% %s` per turn (the reader dispatches with step 1 modulo the worker count)", src(r.P.Fset, ev.n), jObj.Name(), p.nObj.Name())})
				}
				if st&stepped != 0 {
					coll = append(coll, c02Viol{ev.n.Pos(), "the serializer's counter is stepped more than once per turn"})
				}
				if st&inLoop != 0 && st&picked == 0 {
					coll = append(coll, c02Viol{ev.n.Pos(), "the counter is stepped before the channel of this turn was picked"})
				}
				return st | stepped
			}
			if c02WritesObj(info, ev.n, jObj) {
				if _, isSpec := ev.n.(*ast.ValueSpec); !isSpec && !(st&inLoop == 0 && c02IsZeroDef(info, ev.n, jObj)) {
					coll = append(coll, c02Viol{ev.n.Pos(), fmt.Sprintf("`%s` writes the serializer's counter other than by its round-robin step", src(r.P.Fset, ev.n))})
				}
				return st
			}
			if from, lhs := c02BareRecv(ev.n); from != nil && m.chanClass(nil, from) == p.out {
				return doRecv(st, from, lhs)
			}
			for _, ix := range c02EventPicks(info, ev, p.outF) {
				st = doPick(st, ix)
			}
		case "call", "enter":
			for _, ix := range c02EventPicks(info, ev, p.outF) {
				st = doPick(st, ix)
			}
		}
		return st
	}
	t.Run(g.unit.fi, g.unit.body, 0)
	if nRecv == 0 {
		coll = append(coll, c02Viol{loop.Pos(), "the serializer never receives from dec." + p.out})
	}
	if nSteps == 0 {
		coll = append(coll, c02Viol{loop.Pos(), fmt.Sprintf("the serializer's counter is not advanced by `(%s+1) %% %s` per turn", jObj.Name(), p.nObj.Name())})
	}
	if nFwd == 0 {
		fwd = append(fwd, c02Viol{loop.Pos(), "the serializer never forwards to dec." + p.queue})
	}
	c02Report(r, c, loop.Pos(), coll, t.incomplete, fmt.Sprintf("starts at 0, steps (%s+1)%%%s once per turn, one receive from dec.%s[%s] per turn on every path — the same start, step and modulus as the reader's dispatch", jObj.Name(), p.nObj.Name(), p.out, jObj.Name()))
	c02Report(r, c2, loop.Pos(), fwd, t.incomplete, "on every path each received pair is forwarded once, unchanged, to the ordered queue the consumer reads")
}

// c02Workers: worker k connects inputs[k] to outputs[k], and emits exactly one output pair per input pair on every path.
func c02Workers(r *core.R, p *c02Pipe) {
	m := p.m
	g := m.goOf("worker")
	if g == nil {
		r.Anchor("worker goroutine")
		return
	}
	wu := g.unit
	// ---- wiring
	c02Wiring(r, p, g)

	// ---- one output pair per input pair on all paths
	c := "one-out-per-in@" + wu.name
	var viols []c02Viol
	nRecv := 0
	emitSel := func(ev *pbfEvent) bool { return p.sendClause(p.selectOf(ev), p.out) != nil }
	recv := func(st int, pos token.Pos) int {
		nRecv++
		if st == 1 {
			viols = append(viols, c02Viol{pos, "the next input pair is taken although no output pair was emitted for the previous one (a path skips the send): the serializer's slot for that block is filled by the next block"})
		}
		return 1
	}
	emit := func(st int, pos token.Pos) int {
		if st == 0 {
			viols = append(viols, c02Viol{pos, "an output pair is emitted without a new input pair (two pairs for one block, or a pair before the first): every later block is delivered one slot late"})
		}
		return 0
	}
	t := m.newTracer()
	t.inlineOnly(m, func(u *unit) bool { return m.hasChanOp(u) || c02TouchesCounter(m, u) })
	t.Event = func(st int, ev *pbfEvent) int {
		switch ev.kind {
		case "range":
			if rs := ev.n.(*ast.RangeStmt); m.chanClass(nil, rs.X) == p.in {
				return recv(st, rs.Pos())
			}
		case "comm":
			if emitSel(ev) {
				return emit(st, ev.n.Pos())
			}
			if from, _ := p.recvClause(p.selectOf(ev), p.in); from != nil {
				return recv(st, ev.n.Pos())
			}
		case "node":
			if s, ok := ev.n.(*ast.SendStmt); ok {
				if m.chanClass(nil, s.Chan) == p.out {
					return emit(st, s.Pos())
				}
				return st
			}
			if from, _ := c02BareRecv(ev.n); from != nil && m.chanClass(nil, from) == p.in {
				return recv(st, ev.n.Pos())
			}
		case "return":
			if ev.depth == 0 && st == 1 {
				pos := wu.body.Pos()
				if ev.n != nil {
					pos = ev.n.Pos()
				}
				viols = append(viols, c02Viol{pos, "the worker can return after taking an input pair without emitting an output pair for it"})
			}
		}
		return st
	}
	// `p, more := <-input`: on the edge where the flag is false the channel was closed, no pair was taken
	okVars := p.recvOkVars(wu, p.in)
	t.Edge = func(st int, cond ast.Expr, val bool, _ *FuncInfo) (int, bool) {
		if st == 1 && c02FlagFalse(m.info, okVars, cond, val) {
			return 0, true
		}
		return st, true
	}
	t.Run(wu.fi, wu.body, 0)
	if nRecv == 0 {
		viols = append(viols, c02Viol{wu.body.Pos(), "the worker never receives from dec." + p.in})
	}
	c02Report(r, c, g.stmt.Pos(), viols, t.incomplete, "on every path (through helpers) exactly one pair is emitted per received pair; a decode or input error is emitted as a pair too")
}

// localRoot follows a channel expression through parameters (bound at the call / go statement) and conversions to the
// local variable of the spawner it denotes; nil when that is not a single local.
func (p *c02Pipe) localRoot(e ast.Expr, seen map[types.Object]bool) types.Object {
	e = ast.Unparen(e)
	if call, ok := e.(*ast.CallExpr); ok {
		if tv, ok := p.info.Types[call.Fun]; ok && tv.IsType() && len(call.Args) == 1 {
			return p.localRoot(call.Args[0], seen)
		}
		return nil
	}
	// a channel held in a field of a struct that carries what a closure would capture (`w.in`)
	if base, f := p.m.structLocalField(e); base != nil {
		if inits, ok := p.m.fieldInits(base, 0, f, map[types.Object]bool{}, 0); ok && len(inits) > 0 {
			var root types.Object
			for _, in := range inits {
				x := p.localRoot(in, seen)
				if x == nil || (root != nil && root != x) {
					return nil
				}
				root = x
			}
			return root
		}
		return nil
	}
	id, ok := e.(*ast.Ident)
	if !ok {
		return nil
	}
	o := objOf(p.info, id)
	if o == nil || seen[o] {
		return nil
	}
	seen[o] = true
	defer delete(seen, o)
	defs := p.m.ctxDefs(p.m.defsOf(o))
	var root types.Object
	nArg := 0
	for _, d := range defs {
		if d.kind != "arg" {
			continue
		}
		nArg++
		x := p.localRoot(d.e, seen)
		if x == nil || (root != nil && root != x) {
			return nil
		}
		root = x
	}
	if nArg > 0 {
		if nArg != len(defs) {
			return nil
		}
		return root
	}
	return o
}

// c02CancelAuthority: only the consumer (Close) and the serializer's exit may cancel the decoder's context. The
// serializer is the only goroutine that knows every earlier block has been forwarded; a cancel from the reader or a
// worker makes the serializer and the workers drop blocks that precede the cancelling block in the file.
func c02CancelAuthority(r *core.R, p *c02Pipe) {
	m := p.m
	n := 0
	for _, u := range m.sortedUnits() {
		u := u
		m.walkUnit(u, func(x ast.Node) bool {
			call, ok := x.(*ast.CallExpr)
			if !ok || fieldOf(m.info, call.Fun) != m.cancelField {
				return true
			}
			n++
			c := "cancel-authority@" + c07RoleName(m, u)
			bad := ""
			for _, role := range rolesOf(u) {
				if role == "worker" || role == "reader" {
					bad = role
				}
			}
			switch {
			case bad != "":
				r.Bad(c, call.Pos(), "the decoder's context is cancelled in role %s: the serializer and the workers then drop blocks that precede this point in the file (only the serializer knows that every earlier block was forwarded)", bad)
			case u.roles["serializer"] && !(m.inDeferredLit(u, call) || m.atExitOnly(u, map[*unit]bool{})):
				r.Bad(c, call.Pos(), "the serializer cancels the decoder's context outside its deferred exit function")
			default:
				r.OK(c, call.Pos(), "cancel is called by the consumer (Close) or when the serializer exits, after everything before it has been forwarded (roles %v)", rolesOf(u))
			}
			return true
		})
	}
	if n == 0 {
		r.Anchor("calls of the decoder's cancel func")
	}
}

var _ = token.NoPos
