package rules

import (
	"fmt"
	"go/ast"
	"go/types"
	"strings"

	"osmcheck/core"
)

// c02Reg is one registration of a per-worker channel in a slice of the decoder.
type c02Reg struct {
	class  string
	root   types.Object // the local channel variable that is registered (nil: not resolved)
	index  types.Object // index variable of `dec.S[i] = ..` (nil for append)
	append bool
	inLoop bool
	uncond bool
	body   *ast.BlockStmt
	pos    ast.Node
}

// c02LoopCounter returns the variable that counts the iterations of the spawning loop (for-init variable / range key).
func c02LoopCounter(info *types.Info, loop ast.Stmt) types.Object {
	switch l := loop.(type) {
	case *ast.ForStmt:
		if init, ok := l.Init.(*ast.AssignStmt); ok && len(init.Lhs) == 1 {
			return objOf(info, init.Lhs[0])
		}
	case *ast.RangeStmt:
		if l.Key != nil {
			return objOf(info, l.Key)
		}
	}
	return nil
}

// valueRoot resolves the channel value e (the idx-th result when e is a call of a declared function) to the local
// variable it denotes, through conversions, parameters and returned locals.
func (p *c02Pipe) valueRoot(e ast.Expr, idx int, depth int) types.Object {
	if e == nil || depth > 6 {
		return nil
	}
	e = ast.Unparen(e)
	if call, ok := e.(*ast.CallExpr); ok {
		if tv, ok := p.info.Types[call.Fun]; ok && tv.IsType() && len(call.Args) == 1 {
			return p.valueRoot(call.Args[0], 0, depth+1)
		}
		fn := callee(p.info, call)
		if fn == nil || p.m.funcs[fn] == nil {
			return nil
		}
		var root types.Object
		for _, ret := range p.m.returnsOf(p.m.funcs[fn], idx) {
			x := p.valueRoot(ret, 0, depth+1)
			if x == nil || (root != nil && root != x) {
				return nil
			}
			root = x
		}
		return root
	}
	return p.localRoot(e, map[types.Object]bool{})
}

// c02Wiring: worker k is wired slot k -> slot k. The channels the worker goroutine receives from and sends on are
// locals made in its iteration of the spawning loop, and that same iteration registers exactly them, unconditionally
// and once, at the worker's slot of the input and of the output class: by append, by `dec.S[i] = ch` with the loop
// counter, as fields of one struct appended / stored (`lanes`), also when a helper makes the channels, starts the
// worker and returns them. Nothing else writes those slices (a presizing `make` before the loop excepted).
func c02Wiring(r *core.R, p *c02Pipe, g *goSite) {
	m, info := p.m, p.info
	c := "wiring@" + g.unit.name
	inS, outS := m.slotOf(p.in), m.slotOf(p.out)
	var rngRoots, sndRoots []types.Object
	for _, op := range p.ops {
		if !op.u.onlyRole("worker") {
			continue
		}
		restore := m.view.withCalls(op.ctx)
		switch {
		case (op.kind == "range" || op.kind == "recv") && op.class == p.in:
			rngRoots = append(rngRoots, p.localRoot(op.expr, map[types.Object]bool{}))
		case op.kind == "send" && op.class == p.out:
			sndRoots = append(sndRoots, p.localRoot(op.expr, map[types.Object]bool{}))
		}
		restore()
	}
	counter := c02LoopCounter(info, p.spawnLoop)
	var regs []c02Reg
	var other []string
	inSpawner := map[ast.Node]bool{}
	isSlice := func(f *types.Var) bool { return f != nil && (f == inS.slice || f == outS.slice) }
	// classes registered by storing value v (idx-th result if a call) at a slot of slice field f
	addRegs := func(s *pbfSite, as *ast.AssignStmt, f *types.Var, v ast.Expr, idx int, index types.Object, isAppend bool) {
		base := c02Reg{index: index, append: isAppend, uncond: true, body: s.body(), pos: as}
		for k, fr := range s.frames {
			x := fr.link
			if k == len(s.frames)-1 {
				x = as
			}
			if p.spawnLoop.Pos() <= x.Pos() && x.End() <= p.spawnLoop.End() {
				base.inLoop = true
			}
			if fr.deferred || !c07OnlyUnder(parentsOf(r.P, fr.u.fi), x, fr.body, p.spawnLoop) {
				base.uncond = false
			}
		}
		for _, slot := range []struct {
			s     pbfSlot
			class string
		}{{inS, p.in}, {outS, p.out}} {
			if slot.s.slice != f {
				continue
			}
			reg := base
			reg.class = slot.class
			if slot.s.elem == nil {
				reg.root = p.valueRoot(v, idx, 0)
			} else {
				// the value is a struct (literal) whose field holds the channel
				lit, _ := ast.Unparen(pbfStripAddr(v)).(*ast.CompositeLit)
				if lit != nil {
					reg.root = p.valueRoot(c09LitField(info, lit, slot.s.elem), 0, 0)
				}
			}
			regs = append(regs, reg)
		}
	}
	m.deepWalk(m.byDecl[m.start.Obj], func(s *pbfSite, n ast.Node) bool {
		as, ok := n.(*ast.AssignStmt)
		if !ok {
			return true
		}
		for i, l := range as.Lhs {
			l = ast.Unparen(l)
			if ix, ok := l.(*ast.IndexExpr); ok && isSlice(fieldOf(info, ix.X)) {
				inSpawner[as] = true
				f := fieldOf(info, ix.X)
				switch {
				case len(as.Lhs) == len(as.Rhs):
					addRegs(s, as, f, as.Rhs[i], 0, objOf(info, ix.Index), false)
				case len(as.Rhs) == 1:
					addRegs(s, as, f, as.Rhs[0], i, objOf(info, ix.Index), false)
				}
				continue
			}
			f := fieldOf(info, l)
			if !isSlice(f) {
				continue
			}
			inSpawner[as] = true
			if len(as.Lhs) != len(as.Rhs) {
				other = append(other, r.P.Rel(as.Pos()))
				continue
			}
			rhs := ast.Unparen(as.Rhs[i])
			call, isCall := rhs.(*ast.CallExpr)
			switch {
			case isCall && builtinName(info, call) == "append" && len(call.Args) == 2 && fieldOf(info, call.Args[0]) == f && !call.Ellipsis.IsValid():
				addRegs(s, as, f, call.Args[1], 0, nil, true)
			case isCall && builtinName(info, call) == "make", isNilIdent(rhs):
				// presizing / resetting before the loop
				if p.spawnLoop.Pos() <= as.Pos() && as.End() <= p.spawnLoop.End() {
					other = append(other, r.P.Rel(as.Pos()))
				}
			default:
				other = append(other, r.P.Rel(as.Pos()))
			}
		}
		return true
	})
	for _, u := range m.sortedUnits() {
		m.walkUnit(u, func(n ast.Node) bool {
			if as, ok := n.(*ast.AssignStmt); ok && !inSpawner[as] {
				for _, l := range as.Lhs {
					l = ast.Unparen(l)
					if ix, ok := l.(*ast.IndexExpr); ok {
						l = ix.X
					}
					if isSlice(fieldOf(info, l)) {
						other = append(other, r.P.Rel(as.Pos()))
					}
				}
			}
			return true
		})
	}
	var why []string
	byClass := map[string][]c02Reg{}
	for _, reg := range regs {
		byClass[reg.class] = append(byClass[reg.class], reg)
	}
	check := func(class string, roots []types.Object, what string) {
		rs := byClass[class]
		if len(rs) != 1 {
			why = append(why, fmt.Sprintf("%d registrations of a channel in dec.%s per iteration (exactly one is required)", len(rs), class))
			return
		}
		reg := rs[0]
		switch {
		case !reg.inLoop || !reg.uncond:
			why = append(why, fmt.Sprintf("the registration in dec.%s at %s is not an unconditional statement of the spawning loop", class, r.P.Rel(reg.pos.Pos())))
		case !reg.append && (reg.index == nil || reg.index != counter):
			why = append(why, fmt.Sprintf("the channel is stored in dec.%s at an index that is not the counter of the spawning loop", class))
		case reg.root == nil || !pbfPerIterationStmt(reg.root, p.spawnLoop, m, reg.inLoop):
			why = append(why, fmt.Sprintf("what is registered in dec.%s is not a channel variable made in the iteration", class))
		}
		if len(roots) == 0 {
			why = append(why, "the worker has no "+what+" on dec."+class)
		}
		for _, v := range roots {
			if v == nil || v != reg.root {
				why = append(why, fmt.Sprintf("the worker's %s is not on the channel registered in dec.%s in its iteration", what, class))
			}
		}
	}
	check(p.in, rngRoots, "receive")
	check(p.out, sndRoots, "send")
	if len(byClass[p.in]) == 1 && len(byClass[p.out]) == 1 && byClass[p.in][0].append != byClass[p.out][0].append {
		why = append(why, "input and output channel are registered with different index disciplines (append vs. index)")
	}
	if len(other) > 0 {
		why = append(why, "the slices are also written at "+strings.Join(c02Uniq(other), ", "))
	}
	r.Check(len(why) == 0, c, g.stmt.Pos(),
		fmt.Sprintf("worker k receives from the channel registered at slot k of dec.%s and sends on the channel registered at slot k of dec.%s in the same iteration of the spawning loop (each registered exactly once, unconditionally, nowhere else)", p.in, p.out),
		fmt.Sprintf("worker k is not wired %s[k]→%s[k]: %s", p.in, p.out, strings.Join(c02Uniq(why), "; ")))
}

// pbfPerIterationStmt: local variable o is a fresh variable in every iteration of loop: declared inside the loop body,
// or inside a function (other than the one holding the loop) that is called from inside the loop.
func pbfPerIterationStmt(o types.Object, loop ast.Stmt, m *pbfModel, inLoopChain bool) bool {
	body := pbfLoopBody(loop)
	if o == nil || body == nil {
		return false
	}
	if o.Pos() > body.Pos() && o.Pos() < body.End() {
		return true
	}
	fi := m.funcAt(o.Pos())
	if fi == nil || !inLoopChain {
		return false
	}
	return !(fi.Decl.Pos() <= loop.Pos() && loop.End() <= fi.Decl.End())
}
