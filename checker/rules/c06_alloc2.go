package rules

import (
	"go/ast"
	"go/types"
	"math/big"

	"osmcheck/core"
)

// c06E11 drives the allocation-size check (see c06_alloc.go).
func c06E11(r *core.R) {
	m := c01PBFModel(r)
	if m == nil {
		return
	}
	info := m.info
	maxCap := new(big.Int).Sub(new(big.Int).Lsh(big.NewInt(1), 31), big.NewInt(1))
	n := 0
	for _, fi := range allFuncs(m.pk) {
		if isGenerated(r.P, fi.Decl.Pos()) {
			continue
		}
		fn0 := c01FnOf(r.P, fi)
		ast.Inspect(fi.Decl.Body, func(x ast.Node) bool {
			call, ok := x.(*ast.CallExpr)
			if !ok {
				return true
			}
			var sizes []ast.Expr
			switch {
			case builtinName(info, call) == "make" && len(call.Args) >= 2:
				switch info.TypeOf(call.Args[0]).Underlying().(type) {
				case *types.Slice, *types.Map:
					sizes = call.Args[1:]
				}
				// channel capacities are not sizes of decoded data
			default:
				// Grow of bytes.Buffer / strings.Builder / slices panics on a negative count just like make
				if fn := callee(info, call); fn != nil && fn.Name() == "Grow" && fn.Pkg() != nil && len(call.Args) >= 1 {
					switch fn.Pkg().Path() {
					case "bytes", "strings", "slices":
						sizes = call.Args[len(call.Args)-1:]
					}
				}
			}
			if len(sizes) == 0 {
				return true
			}
			f := fn0.innermost(call)
			c := "alloc@" + fi.Name() + " " + src(r.P.Fset, call)
			verdict, detail := "", ""
			decoded := false
			for _, arg := range sizes {
				if tv, isConst := info.Types[arg]; isConst && tv.Value != nil {
					continue
				}
				ev := &c06AllocEval{r: r, m: m, info: info, pos: call.Pos()}
				iv := ev.eval(f, arg, 0)
				decoded = decoded || iv.decoded
				switch {
				case iv.wrap != "":
					if iv.decoded || ev.dependsOnDecoded(f, arg, 0) {
						decoded = true
						verdict = iv.wrap
					}
				case iv.unknown != "":
					if iv.decoded || ev.dependsOnDecoded(f, arg, 0) {
						decoded = true
						verdict = iv.unknown
					}
				case !iv.decoded:
				case iv.lo.Sign() < 0:
					verdict = "the size `" + src(r.P.Fset, arg) + "` can be negative (as low as " + iv.lo.String() + ")"
				case iv.hi.Cmp(maxCap) > 0:
					verdict = "the size `" + src(r.P.Fset, arg) + "` is not bounded below 2^31 (can reach " + iv.hi.String() + ")"
				default:
					detail += "`" + src(r.P.Fset, arg) + "` in [" + iv.lo.String() + ", " + iv.hi.String() + "] "
				}
			}
			n++
			switch {
			case verdict != "":
				r.Bad(c, call.Pos(), "%s: the size derives from a value decoded from the input that is not bounded from both sides by constants on every path (interval evaluation in the expressions' own integer types), so a damaged size field makes make panic in a goroutine of the decoder and the process dies instead of the scan ending in an error", verdict)
			case !decoded:
				r.OKTrivial(c, call.Pos(), "the size does not derive from a decoded quantity (constants, lengths / counts of data already in memory, counters)")
			default:
				r.OK(c, call.Pos(), "every decoded quantity in the size is bounded from both sides by constants on every path, and the size arithmetic stays within its integer types: %s", detail)
			}
			return true
		})
	}
	if n == 0 {
		r.Anchor("make calls with a non-constant size in package osmpbf")
	}
}
