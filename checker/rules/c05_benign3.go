package rules

import (
	"strings"

	"osmcheck/core"
)

// Round-6 shape class for the JSON reader: the per-type switch replaced by a read-only TABLE of constructors keyed by
// the type string plus a type switch on the constructed value to pick the collection. The table is consulted with a
// string the path may not know (the rules that do not fix the `type` key): the lookup then forks over the entries.

const c05ReaderSwitch = "\t\tswitch t {\n\t\tcase \"node\":\n\t\t\tn := &Node{}\n\t\t\terr = unmarshalJSON(data, n)\n\t\t\tif err != nil {\n\t\t\t\treturn err\n\t\t\t}\n\t\t\to.Nodes = append(o.Nodes, n)\n\t\tcase \"way\":\n\t\t\tw := &Way{}\n\t\t\terr = unmarshalJSON(data, w)\n\t\t\tif err != nil {\n\t\t\t\treturn err\n\t\t\t}\n\t\t\to.Ways = append(o.Ways, w)\n\t\tcase \"relation\":\n\t\t\tr := &Relation{}\n\t\t\terr = unmarshalJSON(data, r)\n\t\t\tif err != nil {\n\t\t\t\treturn err\n\t\t\t}\n\t\t\to.Relations = append(o.Relations, r)\n\t\tcase \"changeset\":\n\t\t\tcs := &Changeset{}\n\t\t\terr = unmarshalJSON(data, cs)\n\t\t\tif err != nil {\n\t\t\t\treturn err\n\t\t\t}\n\t\t\to.Changesets = append(o.Changesets, cs)\n\t\tcase \"note\":\n\t\t\tn := &Note{}\n\t\t\terr = unmarshalJSON(data, n)\n\t\t\tif err != nil {\n\t\t\t\treturn err\n\t\t\t}\n\t\t\to.Notes = append(o.Notes, n)\n\t\tcase \"user\":\n\t\t\tu := &User{}\n\t\t\terr = unmarshalJSON(data, u)\n\t\t\tif err != nil {\n\t\t\t\treturn err\n\t\t\t}\n\t\t\to.Users = append(o.Users, u)\n\t\tdefault:\n\t\t\treturn fmt.Errorf(\"unknown type of '%s' for element index %d\", t, index)\n\t\t}\n"

// c05ReaderTable: way = the constructor registered for "way".
func c05ReaderTable(way string) string {
	return "\t\tconstructors := map[string]func() Object{\n\t\t\t\"node\":      func() Object { return &Node{} },\n\t\t\t\"way\":       func() Object { return &" + way + "{} },\n\t\t\t\"relation\":  func() Object { return &Relation{} },\n\t\t\t\"changeset\": func() Object { return &Changeset{} },\n\t\t\t\"note\":      func() Object { return &Note{} },\n\t\t\t\"user\":      func() Object { return &User{} },\n\t\t}\n\t\tconstruct, known := constructors[t]\n\t\tif !known {\n\t\t\treturn fmt.Errorf(\"unknown type of '%s' for element index %d\", t, index)\n\t\t}\n\t\tobj := construct()\n\t\tif err = unmarshalJSON(data, obj); err != nil {\n\t\t\treturn err\n\t\t}\n\t\tswitch e := obj.(type) {\n\t\tcase *Node:\n\t\t\to.Nodes = append(o.Nodes, e)\n\t\tcase *Way:\n\t\t\to.Ways = append(o.Ways, e)\n\t\tcase *Relation:\n\t\t\to.Relations = append(o.Relations, e)\n\t\tcase *Changeset:\n\t\t\to.Changesets = append(o.Changesets, e)\n\t\tcase *Note:\n\t\t\to.Notes = append(o.Notes, e)\n\t\tcase *User:\n\t\t\to.Users = append(o.Users, e)\n\t\t}\n"
}

var c05Benign3 = []core.Mutant{
	{Name: "reader-constructor-table-and-type-switch", File: "osm.go", Find: c05ReaderSwitch, Replace: c05ReaderTable("Way")},
}

var c05Mutants3 = []core.Mutant{
	{Name: "constructor-table-misses-a-kind", File: "osm.go", Find: c05ReaderSwitch, Replace: strings.Replace(c05ReaderTable("Way"), "\t\t\t\"user\":      func() Object { return &User{} },\n", "", 1), ExpectRule: "J2", ExpectConstruct: "case \"user\""},
	{Name: "constructor-table-entry-of-other-type", File: "osm.go", Find: c05ReaderSwitch, Replace: c05ReaderTable("Node"), ExpectRule: "J2", ExpectConstruct: "case \"way\""},
}
