package rules

import (
	"fmt"
	"go/ast"
	"go/token"
	"go/types"
	"sort"
	"strings"

	"golang.org/x/tools/go/cfg"

	"osmcheck/core"
)

func init() {
	register(&core.Property{
		ID:    "C01",
		Title: "PBF scan yields exactly the encoded header and elements, field for field",
		Explanation: "Structural necessary conditions, decided against the format definition parsed from osmformat.proto on every run: " +
			"(R1) descriptor agreement: every protoscan read sits under the case of a field number the message defines and uses the read method of that field's declared type (packed columns through Iterator with element reads and Count wire class of the column's type); every descriptor field of a decoded message has a case; the generated struct tags agree with the .proto; " +
			"(R2) freshness: in the dense/way/relation decoders no cached iterator left over from an earlier block or element can be used: an exact reachable-valuation analysis over found-flags and iterator states proves every use sees an iterator assigned in this call or nil; " +
			"(R3) block parameters (granularity, offsets, date granularity, string table) are reset or re-allocated on every path before a block is parsed, and all parameters are parsed before any group is decoded; " +
			"(R4) provenance: every element field is computed from the column the format assigns to it and from no other column, through the string table / offsets / granularities / unit constants the format prescribes; " +
			"(R5) columns marked DELTA coded reach the element through a running sum, the others do not; " +
			"(R6) every element literal starts with Visible: true; header fields come from the same-named header getters, the bbox edges from left/right/bottom/top scaled by 1e-9, the replication timestamp only under a presence test. " +
			"NOT decided: numeric equality of coordinates/timestamps (overflow, rounding), UTF-8 and zlib handling, behaviour of protoscan and protobuf-go themselves, files using non-packed encodings of packed fields.",
		Assumptions: []string{"go/types, go/cfg (x/tools v0.29.0)", "osmformat.proto in the repository is the format definition (its `// DELTA coded` comments mark delta columns)", "OSMData blobs hold a PrimitiveBlock", "protoscan read methods decode the wire encoding their name says"},
		LevelText:   "Structural necessary conditions of field-for-field faithful decoding, decided for every read site, every cached iterator use on every path, and every element field store: agreement with the parsed format descriptor, no stale per-decoder state, right column / formula shape / delta coding per field.",
		LevelNote:   "Trusts the type checker, go/cfg, the .proto file as specification, and the protoscan/protobuf libraries. Numeric results are not decided.",
		Technique:   "descriptor-driven typing of protoscan messages (case/field/method agreement) + exact powerset abstract interpretation of found-flags and iterator states over go/cfg + syntactic provenance tracing of field stores against a column table derived from the .proto",
		DesignRef:   "DESIGN.md §3.2, §5 C01, Appendix A",
		Rules: []*core.Rule{
			{ID: "R1", Floor: 110, Doc: "descriptor agreement of cases, read methods, iterator element types, generated tags", Run: c01R1},
			{ID: "R2", Floor: 20, Doc: "no stale cached iterator is used", Run: c01R2},
			{ID: "R3", Floor: 6, Doc: "block parameters reset before parsing; parameters parsed before groups", Run: c01R3},
			{ID: "R4", Floor: 36, Doc: "field provenance and formula shape", Run: c01R4},
			{ID: "R6", Floor: 16, Doc: "format defaults and header mapping", Run: c01R6},
		},
		Mutants: []core.Mutant{
			{Name: "dense-uid-int32", File: "osmpbf/decode_data.go", Find: "v5, err := dec.uids.Sint32()", Replace: "v5, err := dec.uids.Int32()", ExpectRule: "R1", ExpectConstruct: "uids"},
			{Name: "info-uid-as-uint32", File: "osmpbf/decode_data.go", Find: "\t\t\t\tcase 4:\n\t\t\t\t\tv, err := info.Int32()\n\t\t\t\t\tif err != nil {\n\t\t\t\t\t\treturn nil, err\n\t\t\t\t\t}\n\t\t\t\t\tway.UserID", Replace: "\t\t\t\tcase 4:\n\t\t\t\t\tv, err := info.Uint32()\n\t\t\t\t\tif err != nil {\n\t\t\t\t\t\treturn nil, err\n\t\t\t\t\t}\n\t\t\t\t\tway.UserID", ExpectRule: "R1", ExpectConstruct: "scanWays"},
			{Name: "lat-lon-cases-swapped", File: "osmpbf/decode_data.go", Find: "\t\tcase 8: // lat\n\t\t\tdec.lats, err = msg.Iterator(dec.lats)\n\t\t\tfoundLats = true\n\t\tcase 9: // lon\n\t\t\tdec.lons, err = msg.Iterator(dec.lons)\n\t\t\tfoundLons = true", Replace: "\t\tcase 9: // lat\n\t\t\tdec.lats, err = msg.Iterator(dec.lats)\n\t\t\tfoundLats = true\n\t\tcase 8: // lon\n\t\t\tdec.lons, err = msg.Iterator(dec.lons)\n\t\t\tfoundLons = true", ExpectRule: "R4", ExpectConstruct: "Node.Lat"},
			{Name: "granularity-case-16", File: "osmpbf/decode_data.go", Find: "\t\tcase 17:\n\t\t\tv, err := msg.Int32()\n\t\t\tdec.primitiveBlock.Granularity = &v", Replace: "\t\tcase 16:\n\t\t\tv, err := msg.Int32()\n\t\t\tdec.primitiveBlock.Granularity = &v", ExpectRule: "R1", ExpectConstruct: "PrimitiveBlock"},
			{Name: "drop-keyvals-nil", File: "osmpbf/decode_data.go", Find: "\tif !foundKeyVals {\n\t\tdec.keyvals = nil\n\t}\n", Replace: "\tif !foundKeyVals {\n\t}\n", ExpectRule: "R2", ExpectConstruct: "keyvals"},
			{Name: "drop-visibles-nil", File: "osmpbf/decode_data.go", Find: "\t\t\tif !foundVisibles {\n\t\t\t\tdec.visibles = nil\n\t\t\t}\n", Replace: "\t\t\tif !foundVisibles {\n\t\t\t}\n", ExpectRule: "R2", ExpectConstruct: "visibles"},
			{Name: "drop-noinfo-reset", File: "osmpbf/decode_data.go", Find: "\tif !foundInfo {\n\t\tdec.versions = nil\n\t\tdec.timestamps = nil", Replace: "\tif !foundInfo {\n\t\tdec.timestamps = nil", ExpectRule: "R2", ExpectConstruct: "versions"},
			{Name: "tags-with-keys-or-vals", File: "osmpbf/decode_data.go", Find: "\tif foundKeys && foundVals {\n\t\tvar err error\n\t\tway.Tags, err = scanTags(st, dec.keys, dec.vals)", Replace: "\tif foundKeys || foundVals {\n\t\tvar err error\n\t\tway.Tags, err = scanTags(st, dec.keys, dec.vals)", ExpectRule: "R2", ExpectConstruct: "scanWays"},
			{Name: "members-without-types-flag", File: "osmpbf/decode_data.go", Find: "if foundRoles && foundMemids && foundTypes {", Replace: "if foundRoles && (foundMemids || foundTypes) {", ExpectRule: "R2", ExpectConstruct: "types"},
			{Name: "drop-granularity-reset", File: "osmpbf/decode_data.go", Find: "\t\tdec.primitiveBlock.Granularity = nil\n", Replace: "", ExpectRule: "R3", ExpectConstruct: "Granularity"},
			{Name: "drop-stringtable-reset", File: "osmpbf/decode_data.go", Find: "\t\tdec.primitiveBlock.Stringtable.S = dec.primitiveBlock.Stringtable.S[:0]\n", Replace: "", ExpectRule: "R3", ExpectConstruct: "S"},
			{Name: "drop-dategranularity-reset", File: "osmpbf/decode_data.go", Find: "\t\tdec.primitiveBlock.DateGranularity = nil\n", Replace: "", ExpectRule: "R3", ExpectConstruct: "DateGranularity"},
			{Name: "lat-uses-lon-offset", File: "osmpbf/decode_data.go", Find: "latOffset := dec.primitiveBlock.GetLatOffset()", Replace: "latOffset := dec.primitiveBlock.GetLonOffset()", ExpectRule: "R4", ExpectConstruct: "Node.Lat"},
			{Name: "id-not-delta", File: "osmpbf/decode_data.go", Find: "\t\tid += v1\n\t\tn.ID = osm.NodeID(id)", Replace: "\t\tid = v1\n\t\tn.ID = osm.NodeID(id)", ExpectRule: "R4", ExpectConstruct: "Node.ID"},
			{Name: "way-version-delta", File: "osmpbf/decode_data.go", Find: "\t\t\t\t\tway.Version = int(v)", Replace: "\t\t\t\t\tway.Version += int(v)", ExpectRule: "R4", ExpectConstruct: "Way.Version"},
			{Name: "way-lon-no-granularity", File: "osmpbf/decode_data.go", Find: "way.Nodes[index].Lon = 1e-9 * float64(lonOffset+(granularity*prev))", Replace: "way.Nodes[index].Lon = 1e-9 * float64(lonOffset+prev)", ExpectRule: "R4", ExpectConstruct: "WayNode.Lon"},
			{Name: "user-from-uid", File: "osmpbf/decode_data.go", Find: "n.User, err = stringAt(st, int64(usid))", Replace: "n.User, err = stringAt(st, int64(uid))", ExpectRule: "R4", ExpectConstruct: "Node.User"},
			{Name: "tag-value-from-key", File: "osmpbf/decode_data.go", Find: "\t\t\tValue: val,\n\t\t}\n\t\tindex++", Replace: "\t\t\tValue: key + val[:0],\n\t\t}\n\t\tindex++", ExpectRule: "R4", ExpectConstruct: "Tag.Value"},
			{Name: "timestamp-seconds", File: "osmpbf/decode_data.go", Find: "millisec := time.Duration(timestamp*dateGranularity) * time.Millisecond", Replace: "millisec := time.Duration(timestamp*dateGranularity) * time.Second", ExpectRule: "R4", ExpectConstruct: "Node.Timestamp"},
			{Name: "relation-not-visible-by-default", File: "osmpbf/decode_data.go", Find: "\t\trelation = &osm.Relation{Visible: true}\n\t}\n\n\tvar foundKeys", Replace: "\t\trelation = &osm.Relation{}\n\t}\n\n\tvar foundKeys", ExpectRule: "R6", ExpectConstruct: "Relation"},
			{Name: "header-source-from-writingprogram", File: "osmpbf/decode.go", Find: "Source:             headerBlock.GetSource(),", Replace: "Source:             headerBlock.GetWritingprogram(),", ExpectRule: "R6", ExpectConstruct: "Source"},
			{Name: "bbox-top-bottom-swapped", File: "osmpbf/decode.go", Find: "MinLat: 1e-9 * float64(*headerBlock.Bbox.Bottom),", Replace: "MinLat: 1e-9 * float64(*headerBlock.Bbox.Top),", ExpectRule: "R6", ExpectConstruct: "MinLat"},
			{Name: "member-type-way-as-node", File: "osmpbf/decode_data.go", Find: "\t\tcase osmpbf.Relation_WAY:\n\t\t\tmembers[index].Type = osm.TypeWay", Replace: "\t\tcase osmpbf.Relation_WAY:\n\t\t\tmembers[index].Type = osm.TypeNode", ExpectRule: "R4", ExpectConstruct: "Member.Type"},
		},
	})
}

func c01ModelOrAnchor(r *core.R) *c01Model {
	cm := c01Get(r)
	for _, e := range cm.errs {
		r.Anchor("PBF decoding model: " + e)
	}
	if len(cm.errs) > 0 {
		return nil
	}
	return cm
}

// ---------------------------------------------------------------- R1

func c01R1(r *core.R) {
	cm := c01ModelOrAnchor(r)
	if cm == nil {
		return
	}
	info := cm.m.info
	fs := r.P.Fset
	r.Stat("protoscan_message_variables", len(cm.vars))
	r.Stat("descriptor_messages", len(cm.desc.Messages))
	// (a) every read under the right case with the right method
	for _, rd := range cm.reads {
		c := "read@" + rd.fi.Name() + " " + src(fs, rd.call)
		if rd.mv == nil {
			r.Unknown(c, rd.call.Pos(), "the protoscan message `%s` could not be tied to a message of the format definition", src(fs, rd.call.Fun.(*ast.SelectorExpr).X))
			continue
		}
		if rd.caseN < 0 {
			r.Unknown(c, rd.call.Pos(), "read is not inside a `case N` of `switch %s.FieldNumber()` (or an `fn == N` branch)", rd.mv.obj.Name())
			continue
		}
		fd := cm.desc.Messages[rd.mv.msg].Fields[rd.caseN]
		c = fmt.Sprintf("read@%s %s.%d %s", rd.fi.Name(), rd.mv.msg, rd.caseN, rd.method)
		if fd == nil {
			r.Bad(c, rd.call.Pos(), "message %s has no field %d in osmformat.proto, yet `%s` decodes one: the value of whatever field carries that number is misread (and the intended field is skipped)", rd.mv.msg, rd.caseN, src(fs, rd.call))
			continue
		}
		want := ""
		switch {
		case fd.IsMsg:
			want = "MessageData"
		case fd.Label == "repeated" && fd.Packed:
			want = "Iterator"
		case fd.IsEnum:
			want = "Int32"
		default:
			want = c01ReadMethod[fd.Type]
		}
		if rd.method == want || (want == "MessageData" && rd.method == "Message") {
			r.OK(c, rd.call.Pos(), "%s.%s = %d is `%s %s%s`: read with %s", rd.mv.msg, fd.Name, fd.Num, fd.Label, fd.Type, map[bool]string{true: " [packed]", false: ""}[fd.Packed], rd.method)
		} else {
			r.Bad(c, rd.call.Pos(), "%s.%s = %d is declared `%s %s` but is read with %s (the format requires %s): values are mis-decoded (zig-zag vs plain varint, width, or message vs scalar)", rd.mv.msg, fd.Name, fd.Num, fd.Label, fd.Type, rd.method, want)
		}
	}
	// proto.Unmarshal of embedded message data into the generated type
	for _, u := range cm.m.sortedUnits() {
		fd, ok := u.node.(*ast.FuncDecl)
		if !ok || !u.roles["worker"] || isGenerated(r.P, fd.Pos()) {
			continue
		}
		ast.Inspect(fd.Body, func(n ast.Node) bool {
			call, ok := n.(*ast.CallExpr)
			if !ok || !isPkgFunc(callee(info, call), "google.golang.org/protobuf/proto", "Unmarshal") || len(call.Args) != 2 {
				return true
			}
			msg := cm.dataMsg[objOf(info, call.Args[0])]
			if msg == "" {
				return true
			}
			c := "unmarshal@" + u.fi.Name() + " " + msg
			tn := namedPath(info.TypeOf(call.Args[1]))
			if strings.HasSuffix(tn, "/osmpbf/internal/osmpbf."+msg) {
				r.OK(c, call.Pos(), "embedded %s data is unmarshalled into *%s", msg, msg)
			} else {
				r.Bad(c, call.Pos(), "data of an embedded %s message is unmarshalled into %s", msg, tn)
			}
			return true
		})
	}
	// (b) cases per message: defined numbers, and completeness
	cases := map[string]map[int]token.Pos{}
	for _, mv := range cm.vars {
		if cases[mv.msg] == nil {
			cases[mv.msg] = map[int]token.Pos{}
		}
		fnVars := map[types.Object]bool{}
		ast.Inspect(mv.fi.Decl.Body, func(x ast.Node) bool {
			switch s := x.(type) {
			case *ast.AssignStmt:
				if len(s.Lhs) == 1 && len(s.Rhs) == 1 {
					if call, ok := s.Rhs[0].(*ast.CallExpr); ok && isMethod(callee(info, call), protoscanMsg, "FieldNumber") && rootObj(info, call.Fun.(*ast.SelectorExpr).X) == mv.obj {
						fnVars[objOf(info, s.Lhs[0])] = true
					}
				}
			case *ast.SwitchStmt:
				if s.Tag == nil {
					return true
				}
				call, ok := ast.Unparen(s.Tag).(*ast.CallExpr)
				if !ok || !isMethod(callee(info, call), protoscanMsg, "FieldNumber") || rootObj(info, call.Fun.(*ast.SelectorExpr).X) != mv.obj {
					return true
				}
				for _, cl := range s.Body.List {
					for _, e := range cl.(*ast.CaseClause).List {
						if v, ok := constInt(info, e); ok {
							cases[mv.msg][int(v)] = e.Pos()
						}
					}
				}
			case *ast.BinaryExpr:
				if s.Op == token.EQL && fnVars[objOf(info, s.X)] {
					if v, ok := constInt(info, s.Y); ok {
						cases[mv.msg][int(v)] = s.Pos()
					}
				}
			}
			return true
		})
	}
	// descriptor fields the decoder deliberately does not turn into objects
	exempt := map[string]string{"PrimitiveGroup.changesets": "changesets in data blocks are not OSM elements the scanner returns"}
	var msgs []string
	for mname := range cases {
		msgs = append(msgs, mname)
	}
	sort.Strings(msgs)
	for _, mname := range msgs {
		dm := cm.desc.Messages[mname]
		var nums []int
		for n := range cases[mname] {
			nums = append(nums, n)
		}
		sort.Ints(nums)
		for _, n := range nums {
			c := fmt.Sprintf("case@%s %d", mname, n)
			if fd := dm.Fields[n]; fd != nil {
				r.OK(c, cases[mname][n], "field %d of %s is `%s`", n, mname, fd.Name)
			} else {
				r.Bad(c, cases[mname][n], "message %s defines no field %d", mname, n)
			}
		}
		var fnums []int
		for n := range dm.Fields {
			fnums = append(fnums, n)
		}
		sort.Ints(fnums)
		for _, n := range fnums {
			fd := dm.Fields[n]
			c := fmt.Sprintf("field@%s.%s", mname, fd.Name)
			if _, ok := cases[mname][n]; ok {
				r.OK(c, cases[mname][n], "decoded under case %d", n)
			} else if why, ok := exempt[mname+"."+fd.Name]; ok {
				r.OKTrivial(c, token.NoPos, "not decoded on purpose: %s", why)
			} else {
				r.Bad(c, token.NoPos, "%s.%s = %d has no case in the decoder: files that carry it lose that part of every element", mname, fd.Name, n)
			}
		}
	}
	// (c) iterator fields: column agreement and element reads
	var itFields []*types.Var
	for f := range cm.iters {
		itFields = append(itFields, f)
	}
	sort.Slice(itFields, func(i, j int) bool { return itFields[i].Pos() < itFields[j].Pos() })
	for _, f := range itFields {
		c := "iterator@" + f.Name()
		col, why := cm.iterColumn(f)
		if col == nil {
			r.Bad(c, f.Pos(), "cached iterator %s: %s", f.Name(), why)
			continue
		}
		if col.Label != "repeated" || !col.Packed {
			r.Bad(c, f.Pos(), "cached iterator %s is filled from %s, which is not a packed repeated field", f.Name(), col.Name)
			continue
		}
		var srcs []string
		for _, s := range cm.iters[f].sources {
			srcs = append(srcs, fmt.Sprintf("%s.%s", s.msg, cm.desc.Messages[s.msg].Fields[s.num].Name))
		}
		r.OK(c, f.Pos(), "filled from %s: packed %s", strings.Join(srcs, ", "), col.Type)
	}
	for _, u := range cm.m.sortedUnits() {
		fd, ok := u.node.(*ast.FuncDecl)
		if !ok || !u.roles["worker"] || isGenerated(r.P, fd.Pos()) {
			continue
		}
		ast.Inspect(fd.Body, func(n ast.Node) bool {
			call, ok := n.(*ast.CallExpr)
			if !ok {
				return true
			}
			sel, ok := call.Fun.(*ast.SelectorExpr)
			if !ok {
				return true
			}
			s := info.Selections[sel]
			if s == nil || namedPath(s.Recv()) != protoscanIter && namedPath(s.Recv()) != "github.com/paulmach/protoscan.base" {
				// promoted methods of the embedded base have Recv() == Iterator
				if s == nil || namedPath(info.TypeOf(sel.X)) != protoscanIter {
					return true
				}
			}
			if namedPath(info.TypeOf(sel.X)) != protoscanIter {
				return true
			}
			method := sel.Sel.Name
			if method == "HasNext" || method == "FieldNumber" {
				return true
			}
			f := cm.iterField(sel.X)
			c := "iterread@" + u.fi.Name() + " " + src(fs, sel.X) + "." + method
			if f == nil {
				r.Unknown(c, call.Pos(), "iterator `%s` is neither a cached decoder field nor a parameter bound to one", src(fs, sel.X))
				return true
			}
			col, why := cm.iterColumn(f)
			if col == nil {
				r.Bad(c, call.Pos(), "%s", why)
				return true
			}
			switch method {
			case "Count":
				w, okc := constInt(info, call.Args[0])
				if okc && w == c01WireClass(col.Type, col.IsEnum) {
					r.OK(c, call.Pos(), "Count with the wire class of %s (%s)", col.Name, col.Type)
				} else {
					r.Bad(c, call.Pos(), "`%s` counts with wire type %d but %s is %s", src(fs, call), w, col.Name, col.Type)
				}
			case "Skip":
				r.Unknown(c, call.Pos(), "Iterator.Skip is not modelled")
			default:
				want := c01ReadMethod[col.Type]
				if col.IsEnum {
					want = "Int32"
				}
				if method == want {
					r.OK(c, call.Pos(), "column %s is packed %s: element read with %s", col.Name, col.Type, method)
				} else {
					r.Bad(c, call.Pos(), "column %s is packed %s but its elements are read with %s (the format requires %s): every value of the column is mis-decoded", col.Name, col.Type, method, want)
				}
			}
			return true
		})
	}
	// (d) generated struct tags agree with the .proto
	ipk := r.P.Pkg("osmpbf/internal/osmpbf")
	if ipk == nil {
		r.Anchor("generated package osmpbf/internal/osmpbf")
		return
	}
	var dnames []string
	for n := range cm.desc.Messages {
		dnames = append(dnames, n)
	}
	sort.Strings(dnames)
	for _, mname := range dnames {
		_, st := structType(ipk, mname)
		c := "generated@" + mname
		if st == nil {
			r.Bad(c, token.NoPos, "osmformat.proto defines message %s but the generated package has no such struct: the .pb.go is stale", mname)
			continue
		}
		bad := ""
		seen := map[int]bool{}
		for i := 0; i < st.NumFields(); i++ {
			wire, num, label, name, packed, ok := c01PBTag(st.Tag(i))
			if !ok {
				continue
			}
			seen[num] = true
			fd := cm.desc.Messages[mname].Fields[num]
			switch {
			case fd == nil:
				bad = fmt.Sprintf("generated field %s has number %d, which the .proto does not define", st.Field(i).Name(), num)
			case fd.Name != name:
				bad = fmt.Sprintf("field %d is `%s` in the .proto but `%s` in the generated code", num, fd.Name, name)
			case label != map[string]string{"optional": "opt", "required": "req", "repeated": "rep"}[fd.Label]:
				bad = fmt.Sprintf("field %s: label %s vs generated %s", fd.Name, fd.Label, label)
			case wire != c01PBWire(fd):
				bad = fmt.Sprintf("field %s: type %s implies wire encoding %s but the generated code uses %s", fd.Name, fd.Type, c01PBWire(fd), wire)
			case packed != fd.Packed:
				bad = fmt.Sprintf("field %s: packed=%v in the .proto, %v in the generated code", fd.Name, fd.Packed, packed)
			}
		}
		for num, fd := range cm.desc.Messages[mname].Fields {
			if !seen[num] {
				bad = fmt.Sprintf("field %s = %d is missing from the generated struct", fd.Name, num)
			}
		}
		if bad != "" {
			r.Bad(c, st.Field(0).Pos(), "%s: the hand-written decoder and the generated decoder no longer follow one format definition", bad)
		} else {
			r.OK(c, st.Field(0).Pos(), "%d fields: numbers, names, labels, wire encodings and packedness agree with osmformat.proto", len(cm.desc.Messages[mname].Fields))
		}
	}
}

// ---------------------------------------------------------------- R3

func c01R3(r *core.R) {
	cm := c01ModelOrAnchor(r)
	if cm == nil {
		return
	}
	m := cm.m
	info := m.info
	fs := r.P.Fset
	// the cached block: field of the per-worker decoder of generated type PrimitiveBlock
	var pbField *types.Var
	st := m.ddT.Underlying().(*types.Struct)
	for i := 0; i < st.NumFields(); i++ {
		if strings.HasSuffix(namedPath(st.Field(i).Type()), "/osmpbf/internal/osmpbf.PrimitiveBlock") {
			pbField = st.Field(i)
		}
	}
	if pbField == nil {
		r.Anchor("cached PrimitiveBlock field of the per-worker decoder")
		return
	}
	// block scanner: function whose []byte parameter is typed PrimitiveBlock
	var bs *FuncInfo
	for po, msg := range cm.paramMsg {
		if msg == "PrimitiveBlock" {
			for _, u := range m.sortedUnits() {
				if fd, ok := u.node.(*ast.FuncDecl); ok && fd.Pos() <= po.Pos() && po.Pos() <= fd.End() {
					bs = u.fi
				}
			}
		}
	}
	if bs == nil {
		r.Anchor("function scanning a PrimitiveBlock")
		return
	}
	// which parameters of the cached block are read anywhere in the worker role (getters or selectors), outside bs's reset
	getter := map[string]string{"GetGranularity": "Granularity", "GetDateGranularity": "DateGranularity", "GetLatOffset": "LatOffset", "GetLonOffset": "LonOffset", "GetS": "S", "GetPrimitivegroup": "Primitivegroup"}
	needed := map[string]token.Pos{}
	for _, u := range m.sortedUnits() {
		fd, ok := u.node.(*ast.FuncDecl)
		if !ok || !u.roles["worker"] || isGenerated(r.P, fd.Pos()) {
			continue
		}
		ast.Inspect(fd.Body, func(n ast.Node) bool {
			call, ok := n.(*ast.CallExpr)
			if !ok {
				return true
			}
			fn := callee(info, call)
			if fn == nil {
				return true
			}
			if fname, ok := getter[fn.Name()]; ok && usesField(info, call, pbField) {
				if _, seen := needed[fname]; !seen {
					needed[fname] = call.Pos()
				}
			}
			return true
		})
	}
	if len(needed) < 5 {
		r.Anchor(fmt.Sprintf("reads of the cached block's parameters through getters (found %d)", len(needed)))
	}
	g := newCFG(info, bs.Decl.Body)
	// first message loop
	var loops []*ast.ForStmt
	for _, stt := range bs.Decl.Body.List {
		if fsx, ok := stt.(*ast.ForStmt); ok {
			loops = append(loops, fsx)
		}
	}
	if len(loops) < 2 {
		r.Unknown("passes@"+bs.Name(), bs.Decl.Pos(), "expected two top-level message loops (parameters, then groups), found %d", len(loops))
		return
	}
	var head *cfg.Block
	for _, b := range g.Blocks {
		if b.Kind == cfg.KindForLoop && b.Stmt == loops[0] {
			head = b
		}
	}
	var names []string
	for n := range needed {
		names = append(names, n)
	}
	sort.Strings(names)
	for _, fname := range names {
		c := "reset@" + bs.Name() + " " + fname
		// defining statements: whole-struct allocation of the cached block, or assignment to .<fname> of nil / [:0]
		isDef := func(n ast.Node) bool {
			as, ok := n.(*ast.AssignStmt)
			if !ok {
				return false
			}
			for i, l := range as.Lhs {
				if fieldOf(info, l) == pbField && i < len(as.Rhs) {
					if ue, ok := as.Rhs[i].(*ast.UnaryExpr); ok && ue.Op == token.AND {
						if _, ok := ue.X.(*ast.CompositeLit); ok {
							return true
						}
					}
				}
				if f := fieldOf(info, l); f != nil && f.Name() == fname && usesField(info, l, pbField) && i < len(as.Rhs) {
					if id, ok := ast.Unparen(as.Rhs[i]).(*ast.Ident); ok && id.Name == "nil" {
						return true
					}
					if se, ok := ast.Unparen(as.Rhs[i]).(*ast.SliceExpr); ok && se.High != nil {
						if v, okc := constInt(info, se.High); okc && v == 0 && sameExpr(info, se.X, l) {
							return true
						}
					}
				}
			}
			return false
		}
		// is the loop head reachable from entry avoiding every defining block?
		seen := map[*cfg.Block]bool{}
		var dfs func(b *cfg.Block) bool
		dfs = func(b *cfg.Block) bool {
			if seen[b] {
				return false
			}
			seen[b] = true
			for _, n := range b.Nodes {
				if isDef(n) {
					return false
				}
			}
			if b == head {
				return true
			}
			for _, s := range b.Succs {
				if dfs(s) {
					return true
				}
			}
			return false
		}
		if head == nil {
			r.Unknown(c, bs.Decl.Pos(), "first message loop not found in the control-flow graph")
		} else if dfs(g.Blocks[0]) {
			r.Bad(c, needed[fname], "a path reaches the block's first parse loop without resetting or re-allocating the cached %s, which `%s` reads: a block that omits it inherits the previous block's value instead of the format default", fname, src(fs, nodeAt(bs, m, needed[fname])))
		} else {
			r.OK(c, needed[fname], "every path to the first parse loop re-allocates the cached block or resets %s", fname)
		}
	}
	// parameters before groups: the group scanner call is in the second loop, dominated by the first loop's exit
	dom := dominators(g)
	var done *cfg.Block
	for _, b := range g.Blocks {
		if b.Kind == cfg.KindForDone && b.Stmt == loops[0] {
			done = b
		}
	}
	c := "params-before-groups@" + bs.Name()
	var groupCall *ast.CallExpr
	ast.Inspect(bs.Decl.Body, func(n ast.Node) bool {
		if call, ok := n.(*ast.CallExpr); ok {
			if fn := callee(info, call); fn != nil && fn.Pkg() == m.pk.Types && len(call.Args) == 1 {
				if msg := cm.dataMsg[objOf(info, call.Args[0])]; msg == "PrimitiveGroup" {
					groupCall = call
				}
			}
		}
		return true
	})
	// the parameter cases (granularity etc.) must all be in the first loop
	paramsInFirst := true
	ast.Inspect(bs.Decl.Body, func(n ast.Node) bool {
		as, ok := n.(*ast.AssignStmt)
		if !ok {
			return true
		}
		for _, l := range as.Lhs {
			if f := fieldOf(info, l); f != nil && usesField(info, l, pbField) {
				if _, isParam := needed[f.Name()]; isParam && as.Pos() > loops[0].End() {
					paramsInFirst = false
				}
			}
		}
		return true
	})
	switch {
	case groupCall == nil:
		r.Anchor("call decoding a PrimitiveGroup in " + bs.Name())
	case done == nil:
		r.Unknown(c, groupCall.Pos(), "exit of the first loop not found")
	default:
		gb, _ := blockOf(g, groupCall.Pos())
		if gb != nil && (gb == done || dom[gb][done]) && paramsInFirst {
			r.OK(c, groupCall.Pos(), "groups are decoded only after the first pass over the block has completed, and all block parameters are parsed in that first pass (field order in the file does not matter)")
		} else {
			r.Bad(c, groupCall.Pos(), "a primitive group can be decoded before all block parameters (granularity, offsets, date granularity, string table) have been parsed: a file that writes them after the groups is decoded with defaults / an empty string table")
		}
	}
}

func nodeAt(fi *FuncInfo, m *pbfModel, pos token.Pos) ast.Node {
	var res ast.Node
	for _, u := range m.units {
		ast.Inspect(u.body, func(n ast.Node) bool {
			if n != nil && n.Pos() == pos {
				if _, ok := n.(*ast.CallExpr); ok && res == nil {
					res = n
				}
			}
			return true
		})
	}
	if res == nil {
		return &ast.BadExpr{}
	}
	return res
}

// ---------------------------------------------------------------- R6

func c01R6(r *core.R) {
	cm := c01ModelOrAnchor(r)
	if cm == nil {
		return
	}
	m := cm.m
	info := m.info
	fs := r.P.Fset
	// element literals
	for _, u := range m.sortedUnits() {
		fd, ok := u.node.(*ast.FuncDecl)
		if !ok || !u.roles["worker"] || isGenerated(r.P, fd.Pos()) {
			continue
		}
		ast.Inspect(fd.Body, func(n ast.Node) bool {
			cl, ok := n.(*ast.CompositeLit)
			if !ok {
				return true
			}
			tn := namedPath(info.TypeOf(cl))
			kind := ""
			for _, k := range []string{"Node", "Way", "Relation"} {
				if tn == core.ModulePath+"."+k {
					kind = k
				}
			}
			if kind == "" {
				return true
			}
			c := "default@" + u.fi.Name() + " " + kind + " literal"
			vis := false
			for _, e := range cl.Elts {
				if kv, ok := e.(*ast.KeyValueExpr); ok {
					if id, ok := kv.Key.(*ast.Ident); ok && id.Name == "Visible" {
						if tv, ok := info.Types[kv.Value]; ok && tv.Value != nil && tv.Value.String() == "true" {
							vis = true
						}
					}
				}
			}
			if vis {
				r.OK(c, cl.Pos(), "`%s` starts from the format default visible=true", src(fs, cl))
			} else {
				r.Bad(c, cl.Pos(), "`%s` does not set Visible: true: an element whose block carries no visible column/flag is reported as deleted", src(fs, cl))
			}
			return true
		})
	}
	// header mapping
	var hdr *FuncInfo
	for _, f := range allFuncs(m.pk) {
		sig := f.Obj.Type().(*types.Signature)
		if sig.Results().Len() == 2 && namedPath(sig.Results().At(0).Type()) == core.ModulePath+"/osmpbf.Header" && sig.Recv() == nil {
			hdr = f
		}
	}
	if hdr == nil {
		r.Anchor("function decoding the header block")
		return
	}
	want := map[string]string{
		"RequiredFeatures": "GetRequiredFeatures", "OptionalFeatures": "GetOptionalFeatures", "WritingProgram": "GetWritingprogram", "Source": "GetSource",
		"ReplicationBaseURL": "GetOsmosisReplicationBaseUrl", "ReplicationSeqNum": "GetOsmosisReplicationSequenceNumber",
	}
	got := map[string]bool{}
	ast.Inspect(hdr.Decl.Body, func(n ast.Node) bool {
		cl, ok := n.(*ast.CompositeLit)
		if !ok {
			return true
		}
		switch namedPath(info.TypeOf(cl)) {
		case core.ModulePath + "/osmpbf.Header":
			for _, e := range cl.Elts {
				kv, ok := e.(*ast.KeyValueExpr)
				if !ok {
					continue
				}
				k := kv.Key.(*ast.Ident).Name
				w, known := want[k]
				if !known {
					continue
				}
				got[k] = true
				var calls []string
				ast.Inspect(kv.Value, func(x ast.Node) bool {
					if call, ok := x.(*ast.CallExpr); ok {
						if fn := callee(info, call); fn != nil && strings.HasPrefix(fn.Name(), "Get") {
							calls = append(calls, fn.Name())
						}
					}
					return true
				})
				c := "header@" + k
				if len(calls) == 1 && calls[0] == w {
					r.OK(c, kv.Pos(), "Header.%s = %s()", k, w)
				} else {
					r.Bad(c, kv.Pos(), "Header.%s is filled from %v; the header block's field for it is read by %s", k, calls, w)
				}
			}
		case core.ModulePath + ".Bounds":
			edge := map[string]string{"MinLon": "Left", "MaxLon": "Right", "MinLat": "Bottom", "MaxLat": "Top"}
			for _, e := range cl.Elts {
				kv, ok := e.(*ast.KeyValueExpr)
				if !ok {
					continue
				}
				k := kv.Key.(*ast.Ident).Name
				w, known := edge[k]
				if !known {
					continue
				}
				got[k] = true
				var flds []string
				scale := false
				ast.Inspect(kv.Value, func(x ast.Node) bool {
					if sel, ok := x.(*ast.SelectorExpr); ok {
						if f := fieldOf(info, sel); f != nil && strings.HasSuffix(namedPath(selRecv(info, sel)), ".HeaderBBox") {
							flds = append(flds, f.Name())
						}
					}
					if e2, ok := x.(ast.Expr); ok {
						if tv, ok := info.Types[e2]; ok && tv.Value != nil && tv.Value.String() == "1e-09" {
							scale = true
						}
					}
					return true
				})
				c := "header@Bounds." + k
				if len(flds) == 1 && flds[0] == w && scale {
					r.OK(c, kv.Pos(), "Bounds.%s = 1e-9 * bbox.%s (nanodegrees, no granularity)", k, w)
				} else {
					r.Bad(c, kv.Pos(), "Bounds.%s is computed from bbox.%v (scaled by 1e-9: %v); the format puts it in bbox.%s in nanodegrees", k, flds, scale, w)
				}
			}
		}
		return true
	})
	for k := range want {
		if !got[k] {
			r.Bad("header@"+k, hdr.Decl.Pos(), "Header.%s is never filled from the header block", k)
		}
	}
	for _, k := range []string{"MinLon", "MaxLon", "MinLat", "MaxLat"} {
		if !got[k] {
			r.Bad("header@Bounds."+k, hdr.Decl.Pos(), "Bounds.%s is never filled from the header bbox", k)
		}
	}
	// replication timestamp only under a presence test, from the timestamp field, as seconds
	c := "header@ReplicationTimestamp"
	okTS := false
	ast.Inspect(hdr.Decl.Body, func(n ast.Node) bool {
		as, ok := n.(*ast.AssignStmt)
		if !ok || len(as.Lhs) != 1 {
			return true
		}
		f := fieldOf(info, as.Lhs[0])
		if f == nil || f.Name() != "ReplicationTimestamp" {
			return true
		}
		par := parentsOf(r.P, hdr)
		var ifs *ast.IfStmt
		for p := par[as]; p != nil; p = par[p] {
			if i, ok := p.(*ast.IfStmt); ok {
				ifs = i
				break
			}
		}
		srcField := ""
		unixSec := false
		ast.Inspect(as.Rhs[0], func(x ast.Node) bool {
			if sel, ok := x.(*ast.SelectorExpr); ok {
				if ff := fieldOf(info, sel); ff != nil && strings.HasSuffix(namedPath(selRecv(info, sel)), ".HeaderBlock") {
					srcField = ff.Name()
				}
			}
			if call, ok := x.(*ast.CallExpr); ok && isPkgFunc(callee(info, call), "time", "Unix") && len(call.Args) == 2 {
				if v, okc := constInt(info, call.Args[1]); okc && v == 0 {
					unixSec = true
				}
			}
			return true
		})
		guard := ""
		if ifs != nil {
			if be, ok := ast.Unparen(ifs.Cond).(*ast.BinaryExpr); ok && be.Op == token.NEQ {
				if ff := fieldOf(info, be.X); ff != nil {
					guard = ff.Name()
				}
			}
		}
		if srcField == "OsmosisReplicationTimestamp" && guard == srcField && unixSec {
			okTS = true
			r.OK(c, as.Pos(), "set from osmosis_replication_timestamp as seconds since the epoch, only when the field is present")
		} else {
			okTS = true
			r.Bad(c, as.Pos(), "`%s` (source field %s, presence guard on %q, seconds: %v): an absent timestamp must stay zero and a present one is seconds since the epoch", src(fs, as), srcField, guard, unixSec)
		}
		return true
	})
	if !okTS {
		r.Bad(c, hdr.Decl.Pos(), "Header.ReplicationTimestamp is never set")
	}
}
