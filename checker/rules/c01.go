package rules

import (
	"fmt"
	"go/ast"
	"go/token"
	"go/types"
	"sort"
	"strings"

	"golang.org/x/tools/go/cfg"

	"osmcheck/core"
)

func init() {
	register(&core.Property{
		ID:    "C01",
		Title: "PBF scan yields exactly the encoded header and elements, field for field",
		Explanation: "Structural necessary conditions, decided against the format definition parsed from osmformat.proto on every run. Every rule is keyed on roles and data flow (which bytes hold which message, which read executes under which field number, which iterator field carries which column), decided on the control-flow graph through guard facts and by following static calls inside the package; names of helpers and locals, if/switch shape, branch order and the split of a decoder into methods play no role. " +
			"(R1) descriptor agreement: every protoscan read executes under a field number the message defines (case clause, tagless switch, `== N` test, inherited through *protoscan.Message parameters) and uses the read method of that field's declared type (packed columns through Iterator with element reads and Count wire class of the column's type); every descriptor field of a decoded message is tested for; the generated struct tags agree with the .proto; " +
			"(R2) freshness: while one DenseNodes / Way / Relation message is decoded no cached iterator left over from an earlier block or element can be used: an exact reachable-valuation analysis over found-flags, returned errors and iterator states, run from the method that receives the element's bytes with every decoder method it calls inlined, proves every use sees an iterator assigned from the current message, or nil where the use is nil-guarded; the cached iterators may be fields of the decoder itself (also promoted from a struct it embeds, which may be zeroed as a whole) or live in structs / arrays nested below it, in which case the iterator values themselves are followed through whole-struct zeroing, struct copies (a spare copy kept for allocation reuse), pointers, arguments and results of helpers; " +
			"(R3) block parameters (granularity, offsets, date granularity, string table) are reset or re-allocated on every path from the decode entry point to the first read of a block's message (resets may live in helpers), no parameter is parsed once a group has been decoded, and the groups are only reachable through the exhausted exit of the parameter loop; the cached block is recognised through its aliases (a helper that returns it, a local re-pointed at a fresh block that is stored in the decoder, a parameter it is passed as); an eager copy of the cached block's parameters kept in the decoder must be refreshed on every path to the decoding of a group, after the parameter pass; when the decoder does not cache a generated PrimitiveBlock but keeps the parameters in variables of its own (a parameter struct by value or pointer, built per block by a helper and stored in the decoder, or scalar fields), the cells are found by provenance from the reads of block fields 1/17/18/19/20 and the obligations become: every path to the parsing establishes each cell's format default (a fresh holder whose cell holds the constant equal to the generated Default_PrimitiveBlock_* value, or that constant assigned), and a holder kept in the decoder is overwritten as a whole with the value built for this block on every path to the decoding of a group (publish), with no parameter parsed into another holder afterwards; " +
			"(R4) provenance: every element field is computed from the column the format assigns to it and from no other column, through the string table / offsets / granularities the format prescribes (a parameter read through the generated getter and one the decoder read from the block's message itself are the same quantity), with the constant factor the format prescribes: the stored expression is evaluated symbolically (constants folded, locals / parameters / helper functions / result-struct fields expanded, package time modelled, integer quotient and remainder by a constant recombined) and must come out as 1e6 x (millisecond quantity) nanoseconds for timestamps and 1e-9 x every term for coordinates, however the conversion is spelled; where that evaluation is not possible the unit constant must be mentioned (compared by value); values are traced context-sensitively through helper functions (a store inside a helper with several callers is judged once per call site), method receivers, struct fields of the package, methods of a parameter struct and setter closures handed to a helper; stores through pointers (`*p = v`, a struct of field pointers built in a composite literal) are attributed to every element field the pointer can denote; the member type may be decided by a switch, an if chain, a classifying function or a constant map of the package; " +
			"(R5, part of R4) columns marked DELTA coded reach the element through a running sum, the others do not; " +
			"(R6) every element literal starts with Visible: true; header fields come from the same-named header getters, the bbox edges from left/right/bottom/top scaled by 1e-9, the replication timestamp only under a presence test of its field; " +
			"(R7, shared with C08.O5) element storage kept for reuse (tags, way nodes, members) is only re-sliced to [:0], extended by append of whole elements or replaced by zeroed make: a reused, non-zeroed backing array would let an element inherit a value (e.g. node coordinates) from an earlier element. " +
			"(R8, shared with C08.O6) every cycle of the loop in which a worker receives blocks sends one result pair (or is taken under cancellation): the elements of a block are not dropped and the round-robin serializer stays in step with the file order. " +
			"(R9, shared with C08.O8) an element appended to the object slice shares no backing array of its tags / way nodes / members with storage the decoder keeps across elements, groups or blocks (struct fields, package variables, pools): otherwise the values of an element the scanner has already returned are overwritten by a later one. " +
			"Presence state of R2 may be kept in any of: bool locals, a struct of bools (also with methods), a bit set in a named integer, a bool array / made slice / map indexed by field number, fields of the decoder itself, a table of pointers to the iterators; helper functions and methods on that state are executed. " +
			"NOT decided: numeric equality of coordinates/timestamps (overflow, rounding), UTF-8 and zlib handling, behaviour of protoscan and protobuf-go themselves, files using non-packed encodings of packed fields.",
		Assumptions: []string{"go/types, go/cfg (x/tools v0.29.0)", "osmformat.proto in the repository is the format definition (its `// DELTA coded` comments mark delta columns)", "OSMData blobs hold a PrimitiveBlock", "protoscan read methods decode the wire encoding their name says", "one per-worker decoder value per goroutine (its fields are not shared)"},
		LevelText:   "Structural necessary conditions of field-for-field faithful decoding, decided for every read site, every cached iterator use on every path, and every element field store: agreement with the parsed format descriptor, no stale per-decoder state, right column / formula shape / delta coding per field.",
		LevelNote:   "Trusts the type checker, go/cfg, the .proto file as specification, and the protoscan/protobuf libraries. Numeric results are not decided.",
		Technique:   "descriptor-driven typing of protoscan messages by data-flow propagation (field number decided through guard facts on go/cfg) + exact powerset abstract interpretation of found-flags, error results and iterator states with inlining of decoder methods + context-sensitive provenance tracing of field stores against a column table derived from the .proto + must/may call summaries for reset ordering",
		DesignRef:   "DESIGN.md §3.2, §5 C01, Appendix A; checker/ROBUSTNESS.md",
		Rules: []*core.Rule{
			{ID: "R1", Floor: 72, Doc: "descriptor agreement of field-number tests, read methods, iterator element types, generated tags (floor: descriptor fields of decoded messages + generated messages + iterator fields)", Run: c01R1},
			{ID: "R2", Floor: 18, Doc: "no stale cached iterator is used (floor: iterator fields of the per-worker decoder)", Run: c01R2},
			{ID: "R3", Floor: 6, Doc: "block parameters reset before parsing; parameters parsed before groups", Run: c01R3},
			{ID: "R4", Floor: 30, Doc: "field provenance and formula shape (floor: destinations of the column table)", Run: c01R4},
			{ID: "R6", Floor: 14, Doc: "format defaults and header mapping (floor: header fields + one literal per element kind)", Run: c01R6},
			{ID: "R9", Floor: 3, Doc: "an element handed to the consumer shares no backing array with storage the decoder keeps (shared with C08.O8): a later element cannot overwrite the tags, nodes or members of an earlier one", Run: c08O8},
			{ID: "R8", Floor: 1, Doc: "every block a worker receives yields one result pair: no block's elements are dropped or reordered (same necessary condition as C08.O6)", Run: c08O6},
			{ID: "R7", Floor: 5, Doc: "reused element storage is never re-exposed without zeroing (same necessary condition as C08.O5)", Run: c08O5},
		},
		Benign: append(append(append(append(append(append(append(append([]core.Mutant{}, c01Benign...), c01Benign2...), c01Benign3...), c01Benign4...), c01Benign5...), c01Benign6...), c01Benign7...), c01Benign8...),
		Mutants: append(append(append(append(append(append([]core.Mutant{}, c01Mutants2...), c01Mutants3...), c01Mutants4...), c01Mutants5...), c01Mutants6...), []core.Mutant{
			{Name: "dense-uid-int32", File: "osmpbf/decode_data.go", Find: "v5, err := dec.uids.Sint32()", Replace: "v5, err := dec.uids.Int32()", ExpectRule: "R1", ExpectConstruct: "uids"},
			{Name: "info-uid-as-uint32", File: "osmpbf/decode_data.go", Find: "\t\t\t\tcase 4:\n\t\t\t\t\tv, err := info.Int32()\n\t\t\t\t\tif err != nil {\n\t\t\t\t\t\treturn nil, err\n\t\t\t\t\t}\n\t\t\t\t\tway.UserID", Replace: "\t\t\t\tcase 4:\n\t\t\t\t\tv, err := info.Uint32()\n\t\t\t\t\tif err != nil {\n\t\t\t\t\t\treturn nil, err\n\t\t\t\t\t}\n\t\t\t\t\tway.UserID", ExpectRule: "R1", ExpectConstruct: "scanWays"},
			{Name: "lat-lon-cases-swapped", File: "osmpbf/decode_data.go", Find: "\t\tcase 8: // lat\n\t\t\tdec.lats, err = msg.Iterator(dec.lats)\n\t\t\tfoundLats = true\n\t\tcase 9: // lon\n\t\t\tdec.lons, err = msg.Iterator(dec.lons)\n\t\t\tfoundLons = true", Replace: "\t\tcase 9: // lat\n\t\t\tdec.lats, err = msg.Iterator(dec.lats)\n\t\t\tfoundLats = true\n\t\tcase 8: // lon\n\t\t\tdec.lons, err = msg.Iterator(dec.lons)\n\t\t\tfoundLons = true", ExpectRule: "R4", ExpectConstruct: "Node.Lat"},
			{Name: "granularity-case-16", File: "osmpbf/decode_data.go", Find: "\t\tcase 17:\n\t\t\tv, err := msg.Int32()\n\t\t\tdec.primitiveBlock.Granularity = &v", Replace: "\t\tcase 16:\n\t\t\tv, err := msg.Int32()\n\t\t\tdec.primitiveBlock.Granularity = &v", ExpectRule: "R1", ExpectConstruct: "PrimitiveBlock"},
			{Name: "drop-keyvals-nil", File: "osmpbf/decode_data.go", Find: "\tif !foundKeyVals {\n\t\tdec.keyvals = nil\n\t}\n", Replace: "\tif !foundKeyVals {\n\t}\n", ExpectRule: "R2", ExpectConstruct: "keyvals"},
			{Name: "drop-visibles-nil", File: "osmpbf/decode_data.go", Find: "\t\t\tif !foundVisibles {\n\t\t\t\tdec.visibles = nil\n\t\t\t}\n", Replace: "\t\t\tif !foundVisibles {\n\t\t\t}\n", ExpectRule: "R2", ExpectConstruct: "visibles"},
			{Name: "drop-noinfo-reset", File: "osmpbf/decode_data.go", Find: "\tif !foundInfo {\n\t\tdec.versions = nil\n\t\tdec.timestamps = nil", Replace: "\tif !foundInfo {\n\t\tdec.timestamps = nil", ExpectRule: "R2", ExpectConstruct: "versions"},
			{Name: "tags-with-keys-or-vals", File: "osmpbf/decode_data.go", Find: "\tif foundKeys && foundVals {\n\t\tvar err error\n\t\tway.Tags, err = scanTags(st, dec.keys, dec.vals)", Replace: "\tif foundKeys || foundVals {\n\t\tvar err error\n\t\tway.Tags, err = scanTags(st, dec.keys, dec.vals)", ExpectRule: "R2", ExpectConstruct: "fresh@Way"},
			{Name: "members-without-types-flag", File: "osmpbf/decode_data.go", Find: "if foundRoles && foundMemids && foundTypes {", Replace: "if foundRoles && (foundMemids || foundTypes) {", ExpectRule: "R2", ExpectConstruct: "types"},
			{Name: "drop-granularity-reset", File: "osmpbf/decode_data.go", Find: "\t\tdec.primitiveBlock.Granularity = nil\n", Replace: "", ExpectRule: "R3", ExpectConstruct: "Granularity"},
			{Name: "drop-stringtable-reset", File: "osmpbf/decode_data.go", Find: "\t\tdec.primitiveBlock.Stringtable.S = dec.primitiveBlock.Stringtable.S[:0]\n", Replace: "", ExpectRule: "R3", ExpectConstruct: "S"},
			{Name: "drop-dategranularity-reset", File: "osmpbf/decode_data.go", Find: "\t\tdec.primitiveBlock.DateGranularity = nil\n", Replace: "", ExpectRule: "R3", ExpectConstruct: "DateGranularity"},
			{Name: "lat-uses-lon-offset", File: "osmpbf/decode_data.go", Find: "latOffset := dec.primitiveBlock.GetLatOffset()", Replace: "latOffset := dec.primitiveBlock.GetLonOffset()", ExpectRule: "R4", ExpectConstruct: "Node.Lat"},
			{Name: "id-not-delta", File: "osmpbf/decode_data.go", Find: "\t\tid += v1\n\t\tn.ID = osm.NodeID(id)", Replace: "\t\tid = v1\n\t\tn.ID = osm.NodeID(id)", ExpectRule: "R4", ExpectConstruct: "Node.ID"},
			{Name: "way-version-delta", File: "osmpbf/decode_data.go", Find: "\t\t\t\t\tway.Version = int(v)", Replace: "\t\t\t\t\tway.Version += int(v)", ExpectRule: "R4", ExpectConstruct: "Way.Version"},
			{Name: "way-lon-no-granularity", File: "osmpbf/decode_data.go", Find: "way.Nodes[index].Lon = 1e-9 * float64(lonOffset+(granularity*prev))", Replace: "way.Nodes[index].Lon = 1e-9 * float64(lonOffset+prev)", ExpectRule: "R4", ExpectConstruct: "WayNode.Lon"},
			{Name: "user-from-uid", File: "osmpbf/decode_data.go", Find: "n.User, err = stringAt(st, int64(usid))", Replace: "n.User, err = stringAt(st, int64(uid))", ExpectRule: "R4", ExpectConstruct: "Node.User"},
			{Name: "tag-value-from-key", File: "osmpbf/decode_data.go", Find: "\t\t\tValue: val,\n\t\t}\n\t\tindex++", Replace: "\t\t\tValue: key + val[:0],\n\t\t}\n\t\tindex++", ExpectRule: "R4", ExpectConstruct: "Tag.Value"},
			{Name: "timestamp-seconds", File: "osmpbf/decode_data.go", Find: "millisec := time.Duration(timestamp*dateGranularity) * time.Millisecond", Replace: "millisec := time.Duration(timestamp*dateGranularity) * time.Second", ExpectRule: "R4", ExpectConstruct: "Node.Timestamp"},
			{Name: "relation-not-visible-by-default", File: "osmpbf/decode_data.go", Find: "\t\trelation = &osm.Relation{Visible: true}\n\t}\n\n\tvar foundKeys", Replace: "\t\trelation = &osm.Relation{}\n\t}\n\n\tvar foundKeys", ExpectRule: "R6", ExpectConstruct: "Relation"},
			{Name: "header-source-from-writingprogram", File: "osmpbf/decode.go", Find: "Source:             headerBlock.GetSource(),", Replace: "Source:             headerBlock.GetWritingprogram(),", ExpectRule: "R6", ExpectConstruct: "Source"},
			{Name: "bbox-top-bottom-swapped", File: "osmpbf/decode.go", Find: "MinLat: 1e-9 * float64(*headerBlock.Bbox.Bottom),", Replace: "MinLat: 1e-9 * float64(*headerBlock.Bbox.Top),", ExpectRule: "R6", ExpectConstruct: "MinLat"},
			{Name: "empty-block-result-dropped", File: "osmpbf/decode.go", Find: "\t\t\t\t\tobjects, err := dd.Decode(p.Blob)\n", Replace: "\t\t\t\t\tobjects, err := dd.Decode(p.Blob)\n\t\t\t\t\tif err == nil && len(objects) == 0 {\n\t\t\t\t\t\tcontinue\n\t\t\t\t\t}\n", ExpectRule: "R8", ExpectConstruct: "one result per block"},
			{Name: "way-nodes-regrown-unzeroed", File: "osmpbf/decode_data.go", Find: "way.Nodes = make(osm.WayNodes, dec.wlats.Count(protoscan.WireTypeVarint))", Replace: "if n := dec.wlats.Count(protoscan.WireTypeVarint); n <= cap(way.Nodes) {\n\t\t\t\t\tway.Nodes = way.Nodes[:n]\n\t\t\t\t} else {\n\t\t\t\t\tway.Nodes = make(osm.WayNodes, n)\n\t\t\t\t}", ExpectRule: "R7", ExpectConstruct: "scanWays"},
			{Name: "member-type-way-as-node", File: "osmpbf/decode_data.go", Find: "\t\tcase osmpbf.Relation_WAY:\n\t\t\tmembers[index].Type = osm.TypeWay", Replace: "\t\tcase osmpbf.Relation_WAY:\n\t\t\tmembers[index].Type = osm.TypeNode", ExpectRule: "R4", ExpectConstruct: "Member.Type"},
		}...),
	})
}

func c01ModelOrAnchor(r *core.R) *c01Model {
	cm := c01Get(r)
	for _, e := range cm.errs {
		r.Anchor("PBF decoding model: " + e)
	}
	if len(cm.errs) > 0 {
		return nil
	}
	return cm
}

// ---------------------------------------------------------------- R1

func c01R1(r *core.R) {
	cm := c01ModelOrAnchor(r)
	if cm == nil {
		return
	}
	info := cm.m.info
	fs := r.P.Fset
	r.Stat("protoscan_message_variables", len(cm.vars))
	r.Stat("descriptor_messages", len(cm.desc.Messages))
	// (a) every read executes under the field number of a field the message defines, with the read method of its type
	readsOf := map[string]int{} // "Msg.N" -> number of well-typed reads
	for _, rd := range cm.reads {
		c := "read@" + rd.fi.Name() + " " + src(fs, rd.call)
		if rd.mv == nil {
			r.Unknown(c, rd.call.Pos(), "the protoscan message `%s` could not be tied to a message of the format definition", src(fs, rd.call.Fun.(*ast.SelectorExpr).X))
			continue
		}
		if len(rd.cases) == 0 {
			r.Unknown(c, rd.call.Pos(), "no condition on `%s.FieldNumber()` (case clause, `== N` test) controls this read of a %s message", rd.mv.obj.Name(), rd.mv.msg)
			continue
		}
		for _, caseN := range rd.cases {
			fd := cm.desc.Messages[rd.mv.msg].Fields[caseN]
			c = fmt.Sprintf("read@%s %s.%d %s", rd.fi.Name(), rd.mv.msg, caseN, rd.method)
			if fd == nil {
				r.Bad(c, rd.call.Pos(), "message %s has no field %d in osmformat.proto, yet `%s` decodes one: the value of whatever field carries that number is misread (and the intended field is skipped)", rd.mv.msg, caseN, src(fs, rd.call))
				continue
			}
			want := ""
			switch {
			case fd.IsMsg:
				want = "MessageData"
			case fd.Label == "repeated" && fd.Packed:
				want = "Iterator"
			case fd.IsEnum:
				want = "Int32"
			default:
				want = c01ReadMethod[fd.Type]
			}
			if rd.method == want || (want == "MessageData" && rd.method == "Message") {
				readsOf[fmt.Sprintf("%s.%d", rd.mv.msg, caseN)]++
				r.OK(c, rd.call.Pos(), "%s.%s = %d is `%s %s%s`: read with %s", rd.mv.msg, fd.Name, fd.Num, fd.Label, fd.Type, map[bool]string{true: " [packed]", false: ""}[fd.Packed], rd.method)
			} else {
				r.Bad(c, rd.call.Pos(), "%s.%s = %d is declared `%s %s` but is read with %s (the format requires %s): values are mis-decoded (zig-zag vs plain varint, width, or message vs scalar)", rd.mv.msg, fd.Name, fd.Num, fd.Label, fd.Type, rd.method, want)
			}
		}
	}
	// proto.Unmarshal of embedded message data into the generated type
	for _, fi := range cm.worker {
		fi := fi
		ast.Inspect(fi.Decl.Body, func(n ast.Node) bool {
			call, ok := n.(*ast.CallExpr)
			if !ok || !isPkgFunc(callee(info, call), "google.golang.org/protobuf/proto", "Unmarshal") || len(call.Args) != 2 {
				return true
			}
			msg := cm.dataOf(c01Expand(info, fi.Decl.Body, call.Args[0]))
			if msg == "" {
				msg = cm.dataOf(call.Args[0])
			}
			if msg == "" {
				return true
			}
			c := "unmarshal@" + fi.Name() + " " + msg
			if tn := c01GenTypeName(info.TypeOf(call.Args[1])); tn == msg {
				r.OK(c, call.Pos(), "embedded %s data is unmarshalled into *%s", msg, msg)
			} else {
				r.Bad(c, call.Pos(), "data of an embedded %s message is unmarshalled into %s", msg, types.TypeString(info.TypeOf(call.Args[1]), nil))
			}
			return true
		})
	}
	// (b) field numbers tested per message: defined numbers, and completeness
	cases := map[string]map[int]token.Pos{}
	for _, mv := range cm.vars {
		if cases[mv.msg] == nil {
			cases[mv.msg] = map[int]token.Pos{}
		}
		f := c01FnOf(r.P, mv.fi)
		mvo := mv.obj
		note := func(e ast.Expr, k ast.Expr, pos token.Pos) {
			if v, ok := constInt(info, k); ok && cm.isFieldNumberOf(f.innermost(e), e, mvo) {
				if _, dup := cases[mv.msg][int(v)]; !dup {
					cases[mv.msg][int(v)] = pos
				}
			}
		}
		ast.Inspect(mv.fi.Decl.Body, func(x ast.Node) bool {
			switch s := x.(type) {
			case *ast.SwitchStmt:
				if s.Tag == nil {
					return true
				}
				for _, cl := range s.Body.List {
					for _, e := range cl.(*ast.CaseClause).List {
						note(s.Tag, e, e.Pos())
					}
				}
			case *ast.BinaryExpr:
				if s.Op == token.EQL || s.Op == token.NEQ {
					note(s.X, s.Y, s.Pos())
					note(s.Y, s.X, s.Pos())
				}
			}
			return true
		})
	}
	// a field number covered by a range test (`fn < 1 || fn > 6` excluded) counts as tested where a read executes under it
	for _, rd := range cm.reads {
		if rd.mv == nil {
			continue
		}
		if cases[rd.mv.msg] == nil {
			cases[rd.mv.msg] = map[int]token.Pos{}
		}
		for _, cn := range rd.cases {
			if _, dup := cases[rd.mv.msg][cn]; !dup {
				cases[rd.mv.msg][cn] = rd.call.Pos()
			}
		}
	}
	// descriptor fields the decoder deliberately does not turn into objects
	exempt := map[string]string{"PrimitiveGroup.changesets": "changesets in data blocks are not OSM elements the scanner returns"}
	var msgs []string
	for mname := range cases {
		msgs = append(msgs, mname)
	}
	sort.Strings(msgs)
	for _, mname := range msgs {
		dm := cm.desc.Messages[mname]
		if dm == nil {
			r.Bad("message@"+mname, token.NoPos, "a protoscan message is typed %s, which osmformat.proto does not define", mname)
			continue
		}
		var nums []int
		for n := range cases[mname] {
			nums = append(nums, n)
		}
		sort.Ints(nums)
		for _, n := range nums {
			c := fmt.Sprintf("case@%s %d", mname, n)
			if fd := dm.Fields[n]; fd != nil {
				r.OK(c, cases[mname][n], "field %d of %s is `%s`", n, mname, fd.Name)
			} else {
				r.Bad(c, cases[mname][n], "message %s defines no field %d", mname, n)
			}
		}
		var fnums []int
		for n := range dm.Fields {
			fnums = append(fnums, n)
		}
		sort.Ints(fnums)
		for _, n := range fnums {
			fd := dm.Fields[n]
			c := fmt.Sprintf("field@%s.%s", mname, fd.Name)
			if pos, ok := cases[mname][n]; ok {
				if readsOf[fmt.Sprintf("%s.%d", mname, n)] > 0 {
					r.OK(c, pos, "tested as field number %d and decoded by %d correctly typed read(s)", n, readsOf[fmt.Sprintf("%s.%d", mname, n)])
				} else {
					// a field number that is tested but never read: either rejected on purpose (error/skip) or lost
					r.OKTrivial(c, pos, "field number %d is tested but nothing is read under it (rejected or passed over on purpose; C08.O3 / C06 decide which)", n)
				}
			} else if why, ok := exempt[mname+"."+fd.Name]; ok {
				r.OKTrivial(c, token.NoPos, "not decoded on purpose: %s", why)
			} else {
				r.Bad(c, token.NoPos, "%s.%s = %d has no case in the decoder: files that carry it lose that part of every element", mname, fd.Name, n)
			}
		}
	}
	// (c) iterator fields: column agreement and element reads
	var itFields []*types.Var
	for f := range cm.iters {
		itFields = append(itFields, f)
	}
	sort.Slice(itFields, func(i, j int) bool { return itFields[i].Pos() < itFields[j].Pos() })
	for _, f := range itFields {
		c := "iterator@" + f.Name()
		col, why := cm.iterColumn(f)
		if col == nil {
			r.Bad(c, f.Pos(), "cached iterator %s: %s", f.Name(), why)
			continue
		}
		if col.Label != "repeated" || !col.Packed {
			r.Bad(c, f.Pos(), "cached iterator %s is filled from %s, which is not a packed repeated field", f.Name(), col.Name)
			continue
		}
		var srcs []string
		for _, s := range cm.iters[f].sources {
			srcs = append(srcs, fmt.Sprintf("%s.%s", s.msg, cm.desc.Messages[s.msg].Fields[s.num].Name))
		}
		r.OK(c, f.Pos(), "filled from %s: packed %s", strings.Join(srcs, ", "), col.Type)
	}
	for _, fi := range cm.worker {
		fi := fi
		ast.Inspect(fi.Decl.Body, func(n ast.Node) bool {
			call, ok := n.(*ast.CallExpr)
			if !ok {
				return true
			}
			sel, ok := ast.Unparen(call.Fun).(*ast.SelectorExpr)
			if !ok || namedPath(info.TypeOf(sel.X)) != protoscanIter {
				return true
			}
			if s := info.Selections[sel]; s == nil || s.Kind() == types.FieldVal {
				return true
			}
			method := sel.Sel.Name
			if method == "HasNext" || method == "FieldNumber" {
				return true
			}
			fields := cm.iterFieldsIn(fi, sel.X)
			c := "iterread@" + fi.Name() + " " + src(fs, sel.X) + "." + method
			if len(fields) == 0 {
				r.Unknown(c, call.Pos(), "iterator `%s` is neither a cached decoder field nor a parameter or local bound to one", src(fs, sel.X))
				return true
			}
			// a parameter of a shared helper may be handed several columns: the read must fit each of them
			for _, f := range fields {
				c = "iterread@" + fi.Name() + " " + f.Name() + "." + method
				col, why := cm.iterColumn(f)
				if col == nil {
					r.Bad(c, call.Pos(), "%s", why)
					continue
				}
				switch method {
				case "Count":
					var w int64 = -1
					okc := false
					if len(call.Args) == 1 {
						w, okc = constInt(info, call.Args[0])
					}
					if okc && w == c01WireClass(col.Type, col.IsEnum) {
						r.OK(c, call.Pos(), "Count with the wire class of %s (%s)", col.Name, col.Type)
					} else {
						r.Bad(c, call.Pos(), "`%s` counts with wire type %d but %s is %s", src(fs, call), w, col.Name, col.Type)
					}
				case "Skip":
					r.Unknown(c, call.Pos(), "Iterator.Skip is not modelled")
				default:
					want := c01ReadMethod[col.Type]
					if col.IsEnum {
						want = "Int32"
					}
					if method == want {
						r.OK(c, call.Pos(), "column %s is packed %s: element read with %s", col.Name, col.Type, method)
					} else {
						r.Bad(c, call.Pos(), "column %s is packed %s but its elements are read with %s (the format requires %s): every value of the column is mis-decoded", col.Name, col.Type, method, want)
					}
				}
			}
			return true
		})
	}
	// (d) generated struct tags agree with the .proto
	ipk := r.P.Pkg("osmpbf/internal/osmpbf")
	if ipk == nil {
		r.Anchor("generated package osmpbf/internal/osmpbf")
		return
	}
	var dnames []string
	for n := range cm.desc.Messages {
		dnames = append(dnames, n)
	}
	sort.Strings(dnames)
	for _, mname := range dnames {
		_, st := structType(ipk, mname)
		c := "generated@" + mname
		if st == nil {
			r.Bad(c, token.NoPos, "osmformat.proto defines message %s but the generated package has no such struct: the .pb.go is stale", mname)
			continue
		}
		bad := ""
		seen := map[int]bool{}
		for i := 0; i < st.NumFields(); i++ {
			wire, num, label, name, packed, ok := c01PBTag(st.Tag(i))
			if !ok {
				continue
			}
			seen[num] = true
			fd := cm.desc.Messages[mname].Fields[num]
			switch {
			case fd == nil:
				bad = fmt.Sprintf("generated field %s has number %d, which the .proto does not define", st.Field(i).Name(), num)
			case fd.Name != name:
				bad = fmt.Sprintf("field %d is `%s` in the .proto but `%s` in the generated code", num, fd.Name, name)
			case label != map[string]string{"optional": "opt", "required": "req", "repeated": "rep"}[fd.Label]:
				bad = fmt.Sprintf("field %s: label %s vs generated %s", fd.Name, fd.Label, label)
			case wire != c01PBWire(fd):
				bad = fmt.Sprintf("field %s: type %s implies wire encoding %s but the generated code uses %s", fd.Name, fd.Type, c01PBWire(fd), wire)
			case packed != fd.Packed:
				bad = fmt.Sprintf("field %s: packed=%v in the .proto, %v in the generated code", fd.Name, fd.Packed, packed)
			}
		}
		for num, fd := range cm.desc.Messages[mname].Fields {
			if !seen[num] {
				bad = fmt.Sprintf("field %s = %d is missing from the generated struct", fd.Name, num)
			}
		}
		if bad != "" {
			r.Bad(c, st.Field(0).Pos(), "%s: the hand-written decoder and the generated decoder no longer follow one format definition", bad)
		} else {
			r.OK(c, st.Field(0).Pos(), "%d fields: numbers, names, labels, wire encodings and packedness agree with osmformat.proto", len(cm.desc.Messages[mname].Fields))
		}
	}
}

// ---------------------------------------------------------------- R3

func c01R3(r *core.R) {
	cm := c01ModelOrAnchor(r)
	if cm == nil {
		return
	}
	m := cm.m
	info := m.info
	fs := r.P.Fset
	// the cached block: field of the per-worker decoder of generated type PrimitiveBlock
	var pbField *types.Var
	st := m.ddT.Underlying().(*types.Struct)
	for i := 0; i < st.NumFields(); i++ {
		if c01IsGenerated(st.Field(i).Type(), "PrimitiveBlock") {
			pbField = st.Field(i)
		}
	}
	// the block message variable (the one created from the block's bytes, not a parameter bound to it)
	var blockVar *c01MsgVar
	for _, mv := range cm.vars {
		if mv.msg == "PrimitiveBlock" && len(mv.binds) == 0 && blockVar == nil {
			blockVar = mv
		}
	}
	if blockVar == nil {
		r.Anchor("protoscan message created from the primitive block bytes")
		return
	}
	bs := blockVar.fi
	if pbField == nil {
		// no cached generated block: the decoder keeps the parameters in variables of its own
		if isW := c01R3Holder(r, cm, blockVar, false, nil); isW != nil {
			c01R3Groups(r, cm, bs, isW)
			return
		}
		r.Anchor("cached PrimitiveBlock field of the per-worker decoder, or variables of the decoder that carry the block parameters")
		return
	}
	ba := c01NewBlockAlias(cm, pbField)
	// which parameters of the cached block are read in the worker role through the generated getters
	needed := map[string]token.Pos{}
	neededSrc := map[string]string{}
	for _, fi := range cm.worker {
		ast.Inspect(fi.Decl.Body, func(n ast.Node) bool {
			call, ok := n.(*ast.CallExpr)
			if !ok {
				return true
			}
			fn := callee(info, call)
			if fn == nil || !strings.HasPrefix(fn.Name(), "Get") || len(call.Args) != 0 {
				return true
			}
			sig := fn.Type().(*types.Signature)
			if sig.Recv() == nil || c01GenTypeName(sig.Recv().Type()) == "" || sig.Results().Len() != 1 {
				return true
			}
			if c01GenTypeName(sig.Results().At(0).Type()) != "" {
				return true // getter of a sub-message: the parameters are its scalar / repeated leaves
			}
			// the getter is applied to the cached block (directly or through a local that aliases it)
			viaBlock := usesField(info, call, pbField)
			if sel, ok := ast.Unparen(call.Fun).(*ast.SelectorExpr); ok && !viaBlock {
				if thr, _ := ba.through(fi.Decl.Body, sel.X); thr {
					viaBlock = true
				}
			}
			if sel, ok := ast.Unparen(call.Fun).(*ast.SelectorExpr); ok && !viaBlock {
				for _, fl := range c01ChainFields(info, c01Chain(info, fi.Decl.Body, sel.X)) {
					if fl == pbField {
						viaBlock = true
					}
				}
				// ... or to a sub-message read from it by a getter (`pb.GetStringtable().GetS()`)
				ast.Inspect(sel.X, func(y ast.Node) bool {
					if id, ok := y.(*ast.Ident); ok {
						for _, fl := range c01ChainFields(info, c01Chain(info, fi.Decl.Body, id)) {
							if fl == pbField {
								viaBlock = true
							}
						}
					}
					return true
				})
			}
			if !viaBlock {
				return true
			}
			fname := strings.TrimPrefix(fn.Name(), "Get")
			if _, seen := needed[fname]; !seen {
				needed[fname] = call.Pos()
				neededSrc[fname] = src(fs, call)
			}
			return true
		})
	}
	if len(needed) < 5 {
		r.Anchor(fmt.Sprintf("reads of the cached block's parameters through getters (found %d)", len(needed)))
	}
	// throughBlock: the chain of e passes through the cached block; last = the last field selected
	throughBlock := func(f *c01Fn, e ast.Expr) (bool, *types.Var) {
		if thr, last := ba.through(f.body, e); thr {
			return true, last
		}
		flds := c01ChainFields(info, c01Chain(info, f.body, e))
		for _, fl := range flds {
			if fl == pbField {
				return true, flds[len(flds)-1]
			}
		}
		return false, nil
	}
	isFresh := func(e ast.Expr) bool {
		e = ast.Unparen(e)
		if ue, ok := e.(*ast.UnaryExpr); ok && ue.Op == token.AND {
			_, isLit := ast.Unparen(ue.X).(*ast.CompositeLit)
			return isLit
		}
		if _, ok := e.(*ast.CompositeLit); ok {
			return true
		}
		if call, ok := e.(*ast.CallExpr); ok {
			return builtinName(info, call) == "new" || builtinName(info, call) == "make"
		}
		return false
	}
	// isReset(fname): node (re)establishes the format default of the cached parameter fname
	isReset := func(fname string) c01EventPred {
		return func(f *c01Fn, n ast.Node) bool {
			switch s := n.(type) {
			case *ast.AssignStmt:
				if s.Tok != token.ASSIGN && s.Tok != token.DEFINE {
					return false
				}
				for i, l := range s.Lhs {
					if i >= len(s.Rhs) || len(s.Rhs) != len(s.Lhs) {
						continue
					}
					thr, last := throughBlock(f, l)
					if !thr {
						continue
					}
					rhs := ast.Unparen(s.Rhs[i])
					if last == pbField {
						// the whole block is replaced (pointer re-pointed at a fresh value, or `*blk = T{...}`)
						if isFresh(rhs) {
							return true
						}
						continue
					}
					if last != nil && last.Name() != fname && (isNilIdent(rhs) || isFresh(rhs)) {
						// a sub-message that holds the parameter is replaced as a whole (e.g. a fresh string table)
						if st, ok := c01GenStruct(last.Type()); ok {
							for i := 0; i < st.NumFields(); i++ {
								if st.Field(i).Name() == fname {
									return true
								}
							}
						}
					}
					if last == nil || last.Name() != fname {
						continue
					}
					if isNilIdent(rhs) || isFresh(rhs) {
						return true
					}
					if se, ok := rhs.(*ast.SliceExpr); ok && se.Low == nil && se.High != nil && se.Max == nil {
						if v, okc := constInt(info, se.High); okc && v == 0 && c01Same(info, f.body, se.X, l) {
							return true
						}
					}
				}
			case *ast.ExprStmt:
				// blk.Reset() of the generated type zeroes every field
				if call, ok := s.X.(*ast.CallExpr); ok {
					if fn := callee(info, call); fn != nil && fn.Name() == "Reset" && len(call.Args) == 0 {
						if sel, ok := ast.Unparen(call.Fun).(*ast.SelectorExpr); ok {
							if thr, last := throughBlock(f, sel.X); thr && last == pbField {
								return true
							}
						}
					}
				}
			}
			return false
		}
	}
	// a parse event: the block message is advanced
	isParse := func(f *c01Fn, n ast.Node) bool {
		return c01ContainsCall(n, func(call *ast.CallExpr) bool {
			if !isMethod(callee(info, call), protoscanMsg, "Next") {
				return false
			}
			sel, ok := ast.Unparen(call.Fun).(*ast.SelectorExpr)
			if !ok {
				return false
			}
			mv := cm.msgVarOf(sel.X)
			return mv != nil && mv.msg == "PrimitiveBlock"
		})
	}
	var names []string
	for n := range needed {
		names = append(names, n)
	}
	sort.Strings(names)
	for _, fname := range names {
		c := "reset@PrimitiveBlock " + fname
		sum := c01NewSum(r.P, isReset(fname))
		if sum.Unprotected(cm.entry, isParse, map[*types.Func]int{}) {
			r.Bad(c, needed[fname], "a path from %s reaches the parsing of a block without resetting or re-allocating the cached %s, which `%s` reads: a block that omits it inherits the previous block's value instead of the format default", cm.entry.Name(), fname, neededSrc[fname])
		} else {
			r.OK(c, needed[fname], "every path from %s to the first read of a block's message re-allocates the cached block or resets %s", cm.entry.Name(), fname)
		}
	}
	// parameters before groups
	isParamWrite := func(f *c01Fn, n ast.Node) bool {
		hit := false
		ast.Inspect(n, func(x ast.Node) bool {
			switch s := x.(type) {
			case *ast.FuncLit:
				return false
			case *ast.AssignStmt:
				for _, fname := range names {
					if isReset(fname)(f, s) {
						return true
					}
				}
				for _, l := range s.Lhs {
					if thr, last := throughBlock(f, l); thr && last != nil {
						if _, isParam := needed[last.Name()]; isParam {
							hit = true
						}
					}
				}
			case *ast.CallExpr:
				if isPkgFunc(callee(info, s), "google.golang.org/protobuf/proto", "Unmarshal") && len(s.Args) == 2 {
					if thr, _ := throughBlock(f, s.Args[1]); thr {
						hit = true
					}
				}
			}
			return true
		})
		return hit
	}
	c01R3Groups(r, cm, bs, isParamWrite)
	// an eager copy of the cached block's parameters kept in the decoder must be refreshed for every block
	c01R3Holder(r, cm, blockVar, true, isParamWrite)
}

// c01R3Groups: the parameters of a block are parsed before any of its groups is decoded (isParamWrite recognises a
// CFG node that stores a block parameter).
func c01R3Groups(r *core.R, cm *c01Model, bs *FuncInfo, isParamWrite c01EventPred) {
	info := cm.m.info
	fs := r.P.Fset
	isParse := func(f *c01Fn, n ast.Node) bool {
		return c01ContainsCall(n, func(call *ast.CallExpr) bool {
			if !isMethod(callee(info, call), protoscanMsg, "Next") {
				return false
			}
			sel, ok := ast.Unparen(call.Fun).(*ast.SelectorExpr)
			if !ok {
				return false
			}
			mv := cm.msgVarOf(sel.X)
			return mv != nil && mv.msg == "PrimitiveBlock"
		})
	}
	isGroupDecode := func(f *c01Fn, n ast.Node) bool {
		return c01ContainsCall(n, func(call *ast.CallExpr) bool {
			for _, a := range call.Args {
				if c01IsByteSlice(info.TypeOf(a)) && cm.dataOf(a) == "PrimitiveGroup" {
					return true
				}
			}
			return false
		})
	}
	sumW := c01NewSum(r.P, isParamWrite)
	sumG := c01NewSum(r.P, isGroupDecode)
	c := "params-before-groups@PrimitiveBlock"
	var gpos token.Pos
	ng := 0
	bad := ""
	for _, fi := range c01Reachable(r.P, bs) {
		f := c01FnOf(r.P, fi)
		for _, b := range f.g.Blocks {
			if !b.Live {
				continue
			}
			for i, n := range b.Nodes {
				if !sumG.nodeMay(f, n) {
					continue
				}
				ng++
				if !gpos.IsValid() || fi == bs {
					gpos = n.Pos()
				}
				// (a) once a group has been decoded no block parameter is parsed any more
				after := func(x ast.Node) bool { return sumW.nodeMay(f, x) }
				start, si := b, i+1
				if c01ReachAvoiding(f, start, si, after, nil) {
					bad = fmt.Sprintf("in %s a block parameter (granularity, offsets, date granularity, string table) can still be parsed after `%s` has decoded a primitive group: a file that writes parameters after groups is decoded with defaults / an empty string table", fi.Name(), src(fs, n))
				}
			}
		}
	}
	// (b) the parameter pass runs to exhaustion: without the false edge of the `Next()` test of the loop that parses
	// parameters, no group decode is reachable in the block scanner
	fb := c01FnOf(r.P, bs)
	loops := c01Loops(fb)
	cut := map[*cfg.Block]bool{}
	for _, l := range loops {
		cond := fb.condOf(l.head)
		if cond == nil || !isParse(fb, cond) {
			continue
		}
		hasW := false
		for blk := range l.blocks {
			for _, n := range blk.Nodes {
				if sumW.nodeMay(fb, n) {
					hasW = true
				}
			}
		}
		if hasW && c01Eval(info, cond, func(a ast.Expr) c01Tri {
			if isParse(fb, a) {
				return c01F
			}
			return c01U
		}) == c01F {
			cut[l.head] = true
		}
	}
	exhaust := "the parameter pass is not a loop of the block scanner itself (decided by reachability only)"
	if len(cut) > 0 {
		exhaust = "the groups are only reachable through the exhausted exit of the parameter loop"
		seen := map[*cfg.Block]bool{fb.g.Blocks[0]: true}
		work := []*cfg.Block{fb.g.Blocks[0]}
		for len(work) > 0 {
			b := work[len(work)-1]
			work = work[:len(work)-1]
			for _, n := range b.Nodes {
				if sumG.nodeMay(fb, n) && bad == "" {
					bad = fmt.Sprintf("`%s` decodes a primitive group on a path that leaves the parameter loop before the block's message is exhausted: parameters written later in the block are not applied to it", src(fs, n))
				}
			}
			for i, nb := range b.Succs {
				if cut[b] && i == 1 {
					continue
				}
				if !seen[nb] {
					seen[nb] = true
					work = append(work, nb)
				}
			}
		}
	}
	switch {
	case ng == 0:
		r.Anchor("call decoding a PrimitiveGroup below " + bs.Name())
	case bad != "":
		r.Bad(c, gpos, "%s", bad)
	default:
		r.OK(c, gpos, "no block parameter is parsed once a primitive group has been decoded, so all of them are parsed in an earlier pass whatever the field order in the file; %s", exhaust)
	}
}

// ---------------------------------------------------------------- R6

func c01R6(r *core.R) {
	cm := c01ModelOrAnchor(r)
	if cm == nil {
		return
	}
	m := cm.m
	info := m.info
	fs := r.P.Fset
	// element literals
	for _, fi := range cm.worker {
		fi := fi
		ast.Inspect(fi.Decl.Body, func(n ast.Node) bool {
			cl, ok := n.(*ast.CompositeLit)
			if !ok {
				return true
			}
			tn := namedPath(info.TypeOf(cl))
			kind := ""
			for _, k := range []string{"Node", "Way", "Relation"} {
				if tn == core.ModulePath+"."+k {
					kind = k
				}
			}
			if kind == "" {
				return true
			}
			c := "default@" + kind + " literal"
			vis := false
			for _, e := range cl.Elts {
				if kv, ok := e.(*ast.KeyValueExpr); ok {
					if id, ok := kv.Key.(*ast.Ident); ok && id.Name == "Visible" {
						if tv, ok := info.Types[kv.Value]; ok && tv.Value != nil && tv.Value.String() == "true" {
							vis = true
						}
					}
				}
			}
			if vis {
				r.OK(c, cl.Pos(), "`%s` in %s starts from the format default visible=true", src(fs, cl), fi.Name())
			} else {
				r.Bad(c, cl.Pos(), "`%s` in %s does not set Visible: true: an element whose block carries no visible column/flag is reported as deleted", src(fs, cl), fi.Name())
			}
			return true
		})
	}
	// header mapping
	var hdr *FuncInfo
	for _, f := range allFuncs(m.pk) {
		sig := f.Obj.Type().(*types.Signature)
		if sig.Results().Len() == 2 && namedPath(sig.Results().At(0).Type()) == core.ModulePath+"/osmpbf.Header" && sig.Recv() == nil {
			hdr = f
		}
	}
	if hdr == nil {
		r.Anchor("function decoding the header block")
		return
	}
	want := map[string]string{
		"RequiredFeatures": "GetRequiredFeatures", "OptionalFeatures": "GetOptionalFeatures", "WritingProgram": "GetWritingprogram", "Source": "GetSource",
		"ReplicationBaseURL": "GetOsmosisReplicationBaseUrl", "ReplicationSeqNum": "GetOsmosisReplicationSequenceNumber",
	}
	edge := map[string]string{"MinLon": "Left", "MaxLon": "Right", "MinLat": "Bottom", "MaxLat": "Top"}
	got := map[string]bool{}
	// walkValue visits the expression and, for locals defined once, the expression they were read from
	var walkValue func(fi *FuncInfo, e ast.Node, depth int, visit func(ast.Node))
	walkValue = func(fi *FuncInfo, e ast.Node, depth int, visit func(ast.Node)) {
		if e == nil || depth > 4 {
			return
		}
		ast.Inspect(e, func(x ast.Node) bool {
			if x == nil {
				return true
			}
			visit(x)
			if id, ok := x.(*ast.Ident); ok {
				if o := info.Uses[id]; o != nil {
					if rhs := c01SingleDef(info, fi.Decl.Body, o); rhs != nil {
						walkValue(fi, rhs, depth+1, visit)
					}
				}
			}
			return true
		})
	}
	// store(fi, type, field, value, pos): one value stored into a field of Header / Bounds
	store := func(fi *FuncInfo, tn, k string, value ast.Expr, pos token.Pos) {
		switch tn {
		case core.ModulePath + "/osmpbf.Header":
			if k == "ReplicationTimestamp" {
				c := "header@ReplicationTimestamp"
				got[k] = true
				srcField := ""
				var srcExpr ast.Expr
				unixSec := false
				walkValue(fi, value, 0, func(x ast.Node) {
					if sel, ok := x.(*ast.SelectorExpr); ok {
						if ff := fieldOf(info, sel); ff != nil && c01GenTypeName(selRecv(info, sel)) == "HeaderBlock" {
							srcField, srcExpr = ff.Name(), sel
						}
					}
					if call, ok := x.(*ast.CallExpr); ok {
						if fn := callee(info, call); fn != nil && fn.Name() == "GetOsmosisReplicationTimestamp" {
							srcField = "getter"
						}
						if isPkgFunc(callee(info, call), "time", "Unix") && len(call.Args) == 2 {
							if v, okc := constInt(info, call.Args[1]); okc && v == 0 {
								unixSec = true
							}
						}
					}
				})
				guarded := false
				if srcExpr != nil {
					f := c01FnOf(r.P, fi)
					guarded = knownNonNil(f.factsAtPos(pos), func(y ast.Expr) bool { return c01Same(info, fi.Decl.Body, y, srcExpr) }) != nil
				}
				if srcField == "OsmosisReplicationTimestamp" && guarded && unixSec {
					r.OK(c, pos, "set from osmosis_replication_timestamp as seconds since the epoch, only when the field is present")
				} else {
					r.Bad(c, pos, "`%s` (source field %s, under a presence test of it: %v, seconds: %v): an absent timestamp must stay zero and a present one is seconds since the epoch", src(fs, value), srcField, guarded, unixSec)
				}
				return
			}
			w, known := want[k]
			if !known {
				return
			}
			got[k] = true
			var calls []string
			walkValue(fi, value, 0, func(x ast.Node) {
				if call, ok := x.(*ast.CallExpr); ok {
					if fn := callee(info, call); fn != nil && strings.HasPrefix(fn.Name(), "Get") && c01GenTypeName(c01RecvTypeOf(fn)) != "" {
						calls = append(calls, fn.Name())
					}
				}
			})
			c := "header@" + k
			if len(calls) == 1 && calls[0] == w {
				r.OK(c, pos, "Header.%s = %s()", k, w)
			} else {
				r.Bad(c, pos, "Header.%s is filled from %v; the header block's field for it is read by %s", k, calls, w)
			}
		case core.ModulePath + ".Bounds":
			w, known := edge[k]
			if !known {
				return
			}
			got[k] = true
			var flds []string
			scale := false
			walkValue(fi, value, 0, func(x ast.Node) {
				if sel, ok := x.(*ast.SelectorExpr); ok {
					if f := fieldOf(info, sel); f != nil && c01GenTypeName(selRecv(info, sel)) == "HeaderBBox" {
						flds = append(flds, f.Name())
					}
				}
				if call, ok := x.(*ast.CallExpr); ok {
					if fn := callee(info, call); fn != nil && strings.HasPrefix(fn.Name(), "Get") && c01GenTypeName(c01RecvTypeOf(fn)) == "HeaderBBox" {
						flds = append(flds, strings.TrimPrefix(fn.Name(), "Get"))
					}
				}
				if e2, ok := x.(ast.Expr); ok {
					if tv, ok := info.Types[e2]; ok && tv.Value != nil && tv.Value.String() == "1e-09" {
						scale = true
					}
				}
			})
			c := "header@Bounds." + k
			if len(flds) == 1 && flds[0] == w && scale {
				r.OK(c, pos, "Bounds.%s = 1e-9 * bbox.%s (nanodegrees, no granularity)", k, w)
			} else {
				r.Bad(c, pos, "Bounds.%s is computed from bbox.%v (scaled by 1e-9: %v); the format puts it in bbox.%s in nanodegrees", k, flds, scale, w)
			}
		}
	}
	for _, fi := range c01Reachable(r.P, hdr) {
		fi := fi
		if fi == cm.blobData {
			continue
		}
		ast.Inspect(fi.Decl.Body, func(n ast.Node) bool {
			switch s := n.(type) {
			case *ast.CompositeLit:
				tn := namedPath(info.TypeOf(s))
				for _, e := range s.Elts {
					if kv, ok := e.(*ast.KeyValueExpr); ok {
						if id, ok := kv.Key.(*ast.Ident); ok {
							store(fi, tn, id.Name, kv.Value, kv.Pos())
						}
					}
				}
			case *ast.AssignStmt:
				if len(s.Lhs) != len(s.Rhs) {
					return true
				}
				for i, l := range s.Lhs {
					sel, ok := ast.Unparen(l).(*ast.SelectorExpr)
					if !ok {
						continue
					}
					if f := fieldOf(info, sel); f != nil {
						store(fi, namedPath(info.TypeOf(sel.X)), f.Name(), s.Rhs[i], s.Pos())
					}
				}
			}
			return true
		})
	}
	for k := range want {
		if !got[k] {
			r.Bad("header@"+k, hdr.Decl.Pos(), "Header.%s is never filled from the header block", k)
		}
	}
	for _, k := range []string{"MinLon", "MaxLon", "MinLat", "MaxLat"} {
		if !got[k] {
			r.Bad("header@Bounds."+k, hdr.Decl.Pos(), "Bounds.%s is never filled from the header bbox", k)
		}
	}
	if !got["ReplicationTimestamp"] {
		r.Bad("header@ReplicationTimestamp", hdr.Decl.Pos(), "Header.ReplicationTimestamp is never set")
	}
}
