package rules

import (
	"go/types"

	"osmcheck/core"
)

// c05UnknownKeys (part of C05.J5): "any independently written osmjson document (unknown keys present)" decodes.
// encoding/json ignores keys no field claims unless a json.Decoder is told not to: on no path of the UnmarshalJSON
// methods of package osm and of the codec helpers they call is (*json.Decoder).DisallowUnknownFields reached.
func c05UnknownKeys(r *core.R) {
	pk := c03OsmPkg(r.P)
	helpers := c05Helpers(r.P)
	var roots []*FuncInfo
	for _, fi := range allFuncs(pk) {
		if (fi.Obj.Name() == "UnmarshalJSON" && fi.Obj.Type().(*types.Signature).Recv() != nil) || helpers[fi.Obj] == "unmarshal" {
			roots = append(roots, fi)
		}
	}
	c := "unknownkeys@json"
	for _, fi := range roots {
		x := &c03Interp{P: r.P, AllowDynamic: true, Inline: func(fn *types.Func) bool { return true }}
		for _, pa := range x.Run(fi, nil) {
			for i := range pa.St.Trace {
				e := &pa.St.Trace[i]
				if e.Kind == "call" && isMethod(e.Fn, "encoding/json.Decoder", "DisallowUnknownFields") {
					r.Bad(c, e.Node.Pos(), "`%s` (reached from %s): a document carrying a key the library has no field for - which every independently written osmjson document may - is rejected instead of decoded", src(r.P.Fset, e.Call), fi.Name())
					return
				}
			}
		}
	}
	r.OKTrivial(c, pk.Syntax[0].Pos(), "no path of the %d JSON readers and unmarshal helpers of package osm tells a json.Decoder to reject unknown keys", len(roots))
}
