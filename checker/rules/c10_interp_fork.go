package rules

import (
	"go/ast"
)

// Path forking through inlined calls. An in-package callee may end in several ways depending on conditions the
// domain cannot decide (String() of an id: version zero or not). The expression that contains such a call is
// then evaluated once per combination of callee outcomes ("odometer" over the fork points met in evaluation
// order); every evaluation yields one alternative whose path conditions include those of the chosen outcomes.
// Statements execute each alternative as a separate path. Nothing is dropped and nothing is merged.

type c10Fork struct {
	choice []int // prescribed outcome index per fork point, in evaluation order
	sizes  []int // number of outcomes seen at each fork point
	pos    int
	conds  []c10PathCond
}

// pick returns the outcome index to take at the next fork point with n alternatives.
func (f *c10Fork) pick(n int) int {
	i := f.pos
	f.pos++
	if i < len(f.choice) {
		if i < len(f.sizes) {
			f.sizes[i] = n
		} else {
			f.sizes = append(f.sizes, n)
		}
		if f.choice[i] >= n {
			f.choice[i] = n - 1
		}
		return f.choice[i]
	}
	f.choice = append(f.choice, 0)
	f.sizes = append(f.sizes, n)
	return 0
}

// advance returns the next choice vector, or nil when every combination has been tried.
func (f *c10Fork) advance() []int {
	for i := len(f.choice) - 1; i >= 0; i-- {
		if i < len(f.sizes) && f.choice[i]+1 < f.sizes[i] {
			next := append([]int{}, f.choice[:i+1]...)
			next[i]++
			return next
		}
	}
	return nil
}

// c10Alt is one way an expression (list) can evaluate.
type c10Alt struct {
	vals  []c10Val
	pan   string // the evaluation panics
	conds []c10PathCond
	over  bool // too many alternatives: the rest was not explored
}

const c10MaxAlts = 24

// evalAll evaluates the expressions left to right under every combination of callee outcomes.
func (ev *c10Eval) evalAll(es []ast.Expr, st c10State, depth int) []c10Alt {
	outer := ev.fork
	defer func() { ev.fork = outer }()
	var alts []c10Alt
	var choice []int
	for {
		f := &c10Fork{choice: choice}
		ev.fork = f
		alt := c10Alt{}
		for _, e := range es {
			v, p := ev.evalP(e, st.env, depth)
			if p != "" {
				alt.pan = p
				break
			}
			alt.vals = append(alt.vals, v)
		}
		alt.conds = append(append([]c10PathCond{}, st.conds...), f.conds...)
		alts = append(alts, alt)
		choice = f.advance()
		if choice == nil {
			break
		}
		if len(alts) >= c10MaxAlts {
			alts = append(alts, c10Alt{over: true, conds: st.conds})
			break
		}
	}
	return alts
}

// forkCallee is called by callExpr when an inlined callee has several outcomes: inside evalAll it selects one
// (recording its path conditions); elsewhere it reports false and the call evaluates to an unknown value.
func (ev *c10Eval) forkCallee(outs []c10Outcome) (c10Outcome, bool) {
	if ev.fork == nil || len(outs) < 2 {
		return c10Outcome{}, false
	}
	for _, o := range outs {
		if o.Unsupported != "" {
			return c10Outcome{}, false
		}
	}
	o := outs[ev.fork.pick(len(outs))]
	ev.fork.conds = append(ev.fork.conds, o.Conds...)
	return o, true
}
