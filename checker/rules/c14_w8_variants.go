package rules

import "osmcheck/core"

// Overlay edits of datasource.go (package osm): the in-memory datasource the child-first ordering is usually fed with.

const c14SrcRelHistory = `	if ds.Relations == nil {
		return nil, errNotFound
	}

	v := ds.Relations[id]
	if v == nil {
		return nil, errNotFound
	}

	return v, nil
}
`

var c14Benign8DS = []core.Mutant{
	{Name: "datasource-tests-length-of-value", File: "datasource.go", Find: c14SrcRelHistory,
		Replace: "\tv := ds.Relations[id]\n\tif len(v) == 0 {\n\t\treturn nil, errNotFound\n\t}\n\n\treturn v, nil\n}\n"},
	{Name: "datasource-nil-map-guard-dropped-and-test-inverted", File: "datasource.go", Find: c14SrcRelHistory,
		Replace: "\tif history := ds.Relations[id]; history != nil {\n\t\treturn history, nil\n\t}\n\n\treturn nil, errNotFound\n}\n"},
	{Name: "datasource-lookup-through-helper", File: "datasource.go", Find: c14SrcRelHistory,
		Replace: "\tv, found := relationsOf(ds.Relations, id)\n\tif !found {\n\t\treturn nil, errNotFound\n\t}\n\n\treturn v, nil\n}\n\n" +
			"// relationsOf looks the history up; a missing key, a nil map and an empty history are all \"not found\".\n" +
			"func relationsOf(m map[RelationID]Relations, id RelationID) (Relations, bool) {\n\tv := m[id]\n\treturn v, len(v) > 0\n}\n"},
}

var c14Mutants8DS = []core.Mutant{
	// seed C14-h: key presence instead of a test of the value
	{Name: "datasource-comma-ok-lookup", File: "datasource.go", Find: c14SrcRelHistory, ExpectRule: "W8", ExpectConstruct: "notfound@(*HistoryDatasource).RelationHistory",
		Replace: "\tv, ok := ds.Relations[id]\n\tif !ok {\n\t\treturn nil, errNotFound\n\t}\n\n\treturn v, nil\n}\n"},
	{Name: "datasource-tests-the-map-only", File: "datasource.go", Find: c14SrcRelHistory, ExpectRule: "W8", ExpectConstruct: "notfound@(*HistoryDatasource).RelationHistory",
		Replace: "\tif len(ds.Relations) == 0 {\n\t\treturn nil, errNotFound\n\t}\n\n\treturn ds.Relations[id], nil\n}\n"},
	{Name: "datasource-value-test-inverted", File: "datasource.go", Find: c14SrcRelHistory, ExpectRule: "W8", ExpectConstruct: "notfound@(*HistoryDatasource).RelationHistory",
		Replace: "\tv := ds.Relations[id]\n\tif v != nil {\n\t\treturn nil, errNotFound\n\t}\n\n\treturn v, nil\n}\n"},
	{Name: "datasource-helper-reports-key-presence", File: "datasource.go", Find: c14SrcRelHistory, ExpectRule: "W8", ExpectConstruct: "notfound@(*HistoryDatasource).RelationHistory",
		Replace: "\tv, found := relationsOf(ds.Relations, id)\n\tif !found {\n\t\treturn nil, errNotFound\n\t}\n\n\treturn v, nil\n}\n\n" +
			"func relationsOf(m map[RelationID]Relations, id RelationID) (Relations, bool) {\n\tv, ok := m[id]\n\treturn v, ok\n}\n"},
}
