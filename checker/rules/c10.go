package rules

// C10 — packed object/element/feature ids are lossless, ordered and parseable.
//
// Every rule decides by *evaluating* the exported API with the abstract interpreter of c10_interp*.go (bit-vector
// integers, symbolic texts, slices, errors); no rule reads the shape of a statement. Extracted helpers are
// inlined, renamed locals are objects, if / switch / tagless switch / inverted branches / if-with-init /
// early returns / moved functions are all just control flow of the interpreted body.
//
// Anchors. Exported API (class 1): the id types NodeID, WayID, RelationID, ChangesetID, NoteID, UserID,
// the packed types ObjectID, ElementID, FeatureID and their exported methods, the structs Node, Way, Relation,
// Changeset, Note, User, Bounds, WayNode, Member and their fields ID/Ref/Version/Type, the Type
// constants, ParseObjectID/ParseElementID/ParseFeatureID, Elements.Sort/ElementIDs.Sort/FeatureIDs.Sort.
// Role anchors (class 2): methods of Type returning (packed id, error) (the kind lookups), exported
// parameterless methods on lists of packed ids returning three ints (Counts), exported methods on lists of
// ids / id-bearing interfaces that reach a call of package sort (the provided sorts), exported functions
// taking an Object and calling Type() of a packed id (kind dispatchers), the strconv parse calls reached with
// the decimal text of the reference / version.
// Unexported identifiers (class 3) are *hints only*: versionBits, versionMask, refMask, featureMask, typeMask and
// the seven kind masks are used when they resolve by name; otherwise their value is derived from the role they
// play in the exported API (c10Model.role, kindBitsByRole) and K1 checks that value.

import (
	"fmt"
	"go/ast"
	"go/constant"
	"go/token"
	"go/types"
	"sort"
	"strings"

	"golang.org/x/tools/go/packages"

	"osmcheck/core"
)

func init() {
	register(&core.Property{
		ID:    "C10",
		Title: "Packed object/element/feature ids are lossless, ordered and parseable",
		Explanation: "K1-K4 decide the packing clauses completely over a 64-lane bit-vector abstract domain (each result bit is constant 0/1, an input bit ref[i] (i<40) / ver[j] (j<16), or unknown) by abstract interpretation of the actual function bodies of /repo with the constants the type checker computed; nothing is executed. " +
			"(K1) the layout is consistent: versionMask = 1<<versionBits-1, refMask = (1<<40-1)<<versionBits, type/ref/version masks pairwise disjoint with bit 63 clear, featureMask = typeMask|refMask, seven distinct non-zero kind masks inside typeMask, nodeMask < wayMask < relationMask; a constant that no longer exists under its usual name is replaced by the value derived from its role (the lanes Version()/Ref()/FeatureID() keep, the shift and kind bits the constructors write). " +
			"(K2) every exported constructor (XID.ObjectID/FeatureID/ElementID, FeatureID.ElementID/ObjectID, the struct wrappers (*Node).ElementID ... Member.ElementID) yields exactly kindMask | ref<<16 | ver with no unknown lane for every ref in [0,2^40) and version in [0,2^16): each input bit occupies its own lane, so distinct inputs give distinct ids. " +
			"(K3) Ref/Version/Type and the conversions composed with K2 are the identity on every lane; the kind lookups (methods of Type returning (id, error)) map the text of each kind the packed type can hold to the K2 id of that kind with a nil error and every other text (the other kinds, any other string, every string constant they compare with) to a non-nil error; the Counts methods count an id of each kind under that kind; functions that branch on the decoded kind of an Object do not panic for any kind. " +
			"(K4) kind lanes lie above ref lanes above version lanes, bit 63 is 0, node < way < relation, so integer order is (kind, ref, version) order; the less function of every provided sort, evaluated for two abstract elements under the three possible orders of their keys and both argument orders, is exactly key(i) < key(j) on the packed id (the ElementID where the element has one), Swap exchanges, Len counts, and every implementation of the key accessor is a K2 constructor; each provided Sort method as a whole, interpreted on constant witness lists with an inversion in the version, reference or kind field at the start, middle or end, hands every out-of-order list to package sort (or orders it itself) and does not panic on the empty list, so no fast path, length shortcut or pre-check on a coarser key (FeatureID instead of ElementID, Ref only) takes an unsorted list for sorted (sorted@). " +
			"(K5) String() and the parsers are evaluated on abstract ids and abstract texts: String prints kind/ref[:version|:marker] with the marker exactly for version 0; Parse(String(id)) = (id, nil) for every form; kind/ref without version gives version 0; texts with 1..N `/`- or `:`-separated parts are accepted exactly for 2 resp. 1 or 2 parts (N exceeds every constant a part count is compared with); a reference or version that is not a number, an empty kind, any text that is not a kind of the parser's id type (including changeset/note/user/bounds for element and feature ids) and every string constant the parser compares a text with give a provably non-nil error and no panic. " +
			"(K7) every typed conversion of a packed id (ElementID/FeatureID .NodeID/.WayID/.RelationID, found by signature), evaluated on the K2 id of each of the seven kinds, returns the reference for its own kind and panics on every path for the other six, so its guard is true exactly for that kind whatever its spelling (a single-bit test lets relation ids through a node or way guard). " +
			"(K6) every strconv parse reached with the decimal text of the reference / version uses base 10 and a bit size covering 40 / 16 bits (plus sign). " +
			"NOT decided: acceptance of odd but shape-conforming text (`+1`, leading zeros, negative or out-of-range refs/versions, which wrap into the fields; a version after a kind that carries none), malformed texts outside the enumerated classes, the decimal round trip of fmt %d / strconv (trusted transfer functions), inputs outside ref<2^40, version<2^16. sorted@ is a finite set of witness lists (a report is a real counterexample; a fast path that misjudges only lists outside the witnesses is not found). Code outside the interpreted forms (function literals that assign to captured variables, goroutines, maps or tables that are written after initialisation, labelled jumps, byte-scanning loops over a text of unknown length, fmt.Sscanf, defer, stores through pointers, builders whose address escapes) is reported as undecided, never silently accepted.",
		Assumptions: []string{
			"go/types constant values and types.Sizes of the loaded build configuration (int is 64 bits by default, 32 bits under GOARCH=386; versions < 2^16 fit either way and every conversion through int is evaluated with the configured width)",
			"input domain of the property: ref in [0,2^40), version in [0,2^16) (higher input bits are constant 0)",
			"transfer functions of the interpreter: Go integer semantics of | & &^ ^ << >> + - and integer conversions (rules/c10_bitvec.go); strings.Split/SplitN/Cut/Contains/Count/Join, strings.Index/IndexByte/IndexRune/LastIndex/LastIndexByte/HasPrefix/HasSuffix/TrimPrefix/TrimSuffix, len(s), s[i] and s[a:b] over symbolic texts (byte offsets are exact cut points between text pieces), strings.Builder/bytes.Buffer locals (WriteString/WriteByte/WriteRune/Fprintf/String), byte buffers that build a text (append of strings and byte constants, strconv.AppendInt/AppendUint base 10, string(b), []byte(s); element stores into them are not interpreted), * / % by constant powers of two, sort.Sort/Stable/Slice (recorded) and sort.IsSorted/SliceIsSorted (evaluated with the interpreted Len/Less), array/slice/map/struct literals and read-only package-level tables indexed by a folded bit field, make with a constant size, fmt.Sprintf with %s %d %v, string +, strconv.Itoa/FormatInt, strconv.ParseInt/ParseUint/Atoi (decimal text of a number that fits the requested width parses back to that number with a nil error; text with a non-digit gives a non-nil error), fmt.Errorf/errors.New return non-nil errors; sort.Sort/Stable/Slice contract",
			"a generic text stands for every string the interpreted code cannot tell apart from it: texts only flow into splitting, ==/!=/switch against constants, conversions, formatting and strconv; every constant such a comparison uses is tried separately",
		},
		LevelText:  "K1-K4 are exhaustive over the abstract domain: the bit-level abstract interpretation of the real constructor/decoder bodies covers every kind, every ref in [0,2^40) and every version in [0,2^16) at once (all 2^56 inputs per kind, every bit-field boundary and every pair for the order claim) for each build configuration. K5/K6 evaluate String and the parsers over the same domain for the round trip (every id) and over enumerated classes of malformed text (each class with a representative the code cannot distinguish from its other members); they do not decide acceptance of odd shape-conforming text.",
		LevelNote:  "The evidence file written by the shared driver says exhaustive:false for every property; for C10 the rules K1-K4 and the round-trip part of K5 are exhaustive over the stated input domain in the sense above, the rejection part of K5 is a finite enumeration of text classes. Trusts go/types constants and sizes, the transfer functions of the bit-vector and text domains, and the fmt/strconv decimal round trip.",
		Technique:  "abstract interpretation of whole function bodies (64-lane bit vectors: const/input-bit/unknown; symbolic texts of literal pieces and decimal renderings; slices, errors, dynamic types) with in-package inlining; finite-domain evaluation of kind tables, comparators (three key orders) and parsers (text classes); role-derived layout constants",
		DesignRef:  "DESIGN.md §5 C10, §2.3 engine E",
		Exhaustive: true,
		Rules: []*core.Rule{
			// Floors count obligations keyed on exported API and kinds only (a refactoring cannot remove them):
			// K3 = 46 decode@/convert@ + 8 lookup@Type.FeatureID + 10 counts@; the obligations about the unexported
			// lookup (8 lookup@Type.objectID) and about the optional dispatcher role (7 dispatch@(*OSM).Append) are extra.
			{ID: "K1", Floor: 16, Doc: "layout constants (by name, else by role): masks consistent, disjoint, sign bit clear, seven distinct kind masks, node<way<relation", Run: c10K1},
			{ID: "K2", Floor: 40, Doc: "every exported id constructor yields exactly kindMask | ref<<16 | ver with no unknown lane (injective)", Run: c10K2},
			{ID: "K3", Floor: 64, Doc: "decoders and conversions are the identity on every lane; kind lookups, Counts and kind dispatchers agree with the kinds (evaluated per kind)", Run: c10K3},
			{ID: "K4", Floor: 22, Doc: "lane layout makes integer order (kind, ref, version) order; the provided sorts use strict ascending < on the packed ids (evaluated less/Swap/Len) and hand every out-of-order witness list to that sort (no wrong fast path)", Run: c10K4},
			{ID: "K5", Floor: 61, Doc: "Parse(String(id)) = id for every form; exactly the kind/ref[:version] arities are accepted; non-numbers, unknown and foreign kinds give a non-nil error, no panic", Run: c10K5},
			{ID: "K6", Floor: 5, Doc: "the decimal reference / version text is parsed base 10 with a width covering the whole range (strconv calls found by the text that reaches them)", Run: c10K6},
			{ID: "K7", Floor: 6, Doc: "every typed conversion X.NodeID()/WayID()/RelationID() panics for ids of each of the other six kinds (guard evaluated on the seven kind masks, whatever its spelling)", Run: c10K7},
		},
		Mutants: c10AllVariants(c10Mutants, c10MutantsRound2, c10MutantsSort, c10MutantsRepr, c10MutantsIndex, c10MutantsText, c10MutantsGuard, c10MutantsBytes),
		Benign:  c10AllVariants(c10Benign, c10BenignSort, c10BenignRepr, c10BenignIndex, c10BenignText, c10BenignGuard, c10BenignBytes),
	})
}

var c10Mutants = []core.Mutant{
	{Name: "k6-version-parsed-16-bit", File: "element.go", Find: "strconv.ParseInt(parts2[1], 10, 64)", Replace: "strconv.ParseInt(parts2[1], 10, 16)", ExpectRule: "K6", ExpectConstruct: "ParseElementID"},
	{Name: "k6-ref-parsed-32-bit", File: "feature.go", Find: "strconv.ParseInt(parts[1], 10, 64)", Replace: "strconv.ParseInt(parts[1], 10, 32)", ExpectRule: "K6", ExpectConstruct: "ParseFeatureID"},
	// K1
	{Name: "versionmask-15-bits", File: "feature.go", Find: "versionMask = 0x000000000000FFFF", Replace: "versionMask = 0x0000000000007FFF", ExpectRule: "K1", ExpectConstruct: "versionMask"},
	{Name: "refmask-drops-bit0", File: "feature.go", Find: "refMask     = 0x00FFFFFFFFFF0000", Replace: "refMask     = 0x00FFFFFFFFFE0000", ExpectRule: "K1", ExpectConstruct: "refMask"},
	{Name: "featuremask-keeps-version-bit", File: "feature.go", Find: "featureMask = 0x7FFFFFFFFFFF0000", Replace: "featureMask = 0x7FFFFFFFFFFF8000", ExpectRule: "K1", ExpectConstruct: "featureMask"},
	{Name: "node-way-masks-swapped", File: "feature.go", Find: "nodeMask      = 0x1000000000000000\n\twayMask       = 0x2000000000000000", Replace: "nodeMask      = 0x2000000000000000\n\twayMask       = 0x1000000000000000", ExpectRule: "K1", ExpectConstruct: "kind-order"},
	{Name: "usermask-outside-typemask", File: "feature.go", Find: "typeMask    = 0x7F00000000000000", Replace: "typeMask    = 0x3F00000000000000", ExpectRule: "K1", ExpectConstruct: "userMask"},
	// K2
	{Name: "node-uses-waymask", File: "node.go", Find: "FeatureID(nodeMask | (id << versionBits))", Replace: "FeatureID(wayMask | (id << versionBits))", ExpectRule: "K2", ExpectConstruct: "NodeID.FeatureID"},
	{Name: "way-shift-15", File: "way.go", Find: "FeatureID(wayMask | (id << versionBits))", Replace: "FeatureID(wayMask | (id << (versionBits - 1)))", ExpectRule: "K2", ExpectConstruct: "WayID.FeatureID"},
	{Name: "elementid-version-shifted", File: "feature.go", Find: "ElementID(id | (versionMask & FeatureID(v)))", Replace: "ElementID(id | (versionMask & FeatureID(v>>1)))", ExpectRule: "K2", ExpectConstruct: "FeatureID.ElementID"},
	{Name: "note-plus-overlap", File: "note.go", Find: "ObjectID(noteMask | (id << versionBits))", Replace: "ObjectID(noteMask + (id << (versionBits + 22)))", ExpectRule: "K2", ExpectConstruct: "NoteID.ObjectID"},
	{Name: "node-wrapper-drops-version", File: "node.go", Find: "return n.ID.ElementID(n.Version)", Replace: "return n.ID.ElementID(0)", ExpectRule: "K2", ExpectConstruct: "(*Node).ElementID"},
	{Name: "member-way-as-node", File: "relation.go", Find: "return WayID(m.Ref).FeatureID()", Replace: "return NodeID(m.Ref).FeatureID()", ExpectRule: "K2", ExpectConstruct: "Member.FeatureID"},
	// K3
	{Name: "objectid-ref-shift-17", File: "object.go", Find: "int64((id & refMask) >> versionBits)", Replace: "int64((id & refMask) >> (versionBits + 1))", ExpectRule: "K3", ExpectConstruct: "ObjectID.Ref"},
	{Name: "elementid-version-refmask", File: "element.go", Find: "return int(id & (versionMask))", Replace: "return int(id & (refMask))", ExpectRule: "K3", ExpectConstruct: "ElementID.Version"},
	{Name: "objectid-type-note-as-changeset", File: "object.go", Find: "case noteMask:\n\t\treturn TypeNote", Replace: "case noteMask:\n\t\treturn TypeChangeset", ExpectRule: "K3", ExpectConstruct: "decode@ObjectID.Type kind=note"},
	{Name: "featureid-string-way-as-relation", File: "feature.go", Find: "case wayMask:\n\t\tt = TypeWay", Replace: "case wayMask:\n\t\tt = TypeRelation", ExpectRule: "K5", ExpectConstruct: "format@FeatureID.String kind=way"},
	{Name: "type-featureid-way-as-relation", File: "feature.go", Find: "return WayID(ref).FeatureID(), nil", Replace: "return RelationID(ref).FeatureID(), nil", ExpectRule: "K3", ExpectConstruct: "lookup@Type.FeatureID kind=way"},
	{Name: "elementid-featureid-refmask", File: "element.go", Find: "return FeatureID(id & featureMask)", Replace: "return FeatureID(id & refMask)", ExpectRule: "K3", ExpectConstruct: "ElementID.FeatureID"},
	{Name: "counts-way-counted-as-node", File: "element.go", Find: "case wayMask:\n\t\t\tways++", Replace: "case wayMask:\n\t\t\tnodes++", ExpectRule: "K3", ExpectConstruct: "counts@ElementIDs.Counts kind=way"},
	{Name: "elementid-type-drops-relation", File: "element.go", Find: "\tcase relationMask:\n\t\treturn TypeRelation\n\t}\n\n\tpanic(\"unknown type\")", Replace: "\t}\n\n\tpanic(\"unknown type\")", ExpectRule: "K3", ExpectConstruct: "ElementID.Type"},
	// K4
	{Name: "featureids-sort-descending", File: "feature.go", Find: "return ids[i] < ids[j]", Replace: "return ids[i] > ids[j]", ExpectRule: "K4", ExpectConstruct: "comparator@FeatureIDs.Sort less"},
	{Name: "elementids-sort-nonstrict", File: "element.go", Find: "return ids[i] < ids[j]", Replace: "return ids[i] <= ids[j]", ExpectRule: "K4", ExpectConstruct: "comparator@ElementIDs.Sort less"},
	{Name: "elements-sort-ignores-version", File: "element.go", Find: "return es[i].ElementID() < es[j].ElementID()", Replace: "return es[i].FeatureID() < es[j].FeatureID()", ExpectRule: "K4", ExpectConstruct: "comparator@Elements.Sort less"},
	{Name: "elementids-swap-broken", File: "element.go", Find: "func (ids elementIDsSort) Swap(i, j int) { ids[i], ids[j] = ids[j], ids[i] }", Replace: "func (ids elementIDsSort) Swap(i, j int) { ids[i], ids[j] = ids[j], ids[j] }", ExpectRule: "K4", ExpectConstruct: "comparator@ElementIDs.Sort swap"},
	// K5
	{Name: "parsefeature-ignores-strconv-error", File: "feature.go", Find: "n, err := strconv.ParseInt(parts[1], 10, 64)\n\tif err != nil {\n\t\treturn 0, fmt.Errorf(\"invalid feature id: %v: %v\", s, err)\n\t}", Replace: "n, _ := strconv.ParseInt(parts[1], 10, 64)", ExpectRule: "K5", ExpectConstruct: "errors@ParseFeatureID"},
	{Name: "parseobject-accepts-3-parts", File: "object.go", Find: "l == 0 || l > 2", Replace: "l == 0 || l > 3", ExpectRule: "K5", ExpectConstruct: "arity@ParseObjectID"},
	{Name: "parseelement-accepts-3-parts", File: "element.go", Find: "l != 1 && l != 2", Replace: "l != 1 && l != 2 && l != 3", ExpectRule: "K5", ExpectConstruct: "arity@ParseElementID"},
	{Name: "parsefeature-accepts-3-slash-parts", File: "feature.go", Find: "if len(parts) != 2 {", Replace: "if len(parts) < 2 {", ExpectRule: "K5", ExpectConstruct: "arity@ParseFeatureID"},
	{Name: "unknown-kind-nil-error", File: "feature.go", Find: "return 0, fmt.Errorf(\"unknown type: %v\", t)", Replace: "return 0, nil", Nth: 2, ExpectRule: "K5", ExpectConstruct: "unknown-kind@ParseFeatureID any other text"},
	{Name: "parseobject-version-from-ref-part", File: "object.go", Find: "v, e := strconv.ParseInt(parts2[1], 10, 64)", Replace: "v, e := strconv.ParseInt(parts2[0], 10, 64)", ExpectRule: "K5", ExpectConstruct: "roundtrip@ParseObjectID"},
	{Name: "parseelement-version-error-nil", File: "element.go", Find: "if e != nil {\n\t\t\treturn 0, fmt.Errorf(\"invalid element id: %v: %v\", s, err)\n\t\t}", Replace: "if e != nil {\n\t\t\treturn 0, nil\n\t\t}", ExpectRule: "K5", ExpectConstruct: "errors@ParseElementID"},
	{Name: "objectid-string-dot-separator", File: "object.go", Find: "\"%s/%d:%d\"", Replace: "\"%s/%d.%d\"", ExpectRule: "K5", ExpectConstruct: "format@ObjectID.String"},
	{Name: "elementid-string-dash-for-version-1", File: "element.go", Find: "func (id ElementID) String() string {\n\tif id.Version() == 0 {", Replace: "func (id ElementID) String() string {\n\tif id.Version() == 1 {", ExpectRule: "K5", ExpectConstruct: "format@ElementID.String"},
	{Name: "parseelement-hex-ref", File: "element.go", Find: "ref, err := strconv.ParseInt(parts2[0], 10, 64)", Replace: "ref, err := strconv.ParseInt(parts2[0], 16, 64)", ExpectRule: "K5", ExpectConstruct: "roundtrip@ParseElementID"},
	{Name: "parseobject-no-dash", File: "object.go", Find: "if len(parts2) == 2 && parts2[1] != \"-\" {", Replace: "if len(parts2) == 2 {", ExpectRule: "K5", ExpectConstruct: "roundtrip@ParseObjectID"},
}

// ---------------------------------------------------------------------------
// model of the id scheme

// c10Kind is one object kind. The association id type <-> Type constant <-> text is exported API
// and the vocabulary of the property statement (bounds, node, way, relation, changeset, note, user).
type c10Kind struct {
	Name      string // text of the kind = value of the Type constant
	IDType    string // id type whose methods construct the packed ids ("" for bounds)
	Struct    string // struct whose ObjectID() carries the kind
	TypeConst string
	MaskConst string // class-3 anchor
	Versioned bool   // object ids of this kind carry a version
	Feature   bool   // has FeatureID/ElementID

	mask    uint64       // value of MaskConst
	typeObj *types.Const // the Type constant
}

func c10KindTable() []*c10Kind {
	return []*c10Kind{
		{Name: "bounds", Struct: "Bounds", TypeConst: "TypeBounds", MaskConst: "boundsMask"},
		{Name: "node", IDType: "NodeID", Struct: "Node", TypeConst: "TypeNode", MaskConst: "nodeMask", Versioned: true, Feature: true},
		{Name: "way", IDType: "WayID", Struct: "Way", TypeConst: "TypeWay", MaskConst: "wayMask", Versioned: true, Feature: true},
		{Name: "relation", IDType: "RelationID", Struct: "Relation", TypeConst: "TypeRelation", MaskConst: "relationMask", Versioned: true, Feature: true},
		{Name: "changeset", IDType: "ChangesetID", Struct: "Changeset", TypeConst: "TypeChangeset", MaskConst: "changesetMask"},
		{Name: "note", IDType: "NoteID", Struct: "Note", TypeConst: "TypeNote", MaskConst: "noteMask"},
		{Name: "user", IDType: "UserID", Struct: "User", TypeConst: "TypeUser", MaskConst: "userMask"},
	}
}

const (
	c10RefBits = 40 // property: references in [0, 2^40)
	c10VerBits = 16 // property: versions in [0, 2^16)
)

var c10LayoutConsts = []string{"versionBits", "versionMask", "refMask", "featureMask", "typeMask"}

type c10Model struct {
	r       *core.R
	pk      *packages.Package
	info    *types.Info
	ev      *c10Eval
	consts  map[string]uint64
	cobj    map[string]*types.Const
	kinds   []*c10Kind
	packed  map[string]*types.Named // ObjectID, ElementID, FeatureID
	typeT   *types.Named            // osm.Type
	funcs   []*FuncInfo
	derived map[string]string // layout/kind constants that did not resolve by name: how their value was derived
}

// c10Load resolves the anchors; missing ones are reported through r.Anchor and nil is returned.
// Exported API (id types, structs, Type constants, packed types) is required. The unexported layout and
// kind-mask constants are only *hints*: when one does not resolve under its usual name (renamed, inlined,
// replaced by an expression) its value is derived from the role it plays in the exported API (see role()).
func c10Load(r *core.R) *c10Model {
	pk := r.P.Pkg("")
	if pk == nil {
		r.Anchor("package " + core.ModulePath)
		return nil
	}
	m := &c10Model{r: r, pk: pk, info: pk.TypesInfo, ev: c10NewEval(pk), consts: map[string]uint64{}, cobj: map[string]*types.Const{},
		kinds: c10KindTable(), packed: map[string]*types.Named{}, funcs: allFuncs(pk), derived: map[string]string{}}
	m.ev.resetScenario()
	ok := true
	scope := pk.Types.Scope()
	names := append([]string{}, c10LayoutConsts...)
	for _, k := range m.kinds {
		names = append(names, k.MaskConst)
	}
	for _, n := range names {
		c, _ := scope.Lookup(n).(*types.Const)
		if c == nil {
			continue
		}
		v := constant.ToInt(c.Val())
		u, exact := constant.Uint64Val(v)
		if v.Kind() != constant.Int || !exact {
			continue
		}
		m.consts[n], m.cobj[n] = u, c
	}
	for _, k := range m.kinds {
		if c, _ := scope.Lookup(k.TypeConst).(*types.Const); c != nil && c.Val().Kind() == constant.String {
			k.typeObj = c
		} else {
			r.Anchor("constant " + k.TypeConst)
			ok = false
		}
		if k.IDType != "" && c10Named(pk, k.IDType) == nil {
			r.Anchor("type " + k.IDType)
			ok = false
		}
		if c10Named(pk, k.Struct) == nil {
			r.Anchor("type " + k.Struct)
			ok = false
		}
	}
	for _, n := range []string{"ObjectID", "ElementID", "FeatureID"} {
		if nt := c10Named(pk, n); nt != nil {
			m.packed[n] = nt
		} else {
			r.Anchor("type " + n)
			ok = false
		}
	}
	if m.typeT = c10Named(pk, "Type"); m.typeT == nil {
		r.Anchor("type Type")
		ok = false
	}
	if !ok {
		return nil
	}
	// kind bits: the named mask constant when it resolves, else the constant part of what the kind's
	// exported ObjectID constructor writes
	for _, k := range m.kinds {
		if u, has := m.consts[k.MaskConst]; has {
			k.mask = u
			continue
		}
		u, why := m.kindBitsByRole(k)
		if why != "" {
			r.Unknown("model kind "+k.Name, token.NoPos, "no constant %s and the kind bits cannot be derived from the %s ObjectID constructor: %s", k.MaskConst, k.Name, why)
			ok = false
			continue
		}
		k.mask = u
		m.derived[k.MaskConst] = fmt.Sprintf("constant bits written by the %s ObjectID constructor", k.Name)
	}
	if !ok {
		return nil
	}
	return m
}

// kindBitsByRole evaluates the exported ObjectID constructor of the kind and returns its constant lanes.
func (m *c10Model) kindBitsByRole(k *c10Kind) (uint64, string) {
	v, why := m.evalCanonical("ObjectID", k)
	if why != "" {
		return 0, why
	}
	if v.K != c10VInt {
		return 0, "result is not an integer"
	}
	u, ok := v.V.constPart()
	if !ok {
		return 0, "result has unknown lanes: " + v.V.String()
	}
	return u, ""
}

// maskName names the kind bits in messages.
func (m *c10Model) maskName(k *c10Kind) string {
	if _, has := m.consts[k.MaskConst]; has {
		return k.MaskConst
	}
	return fmt.Sprintf("%#x (kind bits of %s)", k.mask, k.Name)
}

func c10Named(pk *packages.Package, name string) *types.Named {
	tn, _ := pk.Types.Scope().Lookup(name).(*types.TypeName)
	if tn == nil {
		return nil
	}
	nt, _ := tn.Type().(*types.Named)
	return nt
}

// localName returns the name of a (pointer to a) named type of the analysed package, or "".
func (m *c10Model) localName(t types.Type) string {
	if t == nil {
		return ""
	}
	if pt, ok := t.(*types.Pointer); ok {
		t = pt.Elem()
	}
	if nt, ok := t.(*types.Named); ok && nt.Obj().Pkg() == m.pk.Types {
		return nt.Obj().Name()
	}
	return ""
}

func (m *c10Model) isPacked(t types.Type) bool {
	_, ok := m.packed[m.localName(t)]
	return ok && !c10IsPtr(t)
}

func c10IsPtr(t types.Type) bool { _, ok := t.(*types.Pointer); return ok }

func (m *c10Model) kindByIDType(t types.Type) *c10Kind {
	n := m.localName(t)
	for _, k := range m.kinds {
		if k.IDType != "" && k.IDType == n && !c10IsPtr(t) {
			return k
		}
	}
	return nil
}

func (m *c10Model) kindByName(name string) *c10Kind {
	for _, k := range m.kinds {
		if k.Name == name {
			return k
		}
	}
	return nil
}

func (m *c10Model) kindByMask(u uint64) *c10Kind {
	for _, k := range m.kinds {
		if k.mask == u {
			return k
		}
	}
	return nil
}

func (m *c10Model) kindByTypeConst(o types.Object) *c10Kind {
	for _, k := range m.kinds {
		if k.typeObj != nil && types.Object(k.typeObj) == o {
			return k
		}
	}
	return nil
}

func (m *c10Model) typeText(k *c10Kind) string { return constant.StringVal(k.typeObj.Val()) }

// kindsOf lists the kinds a packed type can hold.
func (m *c10Model) kindsOf(packed string) []*c10Kind {
	var out []*c10Kind
	for _, k := range m.kinds {
		if packed == "ObjectID" || k.Feature {
			out = append(out, k)
		}
	}
	return out
}

// methodsOf lists the declared methods whose receiver is (a pointer to) the named type.
func (m *c10Model) methodsOf(typeName string) []*FuncInfo {
	var out []*FuncInfo
	for _, fi := range m.funcs {
		if recv := fi.Obj.Type().(*types.Signature).Recv(); recv != nil && m.localName(recv.Type()) == typeName {
			out = append(out, fi)
		}
	}
	sort.Slice(out, func(i, j int) bool { return out[i].Obj.Name() < out[j].Obj.Name() })
	return out
}

func (m *c10Model) method(typeName, name string) *FuncInfo {
	for _, fi := range m.methodsOf(typeName) {
		if fi.Obj.Name() == name {
			return fi
		}
	}
	return nil
}

// width of an integer type in the loaded configuration.
func (m *c10Model) vecOf(t types.Type, v c10Vec) c10Vec {
	w, s, ok := m.ev.intType(t)
	if !ok {
		w, s = 64, true
	}
	return v.convert(w, s)
}

func (m *c10Model) refInput(t types.Type) c10Val {
	return c10IntVal(m.vecOf(t, c10InputVec(c10SrcRef, c10RefBits, 64, true)))
}

func (m *c10Model) verInput(t types.Type) c10Val {
	return c10IntVal(m.vecOf(t, c10InputVec(c10SrcVer, c10VerBits, 64, true)))
}

// shape is the id the property prescribes for kind k: kindMask | ref<<16 | ver (ref absent for bounds).
func (m *c10Model) shape(k *c10Kind, withVer bool) c10Vec {
	v := c10ConstVec(k.mask, 64, true)
	if k.IDType != "" {
		v = v.or(c10InputVec(c10SrcRef, c10RefBits, 64, true).shl(c10VerBits))
	}
	if withVer {
		v = v.or(c10InputVec(c10SrcVer, c10VerBits, 64, true))
	}
	return v
}

// refOf / verOf: what Ref()/Version() must return for an id of the given shape.
func c10RefOf(id c10Vec) c10Vec {
	return id.and(c10ConstVec((1<<c10RefBits-1)<<c10VerBits, 64, true)).shr(c10VerBits)
}
func c10VerOf(id c10Vec) c10Vec { return id.and(c10ConstVec(1<<c10VerBits-1, 64, true)) }

// single interprets fi and returns its result when it has exactly one normal outcome.
func (m *c10Model) single(fi *FuncInfo, recv c10Val, args []c10Val) (c10Val, string) {
	outs := m.ev.call(fi.Decl, &recv, args, 1)
	return c10Single(outs, fi.Name())
}

func c10Single(outs []c10Outcome, name string) (c10Val, string) {
	for _, o := range outs {
		if o.Unsupported != "" {
			return c10Val{}, name + ": outside the interpreted statement forms: " + o.Unsupported
		}
	}
	if len(outs) != 1 {
		return c10Val{}, fmt.Sprintf("%s has %d outcomes depending on undecided conditions", name, len(outs))
	}
	if outs[0].Panic {
		return c10Val{}, name + " panics on this input"
	}
	if len(outs[0].Res) == 0 {
		return c10Val{}, name + " returns nothing"
	}
	return outs[0].Res[0], ""
}

// verdict compares an abstract integer result with the prescribed lanes.
// It returns true when identical; otherwise it emits Bad (a provably wrong lane) or Unknown (only ⊤ lanes).
func (m *c10Model) verdict(construct string, pos token.Pos, got c10Val, why string, want c10Vec, what string) bool {
	r := m.r
	if why != "" {
		r.Unknown(construct, pos, "%s: %s", what, why)
		return false
	}
	if got.K != c10VInt {
		r.Unknown(construct, pos, "%s: result is not an integer the domain tracks: %s", what, got.String())
		return false
	}
	if got.V.sameLanes(want) {
		return true
	}
	diff, definite := c10Diff(got.V, want)
	if definite {
		r.Bad(construct, pos, "%s: abstract result %s, required %s (%s): some (ref, version) in range is packed/decoded wrongly", what, got.V, want, diff)
	} else {
		extra := ""
		if got.Why != "" {
			extra = " (" + got.Why + ")"
		}
		r.Unknown(construct, pos, "%s: abstract result %s has unknown lanes where %s is required (%s)%s: losslessness is not established", what, got.V, want, diff, extra)
	}
	return false
}

// intParamsAsVersion binds every parameter of fi: `int` parameters carry the version.
func (m *c10Model) versionArgs(fi *FuncInfo) (args []c10Val, hasVer bool, err string) {
	ps := fi.Obj.Type().(*types.Signature).Params()
	for i := 0; i < ps.Len(); i++ {
		t := ps.At(i).Type()
		if b, ok := t.(*types.Basic); ok && b.Kind() == types.Int {
			args = append(args, m.verInput(t))
			hasVer = true
			continue
		}
		return nil, false, "parameter " + ps.At(i).Name() + " of type " + t.String() + " has no role in the id scheme"
	}
	return args, hasVer, ""
}

func (m *c10Model) resultType(fi *FuncInfo) types.Type {
	rs := fi.Obj.Type().(*types.Signature).Results()
	if rs.Len() == 0 {
		return nil
	}
	return rs.At(0).Type()
}

// ---------------------------------------------------------------------------
// K1 layout

// rawProbe evaluates a parameterless method of a packed type on an arbitrary 64-bit pattern raw[63..0] and
// returns, for every result lane, which raw bit it holds (-1: constant 0). ok=false when a lane is anything else.
func (m *c10Model) rawProbe(packed, method string) (lanes [64]int, why string) {
	fi := m.method(packed, method)
	if fi == nil {
		return lanes, packed + "." + method + " not found"
	}
	recvT := fi.Obj.Type().(*types.Signature).Recv().Type()
	got, w := m.single(fi, c10IntVal(m.vecOf(recvT, c10InputVec(c10SrcRaw, 64, 64, true))), nil)
	if w != "" {
		return lanes, w
	}
	if got.K != c10VInt {
		return lanes, "result is not an integer"
	}
	for i := 0; i < 64; i++ {
		l := got.V.L[i]
		switch {
		case l.K == c10Zero:
			lanes[i] = -1
		case l.K == c10Sym && l.Src == c10SrcRaw:
			lanes[i] = int(l.Bit)
		default:
			return lanes, fmt.Sprintf("lane %d of %s.%s(raw) is %s", i, packed, method, c10LaneStr(l))
		}
	}
	return lanes, ""
}

// role derives the value of a layout constant from the role it plays in the exported API:
//
//	versionBits  lane of ref[0] in what NodeID.FeatureID() builds
//	versionMask  the lanes ElementID.Version() keeps (in place)
//	refMask      the lanes ElementID.Ref() keeps (before its shift)
//	featureMask  the lanes ElementID.FeatureID() keeps (in place)
//	typeMask     the union of the seven kind-bit patterns (the lanes that tell kinds apart)
func (m *c10Model) role(name string) (uint64, string, string) {
	inPlace := func(packed, method string) (uint64, string) {
		lanes, why := m.rawProbe(packed, method)
		if why != "" {
			return 0, why
		}
		var u uint64
		for i, b := range lanes {
			if b < 0 {
				continue
			}
			if b != i && !(i >= 32 && lanes[i] == lanes[31]) { // sign extension of a 32-bit int result
				return 0, fmt.Sprintf("%s.%s moves raw bit %d to lane %d", packed, method, b, i)
			}
			if b == i {
				u |= 1 << uint(i)
			}
		}
		return u, ""
	}
	switch name {
	case "versionBits":
		k := m.kindByName("node")
		v, why := m.evalCanonical("FeatureID", k)
		if why != "" || v.K != c10VInt {
			return 0, "", "NodeID.FeatureID could not be evaluated: " + why
		}
		for i := 0; i < 64; i++ {
			if l := v.V.L[i]; l.K == c10Sym && l.Src == c10SrcRef && l.Bit == 0 {
				return uint64(i), "lane of ref[0] in NodeID.FeatureID()", ""
			}
		}
		return 0, "", "ref[0] does not appear in NodeID.FeatureID()"
	case "versionMask":
		u, why := inPlace("ElementID", "Version")
		return u, "lanes ElementID.Version() keeps", why
	case "featureMask":
		u, why := inPlace("ElementID", "FeatureID")
		return u, "lanes ElementID.FeatureID() keeps", why
	case "refMask":
		lanes, why := m.rawProbe("ElementID", "Ref")
		if why != "" {
			return 0, "", why
		}
		var u uint64
		shift := -1
		for i, b := range lanes {
			if b < 0 {
				continue
			}
			if shift == -1 {
				shift = b - i
			}
			if b-i != shift {
				return 0, "", fmt.Sprintf("ElementID.Ref() does not shift uniformly (raw bit %d in lane %d)", b, i)
			}
			u |= 1 << uint(b)
		}
		return u, "lanes ElementID.Ref() keeps", ""
	case "typeMask":
		var u uint64
		for _, k := range m.kinds {
			u |= k.mask
		}
		return u, "union of the seven kind-bit patterns", ""
	}
	return 0, "", "no role known for " + name
}

func c10K1(r *core.R) {
	m := c10Load(r)
	if m == nil {
		return
	}
	// values by name, else by role
	c := map[string]uint64{}
	how := map[string]string{}
	for _, n := range c10LayoutConsts {
		if u, has := m.consts[n]; has {
			c[n] = u
			continue
		}
		u, desc, why := m.role(n)
		if why != "" {
			r.Unknown(n, token.NoPos, "no constant %s in the package and its role value cannot be derived: %s", n, why)
			return
		}
		c[n], how[n] = u, desc
	}
	for _, k := range m.kinds {
		c[k.MaskConst] = k.mask
		if d, isDerived := m.derived[k.MaskConst]; isDerived {
			how[k.MaskConst] = d
		}
	}
	pos := func(n string) token.Pos {
		if o := m.cobj[n]; o != nil {
			return o.Pos()
		}
		return token.NoPos
	}
	label := func(n string) string {
		if d, isDerived := how[n]; isDerived {
			return fmt.Sprintf("%s (not a named constant here; derived: %s)", n, d)
		}
		return n
	}
	vb := c["versionBits"]
	eq := func(name string, want uint64, formula string) {
		if c[name] == want {
			r.OK(name, pos(name), "%s = %#x = %s", label(name), c[name], formula)
		} else {
			r.Bad(name, pos(name), "%s = %#x but %s = %#x: the field boundary disagrees with the shifts the constructors use", label(name), c[name], formula, want)
		}
	}
	if vb == c10VerBits {
		r.OK("versionBits", pos("versionBits"), "%s = %d: versions in [0,2^%d) fit the version field", label("versionBits"), vb, c10VerBits)
	} else {
		r.Bad("versionBits", pos("versionBits"), "%s = %d, the property's version range [0,2^%d) needs exactly %d bits below the reference", label("versionBits"), vb, c10VerBits, c10VerBits)
	}
	if vb < 24 {
		eq("versionMask", 1<<vb-1, "1<<versionBits - 1")
		eq("refMask", (1<<c10RefBits-1)<<vb, fmt.Sprintf("(1<<%d - 1) << versionBits", c10RefBits))
	} else {
		r.Bad("versionMask", pos("versionMask"), "versionBits = %d leaves no room for a %d-bit reference", vb, c10RefBits)
	}
	for _, p := range [][2]string{{"typeMask", "refMask"}, {"typeMask", "versionMask"}, {"refMask", "versionMask"}} {
		name := "disjoint " + p[0] + "/" + p[1]
		if c[p[0]]&c[p[1]] == 0 {
			r.OK(name, pos(p[0]), "%s & %s = 0", label(p[0]), label(p[1]))
		} else {
			r.Bad(name, pos(p[0]), "%s & %s = %#x: the fields overlap, so two different (kind, ref, version) triples share an id", label(p[0]), label(p[1]), c[p[0]]&c[p[1]])
		}
	}
	all := c["typeMask"] | c["refMask"] | c["versionMask"] | c["featureMask"]
	for _, k := range m.kinds {
		all |= k.mask
	}
	if all>>63 == 0 {
		r.OK("sign-bit", pos("typeMask"), "bit 63 is clear in typeMask, refMask, versionMask, featureMask and every kind mask: ids are non-negative int64 values")
	} else {
		r.Bad("sign-bit", pos("typeMask"), "bit 63 is set in one of the masks: ids become negative and integer order no longer follows the kind")
	}
	_, fmRole := how["featureMask"]
	_, tmRole := how["typeMask"]
	if !fmRole && !tmRole {
		eq("featureMask", c["typeMask"]|c["refMask"], "typeMask | refMask")
	} else {
		// by role only the property-relevant part is prescribed: every kind and reference lane kept, no version lane
		need := c["typeMask"] | c["refMask"]
		switch {
		case c["featureMask"]&need != need:
			r.Bad("featureMask", pos("featureMask"), "%s = %#x drops kind or reference lanes (%#x needed): the feature id of an element loses information", label("featureMask"), c["featureMask"], need)
		case c["featureMask"]&c["versionMask"] != 0:
			r.Bad("featureMask", pos("featureMask"), "%s = %#x keeps version lanes (%#x): the feature id still depends on the version", label("featureMask"), c["featureMask"], c["featureMask"]&c["versionMask"])
		default:
			r.OK("featureMask", pos("featureMask"), "%s = %#x keeps every kind and reference lane and no version lane", label("featureMask"), c["featureMask"])
		}
	}
	for _, k := range m.kinds {
		name := "kind " + k.MaskConst
		var clash []string
		for _, o := range m.kinds {
			if o != k && o.mask == k.mask {
				clash = append(clash, o.MaskConst)
			}
		}
		switch {
		case k.mask == 0:
			r.Bad(name, pos(k.MaskConst), "%s is zero: ids of kind %s are indistinguishable from the zero id", label(k.MaskConst), k.Name)
		case k.mask&^c["typeMask"] != 0:
			r.Bad(name, pos(k.MaskConst), "%s = %#x has bits outside typeMask = %#x: `id & typeMask` can never equal it, Type() fails for every %s id", label(k.MaskConst), k.mask, c["typeMask"], k.Name)
		case len(clash) > 0:
			r.Bad(name, pos(k.MaskConst), "%s equals %s: two kinds share ids", label(k.MaskConst), strings.Join(clash, ", "))
		default:
			r.OK(name, pos(k.MaskConst), "%s = %#x is non-zero, inside typeMask and distinct from the other six kind masks", label(k.MaskConst), k.mask)
		}
	}
	n, w, rl := c["nodeMask"], c["wayMask"], c["relationMask"]
	if n < w && w < rl {
		r.OK("kind-order", pos("nodeMask"), "nodeMask %#x < wayMask %#x < relationMask %#x", n, w, rl)
	} else {
		r.Bad("kind-order", pos("nodeMask"), "nodeMask %#x, wayMask %#x, relationMask %#x are not ascending: sorting ids no longer orders node < way < relation", n, w, rl)
	}
	r.Stat("constants", len(c))
}

// ---------------------------------------------------------------------------
// K2 encode

// receiverStruct builds the abstract receiver of a struct wrapper method: field ID (a kind id type) or
// Ref (int64) is the reference, Version (int) the version, Type (osm.Type) the kind text.
func (m *c10Model) receiverStruct(st *types.Struct, k *c10Kind) c10Val {
	v := c10Val{K: c10VStruct, Fields: map[*types.Var]c10Val{}}
	for i := 0; i < st.NumFields(); i++ {
		f := st.Field(i)
		switch {
		case f.Name() == "ID" && m.kindByIDType(f.Type()) != nil:
			v.Fields[f] = m.refInput(f.Type())
		case f.Name() == "Ref" && types.Identical(f.Type(), types.Typ[types.Int64]):
			v.Fields[f] = m.refInput(f.Type())
		case f.Name() == "Version" && types.Identical(f.Type(), types.Typ[types.Int]):
			v.Fields[f] = m.verInput(f.Type())
		case f.Name() == "Type" && m.localName(f.Type()) == "Type" && k != nil:
			v.Fields[f] = c10StrVal(m.typeText(k))
		}
	}
	return v
}

// structKinds determines which kinds a struct's id methods can produce: the kind of its ID field,
// every feature kind for a Member-like struct (Type + Ref), bounds for Bounds.
func (m *c10Model) structKinds(name string, st *types.Struct) ([]*c10Kind, bool) {
	var hasType, hasRef bool
	for i := 0; i < st.NumFields(); i++ {
		f := st.Field(i)
		if f.Name() == "ID" {
			if k := m.kindByIDType(f.Type()); k != nil {
				return []*c10Kind{k}, false
			}
		}
		if f.Name() == "Type" && m.localName(f.Type()) == "Type" {
			hasType = true
		}
		if f.Name() == "Ref" && types.Identical(f.Type(), types.Typ[types.Int64]) {
			hasRef = true
		}
	}
	if hasType && hasRef {
		return m.kindsOf("FeatureID"), true
	}
	for _, k := range m.kinds {
		if k.IDType == "" && k.Struct == name {
			return []*c10Kind{k}, false
		}
	}
	return nil, false
}

// c10Producer is an exported method whose single result is a packed id.
type c10Producer struct {
	fi     *FuncInfo
	recv   string // local name of the receiver type
	result string // ObjectID / ElementID / FeatureID
}

func (m *c10Model) producers() []c10Producer {
	var out []c10Producer
	for _, fi := range m.funcs {
		sig := fi.Obj.Type().(*types.Signature)
		if sig.Recv() == nil || sig.Results().Len() != 1 || !m.isPacked(sig.Results().At(0).Type()) {
			continue
		}
		if !fi.Obj.Exported() {
			continue // unexported helpers are covered through the exported methods that call them (inlined)
		}
		out = append(out, c10Producer{fi: fi, recv: m.localName(sig.Recv().Type()), result: m.localName(sig.Results().At(0).Type())})
	}
	sort.Slice(out, func(i, j int) bool { return out[i].fi.Name() < out[j].fi.Name() })
	return out
}

// checkProducer emits the K2 obligations of one producer; it returns false when something failed.
func (m *c10Model) checkProducer(p c10Producer) bool {
	r := m.r
	fi := p.fi
	name := fi.Name()
	pos := fi.Decl.Pos()
	allOK := true
	recvT := fi.Obj.Type().(*types.Signature).Recv().Type()
	switch {
	case m.kindByIDType(recvT) != nil: // NodeID.FeatureID ...
		k := m.kindByIDType(recvT)
		args, hasVer, err := m.versionArgs(fi)
		if err != "" {
			r.Unknown("constructor@"+name, pos, "%s", err)
			return false
		}
		got, why := m.single(fi, m.refInput(recvT), args)
		want := m.shape(k, hasVer)
		if m.verdict("constructor@"+name, pos, got, why, want, fmt.Sprintf("%s id of a %s from ref[0..39]%s", p.result, k.Name, map[bool]string{true: ", ver[0..15]", false: ""}[hasVer])) {
			r.OK("constructor@"+name, pos, "abstract result %s = %s | ref<<%d%s: every input bit has its own lane, none unknown", got.V, m.maskName(k), c10VerBits, map[bool]string{true: " | ver", false: ""}[hasVer])
		} else {
			allOK = false
		}
		if p.result != "FeatureID" && k.Versioned != hasVer {
			r.Bad("constructor@"+name+" version", pos, "kind %s %s a version but %s %s one", k.Name, map[bool]string{true: "carries", false: "carries no"}[k.Versioned], name, map[bool]string{true: "takes", false: "does not take"}[hasVer])
			allOK = false
		}
	case m.isPacked(recvT): // FeatureID.ElementID(v), FeatureID.ObjectID(v); parameterless conversions belong to K3
		args, hasVer, err := m.versionArgs(fi)
		if err != "" {
			r.Unknown("constructor@"+name, pos, "%s", err)
			return false
		}
		if !hasVer {
			return true
		}
		if p.recv != "FeatureID" {
			r.Unknown("constructor@"+name, pos, "a versioned constructor on %s is not among the enumerated idioms (FeatureID.ElementID(v), FeatureID.ObjectID(v))", p.recv)
			return false
		}
		for _, k := range m.kindsOf(p.recv) {
			c := "constructor@" + name + " kind=" + k.Name
			got, why := m.single(fi, c10IntVal(m.vecOf(recvT, m.shape(k, false))), args)
			if m.verdict(c, pos, got, why, m.shape(k, true), "adding the version to a "+k.Name+" feature id") {
				r.OK(c, pos, "feature id %s | ver -> %s: version lanes 0..15 filled, every other lane unchanged", m.shape(k, false), got.V)
			} else {
				allOK = false
			}
		}
	default: // struct wrappers
		var st *types.Struct
		if nt := c10Named(m.pk, p.recv); nt != nil {
			st, _ = nt.Underlying().(*types.Struct)
		}
		if st == nil {
			if p.recv == "Type" {
				return true // Type.objectID-style helpers return (id, error) and are not producers; defensive
			}
			r.Unknown("wrapper@"+name, pos, "receiver %s is neither an id type nor a struct with ID/Ref/Version fields", p.recv)
			return false
		}
		kinds, perKind := m.structKinds(p.recv, st)
		if len(kinds) == 0 {
			r.Unknown("wrapper@"+name, pos, "cannot tell which kind of id struct %s produces (no ID field of an id type, no Type+Ref pair, not Bounds)", p.recv)
			return false
		}
		if fi.Obj.Type().(*types.Signature).Params().Len() != 0 {
			r.Unknown("wrapper@"+name, pos, "struct wrapper with parameters is not among the enumerated idioms")
			return false
		}
		for _, k := range kinds {
			c := "wrapper@" + name
			if perKind {
				c += " kind=" + k.Name
			}
			withVer := p.result != "FeatureID" && k.Versioned
			got, why := m.single(fi, m.receiverStruct(st, k), nil)
			if m.verdict(c, pos, got, why, m.shape(k, withVer), fmt.Sprintf("%s of a %s from its fields", p.result, p.recv)) {
				from := "the field ID/Ref"
				if k.IDType == "" {
					from = "no field (bounds carry no reference)"
				}
				r.OK(c, pos, "abstract result %s from %s%s: kind %s, nothing lost", got.V, from, map[bool]string{true: " and Version", false: ""}[withVer], k.Name)
			} else {
				allOK = false
			}
		}
	}
	return allOK
}

func c10K2(r *core.R) {
	m := c10Load(r)
	if m == nil {
		return
	}
	// required constructors (exported API)
	for _, k := range m.kinds {
		var need []string
		switch {
		case k.Feature:
			need = []string{k.IDType + ".FeatureID", k.IDType + ".ElementID", k.IDType + ".ObjectID"}
		case k.IDType != "":
			need = []string{k.IDType + ".ObjectID"}
		default:
			need = []string{k.Struct + ".ObjectID"}
		}
		for _, n := range need {
			if findFunc(m.pk, n) == nil {
				r.Anchor(n)
			}
		}
	}
	for _, n := range []string{"FeatureID.ElementID", "FeatureID.ObjectID"} {
		if findFunc(m.pk, n) == nil {
			r.Anchor(n)
		}
	}
	allOK := true
	ps := m.producers()
	for _, p := range ps {
		if !m.checkProducer(p) {
			allOK = false
		}
	}
	// injectivity across kinds: kind lanes are disjoint from ref/ver lanes (shape) and the masks are distinct
	distinct := true
	for i, a := range m.kinds {
		for _, b := range m.kinds[i+1:] {
			if a.mask == b.mask {
				distinct = false
			}
		}
	}
	switch {
	case !distinct:
		r.Bad("injective", token.NoPos, "two kinds use the same kind mask: ids of different kinds collide")
	case !allOK:
		r.Bad("injective", token.NoPos, "not every constructor yields kindMask | ref<<16 | ver (see the constructor/wrapper obligations): injectivity is not established")
	default:
		r.OK("injective", token.NoPos, "all %d constructors place kind, ref[0..39], ver[0..15] in pairwise disjoint lanes with 7 distinct kind masks: (kind, ref, version) -> id is injective on the whole domain", len(ps))
	}
	r.Stat("id_producers", len(ps))
	r.Stat("inlined_calls", m.ev.Inlined)
	r.Stat("expressions_folded", m.ev.Exprs)
}

// c10SrcOf renders a node (short).
func c10Src(r *core.R, n ast.Node) string { return src(r.P.Fset, n) }

func c10AllVariants(lists ...[]core.Mutant) []core.Mutant {
	var out []core.Mutant
	for _, l := range lists {
		out = append(out, l...)
	}
	return out
}
