package rules

import "osmcheck/core"

// Variants for the repaired osm.(*Action).UnmarshalXML (b784bc5: node, way and relation children accumulate in
// Action.OSM). The first mutant is the shape before the repair (every child replaced the body).

var c03ActionMutants = []core.Mutant{
	{Name: "old-shape-action-child-replaces-body", File: "diff.go",
		Find:       "\t\t\tif a.OSM == nil {\n\t\t\t\ta.OSM = &OSM{}\n\t\t\t}\n\t\t\ta.OSM.Nodes = append(a.OSM.Nodes, n)\n",
		Replace:    "\t\t\ta.OSM = &OSM{Nodes: Nodes{n}}\n",
		ExpectRule: "T4", ExpectConstruct: "case \"node\""},
	{Name: "action-way-list-restarted", File: "diff.go",
		Find:       "\t\t\tif a.OSM == nil {\n\t\t\t\ta.OSM = &OSM{}\n\t\t\t}\n\t\t\ta.OSM.Ways = append(a.OSM.Ways, w)\n",
		Replace:    "\t\t\tif a.OSM == nil {\n\t\t\t\ta.OSM = &OSM{}\n\t\t\t}\n\t\t\ta.OSM.Ways = Ways{w}\n",
		ExpectRule: "T4", ExpectConstruct: "case \"way\""},
	{Name: "action-relation-body-always-fresh", File: "diff.go",
		Find:       "\t\t\tif a.OSM == nil {\n\t\t\t\ta.OSM = &OSM{}\n\t\t\t}\n\t\t\ta.OSM.Relations = append(a.OSM.Relations, r)\n",
		Replace:    "\t\t\ta.OSM = &OSM{}\n\t\t\ta.OSM.Relations = append(a.OSM.Relations, r)\n",
		ExpectRule: "T4", ExpectConstruct: "case \"relation\""},
	{Name: "action-relation-appended-to-empty-list", File: "diff.go",
		Find:       "\t\t\tif a.OSM == nil {\n\t\t\t\ta.OSM = &OSM{}\n\t\t\t}\n\t\t\ta.OSM.Relations = append(a.OSM.Relations, r)\n",
		Replace:    "\t\t\tif a.OSM == nil {\n\t\t\t\ta.OSM = &OSM{}\n\t\t\t}\n\t\t\ta.OSM.Relations = append(Relations{}, r)\n",
		ExpectRule: "T4", ExpectConstruct: "case \"relation\""},
}

var c03ActionBenign = []core.Mutant{
	{Name: "action-body-through-local-pointer", File: "diff.go",
		Find:    "\t\t\tif a.OSM == nil {\n\t\t\t\ta.OSM = &OSM{}\n\t\t\t}\n\t\t\ta.OSM.Nodes = append(a.OSM.Nodes, n)\n",
		Replace: "\t\t\tbody := a.OSM\n\t\t\tif body == nil {\n\t\t\t\tbody = &OSM{}\n\t\t\t\ta.OSM = body\n\t\t\t}\n\t\t\tbody.Nodes = append(body.Nodes, n)\n"},
	{Name: "action-body-helper-method", File: "diff.go",
		Find:    "\t\t\tif a.OSM == nil {\n\t\t\t\ta.OSM = &OSM{}\n\t\t\t}\n\t\t\ta.OSM.Relations = append(a.OSM.Relations, r)\n\t\t}\n\t}\n\n\treturn nil\n}\n",
		Replace: "\t\t\tb := a.body()\n\t\t\tb.Relations = append(b.Relations, r)\n\t\t}\n\t}\n\n\treturn nil\n}\n\nfunc (a *Action) body() *OSM {\n\tif a.OSM == nil {\n\t\ta.OSM = &OSM{}\n\t}\n\treturn a.OSM\n}\n"},
	{Name: "action-fresh-body-holds-first-child", File: "diff.go",
		Find:    "\t\t\tif a.OSM == nil {\n\t\t\t\ta.OSM = &OSM{}\n\t\t\t}\n\t\t\ta.OSM.Ways = append(a.OSM.Ways, w)\n",
		Replace: "\t\t\tif a.OSM == nil {\n\t\t\t\ta.OSM = &OSM{Ways: Ways{w}}\n\t\t\t} else {\n\t\t\t\ta.OSM.Ways = append(a.OSM.Ways, w)\n\t\t\t}\n"},
	{Name: "action-append-inverted-nil-test", File: "diff.go",
		Find:    "\t\t\tif a.OSM == nil {\n\t\t\t\ta.OSM = &OSM{}\n\t\t\t}\n\t\t\ta.OSM.Nodes = append(a.OSM.Nodes, n)\n",
		Replace: "\t\t\tif a.OSM != nil {\n\t\t\t\ta.OSM.Nodes = append(a.OSM.Nodes, n)\n\t\t\t\tcontinue\n\t\t\t}\n\t\t\ta.OSM = &OSM{Nodes: Nodes{n}}\n"},
}
