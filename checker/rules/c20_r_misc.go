package rules

import (
	"go/ast"
	"go/token"
	"go/types"
	"sort"
	"strings"
)

// errTypes lists the named struct types of the package whose pointer implements error.
func (cx *c20Ctx) errTypes() []*types.Named {
	var out []*types.Named
	errI := types.Universe.Lookup("error").Type().Underlying().(*types.Interface)
	sc := cx.pk.Types.Scope()
	names := sc.Names()
	sort.Strings(names)
	for _, n := range names {
		tn, ok := sc.Lookup(n).(*types.TypeName)
		if !ok {
			continue
		}
		nt, ok := tn.Type().(*types.Named)
		if !ok {
			continue
		}
		if _, isStruct := nt.Underlying().(*types.Struct); isStruct && types.Implements(types.NewPointer(nt), errI) {
			out = append(out, nt)
		}
	}
	return out
}

// H3 NotFound(): executed for every error value the package can return (nil, each typed error, a foreign error):
// true exactly for the type the status table maps 404 to.
func (cx *c20Ctx) notFoundCheck(tab *c20Table) {
	r := cx.r
	fi := findFunc(cx.pk, "(*Datasource).NotFound")
	if fi == nil || c20Sig(fi.Obj).Params().Len() != 1 || c20Sig(fi.Obj).Results().Len() != 1 {
		r.Anchor("(*Datasource).NotFound(err error) bool")
		return
	}
	c := "NotFound()"
	type input struct {
		name string
		v    c20V
		want bool
	}
	ins := []input{{"nil", c20V{k: c20kNil}, false}, {"an error of another package", c20V{k: c20kErr, tag: "new"}, false}}
	found := false
	for _, nt := range cx.errTypes() {
		isNF := nt.Obj().Name() == tab.NotFoundType
		found = found || isNF
		ins = append(ins, input{"*" + nt.Obj().Name(), c20V{k: c20kErr, tag: nt.Obj().Name(), typ: nt, b: true, fields: map[string]c20V{}}, isNF})
	}
	if !found {
		r.Anchor("osmapi." + tab.NotFoundType)
		return
	}
	for _, in := range ins {
		x := c20NewSX(cx, fi, func(*types.Func) string { return "" })
		x.preset = map[int]c20V{0: in.v}
		for _, st := range x.run() {
			switch {
			case st.ctl == c20cAbort:
				r.Unknown(c, fi.Decl.Pos(), "NotFound could not be executed symbolically: %s", st.why)
				return
			case st.ctl != c20cRet:
				continue
			case len(st.ret) != 1 || st.ret[0].k != c20kBool:
				r.Unknown(c, cx.posOf(st, fi.Decl.Pos()), "for %s NotFound returns %s, which is not decided by the error's type (understood: type assertions, nil tests)", in.name, st.ret[0].String())
				return
			case st.ret[0].b != in.want:
				r.Bad(c, cx.posOf(st, fi.Decl.Pos()), "NotFound(%s) returns %v; the not-found test must be true exactly for *%s, the type returned for status 404 (it would be true for another status, or never)", in.name, st.ret[0].b, tab.NotFoundType)
				return
			}
		}
	}
	r.OK(c, fi.Decl.Pos(), "executed for nil, a foreign error and each of the %d error types of the package: true exactly for *%s, the type returned for status 404 only (see status rows)", len(ins)-2, tab.NotFoundType)
}

// H1 wrapper@: a package-level convenience function performs exactly one call, of the same-named method on the
// package variable DefaultDatasource, with its own parameters in order, and returns that call's results.
func (cx *c20Ctx) wrapperCheck(fi *FuncInfo, sep string) {
	r := cx.r
	c := "wrapper@" + fi.Obj.Name()
	name := fi.Obj.Name()
	sig := c20Sig(fi.Obj)
	isEP := map[*types.Func]bool{}
	for _, ep := range cx.endpoints() {
		isEP[ep.Obj] = true
	}
	run := cx.runWith(fi, sep, func(fn *types.Func) string {
		if isEP[fn] {
			return "epcall"
		}
		return ""
	})
	if why, a := run.abortText(cx); why != "" {
		r.Unknown(c, a.whyAt.Pos(), "%s could not be executed symbolically: %s", name, why)
		return
	}
	if len(run.rets) == 0 {
		r.Unknown(c, fi.Decl.Pos(), "%s never returns", name)
		return
	}
	for _, st := range run.rets {
		pos := cx.posOf(st, fi.Decl.Pos())
		evs := st.eventsOf("epcall")
		if len(evs) != 1 || len(st.eventsOf("request")) > 0 {
			r.Bad(c, pos, "a path of osmapi.%s makes %d endpoint call(s) before `%s`; exactly one delegation to DefaultDatasource.%s is required", name, len(evs), src(r.P.Fset, st.retAt), name)
			return
		}
		ev := evs[0]
		call := src(r.P.Fset, ev.call)
		bad := ""
		switch {
		case !c20IsInput(ev.recv, "g:DefaultDatasource"):
			bad = "is not a call on the package variable DefaultDatasource: the convenience function does not use the default datasource (client, base URL, limiter)"
		case !isMethod(ev.fn, cx.dsType, name):
			bad = "delegates to " + funcName(ev.fn) + " instead of the same-named method (*Datasource)." + name + ": osmapi." + name + " hits another endpoint"
		case len(ev.args) != sig.Params().Len():
			bad = "does not pass exactly its parameters: the wrapper must forward exactly its parameters in order"
		case sig.Variadic() != ev.ellipsis:
			bad = "does not forward the variadic options with `...`: the wrapper must forward exactly its parameters in order"
		}
		for i := 0; bad == "" && i < len(ev.args); i++ {
			if !c20IsInput(ev.args[i], "p"+c20Itoa(int64(i))) {
				bad = "passes " + ev.args[i].String() + " as argument " + c20Itoa(int64(i+1)) + ", not its own parameter " + sig.Params().At(i).Name() + ": the wrapper must forward exactly its parameters in order"
			}
		}
		if bad == "" {
			nres := c20Sig(ev.fn).Results().Len()
			okRes := len(st.ret) == nres
			for i := 0; okRes && i < nres; i++ {
				v := st.ret[i]
				isErr := i == nres-1 && v.k == c20kObj && v.tag == "err" && v.id == ev.id
				isRes := v.k == c20kObj && v.tag == "res" && v.id == ev.id*100+i
				okRes = isErr || isRes
			}
			if !okRes {
				bad = "is not what `" + src(r.P.Fset, st.retAt) + "` returns: the wrapper must return the method's results unchanged"
			}
		}
		if bad != "" {
			r.Bad(c, ev.call.Pos(), "`%s` %s", call, bad)
			return
		}
	}
	r.OK(c, fi.Decl.Pos(), "every path performs exactly `DefaultDatasource.%s(%d parameter(s) in order)` and returns its results unchanged", name, sig.Params().Len())
}

// H1 http-call@: HTTP requests are created and sent only in the request function and in helpers only it calls.
func (cx *c20Ctx) httpOutsideCheck() {
	r := cx.r
	allowed := cx.httpAllowed()
	nScanned, nOutside, nInside := 0, 0, 0
	scan := func(where string, root ast.Node, in bool) {
		nScanned++
		ast.Inspect(root, func(n ast.Node) bool {
			call, ok := n.(*ast.CallExpr)
			if !ok {
				return true
			}
			kind := c20HTTPCall(callee(cx.info, call))
			if kind == "" {
				return true
			}
			if in {
				nInside++
				return true
			}
			nOutside++
			r.Bad("http-call@"+where+" "+kind, call.Pos(), "`%s` creates or sends an HTTP request outside %s (and the helpers only it calls): it bypasses the rate limiter and the status-to-error mapping and adds a request to the call", src(r.P.Fset, call), cx.getFn.Name())
			return true
		})
	}
	var helpers []string
	for _, fi := range cx.funcs {
		scan(fi.Name(), fi.Decl.Body, allowed[fi.Obj])
		if allowed[fi.Obj] && fi.Obj != cx.getFn.Obj {
			helpers = append(helpers, fi.Name())
		}
	}
	for _, f := range cx.pk.Syntax {
		for _, d := range f.Decls {
			if gd, ok := d.(*ast.GenDecl); ok && gd.Tok == token.VAR {
				scan("package-level var", gd, false)
			}
		}
	}
	r.Stat("functions_scanned_for_http", nScanned)
	if nOutside == 0 {
		h := ""
		if len(helpers) > 0 {
			h = " and its private helpers " + strings.Join(helpers, ", ")
		}
		r.OKTrivial("no-http-outside@osmapi", cx.getFn.Decl.Pos(), "%d function bodies and package-level initialisers scanned: all %d Client.Do/Get/Post/Head, http.Get/Post/Head, NewRequest and RoundTrip calls are in %s%s", nScanned, nInside, cx.getFn.Name(), h)
	}
}
