package rules

import (
	"go/ast"
	"go/types"
)

// Confined function literals.
//
// A variable that a nested function literal assigns cannot in general be followed through the store: the literal may run
// at any time. But a literal that is only ever *called* by code the engine follows — passed as an argument to a function
// of the module that does nothing with the parameter but call it (a callback iterator), invoked on the spot, or bound
// once to a local that is only called — runs exactly where the exploration walks its body. Its assignments to captured
// variables (`err = o.walk(…)`, `circular = true`) are then ordinary writes at explored nodes, and the captured
// variables stay trackable: "callback + captured result variable + flag" is the same thing as a loop body.

// paramCallOnly: parameter idx of fn is used only as the function of plain calls (not stored, passed on, deferred or
// started as a goroutine).
func (e *c14Eng) paramCallOnly(fn *c14Fn, idx int) bool {
	if idx < 0 || idx >= len(fn.params) || fn.params[idx] == nil {
		return false
	}
	p := fn.params[idx]
	ok := true
	ast.Inspect(fn.body, func(n ast.Node) bool {
		id, isIdent := n.(*ast.Ident)
		if !isIdent || fn.info.Uses[id] != p {
			return true
		}
		if !c14CalledOnly(fn.par, id) {
			ok = false
		}
		return true
	})
	return ok
}

// c14CalledOnly: the identifier occurrence is the function operand of a plain call statement/expression.
func c14CalledOnly(par map[ast.Node]ast.Node, id ast.Expr) bool {
	var e ast.Node = id
	for {
		p, isParen := par[e].(*ast.ParenExpr)
		if !isParen {
			break
		}
		e = p
	}
	call, isCall := par[e].(*ast.CallExpr)
	if !isCall || ast.Node(call.Fun) != e {
		return false
	}
	switch par[call].(type) {
	case *ast.GoStmt, *ast.DeferStmt:
		return false
	}
	return true
}

// confinedLit reports whether literal l of function f only runs where the exploration follows it.
func (e *c14Eng) confinedLit(f *c14Fn, l *ast.FuncLit) bool {
	var n ast.Node = l
	for {
		p, isParen := f.par[n].(*ast.ParenExpr)
		if !isParen {
			break
		}
		n = p
	}
	switch p := f.par[n].(type) {
	case *ast.CallExpr:
		if ast.Node(p.Fun) == n { // func(){…}()
			switch f.par[p].(type) {
			case *ast.GoStmt, *ast.DeferStmt:
				return false
			}
			return true
		}
		// an argument of a call of a module function that only calls the parameter
		fo := callee(f.info, p)
		if fo == nil || e.noInline[fo.Origin()] || p.Ellipsis.IsValid() {
			return false
		}
		cf := e.declFn(fo)
		if cf == nil || len(p.Args) != len(cf.params) {
			return false
		}
		for i, a := range p.Args {
			if ast.Node(a) == n {
				return e.paramCallOnly(cf, i)
			}
		}
	case *ast.AssignStmt:
		// f := func(){…}, f never assigned again and only called
		if len(p.Lhs) != len(p.Rhs) {
			return false
		}
		for i, r := range p.Rhs {
			if ast.Node(r) != n {
				continue
			}
			o, ok := objOf(f.info, p.Lhs[i]).(*types.Var)
			if !ok || len(c14Writes(f.info, f.body, o)) != 1 {
				return false
			}
			only := true
			ast.Inspect(f.body, func(x ast.Node) bool {
				if id, isIdent := x.(*ast.Ident); isIdent && f.info.Uses[id] == types.Object(o) && !c14CalledOnly(f.par, id) {
					only = false
				}
				return true
			})
			return only
		}
	}
	return false
}

// fieldAssigned reports whether field f is ever assigned, incremented or has its address taken anywhere in the package
// that declares it (composite literals aside).
func (e *c14Eng) fieldAssigned(f *types.Var) bool {
	if f.Pkg() == nil {
		return true
	}
	if !e.scanned[f.Pkg()] {
		e.scanned[f.Pkg()] = true
		pk := e.p.ByPath[f.Pkg().Path()]
		if pk == nil || pk.TypesInfo == nil {
			return true
		}
		mark := func(x ast.Expr) {
			if fv := fieldOf(pk.TypesInfo, x); fv != nil {
				e.assigned[fv] = true
			}
		}
		for _, file := range pk.Syntax {
			ast.Inspect(file, func(n ast.Node) bool {
				switch x := n.(type) {
				case *ast.AssignStmt:
					for _, l := range x.Lhs {
						mark(l)
						// `*p = T{…}` replaces every field
						if se, ok := ast.Unparen(l).(*ast.StarExpr); ok {
							if st, ok := pk.TypesInfo.TypeOf(se).Underlying().(*types.Struct); ok {
								for i := 0; i < st.NumFields(); i++ {
									e.assigned[st.Field(i)] = true
								}
							}
						}
					}
				case *ast.IncDecStmt:
					mark(x.X)
				case *ast.UnaryExpr:
					if x.Op.String() == "&" {
						mark(x.X)
					}
				case *ast.RangeStmt:
					if x.Key != nil {
						mark(x.Key)
					}
					if x.Value != nil {
						mark(x.Value)
					}
				}
				return true
			})
		}
	}
	if pk := e.p.ByPath[f.Pkg().Path()]; pk == nil {
		return true
	}
	return e.assigned[f]
}

// immutableStruct: t is a struct type of the module none of whose fields is ever assigned after construction: taking the
// address of a variable of that type (explicitly, or by calling a pointer-receiver method on it) cannot change it.
func (e *c14Eng) immutableStruct(t types.Type) bool {
	nt, ok := t.(*types.Named)
	if !ok || nt.Obj().Pkg() == nil || e.keepStruct[namedPath(nt)] {
		return false
	}
	st, ok := nt.Underlying().(*types.Struct)
	if !ok || st.NumFields() == 0 {
		return false
	}
	for i := 0; i < st.NumFields(); i++ {
		if e.fieldAssigned(st.Field(i)) {
			return false
		}
	}
	return true
}
