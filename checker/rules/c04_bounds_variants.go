package rules

import "osmcheck/core"

// Variants for 339dc83 (Bounds.MarshalXML: a bounds value marshalled on its own is <bounds>; delegation to the
// tag-driven encoding through a method-less type) and b784bc5 (action children accumulate), seen from the round trip.

var c04BoundsMutants = []core.Mutant{
	{Name: "old-shape-bounds-written-under-go-type-name", File: "bounds.go",
		Find:       "\tif start.Name.Local == \"Bounds\" {\n\t\tstart.Name.Local = \"bounds\"\n\t}\n\n",
		Replace:    "",
		ExpectRule: "X1", ExpectConstruct: "standalone@Bounds"},
	{Name: "bounds-standalone-name-misspelt", File: "bounds.go",
		Find:       "start.Name.Local = \"bounds\"",
		Replace:    "start.Name.Local = \"bound\"",
		ExpectRule: "X1", ExpectConstruct: "standalone@Bounds"},
	{Name: "bounds-renames-whatever-it-is-handed", File: "bounds.go",
		Find:       "\tif start.Name.Local == \"Bounds\" {\n\t\tstart.Name.Local = \"bounds\"\n\t}\n\n",
		Replace:    "\tstart.Name.Local = \"bbox\"\n\n",
		ExpectRule: "X1", ExpectConstruct: "root@Bounds.MarshalXML"},
	{Name: "bounds-encodes-itself-again", File: "bounds.go",
		Find:       "\ttype bounds Bounds\n\treturn e.EncodeElement(bounds(b), start)\n",
		Replace:    "\treturn e.EncodeElement(b, start)\n",
		ExpectRule: "X1", ExpectConstruct: "emit@Bounds.MarshalXML"},
	{Name: "bounds-delegate-type-with-other-tags", File: "bounds.go",
		Find:       "\ttype bounds Bounds\n\treturn e.EncodeElement(bounds(b), start)\n",
		Replace:    "\ttype bounds struct {\n\t\tMinLat float64 `xml:\"min_lat,attr\"`\n\t\tMaxLat float64 `xml:\"max_lat,attr\"`\n\t\tMinLon float64 `xml:\"min_lon,attr\"`\n\t\tMaxLon float64 `xml:\"max_lon,attr\"`\n\t}\n\treturn e.EncodeElement(bounds(b), start)\n",
		ExpectRule: "X1", ExpectConstruct: "emit@Bounds.MarshalXML"},
	{Name: "old-shape-action-child-replaces-body", File: "diff.go",
		Find:       "\t\t\tif a.OSM == nil {\n\t\t\t\ta.OSM = &OSM{}\n\t\t\t}\n\t\t\ta.OSM.Ways = append(a.OSM.Ways, w)\n",
		Replace:    "\t\t\ta.OSM = &OSM{Ways: Ways{w}}\n",
		ExpectRule: "X3", ExpectConstruct: "kind OSM.Ways@Action"},
}

var c04BoundsBenign = []core.Mutant{
	{Name: "bounds-delegate-type-at-package-level", File: "bounds.go",
		Find:    "func (b Bounds) MarshalXML(e *xml.Encoder, start xml.StartElement) error {\n\tif start.Name.Local == \"Bounds\" {\n\t\tstart.Name.Local = \"bounds\"\n\t}\n\n\ttype bounds Bounds\n\treturn e.EncodeElement(bounds(b), start)\n}\n",
		Replace: "type boundsAttrs Bounds\n\nfunc (b Bounds) MarshalXML(e *xml.Encoder, start xml.StartElement) error {\n\tif start.Name.Local == \"Bounds\" {\n\t\tstart.Name.Local = \"bounds\"\n\t}\n\n\treturn e.EncodeElement(boundsAttrs(b), start)\n}\n"},
	{Name: "bounds-rename-in-switch-with-whole-name", File: "bounds.go",
		Find:    "\tif start.Name.Local == \"Bounds\" {\n\t\tstart.Name.Local = \"bounds\"\n\t}\n\n",
		Replace: "\tswitch start.Name.Local {\n\tcase \"Bounds\":\n\t\tstart.Name = xml.Name{Space: start.Name.Space, Local: \"bounds\"}\n\t}\n\n"},
	{Name: "bounds-delegate-through-pointer-conversion", File: "bounds.go",
		Find:    "\ttype bounds Bounds\n\treturn e.EncodeElement(bounds(b), start)\n",
		Replace: "\ttype bounds Bounds\n\treturn e.EncodeElement((*bounds)(&b), start)\n"},
	{Name: "bounds-delegate-through-local", File: "bounds.go",
		Find:    "\ttype bounds Bounds\n\treturn e.EncodeElement(bounds(b), start)\n",
		Replace: "\ttype plain Bounds\n\tv := plain(b)\n\terr := e.EncodeElement(v, start)\n\treturn err\n"},
	{Name: "action-body-through-local-pointer", File: "diff.go",
		Find:    "\t\t\tif a.OSM == nil {\n\t\t\t\ta.OSM = &OSM{}\n\t\t\t}\n\t\t\ta.OSM.Nodes = append(a.OSM.Nodes, n)\n",
		Replace: "\t\t\tbody := a.OSM\n\t\t\tif body == nil {\n\t\t\t\tbody = &OSM{}\n\t\t\t\ta.OSM = body\n\t\t\t}\n\t\t\tbody.Nodes = append(body.Nodes, n)\n"},
	{Name: "json-only-struct-holding-bounds", File: "bounds.go",
		Find:    "// MarshalXML writes a bounds value encoded on its own",
		Replace: "// boundsEnvelope is the JSON document of a bounds query; it has no XML form.\ntype boundsEnvelope struct {\n\tBounds *Bounds `json:\"bounds\"`\n\tOSM    *OSM    `json:\"osm\"`\n}\n\n// MarshalXML writes a bounds value encoded on its own"},
}
