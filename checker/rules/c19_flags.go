package rules

// c19_flags.go — "found" flags. A fetch-or-missing helper may report a missing file by a boolean next to the state
// (`st, found, err := s.lookup(ctx, id)`). When every return of the helper ties the flag to the state (flag false
// with a nil state, flag true with a state known not to be nil, or the flag spelled `st != nil`), a test of the flag
// is a test of the state for the valuations "the probe found a state / found nothing".

import (
	"go/ast"
	"go/token"
	"go/types"
)

// flagTied: result k of g is true exactly when result 0 (the state) is not nil, on every return.
func (m *c19Model) flagTied(g *FuncInfo, k int) bool {
	key := [2]interface{}{g, k}
	if v, ok := m.flagCache[key]; ok {
		return v
	}
	info := m.info
	gr := m.graph(g)
	tied, nret := true, 0
	ast.Inspect(g.Decl.Body, func(n ast.Node) bool {
		if _, ok := n.(*ast.FuncLit); ok {
			return false
		}
		ret, ok := n.(*ast.ReturnStmt)
		if !ok {
			return true
		}
		nret++
		if len(ret.Results) <= k {
			tied = false
			return true
		}
		r0, rk := ast.Unparen(ret.Results[0]), ast.Unparen(ret.Results[k])
		tv := info.Types[rk]
		isTrue := tv.Value != nil && tv.Value.String() == "true"
		isFalse := tv.Value != nil && tv.Value.String() == "false"
		if info.Types[r0].IsNil() {
			tied = tied && isFalse
			return true
		}
		o := objOf(info, r0)
		if o == nil {
			tied = false
			return true
		}
		switch {
		case isTrue:
			facts := factsAtPos(info, gr.g, gr.dom, ret.Pos())
			tied = tied && knownNonNil(facts, func(e ast.Expr) bool { return objOf(info, e) == o }) != nil
		case isFalse:
			tied = false
		default:
			l, op, r, ok := cmpNorm(rk)
			good := ok && op == token.NEQ && ((objOf(info, l) == o && info.Types[r].IsNil()) || (objOf(info, r) == o && info.Types[l].IsNil()))
			tied = tied && good
		}
		return true
	})
	tied = tied && nret > 0
	m.flagCache[key] = tied
	return tied
}

// flagState: id is a boolean variable given, by one multi-value call of a helper, the "found" flag of a state; it
// returns the variable holding that state.
func (m *c19Model) flagState(id *ast.Ident) types.Object {
	info := m.info
	o, ok := objOf(info, id).(*types.Var)
	if !ok || o.IsField() {
		return nil
	}
	if b, ok := o.Type().Underlying().(*types.Basic); !ok || b.Info()&types.IsBoolean == 0 {
		return nil
	}
	fi := m.enclosingFunc(id.Pos())
	if fi == nil {
		return nil
	}
	var state types.Object
	n := 0
	ast.Inspect(fi.Decl.Body, func(x ast.Node) bool {
		as, ok := x.(*ast.AssignStmt)
		if !ok {
			return true
		}
		for k, l := range as.Lhs {
			if objOf(info, l) != o {
				continue
			}
			n++
			if len(as.Rhs) != 1 || len(as.Lhs) < 2 || k == 0 {
				continue
			}
			call, ok := ast.Unparen(as.Rhs[0]).(*ast.CallExpr)
			if !ok {
				continue
			}
			if g := m.funcs[callee(info, call)]; g != nil && m.flagTied(g, k) {
				state = objOf(info, as.Lhs[0])
			} else {
				state = nil
				n += 100 // a write that is not a tied flag: give up
			}
		}
		return true
	})
	if n == 0 || n >= 100 {
		return nil
	}
	return state
}

// staleCopy looks for a variable that the valuations treat as a copy of the state probed by fetch (it is assigned
// from it somewhere) but that can be read, after the fetch, before it has been given the value of this probe: a
// copy made only on some paths (`if st != nil { found = st }`) still holds the state of an earlier iteration.
func (m *c19Model) staleCopy(fi *FuncInfo, fetch *ast.CallExpr, base types.Object, copies map[types.Object]bool) (types.Object, ast.Node) {
	info := m.info
	g := m.graph(fi)
	blk, idx := blockOf(g.g, fetch.Pos())
	if blk == nil {
		return nil, nil
	}
	for x := range copies {
		if x == base {
			continue
		}
		var read ast.Node
		m.walkFrom(blk, idx, nil, func(n ast.Node) bool {
			if read != nil {
				return false
			}
			// a definition of x from the probed state (or any other value) ends the search on this path
			defines := false
			if as, ok := n.(*ast.AssignStmt); ok {
				for _, l := range as.Lhs {
					if objOf(info, l) == x {
						defines = true
					}
				}
				if defines {
					for _, rhs := range as.Rhs {
						if usesObj(info, rhs, x) {
							read = n
						}
					}
					return false
				}
			}
			if c19Contains(n, fetch.Pos()) {
				return false // the next probe
			}
			if usesObj(info, n, x) {
				read = n
				return false
			}
			return true
		})
		if read != nil {
			return x, read
		}
	}
	return nil, nil
}
