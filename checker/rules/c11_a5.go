package rules

// C11.A5 — shape of the update window and per-parent grouping, decided on the path model of core.Compute
// (c11_compute.go). Every obligation is a statement about events and decisions on paths; none depends on
// which function a statement lives in, on the names of locals or on the spelling of a condition.

import (
	"go/token"
	"go/types"
	"strings"

	"osmcheck/core"
)

// c11Locs: what the location map records. parentField / indexField are the fields of the location struct
// that receive the index into parents / the position in that parent's Refs().
type c11Locs struct {
	parentField, indexField *types.Var
	mapKey                  string // key of the map term
	locType                 types.Type
}

func c11IsIterKey(v *c11V) (loopKey string, ok bool) {
	if v == nil || v.k != "sym" || !strings.HasPrefix(v.name, "iter@") || !strings.HasSuffix(v.name, ":key") {
		return "", false
	}
	return strings.TrimSuffix(strings.TrimPrefix(v.name, "iter@"), ":key"), true
}

func c11IsLoopSym(v *c11V) (loopKey string, ok bool) {
	if v == nil || v.k != "sym" || !strings.HasPrefix(v.name, "loop@") || v.obj == nil {
		return "", false
	}
	s := strings.TrimPrefix(v.name, "loop@")
	i := strings.LastIndex(s, ":")
	if i < 0 {
		return "", false
	}
	return s[:i], true
}

// c11A5Locations checks how child locations are recorded (obligations loc@Compute, filter@Compute).
func c11A5Locations(m *c11Model) *c11Locs {
	r := m.r
	res := &c11Locs{}
	type site struct {
		p       c11Out
		ev      c11Ev
		i, j    *c11V
		refs    *c11V
		inner   string
		struct_ *c11Obj
	}
	var sites []site
	var bad []string
	pos := m.fi.Decl.Pos()
	for _, p := range m.paths {
		for _, ev := range p.st.ev {
			if ev.kind != "store" || ev.lhs.k != "index" || ev.rhs.k != "call" || ev.rhs.name != "append" || len(ev.rhs.xs) != 2 {
				continue
			}
			// the location map: a fresh make(map…), or a map obtained elsewhere (a pool, a helper, a field): any
			// term that receives `m[key] = append(m[key], <location struct>)`
			mp := ev.lhs.xs[0]
			fresh := mp.k == "call" && strings.HasPrefix(mp.name, "make@")
			if fresh {
				if _, ok := mp.typ.Underlying().(*types.Map); !ok {
					continue
				}
			} else if mp.k == "assert" {
				if _, ok := mp.typ.Underlying().(*types.Map); !ok {
					continue
				}
			} else if mp.k != "call" && mp.k != "res" && mp.k != "field" && mp.k != "sym" {
				continue
			}
			s := ev.rhs.xs[1]
			if s.k != "struct" || p.st.heap[s.id] == nil {
				continue
			}
			if !fresh && !c11MapEmptied(m.paths, p.st, mp, ev.nas) {
				bad = append(bad, "the location map "+m.short(mp)+" is not made by this call and is not emptied (clear(m), or a loop deleting every key) before `"+src(r.P.Fset, ev.node)+"` fills it: locations recorded by an earlier call would be annotated and turned into updates as well")
			}
			pos = ev.node.Pos()
			if a0 := ev.rhs.xs[0]; a0.key() != ev.lhs.key() && !(a0.k == "call" && strings.HasPrefix(a0.name, "make@")) {
				// (a list made on this very path and stored under the key just before is the list stored under the key)
				bad = append(bad, "`"+src(r.P.Fset, ev.node)+"` does not append to the list stored under the same key")
				continue
			}
			// key: refs[j] with refs = parents[i].Refs() #0
			f := ev.lhs.xs[1]
			var i, j, refs *c11V
			if f.k == "index" {
				if _, ok := m.isPosition(p.st, f.xs[1], f.xs[0]); ok && f.xs[0].k == "res" && f.xs[0].id == 0 {
					if rv, _, ok := f.xs[0].xs[0].isMethodCall(c11CorePath+".Parent", "Refs"); ok {
						if x, ok := m.isParent(rv); ok {
							if _, ok := m.isPosition(p.st, x, m.P); ok {
								i, j, refs = x, f.xs[1], f.xs[0].xs[0]
							}
						}
					}
				}
			}
			if i == nil {
				bad = append(bad, "`"+src(r.P.Fset, ev.node)+"`: the location is not stored under refs[j] for refs of parents[i].Refs() with i, j the positions being visited (key is "+m.short(f)+")")
				continue
			}
			inner, _ := m.isPosition(p.st, j, f.xs[0])
			sites = append(sites, site{p: p, ev: ev, i: i, j: j, refs: refs, inner: inner, struct_: p.st.heap[s.id]})
			res.mapKey = mp.key()
			res.locType = s.typ
		}
	}
	c := "loc@Compute"
	if len(sites) == 0 && len(bad) == 0 {
		r.Unknown(c, pos, "no `m[fid] = append(m[fid], loc{...})` store into a map of child locations was found on any path of core.Compute and its helpers")
		return nil
	}
	for _, s := range sites {
		var pf, xf *types.Var
		stt, _ := s.struct_.typ.Underlying().(*types.Struct)
		for name, v := range s.struct_.f {
			switch v.key() {
			case s.i.key():
				pf = c11StructField(stt, name)
			case s.j.key():
				xf = c11StructField(stt, name)
			}
		}
		if s.struct_.unkey || pf == nil || xf == nil || pf == xf {
			bad = append(bad, "the location value of `"+src(r.P.Fset, s.ev.node)+"` does not record both the index of the parent and the position of the ref in that parent")
			continue
		}
		if res.parentField != nil && (res.parentField != pf || res.indexField != xf) {
			bad = append(bad, "locations are recorded with different field roles at different sites")
		}
		res.parentField, res.indexField = pf, xf
	}
	if len(bad) > 0 || res.parentField == nil {
		r.Bad(c, pos, "%s", strings.Join(c11Uniq(bad), "; "))
		return nil
	}
	r.OK(c, pos, "location{%s: i (index into parents), %s: j (position in parents[i].Refs())} is appended to the list stored under refs[j]", res.parentField.Name(), res.indexField.Name())

	// skipping a ref: only when it is already annotated and the ChildFilter option rejects it
	c = "filter@Compute"
	inner := sites[0].inner
	jKey, refsCall := sites[0].j, sites[0].refs
	ann := &c11V{k: "index", xs: []*c11V{{k: "res", xs: []*c11V{refsCall}, id: 1}, jKey}}
	fidRef := &c11V{k: "index", xs: []*c11V{{k: "res", xs: []*c11V{refsCall}, id: 0}, jKey}}
	nSkip, nOpt := 0, 0
	var fbad []string
	for _, p := range m.paths {
		if p.ctl != c11Back || p.loopKey != inner {
			continue
		}
		stored := false
		for _, ev := range p.st.ev {
			if ev.kind == "store" && ev.lhs.k == "index" && ev.lhs.xs[0].key() == res.mapKey && ev.rhs.k == "call" && ev.rhs.name == "append" {
				stored = true
			}
		}
		if stored {
			continue
		}
		nSkip++
		st := p.st
		if st.known(ann, -1) != c11T {
			fbad = append(fbad, "a ref can be skipped on a path that has not decided annotated[j] == true: unannotated children must always be annotated, whatever the ChildFilter says")
			continue
		}
		rejected, byOpt := false, false
		for _, a := range st.as {
			if a.atom.k == "callv" && len(a.atom.xs) == 2 && a.atom.xs[1].key() == fidRef.key() && !a.val {
				rejected = true
				if a.atom.xs[0].isFieldOf(m.O.key(), "ChildFilter") {
					byOpt = true
				}
			}
		}
		if !rejected {
			fbad = append(fbad, "a ref can be skipped on a path where no filter function has rejected its feature id")
		}
		if byOpt {
			nOpt++
		}
	}
	switch {
	case len(fbad) > 0:
		r.Bad(c, pos, "%s", strings.Join(c11Uniq(fbad), "; "))
	case nOpt == 0:
		r.Bad(c, pos, "no ref is ever skipped because opts.ChildFilter rejected it (%d skip paths): the ChildFilter option has no effect", nSkip)
	default:
		r.OK(c, pos, "a ref is skipped only on paths that decided annotated[j] == true and opts.ChildFilter(refs[j]) == false (%d skip paths)", nSkip)
	}
	return res
}

// c11Group describes the per-parent group of a path: I = G[0].<parentField>, G = <grouping>(locations)[g].
type c11Group struct {
	I, G    *c11V
	call    *c11V // the grouping call
	gLoop   string
	fidLoop string
}

func (m *c11Model) groupOf(st *c11St, upto int, locs *c11Locs) *c11Group {
	I := m.groupIdx(st, upto)
	if I == nil || I.k != "field" || I.obj != locs.parentField {
		return nil
	}
	el := I.xs[0]
	if el.k != "index" || !el.xs[1].isConstInt(0) {
		return nil
	}
	G := el.xs[0]
	if G.k != "index" {
		return nil
	}
	gl, ok := m.isPosition(st, G.xs[1], G.xs[0])
	if !ok {
		return nil
	}
	g := &c11Group{I: I, G: G, gLoop: gl}
	call := G.xs[0]
	if call.k == "call" && call.recv && call.fn != nil && len(call.xs) == 1 {
		g.call = call
		L := call.xs[0]
		if L.k == "index" && L.xs[0].key() == locs.mapKey && L.xs[1].key() == m.fidT.key() {
			g.fidLoop, _ = c11IsIterKey(m.fidT)
			return g
		}
	}
	return nil
}

func (m *c11Model) optTerm(st *c11St, v *c11V, name string) bool {
	if v.isFieldOf(m.O.key(), name) {
		return true
	}
	return st.isNil(m.O, -1) == c11T && (v.k == "const" || v.k == "nil" || v.k == "zero")
}

func c11A5(r *core.R) {
	c11A5Refs(r)
	m := c11GetModel(r)
	if m == nil {
		return
	}
	if m.unknownIfNotes("window@Compute") {
		return
	}
	locs := c11A5Locations(m)
	if locs == nil {
		return
	}
	m.a5Group(locs)
	m.a5Current(locs)
	m.a5Window(locs)
	m.a5Results(locs)
}

// a5Group: the index into parents is G[0].<parentField> of the group being processed.
func (m *c11Model) a5Group(locs *c11Locs) {
	r := m.r
	c := "group@Compute parent-index"
	n := 0
	var bad []string
	var gfn *types.Func
	pos := m.fi.Decl.Pos()
	for _, p := range m.paths {
		xs := m.visibleIdx(p.st, -1)
		if len(xs) == 0 {
			continue
		}
		if len(xs) > 1 {
			bad = append(bad, "several parents are tested visible on one path")
			continue
		}
		n++
		g := m.groupOf(p.st, -1, locs)
		if g == nil {
			bad = append(bad, "the parent processed is parents["+m.short(xs[0])+"]: the index must be <group>[0]."+locs.parentField.Name()+", the parent index the location map recorded for the group produced from the locations of this child (the other field is the position of the child inside the parent)")
			continue
		}
		gfn = g.call.fn
		m.addAlias(g.G, "locs")
		m.addAlias(g.I, "parentIndex")
	}
	switch {
	case n == 0:
		r.Anchor("decision parents[I].Visible() in core.Compute")
	case len(bad) > 0:
		r.Bad(c, pos, "%s", strings.Join(c11Uniq(bad), "; "))
	default:
		r.OK(c, pos, "on all %d paths the parent processed is parents[locs[0].%s] for locs ranging over %s(<locations of fid>) (all locations of a group share that parent index)", n, locs.parentField.Name(), gfn.Name())
	}
	if gfn != nil {
		c11A5Group(r, m.pk, gfn, locs)
	}
}

// a5Current: the child stored by SetChild is FindVisible for this parent's changeset/time/threshold, at the location's index.
func (m *c11Model) a5Current(locs *c11Locs) {
	r := m.r
	c := "current@Compute"
	var bad []string
	nSet := 0
	pos := m.fi.Decl.Pos()
	for _, p := range m.paths {
		st := p.st
		for _, ev := range st.ev {
			if ev.kind != "call" {
				continue
			}
			rv, args, ok := ev.call.isMethodCall(c11CorePath+".Parent", "SetChild")
			if !ok || len(args) != 2 {
				continue
			}
			nSet++
			g := m.groupOf(st, ev.nas, locs)
			if g == nil {
				bad = append(bad, "`"+src(r.P.Fset, ev.node)+"` is reached without a group/parent established")
				continue
			}
			if x, ok := m.isParent(rv); !ok || x.key() != g.I.key() {
				bad = append(bad, "`"+src(r.P.Fset, ev.node)+"` is not called on the parent of the group, parents["+m.short(g.I)+"]")
			}
			cur := m.curOf(st, g.I)
			if cur == nil {
				bad = append(bad, "no child.FindVisible(parents[I].ChangesetID(), ...) call precedes `"+src(r.P.Fset, ev.node)+"`")
				continue
			}
			m.addAlias(cur, "cur")
			okTime, okThr := false, false
			for _, a := range cur.xs[1:] {
				if _, _, isCS := a.isMethodCall(c11CorePath+".Parent", "ChangesetID"); isCS {
					continue
				}
				if m.optTerm(st, a, "Threshold") {
					okThr = true
				} else if a.mentions(m.P.key()) && a.mentions(g.I.key()) {
					okTime = true
				}
			}
			if !okTime {
				bad = append(bad, "no argument of "+m.short(cur)+" is a time derived from the parent of the group")
			}
			if !okThr {
				bad = append(bad, "no argument of "+m.short(cur)+" is opts.Threshold (the Threshold option would have no effect on which child version is taken as current)")
			}
			if args[1].key() != cur.key() {
				bad = append(bad, "`"+src(r.P.Fset, ev.node)+"` stores "+m.short(args[1])+", not the child version FindVisible returned for this parent")
			}
			okIdx := false
			if a0 := args[0]; a0.k == "field" && a0.obj == locs.indexField && a0.xs[0].k == "index" && a0.xs[0].xs[0].key() == g.G.key() {
				if _, ok := m.isPosition(st, a0.xs[0].xs[1], g.G); ok {
					okIdx = true
				}
			}
			if !okIdx {
				bad = append(bad, "`"+src(r.P.Fset, ev.node)+"`: the position "+m.short(args[0])+" must be <cl>."+locs.indexField.Name()+" for cl ranging over the group")
			}
		}
	}
	switch {
	case nSet == 0:
		r.Bad(c, pos, "SetChild is never called")
	case len(bad) > 0:
		r.Bad(c, pos, "%s", strings.Join(c11Uniq(bad), "; "))
	default:
		r.OK(c, pos, "cur = child.FindVisible(parents[I].ChangesetID(), <time of parents[I]>, opts.Threshold) is what parents[I].SetChild(cl.%s, cur) stores for every location cl of the group (%d call events)", locs.indexField.Name(), nSet)
	}
}

// c11Window describes the window loop on a path: the loop whose variable indexes child in child[k].Update().
type c11Window struct {
	K      *c11V // the loop symbol of k
	kObj   types.Object
	key    string // loop key
	start  *c11V  // value of k when the loop is entered
	startN int    // assumptions in force when the loop is entered
	E      *c11V  // bound: k < E decided at the loop head

	sliceForm bool  // the loop ranges over child[start:E]
	V         *c11V // the symbol of the loop variable at the head of an iteration (K is V plus a constant)
}

// windowOf finds the window loop entered on the path (nil when the path does not enter it).
func (m *c11Model) windowOf(st *c11St, key string, kSym *c11V) *c11Window {
	for _, ev := range st.ev {
		if ev.kind != "loop" || ev.key != key {
			continue
		}
		if _, isIter := c11IsIterKey(kSym); isIter {
			// `for _, v := range child[start:end]`: start, strict end and the step are given by the slice expression
			x := ev.x
			if x == nil || x.k != "slice" || x.xs[0].key() != m.childT.key() {
				return nil
			}
			w := &c11Window{key: key, K: kSym, V: kSym, start: x.xs[1], E: x.xs[2], startN: ev.nas, sliceForm: true}
			if w.start.name == "-" && w.start.k == "sym" {
				w.start = c11Int(0)
			}
			if w.E.name == "-" && w.E.k == "sym" {
				w.E = &c11V{k: "call", name: "len", xs: []*c11V{m.childT}}
			}
			return w
		}
		// the index used is the loop variable plus a constant (child[k], or child[k+1] after an early k++)
		v, off := c11PlusConst(kSym)
		kObj := v.obj
		w := &c11Window{key: key, kObj: kObj, K: kSym, V: v, startN: ev.nas}
		if pre := ev.pre[kObj]; pre != nil {
			w.start = c11Bin(token.ADD, pre, c11Int(off))
		}
		// the first decision after the loop head that mentions the loop variable
		for i := ev.nas; i < len(st.as); i++ {
			a := st.as[i]
			if a.atom.mentions(v.key()) {
				if a.atom.k == "bin" && a.atom.op == token.LSS && a.atom.xs[0].key() == w.K.key() {
					w.E = a.atom.xs[1]
				}
				break
			}
		}
		return w
	}
	return nil
}

// childAt recognises child[K] and child[a:b][K]; returns K.
func (m *c11Model) childAt(rv *c11V) (*c11V, bool) {
	if rv == nil || rv.k != "index" {
		return nil, false
	}
	b := rv.xs[0]
	if b.key() == m.childT.key() || (b.k == "slice" && b.xs[0].key() == m.childT.key()) {
		return rv.xs[1], true
	}
	return nil, false
}

func (m *c11Model) a5Window(locs *c11Locs) {
	r := m.r
	// the Update() calls identify k and the window loop
	var kSym *c11V
	var winKey string
	nUpd := 0
	var visBad, idxBad []string
	pos := m.fi.Decl.Pos()
	updLoops := map[string]bool{} // loops over the group that build updates
	for _, p := range m.paths {
		st := p.st
		for _, ev := range st.ev {
			if ev.kind != "call" {
				continue
			}
			rv, _, ok := ev.call.isMethodCall(c11SharedPath+".Child", "Update")
			if !ok {
				continue
			}
			K, ok := m.childAt(rv)
			if !ok {
				continue
			}
			nUpd++
			pos = ev.node.Pos()
			kv, _ := c11PlusConst(K)
			lk, isLoop := c11IsLoopSym(kv)
			if rv.xs[0].k == "slice" {
				lk, isLoop = c11IsIterKey(K)
			}
			if !isLoop {
				r.Unknown("window@Compute loop", pos, "`%s`: the index %s of the child version turned into an update is not a loop variable", src(r.P.Fset, ev.node), m.short(K))
				return
			}
			if kSym != nil && kSym.key() != K.key() {
				r.Unknown("window@Compute loop", pos, "updates are built in two different loops")
				return
			}
			kSym, winKey = K, lk
			m.addAlias(K, "k")
			// visible versions only
			vis := c11Field(rv, c11StructFieldByName(r.P, "Visible"))
			if st.decided(ev.nas, func(a *c11V) bool { return a.key() == vis.key() }) != c11T {
				visBad = append(visBad, "`"+src(r.P.Fset, ev.node)+"` ("+r.P.Rel(pos)+") is reached on a path that has not decided child[k].Visible == true")
			}
		}
	}
	if kSym == nil {
		r.Anchor("`<child>[k].Update()` on the fetched child list in core.Compute")
		return
	}
	// Every value appended to an update list that is (a local copy of) child[k].Update() carries Index =
	// <cl>.<index field> for a location cl of the group. It does not matter where Update() is called (inside
	// or before the loop over the locations, in Compute or in a helper): the value appended is what counts.
	isUpdateOfK := func(v *c11V) bool {
		rv, _, ok := v.isMethodCall(c11SharedPath+".Child", "Update")
		if !ok {
			return false
		}
		K, ok := m.childAt(rv)
		return ok && K.key() == kSym.key()
	}
	updateAppended := func(st *c11St, ev c11Ev) (idx *c11V, extra []string, ok bool) {
		if ev.kind != "call" || ev.call.name != "append" || len(ev.call.xs) != 2 || namedPath(ev.call.typ) != core.ModulePath+".Updates" {
			return nil, nil, false
		}
		v := ev.call.xs[1]
		if isUpdateOfK(v) {
			return nil, nil, true
		}
		if v.k == "struct" {
			if o := st.heap[v.id]; o != nil && o.base != nil && isUpdateOfK(o.base) {
				for _, k := range o.names() {
					if k != "Index" {
						extra = append(extra, k)
					}
				}
				return o.f["Index"], extra, true
			}
		}
		return nil, nil, false
	}
	nAppUpd := 0
	for _, p := range m.paths {
		st := p.st
		for _, ev := range st.ev {
			idx, extra, ok := updateAppended(st, ev)
			if !ok {
				continue
			}
			nAppUpd++
			where := "`" + src(r.P.Fset, ev.node) + "` (" + r.P.Rel(ev.node.Pos()) + ")"
			g := m.groupOf(st, ev.nas, locs)
			switch {
			case idx == nil:
				idxBad = append(idxBad, where+" appends child[k].Update() without setting its Index: ApplyUpdatesUpTo would change another child than the one whose history produced the update")
			case g == nil || !(idx.k == "field" && idx.obj == locs.indexField && idx.xs[0].k == "index" && idx.xs[0].xs[0].key() == g.G.key()):
				idxBad = append(idxBad, where+" appends an update whose Index is "+m.short(idx)+", not <cl>."+locs.indexField.Name()+" of a location cl of the group: ApplyUpdatesUpTo would change another child than the one whose history produced the update")
			default:
				if lk, ok := m.isPosition(st, idx.xs[0].xs[1], g.G); ok {
					updLoops[lk] = true
				} else {
					idxBad = append(idxBad, where+": the location "+m.short(idx.xs[0])+" is not the one of the iteration over the group")
				}
			}
			if len(extra) > 0 {
				idxBad = append(idxBad, where+" appends an update whose fields {"+strings.Join(extra, ",")+"} were overwritten after Update() built it")
			}
			if _, ok := c11IsLoopSym(ev.call.xs[0]); !ok {
				idxBad = append(idxBad, where+" does not append to the list the loop accumulates")
			}
		}
	}
	if nAppUpd == 0 {
		idxBad = append(idxBad, "no child[k].Update() value is ever appended to an update list")
	}
	// the loop over the locations is never left early (break, return, a callback asking the iterator to stop):
	// a path that is inside an iteration (it appended an update after the loop head) must end at the back edge
	for _, p := range m.paths {
		for lk := range updLoops {
			if p.ctl == c11Back && p.loopKey == lk {
				continue
			}
			inside := false
			for _, ev := range p.st.ev {
				if ev.kind == "loop" && ev.key == lk {
					inside = true
					continue
				}
				if _, _, ok := updateAppended(p.st, ev); ok && inside {
					idxBad = append(idxBad, "the loop over the locations of the group can be left before all locations are visited (break, return, or a callback that asks the iterator to stop) after `"+src(r.P.Fset, ev.node)+"`: the remaining locations of the child would get no update")
					break
				}
			}
		}
	}
	// every iteration over the locations of the group appends exactly one update (no location skipped)
	for _, p := range m.paths {
		if p.ctl != c11Back || !updLoops[p.loopKey] {
			continue
		}
		n := 0
		after := false
		for _, ev := range p.st.ev {
			if ev.kind == "loop" && ev.key == p.loopKey {
				after = true
			}
			if _, _, ok := updateAppended(p.st, ev); ok && after {
				n++
			}
		}
		if n != 1 {
			idxBad = append(idxBad, "an iteration over the locations of the group can end without appending its update (or appends several): a location of the child would get no update")
		}
	}
	// loop shape / start / end, per path entering the loop
	var loopBad, startBad, endBad, boundBad, boundUnk []string
	boundRoles := map[string]int{}
	nEnter, nBack := 0, 0
	startCases := map[string]int{}
	var winPos = pos
	for _, p := range m.paths {
		st := p.st
		w := m.windowOf(st, winKey, kSym)
		if w == nil {
			continue
		}
		nEnter++
		g := m.groupOf(st, w.startN, locs)
		if g == nil {
			loopBad = append(loopBad, "the window loop is entered without a group/parent established")
			continue
		}
		cur := m.curOf(st, g.I)
		// ---- loop
		inBody := w.sliceForm // the path is inside the body (decided k < E true)
		if w.E != nil && !w.sliceForm {
			inBody = st.known(c11Bin(token.LSS, w.K, w.E), -1) == c11T
		}
		if w.sliceForm {
			// start, strict bound and step are those of ranging over child[start:E]
		} else if w.E == nil {
			// exit paths decide the same atom false; only complain when no bound was found at all
			if p.ctl == c11Back && p.loopKey == winKey {
				loopBad = append(loopBad, "the loop condition is not the strict `k < <end>`: the child version that belongs to the next parent version would also be emitted as an update of this one")
			} else {
				dec := false
				for i := w.startN; i < len(st.as); i++ {
					if st.as[i].atom.mentions(w.V.key()) {
						dec = true
					}
				}
				if dec {
					loopBad = append(loopBad, "the loop condition is not the strict `k < <end>`: the child version that belongs to the next parent version would also be emitted as an update of this one")
				}
			}
		} else if w.E.mentions(w.V.key()) {
			loopBad = append(loopBad, "the bound of the window loop depends on k")
		}
		if p.ctl == c11Back && p.loopKey == winKey {
			nBack++
			if w.sliceForm {
				// nothing to check
			} else if v := st.env[w.kObj]; v == nil || v.key() != c11Bin(token.ADD, w.V, c11Int(1)).key() {
				loopBad = append(loopBad, "k is not advanced by exactly one per iteration (it is "+m.short(v)+" at the end of an iteration)")
			}
		}
		// ---- start
		if w.start == nil {
			startBad = append(startBad, "k has no value when the loop is entered")
		} else if cur == nil {
			startBad = append(startBad, "no current child was computed before the window")
		} else {
			S := w.start
			base, n := c11PlusConst(S)
			switch st.isNil(cur, w.startN) {
			case c11F:
				if base.isFieldOf(cur.key(), "VersionIndex") && n == 1 {
					startCases["cur.VersionIndex+1 when cur != nil"]++
				} else {
					startBad = append(startBad, "with a current child the window starts at "+m.short(S)+": it must start at cur.VersionIndex + 1 (starting at the version itself emits the version already annotated on the parent again as an update; ChildList index == VersionIndex by A4)")
				}
			case c11T:
				// the selector consulted with only the time of this parent: VersionBefore(<time of this parent>)
				vb := m.selectorBefore(st, g.I, w.startN)
				switch {
				case vb != nil && st.isNil(vb, w.startN) == c11F:
					if base.isFieldOf(vb.key(), "VersionIndex") && n == 1 {
						startCases["VersionBefore(<time of parent>).VersionIndex+1 when cur == nil"]++
					} else {
						startBad = append(startBad, "without a current child but with a version before the parent the window starts at "+m.short(S)+": it must start at <that version>.VersionIndex + 1")
					}
				case vb != nil && st.isNil(vb, w.startN) == c11T:
					if S.isConstInt(0) {
						startCases["0 when cur == nil and no version precedes the parent"]++
					} else {
						startBad = append(startBad, "without a current child and without a version before the parent the window starts at "+m.short(S)+", not at 0")
					}
				default:
					startBad = append(startBad, "without a current child the window starts at "+m.short(S)+" on a path that has not consulted child.VersionBefore(<time of this parent>) (nil / non-nil)")
				}
			default:
				startBad = append(startBad, "the window is entered on a path that has not decided whether a current child exists")
			}
		}
		// ---- end: the next parent version is parents[I+1] when it exists; the bound depends on it
		next := &c11V{k: "index", xs: []*c11V{m.P, c11Bin(token.ADD, g.I, c11Int(1))}}
		lenP := &c11V{k: "call", name: "len", xs: []*c11V{m.P}}
		guard := func(upto int) c11Tri {
			if t := st.truthAt(c11Bin(token.LSS, g.I, c11Bin(token.SUB, lenP, c11Int(1))), upto, nil); t != c11U {
				return t
			}
			return st.truthAt(c11Bin(token.LSS, c11Bin(token.ADD, g.I, c11Int(1)), lenP), upto, nil)
		}
		check := func(v *c11V, upto int, what string) {
			v.walk(func(x *c11V) {
				idx, ok := m.isParent(x)
				if !ok || idx.key() == g.I.key() {
					return
				}
				if _, isIter := c11IsIterKey(idx); isIter {
					return
				}
				if _, isCount := c11IsLoopSym(idx); isCount {
					return // the position of a loop over parents (the location map)
				}
				if idx.key() != next.xs[1].key() {
					endBad = append(endBad, what+" uses parents["+m.short(idx)+"]: within a group only parents[I] and the next version parents[I+1] may be consulted; otherwise the update window does not end at the following version of the parent")
				} else if guard(upto) != c11T {
					endBad = append(endBad, what+" uses parents[I+1] on a path that has not decided I < len(parents)-1")
				}
			})
		}
		for i, a := range st.as {
			check(a.atom, i, "a decision")
		}
		for _, ev := range st.ev {
			switch ev.kind {
			case "call":
				check(ev.call, ev.nas, "`"+src(r.P.Fset, ev.node)+"`")
			case "store":
				check(ev.rhs, ev.nas, "`"+src(r.P.Fset, ev.node)+"`")
			}
		}
		if inBody {
			role, b, u := m.boundVerdict(st, w.E, g.I, guard(w.startN), len(st.as))
			switch {
			case b != "":
				boundBad = append(boundBad, b)
			case u != "":
				boundUnk = append(boundUnk, u)
			default:
				boundRoles[role]++
			}
			dep := w.E.mentions(next.key())
			for i := 0; i < len(st.as) && !dep; i++ {
				if st.as[i].atom.mentions(next.key()) {
					dep = true
				}
			}
			switch guard(w.startN) {
			case c11T:
				if !dep && !w.E.isConstInt(0) { // the bound 0 ("no updates") cannot run past anything
					endBad = append(endBad, "a next parent version exists (I < len(parents)-1) but neither the bound "+m.short(w.E)+" nor a decision before it depends on parents[I+1]: the window would not end at the child version of the next parent version")
				}
			case c11U:
				endBad = append(endBad, "the window is entered on a path that has not decided whether a next parent version exists (I < len(parents)-1)")
			}
		}
	}
	if nEnter == 0 {
		r.Unknown("window@Compute loop", winPos, "no path enters the loop that builds the updates")
		return
	}
	c := "window@Compute loop"
	switch {
	case len(loopBad) > 0:
		r.Bad(c, winPos, "%s", strings.Join(c11Uniq(loopBad), "; "))
	case nBack == 0:
		r.Unknown(c, winPos, "no iteration of the window loop completes")
	default:
		r.OK(c, winPos, "updates are child[k].Update() for the variable k of one loop with condition k < <end> (strict) and k advanced by one per iteration (every child version after the current one and before the next parent's, once)")
	}
	c = "window@Compute start"
	if len(startBad) > 0 {
		r.Bad(c, winPos, "%s", strings.Join(c11Uniq(startBad), "; "))
	} else {
		var cs []string
		for k := range startCases {
			cs = append(cs, k)
		}
		sortStrings(cs)
		if startCases["cur.VersionIndex+1 when cur != nil"] == 0 {
			r.Bad(c, winPos, "no path enters the window with a current child: the window does not start after the current child version")
		} else {
			r.OK(c, winPos, "k starts at: %s (decided on each of the %d paths entering the loop)", strings.Join(cs, "; "), nEnter)
		}
	}
	c = "window@Compute end"
	if len(endBad) > 0 {
		r.Bad(c, winPos, "%s", strings.Join(c11Uniq(endBad), "; "))
	} else {
		r.OK(c, winPos, "within a group only parents[I] and, after deciding I < len(parents)-1, parents[I+1] are consulted; when the next parent version exists the bound of the window depends on it; the arithmetic of the bound is NOT decided")
	}
	c = "window@Compute bound"
	switch {
	case len(boundBad) > 0:
		r.Bad(c, winPos, "%s", strings.Join(c11Uniq(boundBad), "; "))
	case len(boundUnk) > 0:
		r.Unknown(c, winPos, "%s", strings.Join(c11Uniq(boundUnk), "; "))
	case len(boundRoles) == 0:
		r.Unknown(c, winPos, "no path runs an iteration of the window loop")
	default:
		var rs []string
		for k := range boundRoles {
			rs = append(rs, k)
		}
		sortStrings(rs)
		r.OK(c, winPos, "on every path the exclusive end of the window is derived from a child version by its role: %s (the arithmetic inside the selectors is NOT decided)", strings.Join(rs, "; "))
	}
	c = "window@Compute visible-only"
	if len(visBad) > 0 {
		r.Bad(c, pos, "%s: a deleted child version would be applied to the parent as if it had a location", strings.Join(c11Uniq(visBad), "; "))
	} else {
		r.OK(c, pos, "every child[k].Update() call (%d call events) follows the decision child[k].Visible == true", nUpd)
	}
	c = "window@Compute update-index"
	if len(idxBad) > 0 {
		r.Bad(c, pos, "%s", strings.Join(c11Uniq(idxBad), "; "))
	} else {
		r.OK(c, pos, "in every iteration over the locations cl of the group exactly one update u = child[k].Update() is built, gets u.Index = cl.%s and is appended to the accumulated list", locs.indexField.Name())
	}
	m.a5winKey, m.a5kSym = winKey, kSym
}

// isPosition: idx is the position of an iteration over list on this path: the key of a range loop, or the
// variable of a counting loop that started at 0, runs under idx < len(list) and (on every path that completes
// an iteration) is advanced by exactly one. Returns the loop key.
func (m *c11Model) isPosition(st *c11St, idx, list *c11V) (string, bool) {
	return c11IsPosition(m.paths, st, idx, &c11V{k: "call", name: "len", xs: []*c11V{list}})
}

// c11IsPosition: see isPosition; lenL is the length the positions run up to.
func c11IsPosition(paths []c11Out, st *c11St, idx, lenL *c11V) (string, bool) {
	if lk, ok := c11IsIterKey(idx); ok {
		return lk, true
	}
	lk, ok := c11IsLoopSym(idx)
	if !ok {
		return "", false
	}
	started := false
	for _, ev := range st.ev {
		if ev.kind == "loop" && ev.key == lk {
			if pre := ev.pre[idx.obj]; pre != nil && pre.isConstInt(0) {
				started = true
			}
		}
	}
	if !started || st.truth(c11Bin(token.LSS, idx, lenL)) != c11T {
		return "", false
	}
	for _, p := range paths {
		if p.ctl == c11Back && p.loopKey == lk {
			if end := p.st.env[idx.obj]; end == nil || end.key() != c11Bin(token.ADD, idx, c11Int(1)).key() {
				return "", false
			}
		}
	}
	return lk, true
}

func sortStrings(xs []string) {
	for i := 1; i < len(xs); i++ {
		for j := i; j > 0 && xs[j] < xs[j-1]; j-- {
			xs[j], xs[j-1] = xs[j-1], xs[j]
		}
	}
}

// c11StructFieldByName returns field `name` of shared.Child.
func c11StructFieldByName(p *core.Program, name string) *types.Var {
	_, st := structType(p.Pkg("annotate/shared"), "Child")
	if f := c11StructField(st, name); f != nil {
		return f
	}
	return types.NewField(0, nil, name, types.Typ[types.Invalid], false)
}

// a5Results: the per-parent list built by the window loop is appended to results[I]; results has one slot per parent and is what the success path returns.
func (m *c11Model) a5Results(locs *c11Locs) {
	r := m.r
	c := "group@Compute results"
	if m.a5winKey == "" {
		r.Unknown(c, m.fi.Decl.Pos(), "window loop not identified")
		return
	}
	var bad []string
	nStore := 0
	var R *c11V
	pos := m.fi.Decl.Pos()
	lenP := &c11V{k: "call", name: "len", xs: []*c11V{m.P}}
	for _, p := range m.paths {
		st := p.st
		w := m.windowOf(st, m.a5winKey, m.a5kSym)
		stored := false
		for _, ev := range st.ev {
			if ev.kind != "store" || ev.lhs.k != "index" || ev.rhs.k != "call" || ev.rhs.name != "append" || namedPath(ev.rhs.typ) != core.ModulePath+".Updates" {
				continue
			}
			if len(ev.rhs.xs) == 2 && ev.rhs.xs[1].k == "nil" && ev.rhs.xs[0].key() == ev.lhs.key() {
				continue // results[i] = append(results[i], nil...): nothing changes
			}
			if len(ev.rhs.xs) == 2 && ev.rhs.xs[1].key() == ev.lhs.key() && ev.rhs.xs[0].k == "call" && strings.HasPrefix(ev.rhs.xs[0].name, "make@") {
				continue // results[i] = append(make(...), results[i]...): the slot is replaced by a copy of itself
			}
			nStore++
			stored = true
			pos = ev.node.Pos()
			res := ev.lhs.xs[0]
			if !(res.k == "call" && strings.HasPrefix(res.name, "make@") && len(res.xs) >= 1 && res.xs[0].key() == lenP.key()) {
				bad = append(bad, "the slice the updates are stored in ("+m.short(res)+") is not make([]osm.Updates, len(parents))")
			}
			R = res
			g := m.groupOf(st, ev.nas, locs)
			if g == nil || ev.lhs.xs[1].key() != g.I.key() {
				bad = append(bad, "`"+src(r.P.Fset, ev.node)+"` is not indexed by the parent index of the group")
			}
			if len(ev.rhs.xs) != 2 || ev.rhs.xs[0].key() != ev.lhs.key() {
				bad = append(bad, "`"+src(r.P.Fset, ev.node)+"` does not append to the list already stored for that parent")
				continue
			}
			U := ev.rhs.xs[1]
			lk, isLoop := c11IsLoopSym(U)
			switch {
			case w == nil:
				bad = append(bad, "`"+src(r.P.Fset, ev.node)+"` is reached on a path that did not run the window loop")
			case !isLoop || lk != m.a5winKey:
				bad = append(bad, "`"+src(r.P.Fset, ev.node)+"` appends "+m.short(U)+", which is not the list accumulated by the window loop (or it was modified after the loop)")
			default:
				for _, e2 := range st.ev {
					if e2.kind == "loop" && e2.key == m.a5winKey {
						// empty: nil, or a scratch buffer reset to length zero (`buf[:0]`); its contents only leave by
						// the value copy `append(results[I], buf...)`
						if pre := e2.pre[U.obj]; pre == nil || !(pre.k == "nil" || (pre.k == "slice" && pre.xs[2].isConstInt(0) && (pre.xs[1].isConstInt(0) || pre.xs[1].name == "-"))) {
							bad = append(bad, "the list accumulated by the window loop is not empty when the loop is entered (it is "+m.short(pre)+"): updates of one parent version would leak into the next")
						}
					}
				}
			}
		}
		// a group iteration that ran the window loop to its end must store its updates
		if p.ctl == c11Back && w != nil && p.loopKey != m.a5winKey && !stored {
			if g := m.groupOf(st, -1, locs); g != nil && p.loopKey == g.gLoop {
				bad = append(bad, "an iteration over the groups can end after the window loop without storing the updates of the parent")
			}
		}
		if p.ctl == c11Return && len(p.res) == 2 && p.res[1].k == "nil" {
			if R == nil || p.res[0].key() != R.key() {
				if p.res[0].k == "call" && strings.HasPrefix(p.res[0].name, "make@") && len(p.res[0].xs) >= 1 && p.res[0].xs[0].key() == lenP.key() {
					continue
				}
				bad = append(bad, "the success path returns "+m.short(p.res[0])+", not the slice with one update list per parent")
			}
		}
	}
	switch {
	case nStore == 0:
		r.Bad(c, pos, "no `results[I] = append(results[I], <updates>...)` store on any path: the updates would not end up on the parent version whose locations produced them")
	case len(bad) > 0:
		r.Bad(c, pos, "%s: the updates would not end up on the parent version whose locations produced them", strings.Join(c11Uniq(bad), "; "))
	default:
		r.OK(c, pos, "the list accumulated by the window loop (empty when the loop is entered) is appended to results[I] in every group iteration that runs the loop; results = make(…, len(parents)) is what the success path returns: result i belongs to parents[i]")
	}
}

// c11MapEmptied: before the first upto decisions ended, the path has emptied map mp: clear(mp), or a completed
// `for k := range mp { delete(mp, k) }`.
func c11MapEmptied(paths []c11Out, st *c11St, mp *c11V, upto int) bool {
	for _, ev := range st.ev {
		if ev.nas > upto {
			break
		}
		if ev.kind == "call" && ev.call.name == "clear" && len(ev.call.xs) == 1 && ev.call.xs[0].key() == mp.key() {
			return true
		}
		if ev.kind == "loop" && ev.x != nil && ev.x.key() == mp.key() {
			key := c11Sym("iter@"+ev.key+":key", nil)
			all, some := true, false
			for _, p := range paths {
				if p.ctl != c11Back || p.loopKey != ev.key {
					continue
				}
				del := false
				for _, e2 := range p.st.ev {
					if e2.kind == "call" && e2.call.name == "delete" && len(e2.call.xs) == 2 && e2.call.xs[0].key() == mp.key() && e2.call.xs[1].key() == key.key() {
						del = true
					}
				}
				some = some || del
				all = all && del
			}
			if all && some {
				return true
			}
		}
	}
	return false
}
