package rules

import (
	"go/ast"
	"go/token"
	"go/types"
	"strings"

	"osmcheck/core"
)

// c05DocField is one nilable field of a struct an UnmarshalJSON method decodes a document into.
type c05DocField struct {
	doc *types.Var // the local the document is decoded into
	t   types.Type // its struct type
	f   *types.Var
	jf  *c03JSONField
}

// c05DocFields lists, for an UnmarshalJSON method, the interface- or pointer-typed fields of the structs it decodes
// into, and the number of unmarshal operations it performs.
func c05DocFields(cx *c05Codec, fi *FuncInfo) (fields []c05DocField, ncalls int) {
	_, paths := cx.run(fi, c05Scen{Tag: "all set"})
	seenCall := map[*ast.CallExpr]bool{}
	seenDoc := map[types.Object]bool{}
	for _, pa := range paths {
		for _, op := range cx.ops(pa) {
			if op.dir != "unmarshal" {
				continue
			}
			if !seenCall[op.ev.Call] {
				seenCall[op.ev.Call] = true
				ncalls++
			}
			st, ok := op.t.Underlying().(*types.Struct)
			if !ok || op.operand.K != c03KAddr || seenDoc[op.operand.Var] {
				continue
			}
			seenDoc[op.operand.Var] = true
			for i := 0; i < st.NumFields(); i++ {
				f := st.Field(i)
				switch f.Type().Underlying().(type) {
				case *types.Interface, *types.Pointer:
					if jf := c03JSONFieldOf(op.t, f); jf != nil {
						fields = append(fields, c05DocField{doc: op.operand.Var.(*types.Var), t: op.t, f: f, jf: jf})
					}
				}
			}
		}
	}
	return
}

// c05Use is a place where a document field's value is formatted, converted, dereferenced or asserted.
type c05Use struct {
	node ast.Node
	what string
}

// c05UsesOf lists the hazardous uses of document field df on a path.
func c05UsesOf(df c05DocField, pa *c03Path) []c05Use {
	is := func(v *c03V) bool {
		v = c05Unassert(v)
		return v != nil && v.IsInit("decoded") && v.Root.Obj == df.doc && len(v.Path) >= 1 && v.Path[0] == df.f
	}
	var out []c05Use
	for _, e := range pa.St.Trace {
		switch e.Kind {
		case "call":
			if e.Fn == nil || e.Fn.Pkg() == nil || (e.Fn.Pkg().Path() != "fmt" && e.Fn.Pkg().Path() != "strconv") {
				continue
			}
			for _, a := range e.Args {
				hit := is(a)
				if a != nil && a.K == c03KList {
					for _, el := range a.Elems {
						hit = hit || is(el)
					}
				}
				if hit {
					out = append(out, c05Use{e.Node, "formatted by " + e.Fn.Pkg().Name() + "." + e.Fn.Name()})
				}
			}
		case "nilderef":
			if is(e.Val) {
				out = append(out, c05Use{e.Node, "dereferenced"})
			}
		case "assert":
			if e.Ok == nil && is(e.Val) {
				out = append(out, c05Use{e.Node, "type-asserted without the comma-ok form"})
			}
		case "badassert":
			if is(e.Val) {
				out = append(out, c05Use{e.Node, "type-asserted without the comma-ok form"})
			}
		}
	}
	return out
}

// c05J4: an absent optional key stays empty. Observed: with the document field nil, no path formats / converts /
// dereferences / asserts it.
func c05J4(r *core.R) {
	c03Init(r)
	pk := c03OsmPkg(r.P)
	cx := c05NewCodec(r.P)
	nm := 0
	for _, fi := range allFuncs(pk) {
		if fi.Obj.Name() != "UnmarshalJSON" || fi.Obj.Type().(*types.Signature).Recv() == nil {
			continue
		}
		fields, ncalls := c05DocFields(cx, fi)
		if ncalls == 0 {
			continue // does not decode anything (type-name shims, raw message)
		}
		nm++
		name := fi.Name()
		nuse := 0
		for _, df := range fields {
			// where is the value used when it is set ...
			set := map[token.Pos]c05Use{}
			_, paths := cx.run(fi, c05Scen{Tag: "set " + df.f.Name()})
			for _, pa := range paths {
				for _, u := range c05UsesOf(df, pa) {
					if u.what != "dereferenced" {
						set[u.node.Pos()] = u
					}
				}
			}
			// ... and which of these (and which dereferences) are reached when the key is absent
			df := df
			x, npaths := cx.run(fi, c05Scen{Tag: "absent " + df.f.Name(), Decoded: func(v *c03V, jf *c03JSONField) *c03V {
				if v.Root.Obj == df.doc && jf.Var == df.f {
					v.Z = triT
				}
				return v
			}})
			reached := map[token.Pos]c05Use{}
			for _, pa := range npaths {
				for _, u := range c05UsesOf(df, pa) {
					reached[u.node.Pos()] = u
					if _, ok := set[u.node.Pos()]; !ok {
						set[u.node.Pos()] = u
					}
				}
			}
			for pos, u := range set {
				nuse++
				c := "nil@" + name + " doc." + df.f.Name()
				switch {
				case x.Aborted != "":
					r.Unknown(c, pos, "%s could not be explored: %s", name, x.Aborted)
				case reached[pos].node != nil:
					zero := "\"<nil>\""
					if !strings.HasPrefix(u.what, "formatted by fmt") {
						zero = "a panic or a conversion error"
					}
					r.Bad(c, pos, "`%s`: the document field %s (key %q) has type %s and stays nil when the key is absent from the document, yet on a path with the key absent it is %s: an absent optional key turns into %s instead of staying empty",
						src(r.P.Fset, u.node), df.f.Name(), df.jf.Key, c03Short(df.f.Type()), u.what, zero)
				default:
					r.OK(c, pos, "`%s`: the document field %s (%s) is %s only on paths where it is not nil", src(r.P.Fset, u.node), df.f.Name(), c03Short(df.f.Type()), u.what)
				}
			}
		}
		if nuse == 0 {
			r.OKTrivial("nil@"+name, fi.Decl.Pos(), "decodes through %d codec call(s); no interface- or pointer-typed document field reaches a formatting/conversion call, a dereference or an unchecked assertion", ncalls)
		}
	}
	r.Stat("decoding_UnmarshalJSON_methods", nm)
}

// c05J6: a value decoded into an interface-typed document field (the top-level version: number or string) reaches
// the receiver whatever its dynamic type. Which dynamic type a number arrives as depends on the installed codec
// (float64 with encoding/json, json.Number / int64 with UseNumber-style codecs), so a conversion that handles a fixed
// list of types silently drops the value for some codec configurations. Observed: with the field non-nil and of
// unknown dynamic type, on every path that returns without error some field of the receiver holds a value computed
// from it.
func c05J6(r *core.R) {
	c03Init(r)
	pk := c03OsmPkg(r.P)
	cx := c05NewCodec(r.P)
	n := 0
	for _, fi := range allFuncs(pk) {
		sig := fi.Obj.Type().(*types.Signature)
		if fi.Obj.Name() != "UnmarshalJSON" || sig.Recv() == nil {
			continue
		}
		rst, _ := c03Deref(sig.Recv().Type()).Underlying().(*types.Struct)
		fields, _ := c05DocFields(cx, fi)
		for _, df := range fields {
			if _, isIface := df.f.Type().Underlying().(*types.Interface); !isIface || rst == nil {
				continue
			}
			n++
			c := "total@" + fi.Name() + " doc." + df.f.Name()
			is := func(v *c03V) bool {
				v = c05Unassert(v)
				return v != nil && v.IsInit("decoded") && v.Root.Obj == df.doc && len(v.Path) >= 1 && v.Path[0] == df.f
			}
			x, paths := cx.run(fi, c05Scen{Tag: "any type " + df.f.Name()})
			verdict, why, pos := "", "", fi.Decl.Pos()
			var into []string
			for _, pa := range paths {
				if pa.End != "return" || len(pa.Ret) != 1 || pa.St.Zero(pa.Ret[0]) == triF {
					continue
				}
				for _, u := range c05UsesOf(df, pa) {
					if strings.HasPrefix(u.what, "type-asserted") && verdict == "" {
						verdict, pos = "bad", u.node.Pos()
						why = "`" + src(r.P.Fset, u.node) + "` accepts a single dynamic type; numbers arrive as float64, json.Number or integers depending on the codec"
					}
				}
				rv := pa.St.Var(sig.Recv())
				got := ""
				for i := 0; i < rst.NumFields(); i++ {
					if fv := x.field(pa.St, rv, rst.Field(i), fi.Decl, nil); c05Derives(fv, is) {
						got = rst.Field(i).Name()
					}
				}
				if got != "" {
					into = append(into, got)
					continue
				}
				if verdict == "" {
					verdict = "bad"
					var forks []string
					for _, e := range pa.St.Trace {
						if e.Kind != "fork" {
							continue
						}
						if e.Cond != nil {
							continue
						} else if !e.Taken && e.Node != nil {
							forks = append(forks, "the dynamic type is none of those listed in the type switch")
							pos = e.Node.Pos()
						}
					}
					why = "with a non-nil " + df.f.Name() + " of a dynamic type the code does not list (json.Number or an integer type from a codec configured to keep numbers exact) there is a path (" + strings.Join(forks, ", ") + ") on which no field of the receiver receives the value: it is dropped and the field stays empty, although the same document decodes with the standard codec"
				}
			}
			switch {
			case x.Aborted != "":
				r.Unknown(c, pos, "%s could not be explored: %s", fi.Name(), x.Aborted)
			case verdict == "bad":
				r.Bad(c, pos, "%s", why)
			case len(into) == 0:
				r.Unknown(c, pos, "no path of %s returns without error with the document field %s set", fi.Name(), df.f.Name())
			default:
				r.OK(c, pos, "whatever its dynamic type, a non-nil %s reaches %s.%s on every path that returns without error", df.f.Name(), c03TypeName(c03Deref(sig.Recv().Type())), into[0])
			}
		}
	}
	if n == 0 {
		r.Anchor("interface-typed document field in an UnmarshalJSON method (version: number or string)")
	}
}

// c05Unassert follows type assertions / type-switch bindings back to the value they narrow.
func c05Unassert(v *c03V) *c03V {
	for i := 0; v != nil && v.K == c03KInit && v.Root.Kind == "assert" && v.Root.Of != nil && len(v.Path) == 0 && i < 4; i++ {
		v = v.Root.Of
	}
	return v
}
