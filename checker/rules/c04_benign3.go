package rules

import (
	"strings"

	"osmcheck/core"
)

// Round-6 shape class for the XML writers: one wrapper helper that writes start token, body and end token, with the
// body passed as a CALLBACK, used re-entrantly (the document wrapper's body calls the block wrapper, which calls the
// same helper again). c04Benign3 must be silent; c04Mutants3 seed a defect into the same shape.

const c04ChangeTail = "\tif err := e.EncodeToken(start); err != nil {\n\t\treturn err\n\t}\n\n\tif err := marshalInnerChange(e, \"create\", c.Create); err != nil {\n\t\treturn err\n\t}\n\n\tif err := marshalInnerChange(e, \"modify\", c.Modify); err != nil {\n\t\treturn err\n\t}\n\n\tif err := marshalInnerChange(e, \"delete\", c.Delete); err != nil {\n\t\treturn err\n\t}\n\n\treturn e.EncodeToken(start.End())\n}\n\nfunc marshalInnerChange(e *xml.Encoder, name string, o *OSM) error {\n\tif o == nil {\n\t\treturn nil\n\t}\n\n\tt := xml.StartElement{Name: xml.Name{Local: name}}\n\tif err := e.EncodeToken(t); err != nil {\n\t\treturn err\n\t}\n\n\tif err := o.marshalInnerXML(e); err != nil {\n\t\treturn err\n\t}\n\n\treturn e.EncodeToken(t.End())\n}\n"

// c04ChangeCallback rewrites the tail of Change.MarshalXML and marshalInnerChange on a callback wrapper; end is the
// end-token expression of the wrapper, guard the condition under which a block is left out.
func c04ChangeCallback(end, guard string) string {
	return "\treturn wrapElement(e, start, func() error {\n\t\tblocks := [...]struct {\n\t\t\tname string\n\t\t\tbody *OSM\n\t\t}{{\"create\", c.Create}, {\"modify\", c.Modify}, {\"delete\", c.Delete}}\n\t\tfor i := range blocks {\n\t\t\tif err := marshalInnerChange(e, blocks[i].name, blocks[i].body); err != nil {\n\t\t\t\treturn err\n\t\t\t}\n\t\t}\n\t\treturn nil\n\t})\n}\n\n" +
		"// wrapElement writes start, whatever body writes, and the matching end token.\nfunc wrapElement(e *xml.Encoder, start xml.StartElement, body func() error) error {\n\tif err := e.EncodeToken(start); err != nil {\n\t\treturn err\n\t}\n\n\tif err := body(); err != nil {\n\t\treturn err\n\t}\n\n\treturn e.EncodeToken(" + end + ")\n}\n\n" +
		"func marshalInnerChange(e *xml.Encoder, name string, o *OSM) error {\n\tif " + guard + " {\n\t\treturn nil\n\t}\n\n\treturn wrapElement(e, xml.StartElement{Name: xml.Name{Local: name}}, func() error {\n\t\treturn o.marshalInnerXML(e)\n\t})\n}\n"
}

var c04Benign3 = []core.Mutant{
	{Name: "wrapper-with-body-callback-reentrant", File: "change.go", Find: c04ChangeTail, Replace: c04ChangeCallback("start.End()", "o == nil")},
}

// c04ChangeCallbackBodyFirst: the wrapper calls the body before it writes the start token.
func c04ChangeCallbackBodyFirst() string {
	good := c04ChangeCallback("start.End()", "o == nil")
	return strings.Replace(good, "\tif err := e.EncodeToken(start); err != nil {\n\t\treturn err\n\t}\n\n\tif err := body(); err != nil {\n\t\treturn err\n\t}\n", "\tif err := body(); err != nil {\n\t\treturn err\n\t}\n\n\tif err := e.EncodeToken(start); err != nil {\n\t\treturn err\n\t}\n", 1)
}

var c04Mutants3 = []core.Mutant{
	{Name: "callback-wrapper-runs-body-before-start-token", File: "change.go", Find: c04ChangeTail, Replace: c04ChangeCallbackBodyFirst(), ExpectRule: "X1", ExpectConstruct: "block Change.Create"},
	{Name: "callback-wrapper-closes-with-fixed-name", File: "change.go", Find: c04ChangeTail, Replace: c04ChangeCallback("xml.EndElement{Name: xml.Name{Local: \"osmChange\"}}", "o == nil"), ExpectRule: "X1", ExpectConstruct: "root@Change.MarshalXML"},
	{Name: "callback-wrapper-skips-blocks-without-nodes", File: "change.go", Find: c04ChangeTail, Replace: c04ChangeCallback("start.End()", "o == nil || len(o.Nodes) == 0"), ExpectRule: "X6", ExpectConstruct: "written@Change.Create"},
}
