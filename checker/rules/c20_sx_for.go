package rules

import (
	"go/ast"
	"go/token"
	"go/types"
)

// Normal form of counting loops. All of these are `for i := start; i < bound; i++ { body }`:
//
//	for i := 0; i < n; i++ { body }
//	i := 0; for i < n { body; i++ }                      (while form: increment is the last statement, no continue)
//	for i := 0; ; i++ { if i >= n { break }; body }      (guard-and-break form, also `i == n`, `!(i < n)`, `n <= i`)
//	i := 0; for { if i == n { break }; body; i++ }
//	L: for ... { if i >= n { break L }; ... }            (the label of the loop itself)
type c20ForShape struct {
	i     types.Object
	start int64
	bound ast.Expr
	body  *ast.BlockStmt
	outer bool // i is declared before the loop (its value after the loop is not modelled)
}

func (x *c20SX) isIncr(s ast.Stmt, i types.Object) bool {
	switch p := s.(type) {
	case *ast.IncDecStmt:
		return p.Tok == token.INC && objOf(x.info, p.X) == i
	case *ast.AssignStmt:
		if p.Tok == token.ADD_ASSIGN && len(p.Lhs) == 1 && len(p.Rhs) == 1 && objOf(x.info, p.Lhs[0]) == i {
			n, ok := constInt(x.info, p.Rhs[0])
			return ok && n == 1
		}
	}
	return false
}

// below: cond is `i < B` (in any spelling); neg: cond is its negation (`i >= B`, `i == B`, `B <= i`, `!(i < B)`).
func (x *c20SX) below(cond ast.Expr, neg bool) (types.Object, ast.Expr) {
	cond = ast.Unparen(cond)
	if u, ok := cond.(*ast.UnaryExpr); ok && u.Op == token.NOT {
		return x.below(u.X, !neg)
	}
	be, ok := cond.(*ast.BinaryExpr)
	if !ok {
		return nil, nil
	}
	l, op, r := be.X, be.Op, be.Y
	if _, isVar := objOf(x.info, l).(*types.Var); !isVar || objOf(x.info, l).Parent() == x.cx.pk.Types.Scope() {
		l, r, op = r, l, c20Mirror(op)
	}
	i, isVar := objOf(x.info, l).(*types.Var)
	if !isVar {
		return nil, nil
	}
	switch {
	case !neg && (op == token.LSS || op == token.NEQ):
		return i, r
	case neg && (op == token.GEQ || op == token.EQL):
		return i, r
	}
	return nil, nil
}

func (x *c20SX) forShape(s *ast.ForStmt, label string, st *c20St) (c20ForShape, bool) {
	var sh c20ForShape
	list := s.Body.List
	// bound
	if s.Cond != nil {
		sh.i, sh.bound = x.below(s.Cond, false)
	} else if len(list) > 0 {
		ifs, ok := list[0].(*ast.IfStmt)
		if !ok || ifs.Init != nil || ifs.Else != nil || len(ifs.Body.List) != 1 {
			return sh, false
		}
		br, ok := ifs.Body.List[0].(*ast.BranchStmt)
		if !ok || br.Tok != token.BREAK || (br.Label != nil && br.Label.Name != label) {
			return sh, false
		}
		sh.i, sh.bound = x.below(ifs.Cond, true)
		list = list[1:]
	}
	if sh.i == nil || sh.bound == nil {
		return sh, false
	}
	// start
	if s.Init != nil {
		init, ok := s.Init.(*ast.AssignStmt)
		if !ok || init.Tok != token.DEFINE || len(init.Lhs) != 1 || len(init.Rhs) != 1 || objOf(x.info, init.Lhs[0]) != sh.i {
			return sh, false
		}
		n, ok := constInt(x.info, init.Rhs[0])
		if !ok {
			return sh, false
		}
		sh.start = n
	} else {
		v, ok := st.env[sh.i]
		if !ok || v.k != c20kInt || v.h != nil {
			return sh, false
		}
		sh.start, sh.outer = v.n, true
	}
	if sh.start != 0 && sh.start != 1 {
		return sh, false
	}
	// increment
	if s.Post != nil {
		if !x.isIncr(s.Post, sh.i) {
			return sh, false
		}
	} else {
		if len(list) == 0 || !x.isIncr(list[len(list)-1], sh.i) {
			return sh, false
		}
		list = list[:len(list)-1]
		for _, b := range list {
			skip := false
			ast.Inspect(b, func(n ast.Node) bool {
				if br, ok := n.(*ast.BranchStmt); ok && br.Tok == token.CONTINUE {
					skip = true // would skip the increment at the end of the body
				}
				return !skip
			})
			if skip {
				return sh, false
			}
		}
	}
	sh.body = &ast.BlockStmt{Lbrace: s.Body.Lbrace, List: list, Rbrace: s.Body.Rbrace}
	if countAssignsTo(x.info, sh.body, sh.i, s.Body.Pos(), s.Body.End()) > 0 {
		return sh, false
	}
	return sh, true
}

// loopLabel is the label of the innermost loop being executed ("" if it has none).
func (x *c20SX) loopLabel() string {
	if len(x.labels) == 0 {
		return ""
	}
	return x.labels[len(x.labels)-1]
}

// ownBranch turns a labelled break/continue that names the innermost loop into the plain one; any other labelled
// jump is not understood.
func (x *c20SX) ownBranch(o *c20St, at ast.Node) {
	if o.lbl == "" || (o.ctl != c20cBrk && o.ctl != c20cCont) {
		return
	}
	if o.lbl == x.loopLabel() {
		o.lbl = ""
		return
	}
	o.abort(at, "jump to label %s out of a nested loop", o.lbl)
}
