package rules

import (
	"fmt"
	"go/ast"
	"go/types"
	"sort"
	"strings"

	"osmcheck/core"
)

// Unexported identifiers the C03 rules are keyed on: none. The scanner is osmxml.(*Scanner).Scan with everything it
// calls; the field it publishes objects in is found by role (the receiver field the `func() osm.Object` accessor
// returns); the custom decoders are found through the method sets of osm.Action and osm.Date. T2-T5 observe what
// these functions do for each element / attribute name (rules/c03_scan.go on top of the interpreter of
// rules/c03_eval.go); the surface form of the dispatch (switch, if chain, helper method), local names and the file the
// code lives in do not matter.

func init() {
	register(&core.Property{
		ID:    "C03",
		Title: "OSM XML decoding is faithful; streaming scan equals whole-document decode",
		Explanation: "Structural necessary conditions on the naming layer, which is the entire decoding mechanism of this library: " +
			"(T1) every element/attribute name of the external OSM XML table (tables/osmxml.json: OSM XML, API v0.6, osmChange, augmented diff) is claimed, with the right kind (attribute / structured element / character data, a>b paths resolved), by the tag of the exported Go field the table names, and no struct has tags encoding/xml rejects; " +
			"(T2) for every element name osm.OSM's element fields carry, and for no other name - the dispatch is on the element name itself: spellings that differ in case, surrounding space, prefix or suffix (Node, NODE, ` node`, nodes, xnode) are explored as names of their own and must yield nothing - every path of the streaming scanner's Scan that returns true has decoded (exactly one DecodeElement) into a fresh object of the field's own element type (whose XMLName, when declared, is that name) and holds that very object in the field its Object accessor returns; osmChange blocks are *OSM fields decoded by tags alone, so a repeated block is decoded into the same struct and its slice fields accumulate; " +
			"(T3) a token that is not a start element takes every path back to the head of the loop that reads the next token; a start element named like a container of the three formats (derived from tables/osmxml.json: the document elements of OSM, Change, Diff and every element on the way from them to a list of objects - osm, osmChange, create, modify, delete, action, old, new) is walked into: the next token is read without decoding or skipping anything; every other start element that is no object has its content skipped (Decoder.Skip on the decoder the token came from, once, before the next token is read - encoding/xml's Unmarshal ignores an element no field claims together with its content, so whole-document decoding never sees what is nested in it), and when that Skip fails Scan returns false with the error kept in the field the error of Token is kept in; the one exception is the document element, which may be walked into whatever its name on a condition that holds for the first start element only (a scanner field that is zero in every scanner a constructor returns and non-zero after any start element was bound); every DecodeElement receives the start element bound in the same iteration on the decoder the token came from; " +
			"(T4) Action.UnmarshalXML stores the Value of the start element's `type` attribute (and of no other attribute) into Action.Type and, for each of old, new, node, way, relation, decodes the child into a fresh object that the documented field of the action holds at the end of the iteration; node, way and relation children accumulate: when the action may already hold an OSM body (it is not known to be nil on the path) the body is kept and the list is the previous list extended by the child, a fresh body or list that drops the children decoded before is a violation (Action.MarshalXML writes all of them); Date parses the text it decoded, and time.Parse with its layout reads what Date.MarshalXML formats: the layouts are equal, or differ only by a fractional-seconds field right after the seconds of the writer's layout (package time, Parse: a fractional second after the seconds field is accepted even if the layout does not signify it); " +
			"(T5) between DecodeElement and the return of Scan nothing is stored through the decoded object - except a new list made of exactly the elements the decoder left in the very slice field that is assigned (`x.F = append(T(nil), x.F...)`, make(len)+copy, nil when it is empty, directly or through a helper: the exact-size copy says what the document says) - and it is handed to no code the analysis does not enter: the scanner yields what encoding/xml decoded, as a whole-document decode does. " +
			"(T6) every DecodeElement reached inside a loop (the scanner, every UnmarshalXML) fills a value created in that loop iteration - DecodeElement keeps what the element does not carry, so a scratch value declared before the loop, partially reset, or retained makes an element inherit its predecessor's fields; freshness covers what is reachable from the target: at the moment of the call every slice-, map- or pointer-typed field set in it (struct literal, earlier stores, nested structs, pointees) holds nil or a value created in the same iteration - encoding/xml appends into spare capacity without zeroing the re-exposed element and assigns only the attributes present, so `&T{F: s.buf[:0]}` (length 0, capacity kept) lets the i-th child inherit from the i-th child of an earlier element; built on receiver or package-level storage is a violation, unknown origin undecided; what a custom decoder leaves in its receiver is not built on a package-level variable; a type with xml-tagged fields and its own UnmarshalXML stores each attribute named by a tag into the tagged field (and no other) and holds the decoded child of each element tag in the tagged field; a numeric or bool field filled from an attribute holds the result of strconv applied to the whole (trimmed) attribute text with base 10 and the field's bit size - a value computed by the decoder's own arithmetic is undecided, another base or bit size a violation. " +
			"(T7) the scanner reads tokens from a decoder configured like the one xml.Unmarshal builds: created by xml.NewDecoder, and on no path of package osmxml is Strict, AutoClose, Entity, DefaultSpace or CharsetReader of an *xml.Decoder given a non-default value (lenient tokenising closes elements early and accepts what the strict decoder rejects; a CharsetReader makes the scanner accept encodings whole-document decoding rejects - reported as a violation too, since scanning then yields objects where xml.Unmarshal returns an error); a decoder built by xml.NewTokenDecoder or handed to code that is not entered is undecided. " +
			"T2-T7 are decided on the behaviour observed by an abstract interpreter that explores Scan / UnmarshalXML, with everything they call, once per element name (and attribute name). " +
			"NOT decided: everything encoding/xml itself does (attribute order, whitespace, comments, entities, self-closing tags, unknown names are its documented behaviour), equality of decoded values, names outside the table (library extensions are covered by C04's symmetry rules only), and behaviour that only shows from the second iteration of a loop on.",
		Assumptions: []string{"go/types (x/tools v0.29.0)", "documented naming rules of encoding/xml (struct tags, XMLName, slices append per occurrence, a nil pointer field is allocated once and reused, DecodeElement fills the pointee of a non-nil pointer and keeps the pointer)", "the path-enumerating abstract interpreter of rules/c03_eval.go (one iteration per loop, calls outside the repository opaque, function literals, method values, deferred calls, pointers to fields and never-reassigned unexported package-level tables are followed; goroutines, goto, generic functions and calls whose target is not known on the path make the exploration undecided)", "tables/osmxml.json transcribes the OSM documentation correctly"},
		LevelText:   "Structural necessary conditions: struct tags agree with the externally specified OSM XML names for every table entry; for every element name the streaming scanner yields exactly the freshly decoded object of the container field's type, unmodified, and walks into everything else; custom decoders store the documented names into the documented fields. Value equality and encoding/xml's own behaviour are not decided.",
		LevelNote:   "Trusts the type checker, the documented naming rules of encoding/xml (re-implemented in rules/c03_xmlmodel.go) and the abstract interpreter's modelling of the Go statements the decoders use (anything it does not model is reported as undecided); the table is the external specification.",
		Technique:   "type-resolved struct-tag model of encoding/xml checked against an external name table; abstract interpretation of the scanner and of the custom decoders over the finite set of element / attribute names, observing DecodeElement calls with symbolic arguments, loop back edges, returns and the final receiver state",
		DesignRef:   "DESIGN.md §5 C03, §3.3, Appendix C",
		Rules: []*core.Rule{
			{ID: "T1", Floor: 140, Doc: "schema table <-> struct tags (names, kinds, Go fields, XMLName, well-formed tags)", Run: c03T1},
			{ID: "T2", Floor: 25, Doc: "scanner yields, per element name of osm.OSM, the fresh decoded object of the field's type (7 names + 7 fields + dispatch); osmChange containers accumulate (1 + 3 + 6)", Run: c03T2},
			{ID: "T3", Floor: 20, Doc: "scanner walks into the containers of the formats and into nothing else: non-start tokens go back to the token loop, 8 containers are walked into, every other non-object element is skipped with its content (Skip on the same decoder, error kept), the document element excepted; DecodeElement gets the element just read (loop, nonstart, default, skip, root + 8 containers + 7 names)", Run: c03T3},
			{ID: "T4", Floor: 13, Doc: "custom decoders: Action.UnmarshalXML child elements (5 + 5) and type attribute; Date layout and decode", Run: c03T4},
			{ID: "T5", Floor: 7, Doc: "the scanner publishes the decoded object unmodified: no store through it, no hand-off, between DecodeElement and return (7 names)", Run: c03T5},
			{ID: "T6", Floor: 14, Doc: "hand-written element decoders: every DecodeElement reached in a loop fills a value created in that iteration (7 scanner names + 5 action children); a type with xml tags and its own UnmarshalXML reads the names its tags state", Run: c03T6},
			{ID: "T7", Floor: 6, Doc: "the scanner's xml.Decoder is created by xml.NewDecoder and none of Strict / AutoClose / Entity / DefaultSpace / CharsetReader is given a non-default value anywhere in package osmxml: it tokenises like the decoder xml.Unmarshal builds (creation + 5 fields)", Run: c03T7},
		},
		Mutants: append([]core.Mutant{
			{Name: "waynode-latlon-swapped", File: "way.go", Find: "Lat         float64     `xml:\"lat,attr,omitempty\"`\n\tLon         float64     `xml:\"lon,attr,omitempty\"`", Replace: "Lat         float64     `xml:\"lon,attr,omitempty\"`\n\tLon         float64     `xml:\"lat,attr,omitempty\"`", ExpectRule: "T1", ExpectConstruct: "ext WayNode"},
			{Name: "node-latlon-swapped", File: "node.go", Find: "Lat         float64             `xml:\"lat,attr\" json:\"lat\"`\n\tLon         float64             `xml:\"lon,attr\" json:\"lon\"`", Replace: "Lat         float64             `xml:\"lon,attr\" json:\"lat\"`\n\tLon         float64             `xml:\"lat,attr\" json:\"lon\"`", ExpectRule: "T1", ExpectConstruct: "Node @lat"},
			{Name: "nd-ref-as-element", File: "way.go", Find: "ID NodeID `xml:\"ref,attr,omitempty\"`", Replace: "ID NodeID `xml:\"ref,omitempty\"`", ExpectRule: "T1", ExpectConstruct: "WayNode @ref"},
			{Name: "changeset-numchanges-renamed", File: "changeset.go", Find: "`xml:\"num_changes,attr,omitempty\"", Replace: "`xml:\"changes_count,attr,omitempty\"", ExpectRule: "T1", ExpectConstruct: "Changeset @num_changes"},
			{Name: "note-comments-path-flattened", File: "note.go", Find: "`xml:\"comments>comment\"", Replace: "`xml:\"comment\"", ExpectRule: "T1", ExpectConstruct: "Note comments/comment"},
			{Name: "way-xmlname-conflict", File: "way.go", Find: "xmlNameJSONTypeWay `xml:\"way\"", Replace: "xmlNameJSONTypeWay `xml:\"Way\"", ExpectRule: "T1", ExpectConstruct: "xmlname@Way"},
			{Name: "scanner-relation-into-way", File: "osmxml/scanner.go", Find: "relation := &osm.Relation{}", Replace: "relation := &osm.Way{}", ExpectRule: "T2", ExpectConstruct: "case \"relation\""},
			{Name: "scanner-no-note", File: "osmxml/scanner.go", Find: "\t\tcase \"note\":\n\t\t\tn := &osm.Note{}\n\t\t\terr = s.decoder.DecodeElement(&n, &se)\n\t\t\ts.next = n\n", Replace: "", ExpectRule: "T2", ExpectConstruct: "field OSM.Notes"},
			{Name: "scanner-yields-stale", File: "osmxml/scanner.go", Find: "\t\t\ts.next = way\n", Replace: "", ExpectRule: "T2", ExpectConstruct: "case \"way\""},
			{Name: "change-modify-tag-capitalised", File: "change.go", Find: "Modify *OSM `xml:\"modify\"", Replace: "Modify *OSM `xml:\"Modify\"", ExpectRule: "T2", ExpectConstruct: "container@Change.Modify"},
			{Name: "scanner-rewrites-decoded-field", File: "osmxml/scanner.go", Find: "\t\t\terr = s.decoder.DecodeElement(&node, &se)\n\t\t\ts.next = node\n", Replace: "\t\t\terr = s.decoder.DecodeElement(&node, &se)\n\t\t\tnode.Visible = true\n\t\t\ts.next = node\n", ExpectRule: "T5", ExpectConstruct: "unmodified \"node\""},
			{Name: "scanner-hands-object-out", File: "osmxml/scanner.go", Find: "\t\t\terr = s.decoder.DecodeElement(&way, &se)\n\t\t\ts.next = way\n", Replace: "\t\t\terr = s.decoder.DecodeElement(&way, &se)\n\t\t\tway.Nodes.UnmarshalJSON(nil)\n\t\t\ts.next = way\n", ExpectRule: "T5", ExpectConstruct: "unmodified \"way\""},
			{Name: "scanner-publishes-other-object", File: "osmxml/scanner.go", Find: "\t\t\terr = s.decoder.DecodeElement(&relation, &se)\n\t\t\ts.next = relation\n", Replace: "\t\t\terr = s.decoder.DecodeElement(&relation, &se)\n\t\t\ts.next = &osm.Relation{ID: relation.ID}\n", ExpectRule: "T2", ExpectConstruct: "case \"relation\""},
			{Name: "scanner-stops-on-chardata", File: "osmxml/scanner.go", Find: "\t\tif !ok {\n\t\t\tcontinue\n\t\t}", Replace: "\t\tif !ok {\n\t\t\treturn false\n\t\t}", ExpectRule: "T3", ExpectConstruct: "nonstart@"},
			{Name: "scanner-decode-without-start", File: "osmxml/scanner.go", Find: "err = s.decoder.DecodeElement(&node, &se)", Replace: "err = s.decoder.DecodeElement(&node, nil)", ExpectRule: "T3", ExpectConstruct: "case \"node\""},
			{Name: "action-old-into-new", File: "diff.go", Find: "\t\tcase \"old\":\n\t\t\ta.Old = &OSM{}\n\t\t\tif err := d.DecodeElement(a.Old, &start); err != nil {", Replace: "\t\tcase \"old\":\n\t\t\ta.New = &OSM{}\n\t\t\tif err := d.DecodeElement(a.New, &start); err != nil {", ExpectRule: "T4", ExpectConstruct: "case \"old\""},
			{Name: "action-no-relation", File: "diff.go", Find: "\t\tcase \"relation\":\n\t\t\tr := &Relation{}\n\t\t\tif err := d.DecodeElement(&r, &start); err != nil {\n\t\t\t\treturn err\n\t\t\t}\n\t\t\tif a.OSM == nil {\n\t\t\t\ta.OSM = &OSM{}\n\t\t\t}\n\t\t\ta.OSM.Relations = append(a.OSM.Relations, r)\n", Replace: "", ExpectRule: "T4", ExpectConstruct: "relation"},
			{Name: "action-type-wrong-attr", File: "diff.go", Find: "if attr.Name.Local == \"type\" {", Replace: "if attr.Name.Local == \"action\" {", ExpectRule: "T4", ExpectConstruct: "attr@"},
			{Name: "date-parse-other-layout", File: "note.go", Find: "d.Time, err = time.Parse(dateLayout, s)", Replace: "d.Time, err = time.Parse(time.RFC3339, s)", ExpectRule: "T4", ExpectConstruct: "layout@Date"},
		}, append(append([]core.Mutant{}, append(append(c03Mutants2List(), c03FreshMutants...), c03DecoderMutants...)...), append(append(append([]core.Mutant{}, c03Mutants5...), c03ScanMutants...), append(append([]core.Mutant{}, c03ActionMutants...), append(append([]core.Mutant{}, c03DeepMutants...), c03R8Mutants...)...)...)...)...),
		Benign: append(append([]core.Mutant{}, append(append(append([]core.Mutant{}, c03Benign...), c03Benign2List()...), append(append([]core.Mutant{}, c03FreshBenign...), c03DecoderBenign...)...)...), append(append(append([]core.Mutant{}, c03Benign5...), c03ScanBenign...), append(append([]core.Mutant{}, c03ActionBenign...), append(append([]core.Mutant{}, c03DeepBenign...), c03R8Benign...)...)...)...),
	})
}

// ---- T1 --------------------------------------------------------------------------------------

func c03T1(r *core.R) {
	c03Init(r)
	tbl, err := c03LoadTable()
	if err != nil {
		r.Anchor("tables/osmxml.json: " + err.Error())
		return
	}
	pk := c03OsmPkg(r.P)
	ntypes := 0
	for i := range tbl.Types {
		tt := &tbl.Types[i]
		nt, _ := structType(pk, tt.Go)
		if nt == nil {
			r.Anchor("type osm." + tt.Go + " (named in tables/osmxml.json)")
			continue
		}
		if tt.Custom {
			continue // checked by T4 against the hand-written decoder
		}
		ntypes++
		ti := c03XMLTypeInfo(nt)
		pos := nt.Obj().Pos()
		if len(ti.Errs) > 0 {
			r.Bad("tags@"+tt.Go, pos, "encoding/xml rejects the tags of %s (every Marshal/Unmarshal of it fails): %s", tt.Go, strings.Join(ti.Errs, "; "))
		} else {
			r.OK("tags@"+tt.Go, pos, "%d tagged field(s), no tag conflict", len(ti.Fields))
		}
		if ti.XMLName != nil {
			c := "xmlname@" + tt.Go
			if ti.XMLName.Name == tt.Element {
				r.OK(c, ti.XMLName.Var.Pos(), "XMLName tag %q is the documented element name", ti.XMLName.Name)
			} else {
				r.Bad(c, ti.XMLName.Var.Pos(), "%s.XMLName is tagged %q but the element is <%s> (%s): the decoder rejects <%s> with \"expected element type <%s>\"", tt.Go, ti.XMLName.Name, tt.Element, tt.Doc, tt.Element, ti.XMLName.Name)
			}
		}
		for _, e := range tt.Entries {
			c := "ext " + tt.Go + " " + e.XML
			res := c03ResolveXMLPath(nt, e.XML)
			if res.Err != "" {
				r.Bad(c, pos, "%s %q of <%s> (%s) is not decoded: %s; the table expects Go field %s.%s", e.Kind, e.XML, tt.Element, tt.Doc, res.Err, tt.Go, e.Field)
				continue
			}
			fpos := res.Leaf.Var.Pos()
			if res.GoPath != e.Field {
				r.Bad(c, fpos, "%s %q of <%s> is decoded into %s.%s, the documented meaning belongs to %s.%s", e.Kind, e.XML, tt.Element, tt.Go, res.GoPath, tt.Go, e.Field)
				continue
			}
			lt := c03ElemType(res.Leaf.Var.Type())
			text := c03TextLike(r.P, lt)
			switch e.Kind {
			case "attr":
				if !text {
					r.Bad(c, fpos, "attribute %q is tagged onto %s.%s of type %s, which cannot hold an attribute value", e.XML, tt.Go, res.GoPath, c03Short(lt))
					continue
				}
			case "chardata":
				if !text {
					r.Bad(c, fpos, "the text of <%s> is tagged onto %s.%s of type %s, which is not a text-valued type", e.XML, tt.Go, res.GoPath, c03Short(lt))
					continue
				}
			case "element":
				if _, isStruct := lt.Underlying().(*types.Struct); !isStruct {
					r.Bad(c, fpos, "structured element <%s> is tagged onto %s.%s of type %s, which is not a struct", e.XML, tt.Go, res.GoPath, c03Short(lt))
					continue
				}
			default:
				r.Anchor("tables/osmxml.json: unknown kind " + e.Kind)
				continue
			}
			r.OK(c, fpos, "%s %q -> %s.%s (%s), tag `%s`", e.Kind, e.XML, tt.Go, res.GoPath, c03Short(res.Leaf.Var.Type()), c03TagOf(res.Leaf))
		}
	}
	r.Stat("xml_table_types", ntypes)
}

func c03TagOf(f *c03Field) string {
	s := f.Path()
	if f.Kind != c03Elem {
		s += "," + f.Kind
	}
	if f.OmitEmpty {
		s += ",omitempty"
	}
	return strings.ReplaceAll(s, "/", ">")
}

// ---- T2 --------------------------------------------------------------------------------------

func c03T2(r *core.R) {
	c03Init(r)
	pk := c03OsmPkg(r.P)
	osmNT, _ := structType(pk, "OSM")
	if osmNT == nil {
		r.Anchor("type osm.OSM")
		return
	}
	osmTI := c03XMLTypeInfo(osmNT)
	c03T2Scanner(r, osmTI)

	// osmChange containers
	tbl, err := c03LoadTable()
	if err != nil {
		r.Anchor("tables/osmxml.json: " + err.Error())
		return
	}
	chNT, _ := structType(pk, "Change")
	if chNT == nil {
		r.Anchor("type osm.Change")
		return
	}
	custom := []string{}
	for _, nt := range []*types.Named{chNT, osmNT} {
		if c03Implements(r.P, nt, "encoding/xml", "Unmarshaler") != "" {
			custom = append(custom, nt.Obj().Name())
		}
	}
	if len(custom) > 0 {
		r.Unknown("tags-only@Change,OSM", chNT.Obj().Pos(), "%s now has a hand-written UnmarshalXML: how repeated create/modify/delete blocks are merged is no longer decided by the tags and is not analysed", strings.Join(custom, ", "))
	} else {
		r.OK("tags-only@Change,OSM", chNT.Obj().Pos(), "neither osm.Change nor osm.OSM has UnmarshalXML: repetition is handled by encoding/xml's field rules alone")
	}
	if tt := tbl.Type("Change"); tt != nil {
		for _, e := range tt.Entries {
			if e.Kind != "element" {
				continue
			}
			c := "container@Change." + e.Field
			res := c03ResolveXMLPath(chNT, e.XML)
			if res.Err != "" || res.GoPath != e.Field {
				r.Bad(c, chNT.Obj().Pos(), "no field %s tagged %q in osm.Change (%s)", e.Field, e.XML, res.Err)
				continue
			}
			ft := res.Leaf.Var.Type()
			inner := c03ElemType(ft)
			if !types.Identical(inner, osmNT) {
				r.Bad(c, res.Leaf.Var.Pos(), "<%s> block is decoded into %s, not into an osm.OSM body", e.XML, c03Short(ft))
				continue
			}
			switch ft.Underlying().(type) {
			case *types.Pointer, *types.Struct:
				r.OK(c, res.Leaf.Var.Pos(), "%s: a repeated <%s> block is decoded into the same OSM value (nil pointer allocated once, then reused), so its slice fields accumulate across blocks", c03Short(ft), e.XML)
			case *types.Slice:
				r.OK(c, res.Leaf.Var.Pos(), "%s: every <%s> block is appended", c03Short(ft), e.XML)
			default:
				r.Unknown(c, res.Leaf.Var.Pos(), "unexpected container type %s", c03Short(ft))
			}
		}
	} else {
		r.Anchor("tables/osmxml.json: type Change")
	}
	if tt := tbl.Type("OSM"); tt != nil {
		for _, e := range tt.Entries {
			if e.Kind != "element" || e.XML == "bounds" {
				continue // bounds occurs once per body
			}
			c := "accumulate@OSM." + e.Field
			f := osmTI.Field(e.Field)
			if f == nil {
				r.Bad(c, osmNT.Obj().Pos(), "osm.OSM has no XML field %s", e.Field)
				continue
			}
			if _, ok := f.Var.Type().Underlying().(*types.Slice); ok {
				r.OK(c, f.Var.Pos(), "%s is a slice: encoding/xml appends one item per <%s>, across repeated blocks too", c03Short(f.Var.Type()), e.XML)
			} else {
				r.Bad(c, f.Var.Pos(), "osm.OSM.%s has type %s: only the last <%s> of a document (or of repeated osmChange blocks) survives decoding", e.Field, c03Short(f.Var.Type()), e.XML)
			}
		}
	}
}

// ---- T4 --------------------------------------------------------------------------------------

func c03NameOr(f *c03Field) string {
	if f == nil {
		return "?"
	}
	return f.Name
}

func c03T4(r *core.R) {
	c03Init(r)
	tbl, err := c03LoadTable()
	if err != nil {
		r.Anchor("tables/osmxml.json: " + err.Error())
		return
	}
	tt := tbl.Type("Action")
	if tt == nil {
		r.Anchor("tables/osmxml.json: type Action")
		return
	}
	var attrs, elems []string
	inTable := map[string]*c03TableEntry{}
	for i := range tt.Entries {
		e := &tt.Entries[i]
		switch e.Kind {
		case "attr":
			attrs = append(attrs, strings.TrimPrefix(e.XML, "@"))
		case "element":
			elems = append(elems, e.XML)
			inTable[e.XML] = e
		}
	}
	if m := c03BuildActionModel(r, attrs, elems); m != nil {
		c03T4Action(r, m, tt, inTable)
	}
	c03DateLayout(r, "layout@Date", false)
	c03DateDecode(r)
}

func c03T4Action(r *core.R, m *c03ActionModel, tt *c03TableType, inTable map[string]*c03TableEntry) {
	name := m.un.Name()
	if m.aborted != "" {
		r.Unknown("explore@"+name, m.un.Decl.Pos(), "%s could not be explored completely: %s", name, m.aborted)
		return
	}
	actTI := c03XMLTypeInfo(m.actNT)
	// --- attributes of the start element
	for _, e := range tt.Entries {
		if e.Kind != "attr" {
			continue
		}
		aname := strings.TrimPrefix(e.XML, "@")
		c := "attr@" + name + " " + aname
		pos := m.un.Decl.Pos()
		if p, ok := m.AttrPos[aname]; ok {
			pos = p
		}
		got := m.AttrRead[aname]
		tagOK := false
		if f := actTI.Field(e.Field); f != nil && f.Kind == c03Attr && f.Name == aname {
			tagOK = true
		}
		switch {
		case !m.AttrSeen[aname]:
			r.Bad(c, pos, "UnmarshalXML never ranges over the attributes of the start element it is handed: %s.%s stays empty for every <action %s=...>", tt.Go, e.Field, aname)
		case got == "":
			r.Bad(c, pos, "for an attribute named %q of the start element, no field of the action receives the attribute's Value: %s.%s stays empty for every <action %s=...>", aname, tt.Go, e.Field, aname)
		case strings.HasPrefix(got, "?"):
			r.Bad(c, pos, "the Value of attribute %q reaches %s.%s only on some paths", aname, tt.Go, strings.TrimPrefix(got, "?"))
		case got != e.Field:
			r.Bad(c, pos, "the Value of attribute %q is stored into %s.%s; the augmented-diff format puts it into %s.%s", aname, tt.Go, got, tt.Go, e.Field)
		case !tagOK:
			r.Bad(c, pos, "%s.%s is not tagged `%s,attr`: the tag (used by nothing else but documentation and C04's symmetry rule) disagrees with the decoder", tt.Go, e.Field, aname)
		default:
			r.OK(c, pos, "the Value of attribute %q of the start element is stored into %s.%s (tagged `%s,attr`)", aname, tt.Go, e.Field, aname)
		}
	}
	// --- child elements
	for _, l := range m.Labels {
		rd := m.Elems[l]
		if rd == nil {
			continue
		}
		c := fmt.Sprintf("case %q@%s", l, name)
		switch e := inTable[l]; {
		case rd.Why != "":
			r.Bad(c, rd.Pos, "%s", rd.Why)
			continue
		case e != nil && e.Field != rd.GoPath:
			r.Bad(c, rd.Pos, "<%s> inside <action> is stored into Action.%s; the augmented-diff format puts it into Action.%s", l, rd.GoPath, e.Field)
			continue
		}
		r.OK(c, rd.Pos, "<%s> is decoded into a fresh object that Action.%s holds at the end of the iteration; its tag/element type is %q", l, rd.GoPath, l)
		cc := fmt.Sprintf("decode@%s case %q", name, l)
		if rd.Start == "" {
			r.OK(cc, rd.Pos, "`%s` decodes the element whose start tag was read in this iteration", src(r.P.Fset, rd.Call.Call))
		} else {
			r.Bad(cc, rd.Pos, "`%s`: %s", src(r.P.Fset, rd.Call.Call), rd.Start)
		}
	}
	var missing []string
	for l := range inTable {
		if m.Elems[l] == nil {
			missing = append(missing, l)
		}
	}
	sort.Strings(missing)
	for _, l := range missing {
		r.Bad(fmt.Sprintf("case %q@%s", l, name), m.un.Decl.Pos(), "Action.UnmarshalXML decodes nothing for a child element named %q: <%s> children of an augmented-diff <action> (%s) are silently dropped", l, l, tt.Doc)
	}
}

// c03DateObs is what Date's XML methods do, observed on their paths.
type c03DateObs struct {
	un, ma   *FuncInfo
	parse    []*c03Event // time.Parse / ParseInLocation calls of UnmarshalXML
	format   []*c03Event // (time.Time).Format calls of MarshalXML
	decode   []*c03Event // DecodeElement calls of UnmarshalXML
	encode   []*c03Event // Encode / EncodeElement calls of MarshalXML
	unParams [2]*types.Var
	aborted  string
	manual   []*c03Event // Token / Skip calls of UnmarshalXML: the text is collected by hand
}

func c03ObserveDate(r *core.R) *c03DateObs {
	pk := c03OsmPkg(r.P)
	dateNT, _ := structType(pk, "Date")
	if dateNT == nil {
		r.Anchor("type osm.Date")
		return nil
	}
	o := &c03DateObs{un: c03FuncInfoOf(r.P, c03Method(dateNT, "UnmarshalXML")), ma: c03FuncInfoOf(r.P, c03Method(dateNT, "MarshalXML"))}
	if o.un == nil || o.ma == nil {
		r.Anchor("osm.Date MarshalXML/UnmarshalXML")
		return nil
	}
	if sig := o.un.Obj.Type().(*types.Signature); sig.Params().Len() == 2 {
		o.unParams = [2]*types.Var{sig.Params().At(0), sig.Params().At(1)}
	}
	collect := func(fi *FuncInfo, keep func(e *c03Event) *[]*c03Event) {
		x := &c03Interp{P: r.P}
		seen := map[*ast.CallExpr]bool{}
		paths := x.Run(fi, nil)
		c03DumpPaths(r.P, fi, "date", paths)
		if x.Aborted != "" {
			o.aborted = fi.Name() + ": " + x.Aborted
		}
		for _, pa := range paths {
			for i := range pa.St.Trace {
				e := &pa.St.Trace[i]
				if e.Kind != "call" || seen[e.Call] {
					continue
				}
				if dst := keep(e); dst != nil {
					seen[e.Call] = true
					*dst = append(*dst, e)
				}
			}
		}
	}
	collect(o.un, func(e *c03Event) *[]*c03Event {
		switch {
		case isPkgFunc(e.Fn, "time", "Parse"), isPkgFunc(e.Fn, "time", "ParseInLocation"):
			return &o.parse
		case c03IsDecoderCall(e, "DecodeElement"), c03IsDecoderCall(e, "Decode"):
			return &o.decode
		case c03IsDecoderCall(e, "Skip"), c03IsDecoderCall(e, "Token"), c03IsDecoderCall(e, "RawToken"):
			return &o.manual
		}
		return nil
	})
	collect(o.ma, func(e *c03Event) *[]*c03Event {
		switch {
		case isMethod(e.Fn, "time.Time", "Format"):
			return &o.format
		case isMethod(e.Fn, "encoding/xml.Encoder", "EncodeElement"), isMethod(e.Fn, "encoding/xml.Encoder", "Encode"):
			return &o.encode
		}
		return nil
	})
	return o
}

// c03DateLayout checks that Date.UnmarshalXML parses with the layout Date.MarshalXML formats with
// (shared by C03.T4 and C04.X5). The layouts are the values that reach time.Parse / Time.Format on the explored
// paths, whatever constant, local or helper they travel through.
func c03DateLayout(r *core.R, construct string, needFraction bool) {
	o := c03ObserveDate(r)
	if o == nil {
		return
	}
	switch {
	case o.aborted != "":
		r.Unknown(construct, o.un.Decl.Pos(), "Date's XML methods could not be explored completely: %s", o.aborted)
		return
	case len(o.parse) != 1 || len(o.format) != 1:
		r.Unknown(construct, o.un.Decl.Pos(), "expected one time.Parse in Date.UnmarshalXML and one Format in Date.MarshalXML, found %d and %d", len(o.parse), len(o.format))
		return
	}
	pl, fl := o.parse[0].Args[0], o.format[0].Args[0]
	switch {
	case pl.K != c03KStr || fl.K != c03KStr:
		r.Unknown(construct, o.parse[0].Node.Pos(), "layout is not a constant (%s / %s)", src(r.P.Fset, o.parse[0].Call.Args[0]), src(r.P.Fset, o.format[0].Call.Args[0]))
	case !c04LayoutReadBy(fl.Str, pl.Str):
		r.Bad(construct, o.parse[0].Node.Pos(), "Date.UnmarshalXML parses with layout %q (%s) but Date.MarshalXML formats with %q (%s): a written note date is not read back (time.Parse accepts a fractional-seconds field the layout does not name only right after the seconds; everything else has to agree)", pl.Str, src(r.P.Fset, o.parse[0].Call.Args[0]), fl.Str, src(r.P.Fset, o.format[0].Call.Args[0]))
	case needFraction && !c04LayoutKeepsFraction(fl.Str):
		r.Bad(construct, o.format[0].Node.Pos(), "Date.MarshalXML formats with layout %q (%s), which has no nanosecond fractional-seconds field after the seconds: the sub-second part of a Date is dropped on marshalling although Date.UnmarshalXML (time.Parse with %q) reads a fraction back", fl.Str, src(r.P.Fset, o.format[0].Call.Args[0]), pl.Str)
	case pl.Str != fl.Str:
		r.OK(construct, o.parse[0].Node.Pos(), "formatted with %q, parsed with %q: time.Parse reads the fractional seconds that follow the seconds field although its layout does not name them", fl.Str, pl.Str)
	default:
		r.OK(construct, o.parse[0].Node.Pos(), "parsed and formatted with the same layout %q", pl.Str)
	}
}

// c03DateDecode: Date.UnmarshalXML decodes the element it was handed, on the decoder it was handed, and parses the
// text it decoded.
func c03DateDecode(r *core.R) {
	o := c03ObserveDate(r)
	if o == nil {
		return
	}
	c := "decode@(*Date).UnmarshalXML"
	if o.aborted != "" {
		r.Unknown(c, o.un.Decl.Pos(), "Date's XML methods could not be explored completely: %s", o.aborted)
		return
	}
	hasSkip := false
	for _, e := range o.manual {
		if c03IsDecoderCall(e, "Skip") {
			hasSkip = true
		}
	}
	if len(o.decode) == 0 && len(o.manual) > 0 && !hasSkip {
		r.Unknown(c, o.manual[0].Node.Pos(), "Date.UnmarshalXML collects the element's text by reading tokens itself (`%s`) instead of through DecodeElement: whether every CharData token up to the end element is accumulated (text interrupted by comments / CDATA arrives in several tokens) is not decided by this rule", src(r.P.Fset, o.manual[0].Call))
		return
	}
	if len(o.decode) == 0 && len(o.manual) > 0 {
		r.Bad(c, o.manual[0].Node.Pos(), "Date.UnmarshalXML no longer lets DecodeElement collect the element's text but reads tokens by hand and skips the rest of the element (`%s` ... Skip): encoding/xml delivers the text of an element as several CharData tokens when it is interrupted by a comment, a processing instruction or a CDATA section (and a Comment token first when one precedes the text), and Skip drops whatever follows the token read, so well-formed dates are misread while a tag-driven decode of the same text accepts them", src(r.P.Fset, o.manual[0].Call))
		return
	}
	if len(o.decode) != 1 || o.unParams[0] == nil {
		r.Unknown(c, o.un.Decl.Pos(), "expected one DecodeElement(&text, &start), found %d", len(o.decode))
		return
	}
	dc := o.decode[0]
	okRecv := dc.Recv.IsInit("param") && dc.Recv.Root.Obj == o.unParams[0] && len(dc.Recv.Path) == 0
	okStart := false
	if len(dc.Args) == 2 && dc.Args[1].K == c03KAddr {
		if d := dc.Deref[1]; d != nil && d.IsInit("param") && d.Root.Obj == o.unParams[1] && len(d.Path) == 0 {
			okStart = true
		}
	}
	okText := true
	if len(o.parse) == 1 {
		txt := o.parse[0].Args[len(o.parse[0].Args)-1]
		if isPkgFunc(o.parse[0].Fn, "time", "ParseInLocation") && len(o.parse[0].Args) == 3 {
			txt = o.parse[0].Args[1]
		}
		okText = txt.Call == dc.Call
	}
	switch {
	case !okRecv || !okStart:
		r.Bad(c, dc.Node.Pos(), "`%s` does not decode the start element handed to UnmarshalXML on the decoder handed to it", src(r.P.Fset, dc.Call))
	case !okText:
		r.Bad(c, o.parse[0].Node.Pos(), "`%s` does not parse the text that `%s` decoded", src(r.P.Fset, o.parse[0].Call), src(r.P.Fset, dc.Call))
	default:
		r.OK(c, dc.Node.Pos(), "decodes the text of the element it was handed (`%s`) and parses that text", src(r.P.Fset, dc.Call))
	}
}
