package rules

import (
	"fmt"
	"go/ast"
	"go/token"
	"go/types"
	"strings"

	"osmcheck/core"
)

// Unexported identifiers the C03 rules are keyed on (class 3 anchors): none. The scanner is found as
// osmxml.(*Scanner).Scan, the custom decoders through the method sets of osm.Action and osm.Date.

func init() {
	register(&core.Property{
		ID:    "C03",
		Title: "OSM XML decoding is faithful; streaming scan equals whole-document decode",
		Explanation: "Structural necessary conditions on the naming layer, which is the entire decoding mechanism of this library: " +
			"(T1) every element/attribute name of the external OSM XML table (tables/osmxml.json: OSM XML, API v0.6, osmChange, augmented diff) is claimed, with the right kind (attribute / structured element / character data, a>b paths resolved), by the tag of the exported Go field the table names, and no struct has tags encoding/xml rejects; " +
			"(T2) the streaming scanner's switch dispatches on exactly the element names osm.OSM's element fields carry, each case decoding into the field's own element type (whose XMLName, when declared, is that name) and yielding the decoded object; osmChange blocks are *OSM fields decoded by tags alone, so a repeated block is decoded into the same struct and its slice fields accumulate; " +
			"(T3) the scanner walks into every other element (default branch and non-start tokens continue the token loop, Decoder.Skip is never called) and every DecodeElement receives the start element read in the same iteration; " +
			"(T4) Action.UnmarshalXML reads `type` from the attribute list and has a well-formed case for old, new, node, way, relation; Date parses with the layout constant it formats with. " +
			"NOT decided: everything encoding/xml itself does (attribute order, whitespace, comments, entities, self-closing tags, unknown names are its documented behaviour), equality of decoded values, and names outside the table (library extensions are covered by C04's symmetry rules only).",
		Assumptions: []string{"go/types (x/tools v0.29.0)", "documented naming rules of encoding/xml (struct tags, XMLName, slices append per occurrence, a nil pointer field is allocated once and reused)", "tables/osmxml.json transcribes the OSM documentation correctly"},
		LevelText:   "Structural necessary conditions: struct tags agree with the externally specified OSM XML names for every table entry; the streaming scanner's dispatch table agrees with the container's tags in both directions and never skips content; custom decoders handle the documented names. Value equality and encoding/xml's own behaviour are not decided.",
		LevelNote:   "Trusts the type checker and the documented naming rules of encoding/xml, re-implemented in rules/c03_xmlmodel.go; the table is the external specification.",
		Technique:   "type-resolved struct-tag model of encoding/xml checked against an external name table; AST/type-resolved dispatch-table agreement for the scanner and custom decoders",
		DesignRef:   "DESIGN.md §5 C03, §3.3, Appendix C",
		Rules: []*core.Rule{
			{ID: "T1", Floor: 140, Doc: "schema table <-> struct tags (names, kinds, Go fields, XMLName, well-formed tags)", Run: c03T1},
			{ID: "T2", Floor: 25, Doc: "scanner cases <-> osm.OSM element fields (both directions); osmChange containers accumulate", Run: c03T2},
			{ID: "T3", Floor: 11, Doc: "scanner walks into wrappers: default/non-start continue, no Skip, DecodeElement gets the element just read", Run: c03T3},
			{ID: "T4", Floor: 13, Doc: "custom decoders: Action.UnmarshalXML cases and type attribute; Date layout", Run: c03T4},
		},
		Mutants: []core.Mutant{
			{Name: "waynode-latlon-swapped", File: "way.go", Find: "Lat         float64     `xml:\"lat,attr,omitempty\"`\n\tLon         float64     `xml:\"lon,attr,omitempty\"`", Replace: "Lat         float64     `xml:\"lon,attr,omitempty\"`\n\tLon         float64     `xml:\"lat,attr,omitempty\"`", ExpectRule: "T1", ExpectConstruct: "ext WayNode"},
			{Name: "node-latlon-swapped", File: "node.go", Find: "Lat         float64             `xml:\"lat,attr\" json:\"lat\"`\n\tLon         float64             `xml:\"lon,attr\" json:\"lon\"`", Replace: "Lat         float64             `xml:\"lon,attr\" json:\"lat\"`\n\tLon         float64             `xml:\"lat,attr\" json:\"lon\"`", ExpectRule: "T1", ExpectConstruct: "Node @lat"},
			{Name: "nd-ref-as-element", File: "way.go", Find: "ID NodeID `xml:\"ref,attr,omitempty\"`", Replace: "ID NodeID `xml:\"ref,omitempty\"`", ExpectRule: "T1", ExpectConstruct: "WayNode @ref"},
			{Name: "changeset-numchanges-renamed", File: "changeset.go", Find: "`xml:\"num_changes,attr,omitempty\"", Replace: "`xml:\"changes_count,attr,omitempty\"", ExpectRule: "T1", ExpectConstruct: "Changeset @num_changes"},
			{Name: "note-comments-path-flattened", File: "note.go", Find: "`xml:\"comments>comment\"", Replace: "`xml:\"comment\"", ExpectRule: "T1", ExpectConstruct: "Note comments/comment"},
			{Name: "way-xmlname-conflict", File: "way.go", Find: "xmlNameJSONTypeWay `xml:\"way\"", Replace: "xmlNameJSONTypeWay `xml:\"Way\"", ExpectRule: "T1", ExpectConstruct: "xmlname@Way"},
			{Name: "scanner-relation-into-way", File: "osmxml/scanner.go", Find: "relation := &osm.Relation{}", Replace: "relation := &osm.Way{}", ExpectRule: "T2", ExpectConstruct: "case \"relation\""},
			{Name: "scanner-no-note", File: "osmxml/scanner.go", Find: "\t\tcase \"note\":\n\t\t\tn := &osm.Note{}\n\t\t\terr = s.decoder.DecodeElement(&n, &se)\n\t\t\ts.next = n\n", Replace: "", ExpectRule: "T2", ExpectConstruct: "field OSM.Notes"},
			{Name: "scanner-yields-stale", File: "osmxml/scanner.go", Find: "\t\t\ts.next = way\n", Replace: "", ExpectRule: "T2", ExpectConstruct: "case \"way\""},
			{Name: "change-modify-tag-capitalised", File: "change.go", Find: "Modify *OSM `xml:\"modify\"", Replace: "Modify *OSM `xml:\"Modify\"", ExpectRule: "T2", ExpectConstruct: "container@Change.Modify"},
			{Name: "scanner-skips-wrappers", File: "osmxml/scanner.go", Find: "\t\tdefault:\n\t\t\tcontinue Loop", Replace: "\t\tdefault:\n\t\t\ts.decoder.Skip()\n\t\t\tcontinue Loop", ExpectRule: "T3", ExpectConstruct: "skip@"},
			{Name: "scanner-default-falls-through", File: "osmxml/scanner.go", Find: "\t\tdefault:\n\t\t\tcontinue Loop", Replace: "\t\tdefault:\n\t\t\tif se.Name.Local != \"osm\" {\n\t\t\t\tcontinue Loop\n\t\t\t}", ExpectRule: "T3", ExpectConstruct: "default@"},
			{Name: "scanner-stops-on-chardata", File: "osmxml/scanner.go", Find: "\t\tif !ok {\n\t\t\tcontinue\n\t\t}", Replace: "\t\tif !ok {\n\t\t\treturn false\n\t\t}", ExpectRule: "T3", ExpectConstruct: "nonstart@"},
			{Name: "scanner-decode-without-start", File: "osmxml/scanner.go", Find: "err = s.decoder.DecodeElement(&node, &se)", Replace: "err = s.decoder.DecodeElement(&node, nil)", ExpectRule: "T3", ExpectConstruct: "case \"node\""},
			{Name: "action-old-into-new", File: "diff.go", Find: "\t\tcase \"old\":\n\t\t\ta.Old = &OSM{}\n\t\t\tif err := d.DecodeElement(a.Old, &start); err != nil {", Replace: "\t\tcase \"old\":\n\t\t\ta.New = &OSM{}\n\t\t\tif err := d.DecodeElement(a.New, &start); err != nil {", ExpectRule: "T4", ExpectConstruct: "case \"old\""},
			{Name: "action-no-relation", File: "diff.go", Find: "\t\tcase \"relation\":\n\t\t\tr := &Relation{}\n\t\t\tif err := d.DecodeElement(&r, &start); err != nil {\n\t\t\t\treturn err\n\t\t\t}\n\t\t\ta.OSM = &OSM{Relations: Relations{r}}\n", Replace: "", ExpectRule: "T4", ExpectConstruct: "relation"},
			{Name: "action-type-wrong-attr", File: "diff.go", Find: "if attr.Name.Local == \"type\" {", Replace: "if attr.Name.Local == \"action\" {", ExpectRule: "T4", ExpectConstruct: "attr@"},
			{Name: "date-parse-other-layout", File: "note.go", Find: "d.Time, err = time.Parse(dateLayout, s)", Replace: "d.Time, err = time.Parse(time.RFC3339, s)", ExpectRule: "T4", ExpectConstruct: "layout@Date"},
		},
	})
}

// ---- T1 --------------------------------------------------------------------------------------

func c03T1(r *core.R) {
	c03Init(r)
	tbl, err := c03LoadTable()
	if err != nil {
		r.Anchor("tables/osmxml.json: " + err.Error())
		return
	}
	pk := c03OsmPkg(r.P)
	ntypes := 0
	for i := range tbl.Types {
		tt := &tbl.Types[i]
		nt, _ := structType(pk, tt.Go)
		if nt == nil {
			r.Anchor("type osm." + tt.Go + " (named in tables/osmxml.json)")
			continue
		}
		if tt.Custom {
			continue // checked by T4 against the hand-written decoder
		}
		ntypes++
		ti := c03XMLTypeInfo(nt)
		pos := nt.Obj().Pos()
		if len(ti.Errs) > 0 {
			r.Bad("tags@"+tt.Go, pos, "encoding/xml rejects the tags of %s (every Marshal/Unmarshal of it fails): %s", tt.Go, strings.Join(ti.Errs, "; "))
		} else {
			r.OK("tags@"+tt.Go, pos, "%d tagged field(s), no tag conflict", len(ti.Fields))
		}
		if ti.XMLName != nil {
			c := "xmlname@" + tt.Go
			if ti.XMLName.Name == tt.Element {
				r.OK(c, ti.XMLName.Var.Pos(), "XMLName tag %q is the documented element name", ti.XMLName.Name)
			} else {
				r.Bad(c, ti.XMLName.Var.Pos(), "%s.XMLName is tagged %q but the element is <%s> (%s): the decoder rejects <%s> with \"expected element type <%s>\"", tt.Go, ti.XMLName.Name, tt.Element, tt.Doc, tt.Element, ti.XMLName.Name)
			}
		}
		for _, e := range tt.Entries {
			c := "ext " + tt.Go + " " + e.XML
			res := c03ResolveXMLPath(nt, e.XML)
			if res.Err != "" {
				r.Bad(c, pos, "%s %q of <%s> (%s) is not decoded: %s; the table expects Go field %s.%s", e.Kind, e.XML, tt.Element, tt.Doc, res.Err, tt.Go, e.Field)
				continue
			}
			fpos := res.Leaf.Var.Pos()
			if res.GoPath != e.Field {
				r.Bad(c, fpos, "%s %q of <%s> is decoded into %s.%s, the documented meaning belongs to %s.%s", e.Kind, e.XML, tt.Element, tt.Go, res.GoPath, tt.Go, e.Field)
				continue
			}
			lt := c03ElemType(res.Leaf.Var.Type())
			text := c03TextLike(r.P, lt)
			switch e.Kind {
			case "attr":
				if !text {
					r.Bad(c, fpos, "attribute %q is tagged onto %s.%s of type %s, which cannot hold an attribute value", e.XML, tt.Go, res.GoPath, c03Short(lt))
					continue
				}
			case "chardata":
				if !text {
					r.Bad(c, fpos, "the text of <%s> is tagged onto %s.%s of type %s, which is not a text-valued type", e.XML, tt.Go, res.GoPath, c03Short(lt))
					continue
				}
			case "element":
				if _, isStruct := lt.Underlying().(*types.Struct); !isStruct {
					r.Bad(c, fpos, "structured element <%s> is tagged onto %s.%s of type %s, which is not a struct", e.XML, tt.Go, res.GoPath, c03Short(lt))
					continue
				}
			default:
				r.Anchor("tables/osmxml.json: unknown kind " + e.Kind)
				continue
			}
			r.OK(c, fpos, "%s %q -> %s.%s (%s), tag `%s`", e.Kind, e.XML, tt.Go, res.GoPath, c03Short(res.Leaf.Var.Type()), c03TagOf(res.Leaf))
		}
	}
	r.Stat("xml_table_types", ntypes)
}

func c03TagOf(f *c03Field) string {
	s := f.Path()
	if f.Kind != c03Elem {
		s += "," + f.Kind
	}
	if f.OmitEmpty {
		s += ",omitempty"
	}
	return strings.ReplaceAll(s, "/", ">")
}

// ---- decode-call helpers -----------------------------------------------------------------------

// c03DecodeCall is one (*xml.Decoder).DecodeElement(v, start) call.
type c03DecodeCall struct {
	Call   *ast.CallExpr
	Target ast.Expr     // first argument with a leading & removed
	TObj   types.Object // root variable of the target
	Start  ast.Expr     // second argument with a leading & removed (nil for a nil/non-address argument)
	Recv   ast.Expr     // the decoder expression
}

func c03DecodeCalls(info *types.Info, n ast.Node) []c03DecodeCall {
	var out []c03DecodeCall
	ast.Inspect(n, func(x ast.Node) bool {
		call, ok := x.(*ast.CallExpr)
		if !ok || len(call.Args) != 2 || !isMethod(callee(info, call), "encoding/xml.Decoder", "DecodeElement") {
			return true
		}
		dc := c03DecodeCall{Call: call}
		t := ast.Unparen(call.Args[0])
		if ue, ok := t.(*ast.UnaryExpr); ok && ue.Op == token.AND {
			t = ast.Unparen(ue.X)
		}
		dc.Target, dc.TObj = t, rootObj(info, t)
		if ue, ok := ast.Unparen(call.Args[1]).(*ast.UnaryExpr); ok && ue.Op == token.AND {
			dc.Start = ast.Unparen(ue.X)
		}
		if sel, ok := ast.Unparen(call.Fun).(*ast.SelectorExpr); ok {
			dc.Recv = sel.X
		}
		out = append(out, dc)
		return true
	})
	return out
}

// c03TokenLoop describes the `for { tok, err := d.Token(); ...; se, ok := tok.(xml.StartElement) ... }` idiom.
type c03TokenLoop struct {
	For      *ast.ForStmt
	Label    string
	TokCall  *ast.CallExpr
	Decoder  ast.Expr
	TokVar   types.Object
	StartVar types.Object // variable bound by tok.(xml.StartElement)
	OkVar    types.Object
	Assert   *ast.AssignStmt
}

// c03FindTokenLoop finds the token loop of fi.
func c03FindTokenLoop(r *core.R, fi *FuncInfo) *c03TokenLoop {
	info := fi.Pkg.TypesInfo
	par := parentsOf(r.P, fi)
	var tl *c03TokenLoop
	ast.Inspect(fi.Decl.Body, func(n ast.Node) bool {
		fs, ok := n.(*ast.ForStmt)
		if !ok || tl != nil {
			return true
		}
		cand := &c03TokenLoop{For: fs}
		if ls, ok := par[fs].(*ast.LabeledStmt); ok {
			cand.Label = ls.Label.Name
		}
		for _, st := range fs.Body.List {
			as, ok := st.(*ast.AssignStmt)
			if !ok || len(as.Rhs) != 1 {
				continue
			}
			switch rhs := ast.Unparen(as.Rhs[0]).(type) {
			case *ast.CallExpr:
				if isMethod(callee(info, rhs), "encoding/xml.Decoder", "Token") && len(as.Lhs) == 2 {
					cand.TokCall, cand.TokVar = rhs, objOf(info, as.Lhs[0])
					if sel, ok := ast.Unparen(rhs.Fun).(*ast.SelectorExpr); ok {
						cand.Decoder = sel.X
					}
				}
			case *ast.TypeAssertExpr:
				if cand.TokVar != nil && objOf(info, rhs.X) == cand.TokVar && namedPath(info.TypeOf(rhs.Type)) == "encoding/xml.StartElement" && len(as.Lhs) == 2 {
					cand.StartVar, cand.OkVar, cand.Assert = objOf(info, as.Lhs[0]), objOf(info, as.Lhs[1]), as
				}
			}
		}
		if cand.TokCall != nil && cand.StartVar != nil {
			tl = cand
		}
		return true
	})
	return tl
}

// c03StartJustRead reports whether a DecodeElement call decodes with the start element bound in the same
// iteration of the token loop, through the same decoder.
func c03StartJustRead(info *types.Info, tl *c03TokenLoop, dc c03DecodeCall) (bool, string) {
	if dc.Start == nil {
		return false, "the start argument is not the address of the start element just read (with a nil start DecodeElement reads the *next* start element from the stream, i.e. a child or a sibling)"
	}
	if objOf(info, dc.Start) != tl.StartVar {
		return false, "the start argument is not the element bound from the token read in this iteration"
	}
	if dc.Recv == nil || tl.Decoder == nil || !sameExpr(info, dc.Recv, tl.Decoder) {
		return false, "DecodeElement is called on a different decoder than the one the token was read from"
	}
	if dc.Call.Pos() < tl.Assert.End() || dc.Call.End() > tl.For.End() {
		return false, "DecodeElement is outside the iteration that read the token"
	}
	return true, ""
}

// c03SwitchOnStartName reports whether the switch tag is X.Name.Local of the start variable, possibly under strings.ToLower.
func c03SwitchOnStartName(info *types.Info, tag ast.Expr, startVar types.Object) (ok bool, lowered bool) {
	tag = ast.Unparen(tag)
	if call, isCall := tag.(*ast.CallExpr); isCall && len(call.Args) == 1 && isPkgFunc(callee(info, call), "strings", "ToLower") {
		lowered = true
		tag = ast.Unparen(call.Args[0])
	}
	if rootObj(info, tag) == startVar && c03SelPath(tag) == "Name.Local" {
		return true, lowered
	}
	return false, lowered
}

// ---- T2 --------------------------------------------------------------------------------------

// c03ScanSwitch locates the dispatch switch of osmxml.(*Scanner).Scan.
func c03ScanSwitch(r *core.R) (*FuncInfo, *c03TokenLoop, *c03Switch) {
	fi := findFunc(r.P.Pkg("osmxml"), "(*Scanner).Scan")
	if fi == nil {
		r.Anchor("osmxml.(*Scanner).Scan")
		return nil, nil, nil
	}
	tl := c03FindTokenLoop(r, fi)
	if tl == nil {
		r.Anchor("token loop `t, err := s.decoder.Token(); se, ok := t.(xml.StartElement)` in osmxml.(*Scanner).Scan")
		return fi, nil, nil
	}
	for _, sw := range c03StringSwitches(fi.Pkg.TypesInfo, tl.For.Body) {
		if ok, _ := c03SwitchOnStartName(fi.Pkg.TypesInfo, sw.Stmt.Tag, tl.StartVar); ok {
			return fi, tl, sw
		}
	}
	r.Anchor("switch on the start element's Name.Local in osmxml.(*Scanner).Scan")
	return fi, tl, nil
}

func c03T2(r *core.R) {
	c03Init(r)
	pk := c03OsmPkg(r.P)
	osmNT, _ := structType(pk, "OSM")
	if osmNT == nil {
		r.Anchor("type osm.OSM")
		return
	}
	osmTI := c03XMLTypeInfo(osmNT)
	fi, tl, sw := c03ScanSwitch(r)
	if sw != nil {
		info := fi.Pkg.TypesInfo
		_, lowered := c03SwitchOnStartName(info, sw.Stmt.Tag, tl.StartVar)
		how := "se.Name.Local"
		if lowered {
			how = "strings.ToLower(se.Name.Local) (all labels must then be lower case)"
		}
		r.OK("tag@(*Scanner).Scan", sw.Stmt.Pos(), "dispatches on %s of the start element just read", how)
		recv := c03Receiver(fi)
		seen := map[string]bool{}
		for _, cs := range sw.Cases {
			c := fmt.Sprintf("case %q@(*Scanner).Scan", cs.Label)
			seen[cs.Label] = true
			if lowered && cs.Label != strings.ToLower(cs.Label) {
				r.Bad(c, cs.Clause.Pos(), "label %q can never match the lower-cased element name", cs.Label)
				continue
			}
			f := osmTI.Lookup(false, []string{cs.Label})
			if f == nil {
				r.Bad(c, cs.Clause.Pos(), "the scanner yields objects for <%s> but no field of osm.OSM is tagged %q: whole-document decoding drops what the scanner yields", cs.Label, cs.Label)
				continue
			}
			dcs := c03DecodeCalls(info, cs.Clause)
			if len(dcs) != 1 || dcs[0].TObj == nil {
				r.Unknown(c, cs.Clause.Pos(), "expected exactly one DecodeElement(&v, &se) in the case body, found %d", len(dcs))
				continue
			}
			dc := dcs[0]
			vt := c03Deref(dc.TObj.Type())
			want := c03ElemType(f.Var.Type())
			if !types.Identical(vt, want) {
				r.Bad(c, dc.Call.Pos(), "<%s> is decoded into %s by the scanner but osm.OSM.%s (tag %q) holds %s: the two decoders yield different objects for the same element", cs.Label, c03Short(vt), f.Var.Name(), cs.Label, c03Short(want))
				continue
			}
			if ti := c03XMLTypeInfo(vt); ti != nil && ti.XMLName != nil && ti.XMLName.Name != "" && ti.XMLName.Name != cs.Label {
				r.Bad(c, dc.Call.Pos(), "%s.XMLName is %q: DecodeElement of a <%s> start element fails with \"expected element type <%s>\"", c03Short(vt), ti.XMLName.Name, cs.Label, ti.XMLName.Name)
				continue
			}
			// the decoded variable is what Object() will return
			yielded := false
			ast.Inspect(cs.Clause, func(n ast.Node) bool {
				as, ok := n.(*ast.AssignStmt)
				if !ok {
					return true
				}
				for i, l := range as.Lhs {
					if i < len(as.Rhs) && rootObj(info, l) == recv && fieldOf(info, l) != nil && objOf(info, as.Rhs[i]) == dc.TObj && as.Pos() > dc.Call.Pos() {
						yielded = true
					}
				}
				return true
			})
			if !yielded {
				r.Bad(c, cs.Clause.Pos(), "the decoded %s is not stored into the scanner after DecodeElement: Object() returns nil/a stale object for <%s>", dc.TObj.Name(), cs.Label)
				continue
			}
			r.OK(c, dc.Call.Pos(), "decodes into %s = element type of osm.OSM.%s (tag %q) and yields it", c03Short(dc.TObj.Type()), f.Var.Name(), cs.Label)
		}
		for _, f := range osmTI.Fields {
			if f.Kind != c03Elem {
				continue
			}
			c := "field OSM." + f.Var.Name() + "@(*Scanner).Scan"
			if seen[f.Name] && len(f.Parents) == 0 {
				r.OK(c, f.Var.Pos(), "element <%s> has a scanner case", f.Name)
			} else {
				r.Bad(c, f.Var.Pos(), "osm.OSM.%s decodes <%s> but the scanner has no case %q: the streaming scan silently drops these objects (it walks into them as if they were wrappers)", f.Var.Name(), f.Path(), f.Name)
			}
		}
	}

	// osmChange containers
	tbl, err := c03LoadTable()
	if err != nil {
		r.Anchor("tables/osmxml.json: " + err.Error())
		return
	}
	chNT, _ := structType(pk, "Change")
	if chNT == nil {
		r.Anchor("type osm.Change")
		return
	}
	custom := []string{}
	for _, nt := range []*types.Named{chNT, osmNT} {
		if c03Implements(r.P, nt, "encoding/xml", "Unmarshaler") != "" {
			custom = append(custom, nt.Obj().Name())
		}
	}
	if len(custom) > 0 {
		r.Unknown("tags-only@Change,OSM", chNT.Obj().Pos(), "%s now has a hand-written UnmarshalXML: how repeated create/modify/delete blocks are merged is no longer decided by the tags and is not analysed", strings.Join(custom, ", "))
	} else {
		r.OK("tags-only@Change,OSM", chNT.Obj().Pos(), "neither osm.Change nor osm.OSM has UnmarshalXML: repetition is handled by encoding/xml's field rules alone")
	}
	if tt := tbl.Type("Change"); tt != nil {
		for _, e := range tt.Entries {
			if e.Kind != "element" {
				continue
			}
			c := "container@Change." + e.Field
			res := c03ResolveXMLPath(chNT, e.XML)
			if res.Err != "" || res.GoPath != e.Field {
				r.Bad(c, chNT.Obj().Pos(), "no field %s tagged %q in osm.Change (%s)", e.Field, e.XML, res.Err)
				continue
			}
			ft := res.Leaf.Var.Type()
			inner := c03ElemType(ft)
			if !types.Identical(inner, osmNT) {
				r.Bad(c, res.Leaf.Var.Pos(), "<%s> block is decoded into %s, not into an osm.OSM body", e.XML, c03Short(ft))
				continue
			}
			switch ft.Underlying().(type) {
			case *types.Pointer, *types.Struct:
				r.OK(c, res.Leaf.Var.Pos(), "%s: a repeated <%s> block is decoded into the same OSM value (nil pointer allocated once, then reused), so its slice fields accumulate across blocks", c03Short(ft), e.XML)
			case *types.Slice:
				r.OK(c, res.Leaf.Var.Pos(), "%s: every <%s> block is appended", c03Short(ft), e.XML)
			default:
				r.Unknown(c, res.Leaf.Var.Pos(), "unexpected container type %s", c03Short(ft))
			}
		}
	} else {
		r.Anchor("tables/osmxml.json: type Change")
	}
	if tt := tbl.Type("OSM"); tt != nil {
		for _, e := range tt.Entries {
			if e.Kind != "element" || e.XML == "bounds" {
				continue // bounds occurs once per body
			}
			c := "accumulate@OSM." + e.Field
			f := osmTI.Field(e.Field)
			if f == nil {
				r.Bad(c, osmNT.Obj().Pos(), "osm.OSM has no XML field %s", e.Field)
				continue
			}
			if _, ok := f.Var.Type().Underlying().(*types.Slice); ok {
				r.OK(c, f.Var.Pos(), "%s is a slice: encoding/xml appends one item per <%s>, across repeated blocks too", c03Short(f.Var.Type()), e.XML)
			} else {
				r.Bad(c, f.Var.Pos(), "osm.OSM.%s has type %s: only the last <%s> of a document (or of repeated osmChange blocks) survives decoding", e.Field, c03Short(f.Var.Type()), e.XML)
			}
		}
	}
}

// ---- T3 --------------------------------------------------------------------------------------

// c03ContinuesLoop: the statement list is exactly `continue` / `continue Label` of the token loop.
func c03ContinuesLoop(list []ast.Stmt, tl *c03TokenLoop, insideSwitch bool) bool {
	if len(list) != 1 {
		return false
	}
	bs, ok := list[0].(*ast.BranchStmt)
	if !ok || bs.Tok != token.CONTINUE {
		return false
	}
	if bs.Label != nil {
		return tl.Label != "" && bs.Label.Name == tl.Label
	}
	return true // an unlabeled continue inside a switch still continues the enclosing for
}

func c03T3(r *core.R) {
	c03Init(r)
	fi, tl, sw := c03ScanSwitch(r)
	if fi == nil || tl == nil {
		return
	}
	info := fi.Pkg.TypesInfo
	name := fi.Name()
	// the loop is unconditional and only left by return
	if tl.For.Cond == nil && tl.For.Init == nil && tl.For.Post == nil {
		r.OK("loop@"+name, tl.For.Pos(), "unconditional token loop around %s", src(r.P.Fset, tl.TokCall))
	} else {
		r.Unknown("loop@"+name, tl.For.Pos(), "token loop has a condition: %s", src(r.P.Fset, tl.For.Cond))
	}
	// non-start tokens continue
	var okIf *ast.IfStmt
	for _, st := range tl.For.Body.List {
		if ifs, ok := st.(*ast.IfStmt); ok && ifs.Pos() > tl.Assert.End() && okIf == nil {
			if ue, ok := ast.Unparen(ifs.Cond).(*ast.UnaryExpr); ok && ue.Op == token.NOT && objOf(info, ue.X) == tl.OkVar {
				okIf = ifs
			}
		}
	}
	switch {
	case okIf == nil:
		r.Unknown("nonstart@"+name, tl.Assert.Pos(), "no `if !ok {...}` after `%s`", src(r.P.Fset, tl.Assert))
	case okIf.Else == nil && c03ContinuesLoop(okIf.Body.List, tl, false):
		r.OK("nonstart@"+name, okIf.Pos(), "tokens that are not start elements (text, comments, end tags, directives) continue the token loop")
	default:
		r.Bad("nonstart@"+name, okIf.Pos(), "a token that is not a start element makes Scan do `%s` instead of continuing: whitespace or a comment before an element ends the scan, whole-document decoding ignores it", src(r.P.Fset, okIf.Body))
	}
	// default branch
	if sw != nil {
		switch {
		case sw.Default == nil:
			r.Bad("default@"+name, sw.Stmt.Pos(), "the dispatch switch has no default branch: an unknown element (osm, osmChange, create, modify, delete, action, old, new) falls through to `return true` with a nil object instead of being walked into")
		case c03ContinuesLoop(sw.Default.Body, tl, true):
			r.OK("default@"+name, sw.Default.Pos(), "unknown elements (document roots, change/diff wrappers) continue the token loop, so their children are reached")
		default:
			r.Bad("default@"+name, sw.Default.Pos(), "the default branch does `%s` instead of continuing the token loop: elements nested in <osm>/<osmChange>/<create>/... are never reached, whole-document decoding reads them", strings.TrimSpace(src(r.P.Fset, &ast.BlockStmt{List: sw.Default.Body})))
		}
	}
	// no Skip anywhere in Scan
	nskip := 0
	ast.Inspect(fi.Decl.Body, func(n ast.Node) bool {
		if call, ok := n.(*ast.CallExpr); ok && isMethod(callee(info, call), "encoding/xml.Decoder", "Skip") {
			nskip++
			r.Bad("skip@"+name, call.Pos(), "`%s`: skipping an element in the scan loop drops every object nested in it (objects inside <create>/<modify>/<delete>/<action> wrappers), whole-document decoding keeps them", src(r.P.Fset, call))
		}
		return true
	})
	if nskip == 0 {
		r.OKTrivial("skip@"+name, fi.Decl.Pos(), "no (*xml.Decoder).Skip call in Scan")
	}
	// every DecodeElement gets the start element just read
	for _, dc := range c03DecodeCalls(info, tl.For.Body) {
		label := "?"
		if sw != nil {
			for _, cs := range sw.Cases {
				if cs.Clause.Pos() <= dc.Call.Pos() && dc.Call.End() <= cs.Clause.End() {
					label = cs.Label
				}
			}
		}
		c := fmt.Sprintf("decode@%s case %q", name, label)
		if ok, why := c03StartJustRead(info, tl, dc); ok {
			r.OK(c, dc.Call.Pos(), "`%s` decodes the element whose start tag was read in this iteration", src(r.P.Fset, dc.Call))
		} else {
			r.Bad(c, dc.Call.Pos(), "`%s`: %s", src(r.P.Fset, dc.Call), why)
		}
	}
}

// ---- T4 --------------------------------------------------------------------------------------

func c03T4(r *core.R) {
	c03Init(r)
	pk := c03OsmPkg(r.P)
	info := pk.TypesInfo
	tbl, err := c03LoadTable()
	if err != nil {
		r.Anchor("tables/osmxml.json: " + err.Error())
		return
	}
	tt := tbl.Type("Action")
	actNT, _ := structType(pk, "Action")
	osmNT, _ := structType(pk, "OSM")
	fi := findFunc(pk, "(*Action).UnmarshalXML")
	if tt == nil || actNT == nil || osmNT == nil || fi == nil {
		r.Anchor("osm.(*Action).UnmarshalXML / table type Action")
	} else {
		c03T4Action(r, fi, tt, actNT, osmNT)
	}
	c03DateLayout(r, "layout@Date")
	// Date.UnmarshalXML decodes the element it was handed
	if dfi := findFunc(pk, "(*Date).UnmarshalXML"); dfi != nil {
		sig := dfi.Obj.Type().(*types.Signature)
		dcs := c03DecodeCalls(info, dfi.Decl.Body)
		switch {
		case len(dcs) != 1 || sig.Params().Len() != 2:
			r.Unknown("decode@(*Date).UnmarshalXML", dfi.Decl.Pos(), "expected one DecodeElement(&s, &start), found %d", len(dcs))
		case dcs[0].Start != nil && objOf(info, dcs[0].Start) == sig.Params().At(1) && objOf(info, dcs[0].Recv) == sig.Params().At(0):
			r.OK("decode@(*Date).UnmarshalXML", dcs[0].Call.Pos(), "decodes the text of the element it was handed (`%s`)", src(r.P.Fset, dcs[0].Call))
		default:
			r.Bad("decode@(*Date).UnmarshalXML", dcs[0].Call.Pos(), "`%s` does not decode the start element handed to UnmarshalXML", src(r.P.Fset, dcs[0].Call))
		}
	} else {
		r.Anchor("osm.(*Date).UnmarshalXML")
	}
}

func c03T4Action(r *core.R, fi *FuncInfo, tt *c03TableType, actNT, osmNT *types.Named) {
	info := fi.Pkg.TypesInfo
	name := fi.Name()
	recv := c03Receiver(fi)
	sig := fi.Obj.Type().(*types.Signature)
	actTI := c03XMLTypeInfo(actNT)
	osmTI := c03XMLTypeInfo(osmNT)

	// --- `type` from the attribute list
	for _, e := range tt.Entries {
		if e.Kind != "attr" {
			continue
		}
		aname := strings.TrimPrefix(e.XML, "@")
		c := "attr@" + name + " " + aname
		found, okAssign := false, false
		var pos token.Pos = fi.Decl.Pos()
		ast.Inspect(fi.Decl.Body, func(n ast.Node) bool {
			rs, ok := n.(*ast.RangeStmt)
			if !ok || rs.Value == nil {
				return true
			}
			// range over start.Attr of the start parameter
			if sig.Params().Len() != 2 || rootObj(info, rs.X) != sig.Params().At(1) || c03SelPath(rs.X) != "Attr" {
				return true
			}
			av := objOf(info, rs.Value)
			ast.Inspect(rs.Body, func(m ast.Node) bool {
				ifs, ok := m.(*ast.IfStmt)
				if !ok {
					return true
				}
				be, ok := ast.Unparen(ifs.Cond).(*ast.BinaryExpr)
				if !ok || be.Op != token.EQL {
					return true
				}
				x, y := be.X, be.Y
				if _, isConst := constString(info, x); isConst {
					x, y = y, x
				}
				v, isConst := constString(info, y)
				if !isConst || rootObj(info, x) != av || c03SelPath(x) != "Name.Local" {
					return true
				}
				if v != aname {
					return true
				}
				found, pos = true, ifs.Pos()
				for _, st := range ifs.Body.List {
					as, ok := st.(*ast.AssignStmt)
					if !ok || len(as.Lhs) != 1 || len(as.Rhs) != 1 {
						continue
					}
					f := fieldOf(info, as.Lhs[0])
					if f == nil || rootObj(info, as.Lhs[0]) != recv || f.Name() != e.Field {
						continue
					}
					// value derives from attr.Value of the loop variable
					uses := false
					ast.Inspect(as.Rhs[0], func(k ast.Node) bool {
						if se, ok := k.(*ast.SelectorExpr); ok && se.Sel.Name == "Value" && objOf(info, se.X) == av {
							uses = true
						}
						return true
					})
					okAssign = uses
				}
				return true
			})
			return true
		})
		tagOK := false
		if f := actTI.Field(e.Field); f != nil && f.Kind == c03Attr && f.Name == aname {
			tagOK = true
		}
		switch {
		case !found:
			r.Bad(c, pos, "UnmarshalXML never compares an attribute name of the start element with %q: %s.%s stays empty for every <action %s=...>", aname, tt.Go, e.Field, aname)
		case !okAssign:
			r.Bad(c, pos, "the %q attribute is recognised but its Value is not stored into %s.%s", aname, tt.Go, e.Field)
		case !tagOK:
			r.Bad(c, pos, "%s.%s is not tagged `%s,attr`: the tag (used by nothing else but documentation and C04's symmetry rule) disagrees with the decoder", tt.Go, e.Field, aname)
		default:
			r.OK(c, pos, "attribute %q of the start element is stored into %s.%s (tagged `%s,attr`)", aname, tt.Go, e.Field, aname)
		}
	}

	// --- element cases
	tl := c03FindTokenLoop(r, fi)
	if tl == nil {
		r.Anchor("token loop in " + name)
		return
	}
	var sw *c03Switch
	for _, s := range c03StringSwitches(info, tl.For.Body) {
		if ok, lowered := c03SwitchOnStartName(info, s.Stmt.Tag, tl.StartVar); ok && !lowered {
			sw = s
		}
	}
	if sw == nil {
		r.Anchor("switch start.Name.Local in " + name)
		return
	}
	inTable := map[string]*c03TableEntry{}
	for i := range tt.Entries {
		if tt.Entries[i].Kind == "element" {
			inTable[tt.Entries[i].XML] = &tt.Entries[i]
		}
	}
	seen := map[string]bool{}
	for _, cs := range sw.Cases {
		c := fmt.Sprintf("case %q@%s", cs.Label, name)
		seen[cs.Label] = true
		dcs := c03DecodeCalls(info, cs.Clause)
		if len(dcs) != 1 {
			r.Unknown(c, cs.Clause.Pos(), "expected exactly one DecodeElement in the case body, found %d", len(dcs))
			continue
		}
		dc := dcs[0]
		goPath, why := c03ActionCaseTarget(info, cs, dc, recv, actTI, osmTI, osmNT)
		if why != "" {
			r.Bad(c, dc.Call.Pos(), "%s", why)
			continue
		}
		if e := inTable[cs.Label]; e != nil && e.Field != goPath {
			r.Bad(c, dc.Call.Pos(), "<%s> inside <action> is stored into Action.%s; the augmented-diff format puts it into Action.%s", cs.Label, goPath, e.Field)
			continue
		}
		r.OK(c, dc.Call.Pos(), "<%s> is decoded and stored into Action.%s, whose tag/element type is %q", cs.Label, goPath, cs.Label)
		cc := fmt.Sprintf("decode@%s case %q", name, cs.Label)
		if ok, why := c03StartJustRead(info, tl, dc); ok {
			r.OK(cc, dc.Call.Pos(), "`%s` decodes the element whose start tag was read in this iteration", src(r.P.Fset, dc.Call))
		} else {
			r.Bad(cc, dc.Call.Pos(), "`%s`: %s", src(r.P.Fset, dc.Call), why)
		}
	}
	for _, l := range c03SortedKeys(func() map[string]bool {
		m := map[string]bool{}
		for k := range inTable {
			m[k] = true
		}
		return m
	}()) {
		if !seen[l] {
			r.Bad(fmt.Sprintf("case %q@%s", l, name), sw.Stmt.Pos(), "Action.UnmarshalXML has no case %q: <%s> children of an augmented-diff <action> (%s) are silently dropped", l, l, tt.Doc)
		}
	}
}

// c03ActionCaseTarget classifies one case of Action.UnmarshalXML and returns the Go path (below Action) that
// receives the decoded element. Idioms:
//
//	a.F = &OSM{}; d.DecodeElement(a.F, &start)                      -> "F"   (F tagged with the label)
//	v := &T{}; d.DecodeElement(&v, &start); a.OSM = &OSM{K: KS{v}}  -> "OSM.K" (OSM.K tagged with the label, element type T)
func c03ActionCaseTarget(info *types.Info, cs c03Case, dc c03DecodeCall, recv *types.Var, actTI, osmTI *c03Struct, osmNT *types.Named) (string, string) {
	if dc.TObj == nil {
		return "", "DecodeElement target is not a variable or a field"
	}
	if dc.TObj == recv {
		f := fieldOf(info, dc.Target)
		if f == nil {
			return "", "DecodeElement target is not a field of the receiver"
		}
		xf := actTI.FieldOf(f)
		if xf == nil || xf.Kind != c03Elem || xf.Name != cs.Label {
			got := "untagged"
			if xf != nil {
				got = "`" + c03TagOf(xf) + "`"
			}
			return "", fmt.Sprintf("<%s> is decoded into Action.%s, which is tagged %s: the hand-written decoder and the tag (and Action.MarshalXML, which writes Action.%s as <%s>) disagree", cs.Label, f.Name(), got, f.Name(), c03NameOr(xf))
		}
		if !types.Identical(c03Deref(f.Type()), osmNT) {
			return "", fmt.Sprintf("Action.%s is not an OSM body", f.Name())
		}
		// allocated before decoding
		alloc := false
		ast.Inspect(cs.Clause, func(n ast.Node) bool {
			if as, ok := n.(*ast.AssignStmt); ok && as.Pos() < dc.Call.Pos() {
				for i, l := range as.Lhs {
					if i < len(as.Rhs) && fieldOf(info, l) == f && rootObj(info, l) == recv && c03AllocType(info, as.Rhs[i]) != nil {
						alloc = true
					}
				}
			}
			return true
		})
		if !alloc {
			return "", fmt.Sprintf("Action.%s is not allocated before DecodeElement(%s, ...): decoding into a nil *OSM fails", f.Name(), c03Src(dc.Target))
		}
		return f.Name(), ""
	}
	// local variable v := &T{}
	vt := c03NewOf(info, cs.Clause, dc.TObj)
	if vt == nil {
		return "", fmt.Sprintf("%s is not allocated as &T{} in the case body", dc.TObj.Name())
	}
	if ti := c03XMLTypeInfo(vt); ti != nil && ti.XMLName != nil && ti.XMLName.Name != "" && ti.XMLName.Name != cs.Label {
		return "", fmt.Sprintf("<%s> is decoded into %s whose XMLName is %q: DecodeElement fails with \"expected element type <%s>\"", cs.Label, c03Short(vt), ti.XMLName.Name, ti.XMLName.Name)
	}
	// a.OSM = &OSM{K: KS{v}}
	var path, why string
	ast.Inspect(cs.Clause, func(n ast.Node) bool {
		as, ok := n.(*ast.AssignStmt)
		if !ok || as.Pos() < dc.Call.Pos() || len(as.Lhs) != 1 || len(as.Rhs) != 1 {
			return true
		}
		lf := fieldOf(info, as.Lhs[0])
		if lf == nil || rootObj(info, as.Lhs[0]) != recv || !types.Identical(c03Deref(lf.Type()), osmNT) {
			return true
		}
		ue, ok := ast.Unparen(as.Rhs[0]).(*ast.UnaryExpr)
		if !ok {
			return true
		}
		cl, ok := ast.Unparen(ue.X).(*ast.CompositeLit)
		if !ok {
			return true
		}
		for _, el := range cl.Elts {
			kv, ok := el.(*ast.KeyValueExpr)
			if !ok || !usesObj(info, kv.Value, dc.TObj) {
				continue
			}
			k, _ := kv.Key.(*ast.Ident)
			if k == nil {
				continue
			}
			xf := osmTI.Field(k.Name)
			switch {
			case xf == nil || xf.Kind != c03Elem:
				why = fmt.Sprintf("OSM.%s is not an element field", k.Name)
			case xf.Name != cs.Label:
				why = fmt.Sprintf("<%s> is stored into OSM.%s, which is tagged %q (and written back as <%s>)", cs.Label, k.Name, xf.Name, xf.Name)
			case !types.Identical(c03ElemType(xf.Var.Type()), c03Deref(vt)):
				why = fmt.Sprintf("<%s> is decoded into %s but OSM.%s holds %s", cs.Label, c03Short(vt), k.Name, c03Short(c03ElemType(xf.Var.Type())))
			default:
				path = lf.Name() + "." + k.Name
			}
		}
		return true
	})
	if path == "" && why == "" {
		why = fmt.Sprintf("the decoded %s is never stored into the action (expected `a.OSM = &OSM{K: ...{%s}}`)", dc.TObj.Name(), dc.TObj.Name())
	}
	if path != "" {
		why = ""
	}
	return path, why
}

func c03NameOr(f *c03Field) string {
	if f == nil {
		return "?"
	}
	return f.Name
}

// c03DateLayout checks that Date.UnmarshalXML parses with the constant Date.MarshalXML formats with
// (shared by C03.T4 and C04.X5).
func c03DateLayout(r *core.R, construct string) {
	pk := c03OsmPkg(r.P)
	info := pk.TypesInfo
	un := findFunc(pk, "(*Date).UnmarshalXML")
	ma := findFunc(pk, "Date.MarshalXML")
	if un == nil || ma == nil {
		r.Anchor("osm.Date MarshalXML/UnmarshalXML")
		return
	}
	type use struct {
		e   ast.Expr
		val string
		ok  bool
		pos token.Pos
	}
	var parse, format []use
	ast.Inspect(un.Decl.Body, func(n ast.Node) bool {
		if call, ok := n.(*ast.CallExpr); ok && len(call.Args) == 2 {
			if fn := callee(info, call); isPkgFunc(fn, "time", "Parse") || (isPkgFunc(fn, "time", "ParseInLocation")) {
				v, ok := constString(info, call.Args[0])
				parse = append(parse, use{call.Args[0], v, ok, call.Pos()})
			}
		}
		return true
	})
	ast.Inspect(ma.Decl.Body, func(n ast.Node) bool {
		if call, ok := n.(*ast.CallExpr); ok && len(call.Args) == 1 && isMethod(callee(info, call), "time.Time", "Format") {
			v, ok := constString(info, call.Args[0])
			format = append(format, use{call.Args[0], v, ok, call.Pos()})
		}
		return true
	})
	switch {
	case len(parse) != 1 || len(format) != 1:
		r.Unknown(construct, un.Decl.Pos(), "expected one time.Parse in Date.UnmarshalXML and one Format in Date.MarshalXML, found %d and %d", len(parse), len(format))
	case !parse[0].ok || !format[0].ok:
		r.Unknown(construct, parse[0].pos, "layout is not a constant (%s / %s)", src(r.P.Fset, parse[0].e), src(r.P.Fset, format[0].e))
	case parse[0].val != format[0].val:
		r.Bad(construct, parse[0].pos, "Date.UnmarshalXML parses with layout %q (%s) but Date.MarshalXML formats with %q (%s): a written note date is not read back", parse[0].val, src(r.P.Fset, parse[0].e), format[0].val, src(r.P.Fset, format[0].e))
	default:
		same := "equal constants"
		if o := objOf(info, parse[0].e); o != nil && o == objOf(info, format[0].e) {
			same = "the same constant " + o.Name()
		}
		r.OK(construct, parse[0].pos, "parsed and formatted with %s = %q", same, parse[0].val)
	}
}
