package rules

import "osmcheck/core"

// Third-round shapes: out-parameter helpers writing through **T, closures for a repeated snippet, table-driven
// dispatch through a package-level map of constructors, plain-function helpers with grouped parameters, counted
// loops. c03Benign2 must be silent; c03Mutants2 seed a defect into the same refactored shapes and must be reported.

func c03ScanClosure(relationType, extra string) string {
	return "\t\ts.next = nil\n\t\tdecode := func(o osm.Object) {\n\t\t\terr = s.decoder.DecodeElement(o, &se)\n" + extra + "\t\t\ts.next = o\n\t\t}\n\t\tswitch se.Name.Local {\n\t\tcase \"bounds\":\n\t\t\tdecode(&osm.Bounds{})\n\t\tcase \"node\":\n\t\t\tdecode(&osm.Node{})\n\t\tcase \"way\":\n\t\t\tdecode(&osm.Way{})\n\t\tcase \"relation\":\n\t\t\tdecode(&osm." + relationType + "{})\n\t\tcase \"changeset\":\n\t\t\tdecode(&osm.Changeset{})\n\t\tcase \"note\":\n\t\t\tdecode(&osm.Note{})\n\t\tcase \"user\":\n\t\t\tdecode(&osm.User{})\n" + c03ScanSwitchTail
}

const c03ScanHead = "func (s *Scanner) Scan() bool {\n\tif s.err != nil {\n\t\treturn false\n\t}\n"

const c03ScanLoopHead = "\nLoop:\n\tfor {\n\t\tif s.ctx.Err() != nil {\n\t\t\treturn false\n\t\t}\n\n\t\tt, err := s.decoder.Token()\n\t\tif err != nil {\n\t\t\ts.err = err\n\t\t\treturn false\n\t\t}\n\n\t\tse, ok := t.(xml.StartElement)\n\t\tif !ok {\n\t\t\tcontinue\n\t\t}\n\n" + c03ScanRootSeen

// c03ScanTable rewrites Scan into a table-driven dispatch: a package-level map from element name to constructor.
func c03ScanTable(relationType string) (find, replace string) {
	find = c03ScanHead + c03ScanLoopHead + c03ScanSwitch
	table := "var objectFor = map[string]func() osm.Object{\n\t\"bounds\":    func() osm.Object { return &osm.Bounds{} },\n\t\"node\":      func() osm.Object { return &osm.Node{} },\n\t\"way\":       func() osm.Object { return &osm.Way{} },\n\t\"relation\":  func() osm.Object { return &osm." + relationType + "{} },\n\t\"changeset\": func() osm.Object { return &osm.Changeset{} },\n\t\"note\":      func() osm.Object { return &osm.Note{} },\n\t\"user\":      func() osm.Object { return &osm.User{} },\n}\n\nvar containerElements = map[string]bool{\"osm\": true, \"osmChange\": true, \"create\": true, \"modify\": true, \"delete\": true, \"action\": true, \"old\": true, \"new\": true}\n\n"
	body := "\t\ts.next = nil\n\t\tnewObject, isObject := objectFor[se.Name.Local]\n\t\tif !isObject {\n\t\t\tif root || containerElements[se.Name.Local] {\n\t\t\t\tcontinue Loop\n\t\t\t}\n\t\t\tif err := s.decoder.Skip(); err != nil {\n\t\t\t\ts.err = err\n\t\t\t\treturn false\n\t\t\t}\n\t\t\tcontinue Loop\n\t\t}\n\t\tobj := newObject()\n\t\terr = s.decoder.DecodeElement(obj, &se)\n\t\ts.next = obj\n"
	return find, table + c03ScanHead + c03ScanLoopHead + body
}

var c03Benign2 = []core.Mutant{
	{Name: "action-out-parameter-helper", File: "diff.go", Find: c03ActionCases,
		Replace: c03ActionCasesOutParam + "func decodeBody(d *xml.Decoder, start *xml.StartElement, dst **OSM) error {\n\t*dst = &OSM{}\n\treturn d.DecodeElement(*dst, start)\n}\n"},
	{Name: "scan-closure-for-repeated-snippet", File: "osmxml/scanner.go", Find: c03ScanSwitch, Replace: c03ScanClosure("Relation", "")},
	{Name: "scan-plain-function-helper-grouped-params", File: "osmxml/scanner.go",
		Find:    c03ScanUserCase + c03ScanSwitchTail + c03ScanEnd,
		Replace: "\t\tcase \"user\":\n\t\t\ts.next, err = decodeUserElement(s.decoder, &se)\n" + c03ScanSwitchTail + c03ScanEnd + "\nfunc decodeUserElement(dec *xml.Decoder, start *xml.StartElement) (obj osm.Object, err error) {\n\tu := &osm.User{}\n\terr = dec.DecodeElement(&u, start)\n\tobj = u\n\treturn\n}\n"},
	{Name: "action-attr-counted-loop", File: "diff.go",
		Find:    "\tfor _, attr := range start.Attr {\n\t\tif attr.Name.Local == \"type\" {\n\t\t\ta.Type = ActionType(attr.Value)\n\t\t\tbreak\n\t\t}\n\t}\n",
		Replace: "\tfor i := 0; i < len(start.Attr); i++ {\n\t\tif start.Attr[i].Name.Local != \"type\" {\n\t\t\tcontinue\n\t\t}\n\t\ta.Type = ActionType(start.Attr[i].Value)\n\t\tbreak\n\t}\n"},
	{Name: "scan-deferred-error-store", File: "osmxml/scanner.go",
		Find:    "\t\tif err != nil {\n\t\t\ts.err = err\n\t\t\treturn false\n\t\t}\n\n\t\treturn true\n",
		Replace: "\t\tok = err == nil\n\t\tdefer func() {\n\t\t\tif !ok {\n\t\t\t\ts.err = err\n\t\t\t}\n\t\t}()\n\t\treturn ok\n"},
}

// c03Benign2List adds the table-driven dispatch variant (built from the pieces above).
func c03Benign2List() []core.Mutant {
	find, replace := c03ScanTable("Relation")
	return append(append([]core.Mutant{}, c03Benign2...), core.Mutant{Name: "scan-table-driven-dispatch", File: "osmxml/scanner.go", Find: find, Replace: replace})
}

// c03Mutants2List adds the defective table.
func c03Mutants2List() []core.Mutant {
	find, replace := c03ScanTable("Way")
	return append(append([]core.Mutant{}, c03Mutants2...), core.Mutant{Name: "table-maps-relation-to-way", File: "osmxml/scanner.go", Find: find, Replace: replace, ExpectRule: "T2", ExpectConstruct: "case \"relation\""})
}

// c03Mutants2: defects seeded into the refactored shapes.
var c03Mutants2 = []core.Mutant{
	{Name: "out-parameter-helper-forgets-to-allocate", File: "diff.go", Find: c03ActionCases,
		Replace:    c03ActionCasesOutParam + "func decodeBody(d *xml.Decoder, start *xml.StartElement, dst **OSM) error {\n\tif *dst == nil {\n\t\t*dst = &OSM{}\n\t}\n\treturn d.DecodeElement(*dst, start)\n}\n",
		ExpectRule: "T4", ExpectConstruct: "case \"old\""},
	{Name: "out-parameter-helper-writes-other-field", File: "diff.go", Find: c03ActionCases,
		Replace:    c03ActionOutParamOldWrong + c03ActionElems + "\n" + "func decodeBody(d *xml.Decoder, start *xml.StartElement, dst **OSM) error {\n\t*dst = &OSM{}\n\treturn d.DecodeElement(*dst, start)\n}\n",
		ExpectRule: "T4", ExpectConstruct: "case \"old\""},
	{Name: "closure-decodes-relation-into-way", File: "osmxml/scanner.go", Find: c03ScanSwitch, Replace: c03ScanClosure("Way", ""), ExpectRule: "T2", ExpectConstruct: "case \"relation\""},
	{Name: "closure-rewrites-decoded-object", File: "osmxml/scanner.go", Find: c03ScanSwitch,
		Replace:    c03ScanClosure("Relation", "\t\t\tif n, isNode := o.(*osm.Node); isNode {\n\t\t\t\tn.Visible = true\n\t\t\t}\n"),
		ExpectRule: "T5", ExpectConstruct: "unmodified \"node\""},
}
