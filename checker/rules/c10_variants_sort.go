package rules

import "osmcheck/core"

const (
	c10SrcElementsSort   = "func (es Elements) Sort() {\n\tsort.Sort(elementsSort(es))\n}"
	c10SrcElementIDsSort = "func (ids ElementIDs) Sort() {\n\tsort.Sort(elementIDsSort(ids))\n}"
	c10SrcFeatureIDsSort = "func (ids FeatureIDs) Sort() {\n\tsort.Sort(featureIDsSort(ids))\n}"
)

// c10MutantsSort: fast paths and shortcuts around the certified sort call that take an unsorted list for sorted
// (seeded C10-e and other spellings of the same defect).
var c10MutantsSort = []core.Mutant{
	{Name: "elements-sort-fastpath-featureid-key", File: "element.go", Find: c10SrcElementsSort,
		Replace:    "func (es Elements) Sort() {\n\tif es.inOrder() {\n\t\treturn\n\t}\n\n\tsort.Sort(elementsSort(es))\n}\n\nfunc (es Elements) inOrder() bool {\n\tfor i := 1; i < len(es); i++ {\n\t\tif es[i].FeatureID() < es[i-1].FeatureID() {\n\t\t\treturn false\n\t\t}\n\t}\n\n\treturn true\n}",
		ExpectRule: "K4", ExpectConstruct: "sorted@Elements.Sort"},
	{Name: "elements-sort-fastpath-ref-only", File: "element.go", Find: c10SrcElementsSort,
		Replace:    "func (es Elements) Sort() {\n\tsorted := true\n\tfor i := 1; i < len(es) && sorted; i++ {\n\t\tsorted = es[i-1].ElementID().Ref() <= es[i].ElementID().Ref()\n\t}\n\tif !sorted {\n\t\tsort.Sort(elementsSort(es))\n\t}\n}",
		ExpectRule: "K4", ExpectConstruct: "sorted@Elements.Sort"},
	{Name: "elementids-sort-fastpath-featureid-key", File: "element.go", Find: c10SrcElementIDsSort,
		Replace:    "func (ids ElementIDs) Sort() {\n\tfor i := 1; i < len(ids); i++ {\n\t\tif ids[i].FeatureID() < ids[i-1].FeatureID() {\n\t\t\tsort.Sort(elementIDsSort(ids))\n\t\t\treturn\n\t\t}\n\t}\n}",
		ExpectRule: "K4", ExpectConstruct: "sorted@ElementIDs.Sort"},
	{Name: "featureids-sort-skips-short-lists", File: "feature.go", Find: c10SrcFeatureIDsSort,
		Replace:    "func (ids FeatureIDs) Sort() {\n\tif len(ids) < 3 {\n\t\treturn\n\t}\n\tsort.Sort(featureIDsSort(ids))\n}",
		ExpectRule: "K4", ExpectConstruct: "sorted@FeatureIDs.Sort"},
	{Name: "elements-sort-issorted-by-feature-adapter", File: "element.go", Find: c10SrcElementsSort,
		Replace:    "func (es Elements) Sort() {\n\tif sort.IsSorted(elementsByFeature(es)) {\n\t\treturn\n\t}\n\tsort.Sort(elementsSort(es))\n}\n\ntype elementsByFeature Elements\n\nfunc (es elementsByFeature) Len() int           { return len(es) }\nfunc (es elementsByFeature) Swap(i, j int)      { es[i], es[j] = es[j], es[i] }\nfunc (es elementsByFeature) Less(i, j int) bool { return es[i].FeatureID() < es[j].FeatureID() }",
		ExpectRule: "K4", ExpectConstruct: "sorted@Elements.Sort"},
	{Name: "elements-sort-checks-first-pair-only", File: "element.go", Find: c10SrcElementsSort,
		Replace:    "func (es Elements) Sort() {\n\tif len(es) > 1 && es[0].ElementID() < es[1].ElementID() {\n\t\treturn\n\t}\n\tsort.Sort(elementsSort(es))\n}",
		ExpectRule: "K4", ExpectConstruct: "sorted@Elements.Sort"},
	{Name: "elementids-sort-panics-on-empty", File: "element.go", Find: c10SrcElementIDsSort,
		Replace:    "func (ids ElementIDs) Sort() {\n\tif ids[0] <= ids[len(ids)-1] && len(ids) == 1 {\n\t\treturn\n\t}\n\tsort.Sort(elementIDsSort(ids))\n}",
		ExpectRule: "K4", ExpectConstruct: "sorted@ElementIDs.Sort"},
}

// c10BenignSort: correct spellings of the same optimisations.
var c10BenignSort = []core.Mutant{
	{Name: "elements-sort-fastpath-elementid-key", File: "element.go", Find: c10SrcElementsSort,
		Replace: "func (es Elements) Sort() {\n\tif es.inOrder() {\n\t\treturn\n\t}\n\n\tsort.Sort(elementsSort(es))\n}\n\nfunc (es Elements) inOrder() bool {\n\tfor i := 1; i < len(es); i++ {\n\t\tif es[i].ElementID() < es[i-1].ElementID() {\n\t\t\treturn false\n\t\t}\n\t}\n\n\treturn true\n}"},
	{Name: "elements-sort-fastpath-strict-precheck", File: "element.go", Find: c10SrcElementsSort,
		Replace: "func (es Elements) Sort() {\n\tordered := true\n\tfor i := 1; i < len(es); i++ {\n\t\tif prev, cur := es[i-1].ElementID(), es[i].ElementID(); prev >= cur {\n\t\t\tordered = false\n\t\t\tbreak\n\t\t}\n\t}\n\tif ordered {\n\t\treturn\n\t}\n\tsort.Sort(elementsSort(es))\n}"},
	{Name: "featureids-sort-skips-trivial-lists", File: "feature.go", Find: c10SrcFeatureIDsSort,
		Replace: "func (ids FeatureIDs) Sort() {\n\tif len(ids) < 2 {\n\t\treturn\n\t}\n\tsort.Sort(featureIDsSort(ids))\n}"},
	{Name: "elements-sort-issorted-guard", File: "element.go", Find: c10SrcElementsSort,
		Replace: "func (es Elements) Sort() {\n\tif data := elementsSort(es); !sort.IsSorted(data) {\n\t\tsort.Sort(data)\n\t}\n}"},
	{Name: "elementids-sort-sliceissorted-guard", File: "element.go", Find: c10SrcElementIDsSort,
		Replace: "func (ids ElementIDs) Sort() {\n\tless := func(i, j int) bool { return ids[i] < ids[j] }\n\tif sort.SliceIsSorted(ids, less) {\n\t\treturn\n\t}\n\tsort.Sort(elementIDsSort(ids))\n}"},
	{Name: "elementids-sort-insertion-for-pairs", File: "element.go", Find: c10SrcElementIDsSort,
		Replace: "func (ids ElementIDs) Sort() {\n\tif len(ids) == 2 {\n\t\tif ids[1] < ids[0] {\n\t\t\tids[0], ids[1] = ids[1], ids[0]\n\t\t}\n\t\treturn\n\t}\n\tsort.Sort(elementIDsSort(ids))\n}"},
}
