package rules

// c19_complete.go — C19.M7: the search for a lower bound (the finder of c19_roles.go, run when the minimum state
// file is missing) is complete.
//
// "First state at or after t" needs the finder to end either with a state strictly before t (a lower bound) or
// with the knowledge that no state below its answer is at or after t. A probe that finds NO file says nothing
// about timestamps, so:
//   - narrow-on-missing: after a probe that found no file the cursor may move by one step only; any other
//     assignment moves it past sequence numbers that were never probed;
//   - give-up exits: a success return reached after a probe that found no file ("returns-upper": nothing lower
//     exists), or one that hands back a probed state at or after t as the first result ("returns-probed": this is
//     the answer), claims that nothing below qualifies. The claim is accepted only for an exhaustive ascending
//     scan: every write of the cursor in the loop is a +1 step and, for returns-upper, the exit is controlled by
//     the cursor having reached the upper bound.
// On the pinned tree findBound bisects on missing files, so all three obligations are violated: that is the known
// finding (correct only when the missing files form a prefix, as on the planet server).

import (
	"go/ast"
	"go/token"
	"go/types"
	"sort"

	"osmcheck/core"
)

func c19M7(r *core.R) {
	m := c19BuildModel(r)
	if m == nil {
		return
	}
	tsFld := m.timestampField()
	if tsFld == nil {
		r.Anchor("the single time.Time field of replication.State")
		return
	}
	n := 0
	for _, s := range m.searchRoles(func(fi *FuncInfo) map[ast.Node]ast.Node { return parentsOf(r.P, fi) }) {
		if s.finder == nil {
			continue
		}
		n++
		c19M7Finder(r, m, s, tsFld)
	}
	if n == 0 {
		r.Anchor("lower-bound finder: a function whose results the caller of the binary search assigns to both bound variables")
	}
}

func c19M7Finder(r *core.R, m *c19Model, s *c19Search, tsFld *types.Var) {
	info, fs := m.info, r.P.Fset
	F := s.finder
	fname := F.Name()
	cNarrow, cUpper, cProbed := "narrow-on-missing@"+fname, "give-up@"+fname+" returns-upper", "give-up@"+fname+" returns-probed"
	if s.fLoop == nil || s.fS == nil || s.fT == nil || s.fHi == nil || s.fCursor == nil {
		for _, c := range []string{cNarrow, cUpper, cProbed} {
			r.Unknown(c, F.Decl.Pos(), "%s: probing loop, probed state, cursor (the probed sequence number must be a plain variable), query time or upper-bound variable not identified", fname)
		}
		return
	}
	cur := s.fCursor
	g := m.graph(F)
	blk, idx := blockOf(g.g, s.fFetch.Pos())
	if blk == nil {
		r.Unknown(cNarrow, F.Decl.Pos(), "probe not found in the control-flow graph")
		return
	}
	// writes of the cursor inside the loop, and whether the loop is an ascending scan by one
	writesCursor := func(n ast.Node) bool {
		switch x := n.(type) {
		case *ast.AssignStmt:
			for _, l := range x.Lhs {
				if objOf(info, l) == cur {
					return true
				}
			}
		case *ast.IncDecStmt:
			return objOf(info, x.X) == cur
		}
		return false
	}
	linear, nwrites := true, 0
	ast.Inspect(s.fLoop, func(n ast.Node) bool {
		if n == nil || n == ast.Node(s.fLoop.Init) {
			return n != ast.Node(s.fLoop.Init)
		}
		if writesCursor(n) {
			nwrites++
			if st := c19StepOf(info, n); st == nil || st.v != cur || st.dir != +1 {
				linear = false
			}
		}
		return true
	})
	linear = linear && nwrites > 0

	// (a) what happens to the cursor after a probe that found no file
	missing := m.nilAtom(s.fS, true)
	var narrow []ast.Node
	var giveUp []*ast.ReturnStmt
	m.orderWalk(blk, idx, missing, nil, func(n ast.Node) bool {
		if writesCursor(n) {
			if st := c19StepOf(info, n); st == nil || st.v != cur {
				narrow = append(narrow, n)
			}
		}
		if ret, ok := n.(*ast.ReturnStmt); ok && m.okResults(F, ret) != nil {
			giveUp = append(giveUp, ret)
		}
		return !c19Overwrites(info, n, s.fS)
	}, nil)
	sort.Slice(narrow, func(i, j int) bool { return narrow[i].Pos() < narrow[j].Pos() })
	sort.Slice(giveUp, func(i, j int) bool { return giveUp[i].Pos() < giveUp[j].Pos() })
	direct := map[ast.Node]bool{}
	for _, n := range narrow {
		direct[n] = true
	}
	carried := m.staleNarrowings(s, direct)
	for _, c := range carried {
		r.Bad(cNarrow+" via "+c.carrier.Name(), c.write.Pos(), "`%s` moves the cursor %s to a value read from %s, which `%s` recorded while the probe found no file: the cursor moves past sequence numbers on the evidence of a missing file, although the write itself sits on a path where a state was found. A 404 says nothing about the files below it when it is an isolated gap: e.g. states 1000..5000 with 2500 missing and t before the gap: the restart from the recorded id skips the states below it and the lookup answers 2501 instead of 1501", src(fs, c.write), cur.Name(), c.carrier.Name(), src(fs, c.defined))
	}
	if len(narrow) == 0 && len(carried) == 0 {
		r.OK(cNarrow, s.fFetch.Pos(), "after `%s` found no file (%s == nil) the cursor %s is changed by single steps only before the next probe: no sequence number is passed over unprobed", src(fs, s.fFetch), c19AnyName(s.fS), cur.Name())
	}
	for _, n := range narrow {
		r.Bad(cNarrow, n.Pos(), "after `%s` found no file the search reaches `%s`: the cursor %s moves past sequence numbers that were never probed, although a missing file says nothing about the timestamps of its neighbours. States below the new cursor are lost: e.g. minimum state missing, states {2,4,5}, t <= time of 2: the probes are 1, 3, 4 and the lookup answers 4 instead of 2 (correct only when the missing files form a prefix of the directory)", src(fs, s.fFetch), src(fs, n), cur.Name())
	}

	// exhaustion evidence for an exit: the loop's stay condition (exit after the loop) or a controlling fact
	// (exit inside it) says the cursor has reached the upper bound
	rs := &c19Resolver{m: m, keep: map[types.Object]bool{cur: true}}
	fr := &c19Frame{fi: F}
	reachedUpper := func(ret *ast.ReturnStmt) bool {
		kc, kh := c19VarKey(cur), c19SeqKey(rs.rootVar(fr, s.fHi, 0))
		test := func(e ast.Expr, val bool) bool {
			for _, sf := range m.expandFact(fr, e, val, 0) {
				// cursor >= hi.SeqNum - 1, i.e.  hi.seq - cursor <= 1
				if q := rs.ineq(sf.fr, sf.expr, sf.val); q != nil && len(q.terms) == 2 && q.terms[kc] == -1 && q.terms[kh] == 1 && q.c <= 1 {
					return true
				}
			}
			return false
		}
		if ret.Pos() >= s.fLoop.End() {
			for _, f := range c19LoopStayFacts(s.fLoop) {
				if test(f.expr, !f.val) {
					return true
				}
			}
			return false
		}
		if b, _ := blockOf(g.g, ret.Pos()); b != nil {
			for _, f := range factsAt(info, g.g, g.dom, b) {
				if test(f.expr, f.val) {
					return true
				}
			}
		}
		return false
	}

	// (b) give-up exits after a probe that found no file
	nUpper := 0
	for _, ret := range giveUp {
		nUpper++
		what := "the upper bound"
		if res := m.okResults(F, ret); s.rLo < len(res) && objOf(info, res[s.rLo]) != s.fHi {
			what = "`" + src(fs, res[s.rLo]) + "`"
		}
		if linear && reachedUpper(ret) {
			r.OK(cUpper, ret.Pos(), "`%s` is reached after a probe found no file only when the cursor %s, which the loop moves by +1 only, has reached %s.SeqNum: every sequence number below the upper bound has been probed", src(fs, ret), cur.Name(), s.fHi.Name())
			continue
		}
		r.Bad(cUpper, ret.Pos(), "`%s` gives up with %s as the answer after a probe that found no file, without every sequence number below %s having been probed (the loop does not scan upwards by one until the cursor reaches %s.SeqNum): states below that were passed over are lost, e.g. minimum state missing, states {2,4,9,11}, t before all of them: the lookup answers 9 instead of 2", src(fs, ret), what, s.fHi.Name(), s.fHi.Name())
	}
	if nUpper == 0 {
		r.OKTrivial(cUpper, s.fLoop.Pos(), "no success return is reachable after a probe that found no file before the next probe")
	}

	// (c) answer exits: a probed state at or after t handed back as the first result
	ops := &c19TimeOps{m: m, fi: F, tVar: s.fT, sVars: s.fS, tsFld: tsFld}
	found := m.nilAtom(s.fS, false)
	seen := map[token.Pos]*ast.ReturnStmt{}
	for _, ord := range []int{0, +1} {
		m.orderWalk(blk, idx, ops.atom(ord, found), ops, func(n ast.Node) bool {
			if ret, ok := n.(*ast.ReturnStmt); ok {
				if res := m.okResults(F, ret); s.rLo < len(res) && s.fS[objOf(info, res[s.rLo])] {
					seen[ret.Pos()] = ret
				}
			}
			return !c19Overwrites(info, n, s.fS)
		}, nil)
	}
	var answers []*ast.ReturnStmt
	for _, ret := range seen {
		answers = append(answers, ret)
	}
	sort.Slice(answers, func(i, j int) bool { return answers[i].Pos() < answers[j].Pos() })
	for _, ret := range answers {
		if linear {
			r.OK(cProbed, ret.Pos(), "`%s` hands back a probed state at or after %s; the loop moves the cursor %s by +1 only, so every sequence number below that state has been probed before", src(fs, ret), s.fT.Name(), cur.Name())
			continue
		}
		r.Bad(cProbed, ret.Pos(), "`%s` hands back a probed state at or after %s as the answer (the caller returns a lower bound that is not before %s) although sequence numbers below it were never probed (the cursor %s does not scan upwards by one): a lower state at or after %s is lost, e.g. minimum state missing, states {2,4,5}, t <= time of 2: state 4 is probed, found adjacent to the upper bound 5 and returned instead of 2", src(fs, ret), s.fT.Name(), s.fT.Name(), cur.Name(), s.fT.Name())
	}
	if len(answers) == 0 {
		r.OKTrivial(cProbed, s.fLoop.Pos(), "no success return hands back a probed state at or after %s as the first result", s.fT.Name())
	}
}

func c19AnyName(set map[types.Object]bool) string {
	var ns []string
	for o := range set {
		ns = append(ns, o.Name())
	}
	sort.Strings(ns)
	if len(ns) == 0 {
		return "?"
	}
	return ns[0]
}
