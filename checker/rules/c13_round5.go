package rules

import "osmcheck/core"

// Round 5, part 1: a nil pointer of a concrete error type returned as `error` (typed nil in an interface).

const (
	c13NotFoundTailNode = "\t\tif ignoreMissing {\n\t\t\treturn nil, nil\n\t\t}\n\t\treturn nil, &NoVisibleChildError{ID: n.FeatureID()}\n"
	c13NotFoundTailWay  = "\t\tif ignoreMissing {\n\t\t\treturn nil, nil\n\t\t}\n\t\treturn nil, &NoVisibleChildError{ID: w.FeatureID()}\n"
	c13NotFoundTailRel  = "\t\tif ignoreMissing {\n\t\t\treturn nil, nil\n\t\t}\n\t\treturn nil, &NoVisibleChildError{ID: r.FeatureID()}\n"
)

var c13Mutants5 = []core.Mutant{
	{Name: "node-typed-nil-error", File: c13Chg, Find: c13NotFoundTailNode,
		Replace:    "\t\tvar missing *NoVisibleChildError\n\t\tif !ignoreMissing {\n\t\t\tmissing = &NoVisibleChildError{ID: n.FeatureID()}\n\t\t}\n\t\treturn nil, missing\n",
		ExpectRule: "S2", ExpectConstruct: "notfound@Node"},
	{Name: "way-typed-nil-error", File: c13Chg, Find: c13NotFoundTailWay,
		Replace:    "\t\tvar missing *NoVisibleChildError\n\t\tif !ignoreMissing {\n\t\t\tmissing = &NoVisibleChildError{ID: w.FeatureID()}\n\t\t}\n\t\treturn nil, missing\n",
		ExpectRule: "S2", ExpectConstruct: "notfound@Way"},
	{Name: "relation-typed-nil-error-through-error-variable", File: c13Chg, Find: c13NotFoundTailRel,
		Replace:    "\t\tvar missing *NoVisibleChildError\n\t\tif !ignoreMissing {\n\t\t\tmissing = &NoVisibleChildError{ID: r.FeatureID()}\n\t\t}\n\t\tvar err error = missing\n\t\treturn nil, err\n",
		ExpectRule: "S2", ExpectConstruct: "notfound@Relation"},
	{Name: "typed-nil-from-pointer-helper", File: c13Chg, Find: c13SrcFindRel,
		Replace: c13Sub(c13SrcFindRel, c13NotFoundTailRel, "\t\treturn nil, missingRelation(ignoreMissing, r)\n") +
			"\nfunc missingRelation(ignore bool, r *osm.Relation) *NoVisibleChildError {\n\tif ignore {\n\t\treturn nil\n\t}\n\treturn &NoVisibleChildError{ID: r.FeatureID()}\n}\n",
		ExpectRule: "S2", ExpectConstruct: "notfound@Relation"},
	{Name: "checkerr-typed-nil", File: c13Chg,
		Find:       "\t\tif ignoreMissing {\n\t\t\treturn nil\n\t\t}\n\n\t\treturn &NoVisibleChildError{ID: id}\n",
		Replace:    "\t\tvar out *NoVisibleChildError\n\t\tif !ignoreMissing {\n\t\t\tout = &NoVisibleChildError{ID: id}\n\t\t}\n\t\treturn out\n",
		ExpectRule: "S5", ExpectConstruct: "errmap@Node not-found+ignore"},
	{Name: "typed-nil-passed-as-error-argument", File: c13Chg,
		Find:       "\t\told, err := findPreviousWay(ctx, w, ds, ignoreMissing)\n\t\tif e := checkErr(ds, ignoreMissing, err, w.FeatureID()); e != nil {",
		Replace:    "\t\told, err := findPreviousWay(ctx, w, ds, ignoreMissing)\n\t\tvar none *NoHistoryError\n\t\tif err == nil {\n\t\t\terr = none\n\t\t}\n\t\tif e := checkErr(ds, ignoreMissing, err, w.FeatureID()); e != nil {",
		ExpectRule: "", ExpectConstruct: "Way"},
}

var c13Benign5 = []core.Mutant{
	// the pointer variable is used, but the no-error exit returns the untyped nil
	{Name: "notfound-pointer-variable-explicit-nil", File: c13Chg, Find: c13NotFoundTailWay,
		Replace: "\t\tvar missing *NoVisibleChildError\n\t\tif !ignoreMissing {\n\t\t\tmissing = &NoVisibleChildError{ID: w.FeatureID()}\n\t\t\treturn nil, missing\n\t\t}\n\t\treturn nil, nil\n"},
	// an `error`-typed variable holds the untyped nil
	{Name: "notfound-error-variable", File: c13Chg, Find: c13NotFoundTailNode,
		Replace: "\t\tvar missing error\n\t\tif !ignoreMissing {\n\t\t\tmissing = &NoVisibleChildError{ID: n.FeatureID()}\n\t\t}\n\t\treturn nil, missing\n"},
	// a helper whose result type is a pointer, used only where it is non-nil
	{Name: "notfound-pointer-constructor", File: c13Chg, Find: c13SrcFindRel,
		Replace: c13Sub(c13SrcFindRel, "return nil, &NoVisibleChildError{ID: r.FeatureID()}", "return nil, newMissing(r.FeatureID())") +
			"\nfunc newMissing(id osm.FeatureID) *NoVisibleChildError {\n\treturn &NoVisibleChildError{ID: id}\n}\n"},
}
