package rules

// c19_order2.go — C19.M6 outside the binary-search loop (roles of c19_roles.go).
//
// Reading, taken from the code: the binary search never returns its lower bound (M6 premise, M2 exhausted), so
//   - caller: the lower-bound variable may be returned as the answer only when its state is at or after t
//     ("answer"), and the binary search may be entered only when it is strictly before t ("enter"); this holds
//     for every value the variable is given (the minimum state, the finder's result);
//   - finder: a probed state before t never becomes the upper bound; a probed state at or after t becomes the
//     upper bound (or leaves through an answer exit, which M7 judges); and a state exactly at t is treated like a
//     state after t (same reachable updates and returns), never like a state before t.

import (
	"fmt"
	"go/ast"
	"go/token"
	"go/types"
	"sort"
	"strings"

	"golang.org/x/tools/go/cfg"

	"osmcheck/core"
)

func c19M6Roles(r *core.R, m *c19Model, tsFld *types.Var) {
	for _, s := range m.searchRoles(func(fi *FuncInfo) map[ast.Node]ast.Node { return parentsOf(r.P, fi) }) {
		if s.caller == nil {
			r.Unknown("order@"+s.fiB.Name()+" caller", s.fiB.Decl.Pos(), "no call of %s with two state variables as bounds found: the initial bounds are not identified", s.fiB.Name())
			continue
		}
		c19M6Caller(r, m, s, tsFld)
		c19M6Newest(r, m, s, tsFld)
		if s.finder != nil {
			c19M6Finder(r, m, s, tsFld)
		}
	}
}

func c19M6Caller(r *core.R, m *c19Model, s *c19Search, tsFld *types.Var) {
	info, fs := m.info, r.P.Fset
	C := s.caller
	cAns, cEnt := "order@"+C.Name()+" answer", "order@"+C.Name()+" enter"
	if s.tCaller == nil {
		r.Unknown(cAns, C.Decl.Pos(), "%s does not have exactly one time.Time parameter: the query time is not identified", C.Name())
		r.Unknown(cEnt, C.Decl.Pos(), "see %s", cAns)
		return
	}
	g := m.graph(C)
	set := map[types.Object]bool{s.loVar: true}
	ops := &c19TimeOps{m: m, fi: C, tVar: s.tCaller, sVars: set, tsFld: tsFld}
	found := m.nilAtom(set, false)
	var head *cfg.Block
	if s.enter == nil {
		head, _ = m.loopBlocks(g.g, s.outer)
	}
	// every place the lower-bound variable gets a value (outside the binary-search loop)
	type start struct {
		b   *cfg.Block
		idx int
	}
	var starts []start
	if c19IsParam(C, s.loVar) {
		starts = append(starts, start{g.g.Blocks[0], -1})
	}
	for _, b := range g.g.Blocks {
		if !b.Live {
			continue
		}
		for i, n := range b.Nodes {
			if s.enter == nil && c19Contains(s.outer, n.Pos()) {
				continue
			}
			if c19Overwrites(info, n, set) {
				starts = append(starts, start{b, i})
			}
		}
	}
	var badAns, badEnt ast.Node
	var undecided ast.Expr
	for _, st := range starts {
		for _, ord := range []int{-1, 0, +1} {
			ord := ord
			u := m.orderWalk(st.b, st.idx, ops.atom(ord, found), ops, func(n ast.Node) bool {
				if ret, ok := n.(*ast.ReturnStmt); ok && ord < 0 && badAns == nil {
					if res := m.okResults(C, ret); len(res) > 0 && c19Target(info, ast.Unparen(res[0])) == s.loVar {
						badAns = n
					}
				}
				if s.enter != nil && c19Contains(n, s.enter.Pos()) && ord >= 0 && badEnt == nil {
					badEnt = n
				}
				return !c19Overwrites(info, n, set)
			}, func(b *cfg.Block) {
				if head != nil && b == head && ord >= 0 && badEnt == nil {
					badEnt = s.outer
				}
			})
			if u != nil && undecided == nil {
				undecided = u
			}
		}
	}
	lo, t := s.loVar.Name(), s.tCaller.Name()
	switch {
	case undecided != nil:
		r.Unknown(cAns, undecided.Pos(), "`%s` compares %s.%s with %s in a way the walk does not decide", src(fs, undecided), lo, tsFld.Name(), t)
		r.Unknown(cEnt, undecided.Pos(), "see %s", cAns)
		return
	case len(starts) == 0:
		r.Unknown(cAns, C.Decl.Pos(), "%s is never assigned in %s", lo, C.Name())
		r.Unknown(cEnt, C.Decl.Pos(), "see %s", cAns)
		return
	}
	if badAns != nil {
		r.Bad(cAns, badAns.Pos(), "with %s.%s < %s the search reaches `%s`: the lower bound is returned as the answer although it was written before the query time (with two adjacent states and %s between them the answer must be the upper one)", lo, tsFld.Name(), t, src(fs, badAns), t)
	} else {
		r.OK(cAns, C.Decl.Pos(), "no `return %s, …` is reachable with %s.%s < %s, from any of the %d place(s) %s is given a value (CFG walk with the comparisons of the two instants decided): the lower bound is the answer only when it is at or after the query time", lo, lo, tsFld.Name(), t, len(starts), lo)
	}
	if badEnt != nil {
		r.Bad(cEnt, badEnt.Pos(), "with %s.%s >= %s the search still enters the binary search (`%s`), which treats %s as exclusive and never returns it: a query at or before the time of the lowest state is answered with a later state", lo, tsFld.Name(), t, src(fs, badEnt), lo)
	} else {
		r.OK(cEnt, C.Decl.Pos(), "the binary search is not reachable with %s.%s == %s or > %s, from any of the %d place(s) %s is given a value: it starts only with a lower bound strictly before the query time", lo, tsFld.Name(), t, t, len(starts), lo)
	}
}

func c19M6Finder(r *core.R, m *c19Model, s *c19Search, tsFld *types.Var) {
	info, fs := m.info, r.P.Fset
	F := s.finder
	cUp, cLow := "order@"+F.Name()+" upper", "order@"+F.Name()+" lower"
	if s.fLoop == nil || s.fS == nil || s.fT == nil || s.fHi == nil {
		r.Unknown(cUp, F.Decl.Pos(), "%s: probing loop (a `for` with one state fetch), probed state variable, single time.Time parameter or the variable returned as upper bound not identified", F.Name())
		r.Unknown(cLow, F.Decl.Pos(), "see %s", cUp)
		return
	}
	g := m.graph(F)
	blk, idx := blockOf(g.g, s.fFetch.Pos())
	if blk == nil {
		r.Unknown(cUp, F.Decl.Pos(), "probe not found in the control-flow graph")
		r.Unknown(cLow, F.Decl.Pos(), "see %s", cUp)
		return
	}
	if base := m.resultVar(parentsOf(r.P, F), s.fFetch); base != nil {
		if x, at := m.staleCopy(F, s.fFetch, base, s.fS); x != nil {
			r.Bad(cLow, at.Pos(), "`%s` reads %s, which holds the state probed in this iteration only on some paths (it is assigned from %s conditionally): after a probe that found no file it still holds the state of an earlier iteration, and that state is classified and returned as if it had just been probed", src(fs, at), x.Name(), base.Name())
			r.Unknown(cUp, at.Pos(), "see %s", cLow)
			return
		}
	}
	ops := &c19TimeOps{m: m, fi: F, tVar: s.fT, sVars: s.fS, tsFld: tsFld}
	found := m.nilAtom(s.fS, false)
	type outcome struct {
		hiUpd, retLow, retHi ast.Node
		nodes                map[token.Pos]bool
	}
	var res [3]outcome
	var undecided ast.Expr
	for k, ord := range []int{-1, 0, +1} {
		oc := &res[k]
		oc.nodes = map[token.Pos]bool{}
		u := m.orderWalk(blk, idx, ops.atom(ord, found), ops, func(n ast.Node) bool {
			if as, ok := n.(*ast.AssignStmt); ok && len(as.Lhs) == len(as.Rhs) {
				for j, lhs := range as.Lhs {
					if objOf(info, lhs) == s.fHi && s.fS[objOf(info, as.Rhs[j])] {
						oc.hiUpd = n
						oc.nodes[n.Pos()] = true
					}
				}
			}
			if ret, ok := n.(*ast.ReturnStmt); ok {
				if res := m.okResults(F, ret); res != nil {
					oc.nodes[n.Pos()] = true
					if s.rLo < len(res) && s.fS[objOf(info, res[s.rLo])] {
						oc.retLow = n
					}
					if s.rHi < len(res) && s.fS[objOf(info, res[s.rHi])] {
						oc.retHi = n
					}
				}
			}
			return !c19Overwrites(info, n, s.fS)
		}, nil)
		if u != nil && undecided == nil {
			undecided = u
		}
	}
	if undecided != nil {
		r.Unknown(cUp, undecided.Pos(), "`%s` compares the probed state's %s with the query time %s in a way the walk does not decide", src(fs, undecided), tsFld.Name(), s.fT.Name())
		r.Unknown(cLow, undecided.Pos(), "see %s", cUp)
		return
	}
	t, hi := s.fT.Name(), s.fHi.Name()
	names := []string{"before", "exactly at", "after"}
	// upper
	func() {
		if n := res[0].hiUpd; n != nil {
			r.Bad(cUp, n.Pos(), "with the probed state written before the query time the search reaches `%s`: a state before %s becomes the upper bound, the candidate answer", src(fs, n), t)
			return
		}
		if n := res[0].retHi; n != nil {
			r.Bad(cUp, n.Pos(), "with the probed state written before the query time the search reaches `%s`: a state before %s is handed back as the upper bound", src(fs, n), t)
			return
		}
		for _, k := range []int{1, 2} {
			if res[k].hiUpd == nil && res[k].retLow == nil && res[k].retHi == nil {
				r.Bad(cUp, s.fLoop.Pos(), "with the probed state written %s the query time neither `%s = <probed state>` nor a return of the probed state is reached: the state cannot become the answer", names[k], hi)
				return
			}
			if res[k].hiUpd == nil && (res[1].hiUpd != nil || res[2].hiUpd != nil) {
				r.Bad(cUp, s.fLoop.Pos(), "with the probed state written %s the query time `%s = <probed state>` is not reached: a state at or after %s must become the new upper bound so that the search goes on below it", names[k], hi, t)
				return
			}
		}
		at := res[1].hiUpd
		if at == nil {
			at = res[1].retLow
		}
		if at == nil {
			at = res[1].retHi
		}
		r.OK(cUp, at.Pos(), "`%s` is reached with the probed state exactly at or after %s and never with a state before it: the upper bound handed to the binary search is at or after the query time", src(fs, at), t)
	}()
	// lower
	func() {
		if res[0].retLow == nil {
			r.Bad(cLow, s.fLoop.Pos(), "with the probed state written before the query time no return of it as lower bound is reached: the search for a lower bound never succeeds")
			return
		}
		diff := func(a, b map[token.Pos]bool) []string {
			var out []string
			for p := range a {
				if !b[p] {
					out = append(out, r.P.Rel(p))
				}
			}
			sort.Strings(out)
			return out
		}
		onlyEq, onlyGt := diff(res[1].nodes, res[2].nodes), diff(res[2].nodes, res[1].nodes)
		if len(onlyEq)+len(onlyGt) > 0 {
			r.Bad(cLow, s.fLoop.Pos(), "a probed state written exactly at %s is not treated like one written after it (reached only when equal: [%s]; only when after: [%s]): it is classified with the states before %s, accepted as the lower bound and handed back without the search going on below it, although it, or an equally stamped state below it, is the first state at or after %s", t, strings.Join(onlyEq, " "), strings.Join(onlyGt, " "), t, t)
			return
		}
		r.OK(cLow, res[0].retLow.Pos(), "`%s` is reached with the probed state before %s; a state exactly at %s reaches the same updates and returns as a state after it (%s)", src(fs, res[0].retLow), t, t, fmt.Sprint(len(res[1].nodes))+" site(s)")
	}()
}
