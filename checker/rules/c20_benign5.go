package rules

import "osmcheck/core"

// c20Benign5: repaired spellings of the bounding-box rendering (arg-fidelity@: silent, also on path@) and other
// spellings of today's 6-decimal rendering (they keep the key of the known findings, `... bounds 6-decimals`).
func c20Benign5() []core.Mutant {
	return []core.Mutant{
		{Name: "map-bbox-repaired-shortest-round-trip-formatfloat", File: "osmapi/map.go",
			Find: `	"fmt"

	"github.com/paulmach/osm"
)

// Map returns the latest elements in the given bounding box.
// Delegates to the DefaultDatasource and uses its http.Client to make the request.
func Map(ctx context.Context, bounds *osm.Bounds, opts ...FeatureOption) (*osm.OSM, error) {
	return DefaultDatasource.Map(ctx, bounds, opts...)
}

// Map returns the latest elements in the given bounding box.
func (ds *Datasource) Map(ctx context.Context, bounds *osm.Bounds, opts ...FeatureOption) (*osm.OSM, error) {
	params, err := featureOptions(opts)
	if err != nil {
		return nil, err
	}

	url := fmt.Sprintf("%s/map?bbox=%f,%f,%f,%f&%s", ds.baseURL(),
		bounds.MinLon, bounds.MinLat,
		bounds.MaxLon, bounds.MaxLat,
		params)
`,
			Replace: `	"fmt"
	"strconv"

	"github.com/paulmach/osm"
)

// Map returns the latest elements in the given bounding box.
// Delegates to the DefaultDatasource and uses its http.Client to make the request.
func Map(ctx context.Context, bounds *osm.Bounds, opts ...FeatureOption) (*osm.OSM, error) {
	return DefaultDatasource.Map(ctx, bounds, opts...)
}

// Map returns the latest elements in the given bounding box.
func (ds *Datasource) Map(ctx context.Context, bounds *osm.Bounds, opts ...FeatureOption) (*osm.OSM, error) {
	params, err := featureOptions(opts)
	if err != nil {
		return nil, err
	}

	edge := func(v float64) string { return strconv.FormatFloat(v, 'f', -1, 64) }
	url := fmt.Sprintf("%s/map?bbox=%s,%s,%s,%s&%s", ds.baseURL(),
		edge(bounds.MinLon), edge(bounds.MinLat),
		edge(bounds.MaxLon), edge(bounds.MaxLat),
		params)
`},
		{Name: "notes-bbox-repaired-seven-decimals", File: "osmapi/note.go",
			Find: `	params = append(params, fmt.Sprintf("bbox=%f,%f,%f,%f",
		bounds.MinLon, bounds.MinLat,
		bounds.MaxLon, bounds.MaxLat))
`,
			Replace: `	params = append(params, fmt.Sprintf("bbox=%.7f,%.7f,%.7f,%.7f",
		bounds.MinLon, bounds.MinLat,
		bounds.MaxLon, bounds.MaxLat))
`},
		{Name: "map-bbox-repaired-percent-v", File: "osmapi/map.go",
			Find: `	url := fmt.Sprintf("%s/map?bbox=%f,%f,%f,%f&%s", ds.baseURL(),
		bounds.MinLon, bounds.MinLat,
		bounds.MaxLon, bounds.MaxLat,
		params)
`,
			Replace: `	url := fmt.Sprintf("%s/map?bbox=%v,%v,%v,%v&%s", ds.baseURL(),
		bounds.MinLon, bounds.MinLat,
		bounds.MaxLon, bounds.MaxLat,
		params)
`},
		{Name: "notes-bbox-same-six-decimals-in-four-separate-sprintf-calls", File: "osmapi/note.go",
			Find: `	params = append(params, fmt.Sprintf("bbox=%f,%f,%f,%f",
		bounds.MinLon, bounds.MinLat,
		bounds.MaxLon, bounds.MaxLat))
`,
			Replace: `	edge := func(v float64) string { return fmt.Sprintf("%f", v) }
	params = append(params, "bbox="+edge(bounds.MinLon)+","+edge(bounds.MinLat)+","+edge(bounds.MaxLon)+","+edge(bounds.MaxLat))
`},
		{Name: "map-bbox-same-six-decimals-spelled-percent-dot-six-f", File: "osmapi/map.go",
			Find: `	url := fmt.Sprintf("%s/map?bbox=%f,%f,%f,%f&%s", ds.baseURL(),
		bounds.MinLon, bounds.MinLat,
		bounds.MaxLon, bounds.MaxLat,
		params)
`,
			Replace: `	url := fmt.Sprintf("%s/map?bbox=%.6f,%.6f,%.6f,%.6f&%s", ds.baseURL(),
		bounds.MinLon, bounds.MinLat,
		bounds.MaxLon, bounds.MaxLat,
		params)
`},
	}
}
