package rules

import (
	"fmt"
	"go/types"

	"osmcheck/core"
)

// c05J2: the reader's dispatch agrees with the writer's flattening, type by type; unknown types are errors; every
// top-level key is read back into the field it was written from.
func c05J2(r *core.R) {
	c03Init(r)
	fl := c05FindFlattening(r)
	if fl == nil {
		return
	}
	// the literals the writer emits
	type wtype struct {
		t   c05Flat
		lit string
		ok  bool
	}
	var wts []wtype
	var lits []string
	for _, t := range fl.types {
		jf, lit, _, why := c05TypeKeyOf(r.P, c03Deref(t.T))
		w := wtype{t: t, lit: lit, ok: jf != nil && why == ""}
		if w.ok {
			lits = append(lits, lit)
		}
		wts = append(wts, w)
	}
	rd := c05BuildReader(r, lits)
	if rd == nil {
		return
	}
	name := rd.un.Name()
	if rd.aborted != "" {
		r.Unknown("explore@"+name, rd.un.Decl.Pos(), "%s could not be explored completely: %s", name, rd.aborted)
		return
	}
	if rd.typeKey == "" {
		r.OK("typekey@"+name, rd.typePos, "the dispatch value is the element's JSON key `type`, decoded from the element's own bytes")
	} else {
		r.Bad("typekey@"+name, rd.typePos, "%s: the reader dispatches on something the writer does not write", rd.typeKey)
	}
	decodes := func(rc *c05ReadCase) bool { return rc != nil && rc.T != nil }
	handled := map[string]bool{}
	for _, w := range wts {
		T := c03Deref(w.t.T)
		if !w.ok {
			c := "case@" + c03TypeName(T)
			by := ""
			for l, rc := range rd.cases {
				if decodes(rc) && types.Identical(c03Deref(rc.T), T) {
					by = l
				}
			}
			if by == "" {
				r.Bad(c, rd.un.Decl.Pos(), "OSM.MarshalJSON writes %s values into the elements array (`%s`) but OSM.UnmarshalJSON decodes no element into one (and the element carries no usable `type`): a marshalled OSM holding one cannot be unmarshalled", c03Short(w.t.T), w.t.Src)
			} else {
				r.Bad(c, rd.un.Decl.Pos(), "type value %q stores a %s but the writer gives %s elements no literal `type`", by, c03Short(w.t.T), c03Short(T))
			}
			continue
		}
		c := fmt.Sprintf("case %q@%s", w.lit, name)
		handled[w.lit] = true
		rc := rd.cases[w.lit]
		switch {
		case rc == nil || (!decodes(rc) && rc.Err):
			r.Bad(c, rd.un.Decl.Pos(), "the writer emits elements with \"type\":%q (%s) but OSM.UnmarshalJSON decodes nothing for that value and returns an error: such a document is rejected", w.lit, c03Short(w.t.T))
		case !decodes(rc):
			r.Bad(c, rc.Pos, "the writer emits elements with \"type\":%q (%s) but OSM.UnmarshalJSON never unmarshals such an element: it is silently dropped", w.lit, c03Short(w.t.T))
		case rc.Why != "":
			r.Bad(c, rc.Pos, "type %q: %s", w.lit, rc.Why)
		case rc.Nil:
			r.Bad(c, rc.Pos, "type %q: on some path the element is not unmarshalled and no error is returned", w.lit)
		case !types.Identical(c03Deref(rc.T), T):
			r.Bad(c, rc.Pos, "elements with \"type\":%q are written from %s but decoded into %s", w.lit, c03Short(T), c03Short(rc.T))
		default:
			how := "assigns it to"
			if rc.Append {
				how = "appends it to"
			}
			r.OK(c, rc.Pos, "unmarshals into a new %s and %s OSM.%s", c03Short(rc.T), how, rc.Field.Name())
		}
	}
	for _, l := range rd.labels {
		rc := rd.cases[l]
		if handled[l] || !decodes(rc) {
			continue
		}
		c := fmt.Sprintf("case %q@%s", l, name)
		if rc.Why != "" {
			r.Bad(c, rc.Pos, "type %q: %s", l, rc.Why)
			continue
		}
		_, lit, _, _ := c05TypeKeyOf(r.P, rc.T)
		if lit != l {
			r.Bad(c, rc.Pos, "type %q decodes into %s, whose own `type` literal is %q", l, c03Short(rc.T), lit)
		} else {
			r.OK(c, rc.Pos, "reads a type the flattening never writes (accepted: reading more than is written)")
		}
	}
	// any other type value is an error
	switch rc := rd.cases[""]; {
	case rc == nil:
		r.Unknown("default@"+name, rd.un.Decl.Pos(), "no path for an element of an unlisted type")
	case decodes(rc):
		r.Bad("default@"+name, rc.Pos, "an element of an unlisted type is decoded into %s", c03Short(rc.T))
	case !rc.Err:
		r.Bad("default@"+name, rd.un.Decl.Pos(), "for an element whose type has no case UnmarshalJSON does not return an error on every path: the element is silently dropped, so a written element can vanish over a round trip")
	default:
		r.OK("default@"+name, rd.un.Decl.Pos(), "an element of unknown type returns an error on every path")
	}
	// top-level keys
	if rd.shimT == nil {
		r.Anchor("the struct OSM.UnmarshalJSON decodes the document into")
		return
	}
	for _, jf := range c03JSONFields(fl.shimT) {
		if jf.Key == fl.elemKey.Key {
			continue
		}
		c := "top " + jf.Key + "@OSM"
		from := fl.top[jf.Var]
		if from == nil {
			r.Unknown(c, fl.pos, "key %q is not written from a field of the receiver (%s)", jf.Key, fl.topVal[jf.Var])
			continue
		}
		if c03JSONKey(rd.shimT, jf.Key) == nil {
			r.Bad(c, rd.shimPos, "OSM.MarshalJSON writes OSM.%s under key %q but the struct OSM.UnmarshalJSON decodes into has no such key: the value is lost on unmarshalling", from.Name(), jf.Key)
			continue
		}
		ok, wrong := false, ""
		for _, f := range rd.top[jf.Key] {
			if f.Name() == from.Name() {
				ok = true
			} else {
				wrong = f.Name()
			}
		}
		switch {
		case ok:
			r.OK(c, rd.shimPos, "written from OSM.%s, read back into OSM.%s", from.Name(), from.Name())
		case wrong != "":
			r.Bad(c, rd.shimPos, "key %q is written from OSM.%s but read back into OSM.%s", jf.Key, from.Name(), wrong)
		default:
			r.Bad(c, rd.shimPos, "key %q is written from OSM.%s and decoded, but its value never reaches OSM.%s: the value is lost on unmarshalling", jf.Key, from.Name(), from.Name())
		}
	}
}
