package rules

import (
	"go/ast"
	"go/types"
)

// Recognisers for "this value is empty now".

type c12Reset struct {
	node ast.Node // the statement (or loop) that empties the value
	done c12Done
	text string
}

// c12ClearStmt: statement st empties the value denoted by is(expr): `x = fresh`, `x = x[:0]`, `y := x[:0]` (an
// empty view of x), a delete-all loop, clear(x), x.Reset() of a standard buffer, `*x = T{}`.
func c12ClearStmt(info *types.Info, st ast.Stmt, is func(ast.Expr) bool) (bool, string) {
	emptyOf := func(e ast.Expr) bool {
		e = c12StripConv(info, e)
		if c12IsFreshOrConst(info, e) {
			return true
		}
		if se, ok := e.(*ast.SliceExpr); ok && is(stripDerefParen(se.X)) && se.High != nil {
			if z, ok := constInt(info, se.High); ok && z == 0 {
				return true
			}
		}
		return false
	}
	switch x := st.(type) {
	case *ast.AssignStmt:
		if len(x.Lhs) != len(x.Rhs) {
			return false, ""
		}
		for i, l := range x.Lhs {
			if se, ok := ast.Unparen(l).(*ast.StarExpr); ok && is(ast.Unparen(se.X)) && c12IsFreshOrConst(info, x.Rhs[i]) {
				return true, "overwritten with a zero value"
			}
			if is(ast.Unparen(l)) && emptyOf(x.Rhs[i]) {
				return true, "reset by assignment"
			}
			// y := x[:0]
			if se, ok := c12StripConv(info, x.Rhs[i]).(*ast.SliceExpr); ok && is(stripDerefParen(se.X)) && emptyOf(x.Rhs[i]) {
				return true, "taken as an empty view [:0]"
			}
		}
	case *ast.RangeStmt:
		if !is(stripDerefParen(x.X)) || x.Key == nil || len(x.Body.List) != 1 {
			return false, ""
		}
		es, ok := x.Body.List[0].(*ast.ExprStmt)
		if !ok {
			return false, ""
		}
		call, ok := es.X.(*ast.CallExpr)
		if ok && builtinName(info, call) == "delete" && len(call.Args) == 2 && is(stripDerefParen(call.Args[0])) &&
			objOf(info, call.Args[1]) != nil && objOf(info, call.Args[1]) == objOf(info, x.Key) {
			return true, "every key deleted"
		}
	case *ast.ExprStmt:
		call, ok := x.X.(*ast.CallExpr)
		if !ok {
			return false, ""
		}
		if builtinName(info, call) == "clear" && len(call.Args) == 1 && is(stripDerefParen(call.Args[0])) {
			return true, "clear()"
		}
		if sel, ok := ast.Unparen(call.Fun).(*ast.SelectorExpr); ok && sel.Sel.Name == "Reset" && len(call.Args) == 0 && is(stripDerefParen(sel.X)) {
			switch namedPath(info.TypeOf(sel.X)) {
			case "bytes.Buffer", "strings.Builder":
				return true, "Reset()"
			}
		}
	}
	return false, ""
}

// c12Resets lists the statements of f that empty package-level variable v.
func c12Resets(f *c12Fn, par map[ast.Node]ast.Node, v *types.Var) []c12Reset {
	info := f.info()
	is := func(e ast.Expr) bool { return objOf(info, e) == types.Object(v) }
	var out []c12Reset
	inspectNoLit(f.fi.Decl.Body, func(n ast.Node) bool {
		st, ok := n.(ast.Stmt)
		if !ok {
			return true
		}
		if ok, text := c12ClearStmt(info, st, is); ok {
			rs := c12Reset{node: st, text: text}
			if loop, isLoop := st.(*ast.RangeStmt); isLoop {
				_, _, done := f.loopBlocks(loop)
				if done == nil {
					return true
				}
				rs.done = c12Done{block: done, idx: -1}
			} else if d, ok := f.at(st.Pos(), text); ok {
				rs.done = d
			} else {
				return true
			}
			out = append(out, rs)
		}
		return true
	})
	return out
}

// c12PartOfReset: the identifier occurs inside one of the resetting statements.
func c12PartOfReset(par map[ast.Node]ast.Node, id *ast.Ident, resets []c12Reset) bool {
	for _, rs := range resets {
		if id.Pos() >= rs.node.Pos() && id.End() <= rs.node.End() {
			return true
		}
	}
	return false
}

// c12Extends finds a slice expression that extends v (or a local view of it) beyond its length: a high bound that
// is neither the constant 0 nor len() of the same value.
func c12Extends(f *c12Fn, v *types.Var) ast.Node {
	info := f.info()
	body := f.fi.Decl.Body
	derived := func(e ast.Expr) bool {
		e = stripDerefParen(e)
		o := objOf(info, e)
		if o == nil {
			return false
		}
		if o == types.Object(v) {
			return true
		}
		if rhs := c12SingleDef(info, body, o); rhs != nil {
			return c12RootVar(info, rhs) == types.Object(v)
		}
		// a local re-assigned from itself by append (buf = append(buf, x)) keeps its origin
		found := false
		ast.Inspect(body, func(n ast.Node) bool {
			if as, ok := n.(*ast.AssignStmt); ok && len(as.Lhs) == len(as.Rhs) {
				for i, l := range as.Lhs {
					if objOf(info, l) == o && c12RootVar(info, as.Rhs[i]) == types.Object(v) {
						found = true
					}
				}
			}
			return !found
		})
		return found
	}
	var hit ast.Node
	ast.Inspect(body, func(n ast.Node) bool {
		se, ok := n.(*ast.SliceExpr)
		if !ok || hit != nil || se.High == nil || !derived(se.X) {
			return hit == nil
		}
		if z, ok := constInt(info, se.High); ok && z == 0 {
			return true
		}
		if call, ok := ast.Unparen(se.High).(*ast.CallExpr); ok && builtinName(info, call) == "len" && len(call.Args) == 1 &&
			sameChain(info, stripDerefParen(call.Args[0]), stripDerefParen(se.X)) {
			return true
		}
		hit = se
		return false
	})
	return hit
}
