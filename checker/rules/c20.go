package rules

import (
	"encoding/json"
	"fmt"
	"go/ast"
	"go/token"
	"go/types"
	"os"
	"path/filepath"
	"sort"
	"strconv"
	"strings"

	"golang.org/x/tools/go/cfg"
	"golang.org/x/tools/go/packages"

	"osmcheck/core"
)

// Unexported identifiers this file is keyed on (class 3 anchors, sensitive to a pure rename):
//   (*Datasource).getFromAPI, (*Datasource).baseURL, featureOptions,
//   FeatureOption.applyFeature / NotesOption.applyNotes (reached through the exported option
//   interfaces: "the single method of the interface the exported constructor returns").
// Everything else is resolved through exported API (Datasource, DefaultDatasource, BaseURL,
// the exported endpoint methods, the error types, At/Limit/MaxDaysClosed) or through roles
// ("the helper an endpoint tail-calls", "the variable whose address is the decode target").

func init() {
	register(&core.Property{
		ID:    "C20",
		Title: "osmapi calls hit the documented endpoint and map statuses to typed errors",
		Explanation: "Structural necessary conditions decided on /repo/osmapi (non-test files) against the external table tables/api06.json (API v0.6 paths): " +
			"(H1) every exported *Datasource endpoint method performs exactly one request (getFromAPI, directly or through one tail-called helper) on every path to a success return, at most one on error paths, none in a loop; all net/http request creation/sending sits in getFromAPI, which calls Client.Do exactly once; every package-level wrapper is `return DefaultDatasource.<same name>(<its parameters in order>)`. " +
			"(H2) every path to Client.Do passes `Limiter != nil` and, on the non-nil side, Limiter.Wait(ctx) whose error is returned. " +
			"(H3) abstract execution of getFromAPI's control-flow graph for every status 100..599 ends in exactly the typed error of the table (404, 403, 410, 414, other non-200) and reaches the XML decode of the item parameter only for 200; NotFound type-asserts exactly the type returned for 404; the request is a GET; every caller returns getFromAPI's error unchanged. " +
			"(H4) the URL expression of each endpoint, evaluated symbolically through constant format strings, concatenations and the repository's option/id-list idioms with each hole bound to a method parameter, equals the table entry; baseURL() prefers the configured BaseURL; the URL parameter is what is requested. " +
			"(H5) each endpoint returns the table's field of the freshly allocated document that was the decode target; `o.X[0]` is dominated by a `len(o.X) != 1` error test on the same field. " +
			"(H6) At/Limit/MaxDaysClosed build `at=` (UTC, layout 2006-01-02T15:04:05Z), `limit=` (rejected outside 1..10000) and `closed=`; featureOptions joins with `&` and propagates option errors. " +
			"NOT decided: that encoding/xml returns the server's elements unmodified; URL escaping beyond the presence of QueryEscape on the search query; precision of %f for bounding boxes (6 decimals); that the http.Client follows the request unchanged (redirects, transport); trailing `?`/`&` when no option is given (accepted by the table).",
		Assumptions: []string{"go/types, go/cfg (x/tools v0.29.0)", "tables/api06.json transcribes the OSM API v0.6 documentation", "fmt verbs %d/%f/%s/%v, strings.Join, strconv.AppendInt(_, _, 10), url.QueryEscape, time.Time.UTC/Format behave as documented", "net/http sends the request it is given; encoding/xml decodes faithfully"},
		LevelText:   "Structural necessary conditions of the request/response contract, decided for every endpoint method, every wrapper, every status value 100..599 and every path of getFromAPI: one request per call, limiter before the request, status-to-error table, URL shape equal to the external API v0.6 table with parameter-to-position binding, single-element guards, option encodings. Fidelity of the XML decode and of net/http is not decided.",
		LevelNote:   "Trusts the Go type checker, go/cfg, the documented behaviour of fmt/strings/strconv/net/url/time used in URL building, and the transcription of the API v0.6 documentation in tables/api06.json.",
		Technique:   "symbolic evaluation of URL expressions (constant format strings from the type checker, parameter binding) against an external path table + CFG path counting, dominance and per-status abstract execution of getFromAPI",
		DesignRef:   "DESIGN.md §5 C20, Appendix B",
		Rules: []*core.Rule{
			{ID: "H1", Floor: 57, Doc: "one request per call; HTTP only in getFromAPI; wrappers delegate to the same-named method", Run: c20H1},
			{ID: "H2", Floor: 2, Doc: "limiter wait precedes the request and its error returns", Run: c20H2},
			{ID: "H3", Floor: 36, Doc: "status table, decode only on 200, NotFound asserts *NotFoundError, GET, errors propagated", Run: c20H3},
			{ID: "H4", Floor: 28, Doc: "URL shape per endpoint equals tables/api06.json", Run: c20H4},
			{ID: "H5", Floor: 35, Doc: "results come from the decoded document; single-element calls guarded by len != 1", Run: c20H5},
			{ID: "H6", Floor: 8, Doc: "at=, limit= (1..10000), closed= options and their joining", Run: c20H6},
		},
		Mutants: []core.Mutant{
			{Name: "nodeversion-swap-id-version", File: "osmapi/node.go", Find: "fmt.Sprintf(\"%s/node/%d/%d\", ds.baseURL(), id, v)", Replace: "fmt.Sprintf(\"%s/node/%d/%d\", ds.baseURL(), v, id)", ExpectRule: "H4", ExpectConstruct: "(*Datasource).NodeVersion"},
			{Name: "wayrelations-wrong-segment", File: "osmapi/way.go", Find: "%s/way/%d/relations?%s", Replace: "%s/way/%d/ways?%s", ExpectRule: "H4", ExpectConstruct: "(*Datasource).WayRelations"},
			{Name: "relation-kind-segment", File: "osmapi/relation.go", Find: "\"%s/relation/%d?%s\"", Replace: "\"%s/relations/%d?%s\"", ExpectRule: "H4", ExpectConstruct: "(*Datasource).Relation"},
			{Name: "ways-multifetch-separator", File: "osmapi/way.go", Find: "url += \"&\" + params", Replace: "url += \"?\" + params", ExpectRule: "H4", ExpectConstruct: "(*Datasource).Ways"},
			{Name: "nodes-csv-semicolon", File: "osmapi/node.go", Find: "byte(',')", Replace: "byte(';')", ExpectRule: "H4", ExpectConstruct: "(*Datasource).Nodes"},
			{Name: "map-bbox-order", File: "osmapi/map.go", Find: "bounds.MinLon, bounds.MinLat,", Replace: "bounds.MinLat, bounds.MinLon,", ExpectRule: "H4", ExpectConstruct: "(*Datasource).Map"},
			{Name: "notessearch-unescaped", File: "osmapi/note.go", Find: "url.QueryEscape(query)", Replace: "url.PathEscape(query)", ExpectRule: "H4", ExpectConstruct: "(*Datasource).NotesSearch"},
			{Name: "baseurl-ignores-configured", File: "osmapi/datasource.go", Find: "if ds.BaseURL != \"\" {", Replace: "if ds.BaseURL == \"\" {", ExpectRule: "H4", ExpectConstruct: "baseURL"},
			{Name: "gone-mapped-to-notfound", File: "osmapi/datasource.go", Find: "return &GoneError{URL: url}", Replace: "return &NotFoundError{URL: url}", ExpectRule: "H3", ExpectConstruct: "status 410"},
			{Name: "non200-check-first", File: "osmapi/datasource.go", Find: "if resp.StatusCode == http.StatusNotFound {", Replace: "if resp.StatusCode != http.StatusOK {\n\t\treturn &UnexpectedStatusCodeError{Code: resp.StatusCode, URL: url}\n\t}\n\n\tif resp.StatusCode == http.StatusNotFound {", ExpectRule: "H3", ExpectConstruct: "status 404"},
			{Name: "decode-on-3xx", File: "osmapi/datasource.go", Find: "if resp.StatusCode != http.StatusOK {", Replace: "if resp.StatusCode >= 400 {", ExpectRule: "H3", ExpectConstruct: "status other"},
			{Name: "notfound-asserts-gone", File: "osmapi/datasource.go", Find: "_, ok := err.(*NotFoundError)", Replace: "_, ok := err.(*GoneError)", ExpectRule: "H3", ExpectConstruct: "NotFound"},
			{Name: "request-post", File: "osmapi/datasource.go", Find: "http.NewRequest(\"GET\", url, nil)", Replace: "http.NewRequest(\"POST\", url, nil)", ExpectRule: "H3", ExpectConstruct: "request"},
			{Name: "user-error-swallowed", File: "osmapi/user.go", Find: "if err := ds.getFromAPI(ctx, url, &o); err != nil {\n\t\treturn nil, err\n\t}", Replace: "ds.getFromAPI(ctx, url, &o)", ExpectRule: "H3", ExpectConstruct: "propagate@(*Datasource).User"},
			{Name: "limiter-wait-dropped", File: "osmapi/datasource.go", Find: "\t\terr := ds.Limiter.Wait(ctx)\n\t\tif err != nil {\n\t\t\treturn err\n\t\t}\n", Replace: "", ExpectRule: "H2", ExpectConstruct: "wait-before-do"},
			{Name: "limiter-error-ignored", File: "osmapi/datasource.go", Find: "\t\terr := ds.Limiter.Wait(ctx)\n\t\tif err != nil {\n\t\t\treturn err\n\t\t}\n", Replace: "\t\tds.Limiter.Wait(ctx)\n", ExpectRule: "H2", ExpectConstruct: "wait-error"},
			{Name: "limiter-wait-after-do", File: "osmapi/datasource.go", Find: "\tif ds.Limiter != nil {\n\t\terr := ds.Limiter.Wait(ctx)\n\t\tif err != nil {\n\t\t\treturn err\n\t\t}\n\t}\n\n\treq, err := http.NewRequest(\"GET\", url, nil)\n\tif err != nil {\n\t\treturn err\n\t}\n\n\tresp, err := client.Do(req.WithContext(ctx))\n\tif err != nil {\n\t\treturn err\n\t}\n", Replace: "\treq, err := http.NewRequest(\"GET\", url, nil)\n\tif err != nil {\n\t\treturn err\n\t}\n\n\tresp, err := client.Do(req.WithContext(ctx))\n\tif err != nil {\n\t\treturn err\n\t}\n\tif ds.Limiter != nil {\n\t\terr := ds.Limiter.Wait(ctx)\n\t\tif err != nil {\n\t\t\treturn err\n\t\t}\n\t}\n", ExpectRule: "H2", ExpectConstruct: "wait-before-do"},
			{Name: "node-len-check-eq-zero", File: "osmapi/node.go", Find: "if l := len(o.Nodes); l != 1 {", Replace: "if l := len(o.Nodes); l == 0 {", ExpectRule: "H5", ExpectConstruct: "single@(*Datasource).Node"},
			{Name: "user-len-check-other-field", File: "osmapi/user.go", Find: "if l := len(o.Users); l != 1 {", Replace: "if l := len(o.Notes); l != 1 {", ExpectRule: "H5", ExpectConstruct: "single@(*Datasource).User"},
			{Name: "note-len-check-dropped", File: "osmapi/note.go", Find: "\tif l := len(o.Notes); l != 1 {\n\t\treturn nil, fmt.Errorf(\"wrong number of notes, expected 1, got %v\", l)\n\t}\n", Replace: "", ExpectRule: "H5", ExpectConstruct: "single@(*Datasource).Note"},
			{Name: "wayfull-returns-other-document", File: "osmapi/way.go", Find: "\treturn o, nil\n", Replace: "\treturn &osm.OSM{Ways: o.Ways}, nil\n", ExpectRule: "H5", ExpectConstruct: "result@(*Datasource).WayFull"},
			{Name: "wrapper-other-method", File: "osmapi/way.go", Find: "return DefaultDatasource.WayRelations(ctx, id, opts...)", Replace: "return DefaultDatasource.NodeRelations(ctx, osm.NodeID(id), opts...)", ExpectRule: "H1", ExpectConstruct: "wrapper@WayRelations"},
			{Name: "wrapper-drops-options", File: "osmapi/map.go", Find: "return DefaultDatasource.Map(ctx, bounds, opts...)", Replace: "return DefaultDatasource.Map(ctx, bounds)", ExpectRule: "H1", ExpectConstruct: "wrapper@Map"},
			{Name: "history-request-retried", File: "osmapi/node.go", Find: "\turl := fmt.Sprintf(\"%s/node/%d/history\", ds.baseURL(), id)\n\n\to := &osm.OSM{}\n\tif err := ds.getFromAPI(ctx, url, &o); err != nil {\n\t\treturn nil, err\n\t}\n", Replace: "\turl := fmt.Sprintf(\"%s/node/%d/history\", ds.baseURL(), id)\n\n\to := &osm.OSM{}\n\tfor i := 0; i < 2; i++ {\n\t\tif err := ds.getFromAPI(ctx, url, &o); err != nil {\n\t\t\treturn nil, err\n\t\t}\n\t}\n", ExpectRule: "H1", ExpectConstruct: "once@(*Datasource).NodeHistory"},
			{Name: "changeset-double-request", File: "osmapi/changeset.go", Find: "\turl := fmt.Sprintf(\"%s/changeset/%d\", ds.baseURL(), id)\n\treturn ds.getChangeset(ctx, url)", Replace: "\turl := fmt.Sprintf(\"%s/changeset/%d\", ds.baseURL(), id)\n\tif _, err := ds.getChangeset(ctx, url); err != nil {\n\t\treturn nil, err\n\t}\n\treturn ds.getChangeset(ctx, url)", ExpectRule: "H1", ExpectConstruct: "once@(*Datasource).Changeset"},
			{Name: "http-outside-getfromapi", File: "osmapi/user.go", Find: "\to := &osm.OSM{}\n", Replace: "\to := &osm.OSM{}\n\tif resp, err := DefaultDatasource.Client.Get(url); err == nil {\n\t\tresp.Body.Close()\n\t}\n", ExpectRule: "H1", ExpectConstruct: "http-call@"},
			{Name: "at-local-time", File: "osmapi/options.go", Find: "o.t.UTC().Format(", Replace: "o.t.Format(", ExpectRule: "H6", ExpectConstruct: "apply@At"},
			{Name: "at-layout", File: "osmapi/options.go", Find: "Format(\"2006-01-02T15:04:05Z\")", Replace: "Format(\"2006-01-02 15:04:05Z\")", ExpectRule: "H6", ExpectConstruct: "apply@At"},
			{Name: "limit-upper-bound", File: "osmapi/options.go", Find: "10000 < o.n", Replace: "100000 < o.n", ExpectRule: "H6", ExpectConstruct: "range@Limit"},
			{Name: "limit-ctor-wrong-option", File: "osmapi/options.go", Find: "return &limit{num}", Replace: "return &maxDaysClosed{num}", ExpectRule: "H6", ExpectConstruct: "Limit"},
			{Name: "closed-key", File: "osmapi/options.go", Find: "\"closed=%d\"", Replace: "\"close=%d\"", ExpectRule: "H6", ExpectConstruct: "apply@MaxDaysClosed"},
			{Name: "featureoptions-join-comma", File: "osmapi/options.go", Find: "strings.Join(params, \"&\")", Replace: "strings.Join(params, \",\")", ExpectRule: "H6", ExpectConstruct: "join@featureOptions"},
		},
	})
}

// ---------------------------------------------------------------------------
// external table

type c20Endpoint struct {
	Method   string         `json:"method"`
	Doc      string         `json:"doc"`
	URL      string         `json:"url"`
	Params   map[string]int `json:"params"`
	Document string         `json:"document"`
	Result   string         `json:"result"`
	Single   bool           `json:"single"`
}

type c20Option struct {
	Ctor       string `json:"ctor"`
	Kind       string `json:"kind"`
	Key        string `json:"key"`
	Value      string `json:"value"`
	TimeLayout string `json:"time_layout"`
	UTC        bool   `json:"utc"`
	Min        *int64 `json:"min"`
	Max        *int64 `json:"max"`
}

type c20Table struct {
	HTTPMethod      string            `json:"http_method"`
	BasePathSuffix  string            `json:"base_path_suffix"`
	OptionSeparator string            `json:"option_separator"`
	OKStatus        int64             `json:"ok_status"`
	Statuses        map[string]string `json:"statuses"`
	OtherStatus     string            `json:"other_status"`
	NotFoundType    string            `json:"not_found_type"`
	Endpoints       []c20Endpoint     `json:"endpoints"`
	Options         []c20Option       `json:"options"`
}

func (t *c20Table) endpoint(name string) *c20Endpoint {
	for i := range t.Endpoints {
		if t.Endpoints[i].Method == name {
			return &t.Endpoints[i]
		}
	}
	return nil
}

// c20LoadTable reads tables/api06.json from rules.TablesDir. The sensitivity sub-processes of
// main.go are started without -verif, so when the file is absent there the directories next to
// the executable (<exe>/tables, <exe>/../tables) are tried as well.
func c20LoadTable(r *core.R) *c20Table {
	cands := []string{filepath.Join(TablesDir, "api06.json")}
	if exe, err := os.Executable(); err == nil {
		d := filepath.Dir(exe)
		cands = append(cands, filepath.Join(d, "tables", "api06.json"), filepath.Join(d, "..", "tables", "api06.json"))
	}
	var lastErr error
	for _, p := range cands {
		b, err := os.ReadFile(p)
		if err != nil {
			lastErr = err
			continue
		}
		t := &c20Table{}
		if err := json.Unmarshal(b, t); err != nil {
			r.Anchor("tables/api06.json (unparsable: " + err.Error() + ")")
			return nil
		}
		if len(t.Endpoints) == 0 || len(t.Statuses) == 0 || len(t.Options) == 0 || t.HTTPMethod == "" || t.OptionSeparator == "" {
			r.Anchor("tables/api06.json (incomplete: endpoints/statuses/options/http_method/option_separator required)")
			return nil
		}
		return t
	}
	r.Anchor(fmt.Sprintf("tables/api06.json (%v)", lastErr))
	return nil
}

// ---------------------------------------------------------------------------
// shared context

const c20PkgRel = "osmapi"

type c20Ctx struct {
	r      *core.R
	pk     *packages.Package
	info   *types.Info
	dsType string // pkgpath.Datasource
	getFn  *FuncInfo
	funcs  []*FuncInfo
	byObj  map[*types.Func]*FuncInfo
	reqFns map[*types.Func]bool // functions that (transitively) perform a request, including getFromAPI
}

func c20NewCtx(r *core.R) *c20Ctx {
	pk := r.P.Pkg(c20PkgRel)
	if pk == nil {
		r.Anchor("package osmapi")
		return nil
	}
	cx := &c20Ctx{r: r, pk: pk, info: pk.TypesInfo, dsType: pk.PkgPath + ".Datasource", byObj: map[*types.Func]*FuncInfo{}, reqFns: map[*types.Func]bool{}}
	if nt, _ := structType(pk, "Datasource"); nt == nil {
		r.Anchor("osmapi.Datasource")
		return nil
	}
	cx.funcs = allFuncs(pk)
	sort.Slice(cx.funcs, func(i, j int) bool { return cx.funcs[i].Decl.Pos() < cx.funcs[j].Decl.Pos() })
	for _, fi := range cx.funcs {
		cx.byObj[fi.Obj] = fi
	}
	cx.getFn = findFunc(pk, "(*Datasource).getFromAPI")
	if cx.getFn == nil || cx.getFn.Decl.Body == nil || cx.getFn.Obj.Type().(*types.Signature).Params().Len() != 3 {
		r.Anchor("(*Datasource).getFromAPI(ctx, url, item)")
		return nil
	}
	cx.reqFns[cx.getFn.Obj] = true
	for changed := true; changed; {
		changed = false
		for _, fi := range cx.funcs {
			if cx.reqFns[fi.Obj] {
				continue
			}
			ast.Inspect(fi.Decl.Body, func(n ast.Node) bool {
				if call, ok := n.(*ast.CallExpr); ok {
					if fn := callee(cx.info, call); fn != nil && cx.reqFns[fn] {
						cx.reqFns[fi.Obj] = true
						changed = true
					}
				}
				return true
			})
		}
	}
	return cx
}

func c20IsCtx(t types.Type) bool { return namedPath(t) == "context.Context" }

func c20Sig(fn *types.Func) *types.Signature { return fn.Type().(*types.Signature) }

// endpoints: exported methods of Datasource whose first parameter is a context.Context.
func (cx *c20Ctx) endpoints() []*FuncInfo {
	var out []*FuncInfo
	for _, fi := range cx.funcs {
		sig := c20Sig(fi.Obj)
		if sig.Recv() == nil || namedPath(sig.Recv().Type()) != cx.dsType || !fi.Obj.Exported() {
			continue
		}
		if sig.Params().Len() == 0 || !c20IsCtx(sig.Params().At(0).Type()) {
			continue
		}
		out = append(out, fi)
	}
	sort.Slice(out, func(i, j int) bool { return out[i].Obj.Name() < out[j].Obj.Name() })
	return out
}

// helpers: unexported methods of Datasource (other than getFromAPI) that perform a request.
func (cx *c20Ctx) helpers() []*FuncInfo {
	var out []*FuncInfo
	for _, fi := range cx.funcs {
		sig := c20Sig(fi.Obj)
		if sig.Recv() == nil || namedPath(sig.Recv().Type()) != cx.dsType || fi.Obj.Exported() || fi.Obj == cx.getFn.Obj || !cx.reqFns[fi.Obj] {
			continue
		}
		out = append(out, fi)
	}
	return out
}

// wrappers: exported package-level functions whose first parameter is a context.Context.
func (cx *c20Ctx) wrappers() []*FuncInfo {
	var out []*FuncInfo
	for _, fi := range cx.funcs {
		sig := c20Sig(fi.Obj)
		if sig.Recv() != nil || !fi.Obj.Exported() || sig.Params().Len() == 0 || !c20IsCtx(sig.Params().At(0).Type()) {
			continue
		}
		out = append(out, fi)
	}
	sort.Slice(out, func(i, j int) bool { return out[i].Obj.Name() < out[j].Obj.Name() })
	return out
}

// reqCalls lists the calls to request functions in fi (function literals included; lit reports one inside a literal).
func (cx *c20Ctx) reqCalls(fi *FuncInfo) (calls []*ast.CallExpr, lit bool) {
	depth := 0
	var stack []ast.Node
	ast.Inspect(fi.Decl.Body, func(n ast.Node) bool {
		if n == nil {
			if _, ok := stack[len(stack)-1].(*ast.FuncLit); ok {
				depth--
			}
			stack = stack[:len(stack)-1]
			return true
		}
		stack = append(stack, n)
		if _, ok := n.(*ast.FuncLit); ok {
			depth++
		}
		if call, ok := n.(*ast.CallExpr); ok {
			if fn := callee(cx.info, call); fn != nil && cx.reqFns[fn] {
				calls = append(calls, call)
				if depth > 0 {
					lit = true
				}
			}
		}
		return true
	})
	return
}

func c20IsNil(info *types.Info, e ast.Expr) bool {
	id, ok := ast.Unparen(e).(*ast.Ident)
	return ok && id.Name == "nil" && info.Uses[id] == types.Universe.Lookup("nil")
}

func c20ParamIndex(fn *types.Func, o types.Object) int {
	if o == nil {
		return -99
	}
	sig := c20Sig(fn)
	for i := 0; i < sig.Params().Len(); i++ {
		if sig.Params().At(i) == o {
			return i
		}
	}
	return -99
}

// c20ErrReturned recognises, for a call whose last result is an error,
//
//	if err := CALL; err != nil { ...; return ..., err }
//	x, err := CALL (or =) ; if err != nil { ...; return ..., err }
//	return CALL
//
// where the returned value is exactly the error variable (not wrapped, so its dynamic type survives).
func c20ErrReturned(info *types.Info, par map[ast.Node]ast.Node, call *ast.CallExpr) bool {
	if call == nil {
		return false
	}
	var parent ast.Node = par[call]
	for {
		if pe, ok := parent.(*ast.ParenExpr); ok {
			parent = par[pe]
			continue
		}
		break
	}
	if ret, ok := parent.(*ast.ReturnStmt); ok {
		return len(ret.Results) == 1
	}
	as, ok := parent.(*ast.AssignStmt)
	if !ok || len(as.Rhs) != 1 {
		return false
	}
	var errObj types.Object
	if len(as.Lhs) > 0 {
		if o := objOf(info, as.Lhs[len(as.Lhs)-1]); o != nil && types.Identical(o.Type(), types.Universe.Lookup("error").Type()) {
			errObj = o
		}
	}
	if errObj == nil {
		return false
	}
	isErrTest := func(ifs *ast.IfStmt) bool {
		be, ok := ast.Unparen(ifs.Cond).(*ast.BinaryExpr)
		if !ok || be.Op != token.NEQ {
			return false
		}
		switch {
		case objOf(info, be.X) == errObj && c20IsNil(info, be.Y):
		case objOf(info, be.Y) == errObj && c20IsNil(info, be.X):
		default:
			return false
		}
		if len(ifs.Body.List) == 0 {
			return false
		}
		ret, ok := ifs.Body.List[len(ifs.Body.List)-1].(*ast.ReturnStmt)
		if !ok || len(ret.Results) == 0 {
			return false
		}
		// the error variable must not be reassigned inside the body
		if countAssignsTo(info, ifs.Body, errObj, ifs.Body.Pos(), ifs.Body.End()) > 0 {
			return false
		}
		return objOf(info, ret.Results[len(ret.Results)-1]) == errObj
	}
	switch p := par[as].(type) {
	case *ast.IfStmt:
		if p.Init == as {
			return isErrTest(p)
		}
	case *ast.BlockStmt:
		for i, s := range p.List {
			if s == as && i+1 < len(p.List) {
				if ifs, ok := p.List[i+1].(*ast.IfStmt); ok && ifs.Init == nil {
					return isErrTest(ifs)
				}
			}
		}
	}
	return false
}

// ---------------------------------------------------------------------------
// path counting on go/cfg

type c20Ret struct {
	ret  *ast.ReturnStmt
	mask uint8 // bit0: 0 calls possible, bit1: exactly 1, bit2: 2 or more
}

func c20Shift(m uint8, n int) uint8 {
	for ; n > 0; n-- {
		m = ((m & 1) << 1) | ((m & 2) << 1) | (m & 4)
	}
	return m
}

func c20MaskText(m uint8) string {
	var s []string
	if m&1 != 0 {
		s = append(s, "0")
	}
	if m&2 != 0 {
		s = append(s, "1")
	}
	if m&4 != 0 {
		s = append(s, "2 or more")
	}
	if len(s) == 0 {
		return "unreachable"
	}
	return strings.Join(s, " or ")
}

// c20CountAtReturns computes, for every return statement of body, the set of possible numbers of
// calls satisfying isReq executed on the paths reaching it, and the calls that sit on a CFG cycle.
func c20CountAtReturns(info *types.Info, body *ast.BlockStmt, isReq func(*ast.CallExpr) bool) (rets []c20Ret, inLoop []*ast.CallExpr) {
	g := newCFG(info, body)
	n := map[*cfg.Block]int{}
	callsIn := map[*cfg.Block][]*ast.CallExpr{}
	for _, b := range g.Blocks {
		if !b.Live {
			continue
		}
		for _, nd := range b.Nodes {
			inspectNoLit(nd, func(x ast.Node) bool {
				if call, ok := x.(*ast.CallExpr); ok && isReq(call) {
					n[b]++
					callsIn[b] = append(callsIn[b], call)
				}
				return true
			})
		}
	}
	in := map[*cfg.Block]uint8{g.Blocks[0]: 1}
	work := []*cfg.Block{g.Blocks[0]}
	for len(work) > 0 {
		b := work[len(work)-1]
		work = work[:len(work)-1]
		out := c20Shift(in[b], n[b])
		for _, s := range b.Succs {
			if in[s]|out != in[s] {
				in[s] |= out
				work = append(work, s)
			}
		}
	}
	for _, b := range g.Blocks {
		if !b.Live {
			continue
		}
		for _, nd := range b.Nodes {
			if ret, ok := nd.(*ast.ReturnStmt); ok {
				rets = append(rets, c20Ret{ret: ret, mask: c20Shift(in[b], n[b])})
			}
		}
		if len(callsIn[b]) > 0 && len(b.Succs) > 0 && reachableFrom(b.Succs, nil)[b] {
			inLoop = append(inLoop, callsIn[b]...)
		}
	}
	sort.Slice(rets, func(i, j int) bool { return rets[i].ret.Pos() < rets[j].ret.Pos() })
	return
}

// ---------------------------------------------------------------------------
// H1 one request per call

// c20IsSuccessReturn: the last result is the nil error, or the statement returns the results of
// a single request-function call (tail delegation).
func (cx *c20Ctx) isSuccessReturn(ret *ast.ReturnStmt) bool {
	if len(ret.Results) == 0 {
		return false
	}
	if c20IsNil(cx.info, ret.Results[len(ret.Results)-1]) {
		return true
	}
	if len(ret.Results) == 1 {
		if call, ok := ast.Unparen(ret.Results[0]).(*ast.CallExpr); ok {
			if fn := callee(cx.info, call); fn != nil && cx.reqFns[fn] {
				return true
			}
		}
	}
	return false
}

func (cx *c20Ctx) checkOnce(fi *FuncInfo) {
	r := cx.r
	c := "once@" + fi.Name()
	calls, lit := cx.reqCalls(fi)
	if lit {
		r.Unknown(c, fi.Decl.Pos(), "a request call sits inside a function literal; accepted idiom: direct calls in the method body")
		return
	}
	if fi.Decl.Type.Results != nil {
		for _, f := range fi.Decl.Type.Results.List {
			if len(f.Names) > 0 {
				r.Unknown(c, fi.Decl.Pos(), "named results: success/error returns cannot be classified; accepted idiom: explicit `return value, nil` / `return nil, err`")
				return
			}
		}
	}
	if len(calls) == 0 {
		r.Bad(c, fi.Decl.Pos(), "endpoint method %s never calls getFromAPI (directly or through a helper): no request is issued for the call", fi.Name())
		return
	}
	rets, inLoop := c20CountAtReturns(cx.info, fi.Decl.Body, func(call *ast.CallExpr) bool {
		fn := callee(cx.info, call)
		return fn != nil && cx.reqFns[fn]
	})
	if len(inLoop) > 0 {
		r.Bad(c, inLoop[0].Pos(), "request call `%s` sits in a loop: one call of %s can issue several GETs", src(r.P.Fset, inLoop[0]), fi.Name())
		return
	}
	nSucc := 0
	for _, rt := range rets {
		if cx.isSuccessReturn(rt.ret) {
			nSucc++
			if rt.mask != 2 {
				r.Bad(c, rt.ret.Pos(), "success return `%s` is reached after %s request(s); exactly one GET per call is required", src(r.P.Fset, rt.ret), c20MaskText(rt.mask))
				return
			}
		} else if rt.mask&4 != 0 {
			r.Bad(c, rt.ret.Pos(), "error return `%s` can be reached after two or more requests", src(r.P.Fset, rt.ret))
			return
		}
	}
	if nSucc == 0 {
		r.Unknown(c, fi.Decl.Pos(), "no success return (`return v, nil` or `return <request helper>(...)`) found")
		return
	}
	r.OK(c, calls[0].Pos(), "%d success return(s), each reached after exactly one request (`%s`); %d other return(s) after at most one; no request on a CFG cycle",
		nSucc, src(r.P.Fset, calls[0].Fun), len(rets)-nSucc)
}

// c20HTTPCall classifies calls that create or send HTTP requests.
func c20HTTPCall(fn *types.Func) string {
	if fn == nil || fn.Pkg() == nil || fn.Pkg().Path() != "net/http" {
		return ""
	}
	recv := c20Sig(fn).Recv()
	if recv == nil {
		switch fn.Name() {
		case "Get", "Head", "Post", "PostForm":
			return "http." + fn.Name()
		case "NewRequest", "NewRequestWithContext":
			return fn.Name()
		}
		return ""
	}
	switch namedPath(recv.Type()) {
	case "net/http.Client":
		switch fn.Name() {
		case "Do", "Get", "Head", "Post", "PostForm":
			return "Client." + fn.Name()
		}
	case "net/http.Transport", "net/http.RoundTripper":
		if fn.Name() == "RoundTrip" {
			return "RoundTrip"
		}
	}
	return ""
}

func c20H1(r *core.R) {
	cx := c20NewCtx(r)
	if cx == nil {
		return
	}
	eps := cx.endpoints()
	r.Stat("endpoint_methods", len(eps))
	for _, fi := range eps {
		cx.checkOnce(fi)
	}
	for _, fi := range cx.helpers() {
		cx.checkOnce(fi)
	}
	// wrappers
	ws := cx.wrappers()
	r.Stat("package_level_wrappers", len(ws))
	defDS := cx.pk.Types.Scope().Lookup("DefaultDatasource")
	if defDS == nil {
		r.Anchor("osmapi.DefaultDatasource")
	}
	for _, fi := range ws {
		c := "wrapper@" + fi.Obj.Name()
		sig := c20Sig(fi.Obj)
		if len(fi.Decl.Body.List) != 1 {
			r.Unknown(c, fi.Decl.Pos(), "body is not the single statement `return DefaultDatasource.%s(...)`", fi.Obj.Name())
			continue
		}
		ret, ok := fi.Decl.Body.List[0].(*ast.ReturnStmt)
		if !ok || len(ret.Results) != 1 {
			r.Unknown(c, fi.Decl.Pos(), "body is not the single statement `return DefaultDatasource.%s(...)`", fi.Obj.Name())
			continue
		}
		call, ok := ast.Unparen(ret.Results[0]).(*ast.CallExpr)
		if !ok {
			r.Unknown(c, ret.Pos(), "`%s` does not return a method call", src(r.P.Fset, ret))
			continue
		}
		sel, ok := ast.Unparen(call.Fun).(*ast.SelectorExpr)
		fn := callee(cx.info, call)
		switch {
		case !ok || defDS == nil || objOf(cx.info, sel.X) != defDS:
			r.Bad(c, call.Pos(), "`%s` is not a call on the package variable DefaultDatasource: the convenience function does not use the default datasource (client, base URL, limiter)", src(r.P.Fset, call))
			continue
		case !isMethod(fn, cx.dsType, fi.Obj.Name()):
			r.Bad(c, call.Pos(), "`%s` delegates to %s instead of the same-named method (*Datasource).%s: osmapi.%s hits another endpoint", src(r.P.Fset, call), funcName(fn), fi.Obj.Name(), fi.Obj.Name())
			continue
		}
		bad := ""
		if len(call.Args) != sig.Params().Len() {
			bad = fmt.Sprintf("passes %d argument(s) for its %d parameter(s)", len(call.Args), sig.Params().Len())
		} else {
			for i, a := range call.Args {
				if objOf(cx.info, a) != sig.Params().At(i) {
					bad = fmt.Sprintf("argument %d is `%s`, not its own parameter %s", i+1, src(r.P.Fset, a), sig.Params().At(i).Name())
					break
				}
			}
			if bad == "" && sig.Variadic() != call.Ellipsis.IsValid() {
				bad = "the variadic options are not forwarded with `...`"
			}
		}
		if bad != "" {
			r.Bad(c, call.Pos(), "`%s` %s: the wrapper must forward exactly its parameters in order", src(r.P.Fset, call), bad)
			continue
		}
		r.OK(c, call.Pos(), "`return DefaultDatasource.%s(%d parameter(s) in order)`", fi.Obj.Name(), sig.Params().Len())
	}

	// HTTP request creation / sending only inside getFromAPI
	nScanned, nOutside := 0, 0
	seenKinds := map[string]int{}
	scan := func(where string, root ast.Node, inGet bool) {
		nScanned++
		ast.Inspect(root, func(n ast.Node) bool {
			call, ok := n.(*ast.CallExpr)
			if !ok {
				return true
			}
			kind := c20HTTPCall(callee(cx.info, call))
			if kind == "" {
				return true
			}
			c := "http-call@" + where + " " + kind
			if inGet {
				seenKinds[kind]++
				r.OK(c, call.Pos(), "`%s` is inside getFromAPI", src(r.P.Fset, call))
			} else {
				nOutside++
				r.Bad(c, call.Pos(), "`%s` creates or sends an HTTP request outside getFromAPI: it bypasses the rate limiter and the status-to-error mapping and adds a request to the call", src(r.P.Fset, call))
			}
			return true
		})
	}
	for _, fi := range cx.funcs {
		scan(fi.Name(), fi.Decl.Body, fi.Obj == cx.getFn.Obj)
	}
	for _, f := range cx.pk.Syntax {
		for _, d := range f.Decls {
			if gd, ok := d.(*ast.GenDecl); ok && gd.Tok == token.VAR {
				scan("package-level var", gd, false)
			}
		}
	}
	r.Stat("functions_scanned_for_http", nScanned)
	if nOutside == 0 {
		r.OKTrivial("no-http-outside@osmapi", cx.getFn.Decl.Pos(), "%d function bodies and package-level initialisers scanned: no Client.Do/Get/Post/Head, http.Get/Post/Head, NewRequest or RoundTrip call outside getFromAPI", nScanned)
	}
	// getFromAPI itself: Client.Do exactly once on every path to the decode
	c := "do-once@" + cx.getFn.Name()
	isDo := func(call *ast.CallExpr) bool { return c20HTTPCall(callee(cx.info, call)) == "Client.Do" }
	rets, inLoop := c20CountAtReturns(cx.info, cx.getFn.Decl.Body, isDo)
	switch {
	case seenKinds["Client.Do"] == 0:
		r.Bad(c, cx.getFn.Decl.Pos(), "getFromAPI never calls (*http.Client).Do")
	case len(inLoop) > 0:
		r.Bad(c, inLoop[0].Pos(), "`%s` sits in a loop: getFromAPI can send several requests", src(r.P.Fset, inLoop[0]))
	default:
		ok, n := true, 0
		for _, rt := range rets {
			isDecode := false
			ast.Inspect(rt.ret, func(x ast.Node) bool {
				if call, k := x.(*ast.CallExpr); k && isMethod(callee(cx.info, call), "encoding/xml.Decoder", "Decode") {
					isDecode = true
				}
				return true
			})
			if isDecode {
				n++
				if rt.mask != 2 {
					r.Bad(c, rt.ret.Pos(), "the decode return is reached after %s Do call(s)", c20MaskText(rt.mask))
					ok = false
				}
			} else if rt.mask&4 != 0 {
				r.Bad(c, rt.ret.Pos(), "`%s` can be reached after two or more Do calls", src(r.P.Fset, rt.ret))
				ok = false
			}
		}
		if ok && n == 0 {
			r.Unknown(c, cx.getFn.Decl.Pos(), "no return through (*xml.Decoder).Decode found in getFromAPI")
		} else if ok {
			r.OK(c, cx.getFn.Decl.Pos(), "every path to the decode return passes Client.Do exactly once; no other return after more than one; Do is not on a CFG cycle")
		}
	}
}

// ---------------------------------------------------------------------------
// getFromAPI model shared by H2/H3/H4

type c20Get struct {
	cx      *c20Ctx
	fi      *FuncInfo
	g       *cfg.CFG
	dom     map[*cfg.Block]map[*cfg.Block]bool
	par     map[ast.Node]ast.Node
	recv    types.Object
	ctxP    types.Object
	urlP    types.Object
	itemP   types.Object
	do      *ast.CallExpr
	doBlock *cfg.Block
	doIdx   int
	respObj types.Object // variable holding the *http.Response of Do
	afterDo *cfg.Block   // successor taken when Do's error is nil
	newReq  *ast.CallExpr
	reqObj  types.Object
}

func c20NewGet(cx *c20Ctx) *c20Get {
	r := cx.r
	fi := cx.getFn
	sig := c20Sig(fi.Obj)
	gt := &c20Get{cx: cx, fi: fi, recv: sig.Recv(), ctxP: sig.Params().At(0), urlP: sig.Params().At(1), itemP: sig.Params().At(2)}
	gt.g = newCFG(cx.info, fi.Decl.Body)
	gt.dom = dominators(gt.g)
	gt.par = parentsOf(r.P, fi)
	var dos, reqs []*ast.CallExpr
	inspectNoLit(fi.Decl.Body, func(n ast.Node) bool {
		if call, ok := n.(*ast.CallExpr); ok {
			switch c20HTTPCall(callee(cx.info, call)) {
			case "Client.Do":
				dos = append(dos, call)
			case "NewRequest", "NewRequestWithContext":
				reqs = append(reqs, call)
			}
		}
		return true
	})
	if len(dos) != 1 {
		r.Anchor(fmt.Sprintf("exactly one (*http.Client).Do call in getFromAPI (found %d)", len(dos)))
		return nil
	}
	gt.do = dos[0]
	gt.doBlock, gt.doIdx = blockOf(gt.g, gt.do.Pos())
	if gt.doBlock == nil {
		r.Anchor("Client.Do call located in the control-flow graph of getFromAPI")
		return nil
	}
	if len(reqs) == 1 {
		gt.newReq = reqs[0]
		if as, ok := gt.par[gt.newReq].(*ast.AssignStmt); ok && len(as.Lhs) >= 1 {
			gt.reqObj = objOf(cx.info, as.Lhs[0])
		}
	}
	// resp, err := client.Do(...); if err != nil { return err }
	if as, ok := gt.par[gt.do].(*ast.AssignStmt); ok && len(as.Lhs) == 2 && len(as.Rhs) == 1 {
		gt.respObj = objOf(cx.info, as.Lhs[0])
		errObj := objOf(cx.info, as.Lhs[1])
		if c20ErrReturned(cx.info, gt.par, gt.do) && len(gt.doBlock.Succs) == 2 {
			if be, ok := ast.Unparen(lastExpr(gt.doBlock)).(*ast.BinaryExpr); ok && be.Op == token.NEQ && (objOf(cx.info, be.X) == errObj || objOf(cx.info, be.Y) == errObj) {
				gt.afterDo = gt.doBlock.Succs[1]
			}
		}
	}
	return gt
}

// ---------------------------------------------------------------------------
// H2 limiter first

func c20H2(r *core.R) {
	cx := c20NewCtx(r)
	if cx == nil {
		return
	}
	gt := c20NewGet(cx)
	if gt == nil {
		return
	}
	info := cx.info
	c1 := "wait-before-do@" + gt.fi.Name()
	c2 := "wait-error@" + gt.fi.Name()
	// limiter test: <recv>.Limiter != nil / == nil
	isLimiter := func(e ast.Expr) bool {
		f := fieldOf(info, e)
		return f != nil && f.Name() == "Limiter" && f.Exported() && rootObj(info, e) == gt.recv
	}
	type test struct {
		b      *cfg.Block
		nonNil *cfg.Block
		expr   ast.Expr
		lim    ast.Expr
	}
	var tests []test
	for _, b := range gt.g.Blocks {
		if !b.Live || len(b.Succs) != 2 {
			continue
		}
		be, ok := ast.Unparen(lastExpr(b)).(*ast.BinaryExpr)
		if !ok || (be.Op != token.NEQ && be.Op != token.EQL) {
			continue
		}
		var lim ast.Expr
		switch {
		case isLimiter(be.X) && c20IsNil(info, be.Y):
			lim = be.X
		case isLimiter(be.Y) && c20IsNil(info, be.X):
			lim = be.Y
		default:
			continue
		}
		t := test{b: b, expr: be, lim: lim, nonNil: b.Succs[0]}
		if be.Op == token.EQL {
			t.nonNil = b.Succs[1]
		}
		tests = append(tests, t)
	}
	var waits []*ast.CallExpr
	inspectNoLit(gt.fi.Decl.Body, func(n ast.Node) bool {
		call, ok := n.(*ast.CallExpr)
		if !ok || len(call.Args) != 1 {
			return true
		}
		fn := callee(info, call)
		sel, ok := ast.Unparen(call.Fun).(*ast.SelectorExpr)
		if ok && fn != nil && fn.Name() == "Wait" && isLimiter(sel.X) {
			waits = append(waits, call)
		}
		return true
	})
	if len(tests) == 0 {
		r.Bad(c1, gt.do.Pos(), "getFromAPI has no `%s.Limiter != nil` test before `%s`: with a limiter configured the request is sent without waiting (or a nil limiter is dereferenced)", gt.recv.Name(), src(r.P.Fset, gt.do))
		return
	}
	var okWait *ast.CallExpr
	why := ""
	for _, t := range tests {
		if t.b != gt.doBlock && !gt.dom[gt.doBlock][t.b] {
			why = fmt.Sprintf("the test `%s` does not dominate the Do call: some path reaches the request without it", src(r.P.Fset, t.expr))
			continue
		}
		if len(waits) == 0 {
			why = fmt.Sprintf("no `%s.Wait(ctx)` call on the non-nil side of `%s`: the request is sent without waiting on the configured rate limiter", src(r.P.Fset, t.lim), src(r.P.Fset, t.expr))
			continue
		}
		for _, w := range waits {
			wb, wi := blockOf(gt.g, w.Pos())
			if wb == nil {
				continue
			}
			if objOf(info, w.Args[0]) != gt.ctxP {
				why = fmt.Sprintf("`%s` does not wait on the call's context parameter %s", src(r.P.Fset, w), gt.ctxP.Name())
				continue
			}
			side := reachableFrom([]*cfg.Block{t.nonNil}, nil)
			if !side[wb] {
				why = fmt.Sprintf("`%s` is not on the non-nil side of `%s`", src(r.P.Fset, w), src(r.P.Fset, t.expr))
				continue
			}
			skip := reachableFrom([]*cfg.Block{t.nonNil}, func(b *cfg.Block) bool { return b == wb })
			switch {
			case wb == gt.doBlock && wi > gt.doIdx:
				why = fmt.Sprintf("`%s` comes after the Do call", src(r.P.Fset, w))
				continue
			case wb != gt.doBlock && skip[gt.doBlock]:
				why = fmt.Sprintf("a path from the non-nil side of `%s` reaches `%s` without passing `%s`", src(r.P.Fset, t.expr), src(r.P.Fset, gt.do), src(r.P.Fset, w))
				continue
			case wb != gt.doBlock && !reachableFrom([]*cfg.Block{wb}, nil)[gt.doBlock]:
				why = fmt.Sprintf("`%s` does not precede the Do call", src(r.P.Fset, w))
				continue
			}
			okWait = w
			r.OK(c1, w.Pos(), "`%s` dominates `%s`; every path from its non-nil edge to the request passes `%s`", src(r.P.Fset, t.expr), src(r.P.Fset, gt.do), src(r.P.Fset, w))
			break
		}
		if okWait != nil {
			break
		}
	}
	if okWait == nil {
		r.Bad(c1, gt.do.Pos(), "%s", why)
		if len(waits) > 0 {
			okWait = waits[0]
		}
	}
	if okWait == nil {
		r.Bad(c2, gt.do.Pos(), "no Limiter.Wait call whose error could be returned")
		return
	}
	if c20ErrReturned(info, gt.par, okWait) {
		r.OK(c2, okWait.Pos(), "the error of `%s` is tested `!= nil` right after the call and returned unchanged, so a cancelled or failed wait sends no request", src(r.P.Fset, okWait))
	} else {
		r.Bad(c2, okWait.Pos(), "the error of `%s` is not returned when non-nil: after a failed or cancelled wait the request is sent anyway", src(r.P.Fset, okWait))
	}
}

// ---------------------------------------------------------------------------
// H3 status table

// c20EvalStatusCond evaluates a condition for a concrete status value.
// known=false: the condition does not depend (only) on the status code.
func (gt *c20Get) evalStatusCond(e ast.Expr, s int64) (val, known bool) {
	info := gt.cx.info
	e = ast.Unparen(e)
	switch x := e.(type) {
	case *ast.UnaryExpr:
		if x.Op == token.NOT {
			v, k := gt.evalStatusCond(x.X, s)
			return !v, k
		}
	case *ast.BinaryExpr:
		switch x.Op {
		case token.LAND, token.LOR:
			a, ka := gt.evalStatusCond(x.X, s)
			b, kb := gt.evalStatusCond(x.Y, s)
			if x.Op == token.LAND {
				if (ka && !a) || (kb && !b) {
					return false, true
				}
				return a && b, ka && kb
			}
			if (ka && a) || (kb && b) {
				return true, true
			}
			return a || b, ka && kb
		case token.EQL, token.NEQ, token.LSS, token.LEQ, token.GTR, token.GEQ:
			var c int64
			op := x.Op
			if gt.isStatus(x.X) {
				v, ok := constInt(info, x.Y)
				if !ok {
					return false, false
				}
				c = v
			} else if gt.isStatus(x.Y) {
				v, ok := constInt(info, x.X)
				if !ok {
					return false, false
				}
				c = v
				// mirror: c op s  ==  s op' c
				switch op {
				case token.LSS:
					op = token.GTR
				case token.LEQ:
					op = token.GEQ
				case token.GTR:
					op = token.LSS
				case token.GEQ:
					op = token.LEQ
				}
			} else {
				return false, false
			}
			switch op {
			case token.EQL:
				return s == c, true
			case token.NEQ:
				return s != c, true
			case token.LSS:
				return s < c, true
			case token.LEQ:
				return s <= c, true
			case token.GTR:
				return s > c, true
			case token.GEQ:
				return s >= c, true
			}
		}
	}
	return false, false
}

// isStatus: <resp>.StatusCode of the response returned by Do.
func (gt *c20Get) isStatus(e ast.Expr) bool {
	f := fieldOf(gt.cx.info, e)
	if f == nil || f.Name() != "StatusCode" || f.Pkg() == nil || f.Pkg().Path() != "net/http" {
		return false
	}
	return rootObj(gt.cx.info, e) == gt.respObj
}

type c20Outcome struct {
	kind string // "err:<Type>", "decode", "nil", "other"
	ret  *ast.ReturnStmt
	text string
}

// outcomes runs the CFG after a successful Do for status s.
func (gt *c20Get) outcomes(s int64) (outs []c20Outcome, ambiguous string) {
	info := gt.cx.info
	fset := gt.cx.r.P.Fset
	seen := map[*cfg.Block]bool{}
	var walk func(b *cfg.Block)
	walk = func(b *cfg.Block) {
		if seen[b] {
			return
		}
		seen[b] = true
		for _, n := range b.Nodes {
			if ret, ok := n.(*ast.ReturnStmt); ok {
				o := c20Outcome{kind: "other", ret: ret, text: src(fset, ret)}
				if len(ret.Results) == 1 {
					res := ast.Unparen(ret.Results[0])
					if c20IsNil(info, res) {
						o.kind = "nil"
					} else if ue, ok := res.(*ast.UnaryExpr); ok && ue.Op == token.AND {
						if cl, ok := ast.Unparen(ue.X).(*ast.CompositeLit); ok {
							if nt, ok := info.TypeOf(cl).(*types.Named); ok && nt.Obj().Pkg() == gt.cx.pk.Types {
								o.kind = "err:" + nt.Obj().Name()
							}
						}
					} else if call, ok := res.(*ast.CallExpr); ok && isMethod(callee(info, call), "encoding/xml.Decoder", "Decode") {
						o.kind = "decode"
					}
				}
				outs = append(outs, o)
				return
			}
		}
		switch len(b.Succs) {
		case 0:
			outs = append(outs, c20Outcome{kind: "other", text: "no return (panic or end of function)"})
		case 1:
			walk(b.Succs[0])
		case 2:
			cond := lastExpr(b)
			if cond != nil {
				if v, known := gt.evalStatusCond(cond, s); known {
					if v {
						walk(b.Succs[0])
					} else {
						walk(b.Succs[1])
					}
					return
				}
			}
			if ambiguous == "" {
				ambiguous = "branch at " + gt.cx.r.P.Rel(b.Nodes[len(b.Nodes)-1].Pos()) + " `" + src(fset, b.Nodes[len(b.Nodes)-1]) + "` is not a comparison of the response's StatusCode with constants"
			}
			walk(b.Succs[0])
			walk(b.Succs[1])
		default:
			if ambiguous == "" {
				ambiguous = "multi-way branch (switch/select) after Do; accepted idiom: if-chain on resp.StatusCode"
			}
			for _, sc := range b.Succs {
				walk(sc)
			}
		}
	}
	walk(gt.afterDo)
	return
}

func c20H3(r *core.R) {
	cx := c20NewCtx(r)
	if cx == nil {
		return
	}
	tab := c20LoadTable(r)
	gt := c20NewGet(cx)
	if gt == nil || tab == nil {
		return
	}
	info := cx.info
	if gt.afterDo == nil || gt.respObj == nil {
		r.Unknown("status table", gt.do.Pos(), "`%s` is not of the form `resp, err := client.Do(..); if err != nil { return err }`: the point where the response is available was not identified", src(r.P.Fset, gt.par[gt.do]))
	} else {
		want := func(s int64) string {
			if s == tab.OKStatus {
				return "decode"
			}
			if t, ok := tab.Statuses[strconv.FormatInt(s, 10)]; ok {
				return "err:" + t
			}
			return "err:" + tab.OtherStatus
		}
		type verdict struct {
			bad, unk string
			pos      token.Pos
			proof    string
		}
		res := map[string]*verdict{}
		key := func(s int64) string {
			if s == tab.OKStatus {
				return fmt.Sprintf("status %d", s)
			}
			if _, ok := tab.Statuses[strconv.FormatInt(s, 10)]; ok {
				return fmt.Sprintf("status %d", s)
			}
			return "status other"
		}
		nOther := 0
		for s := int64(100); s <= 599; s++ {
			k := key(s)
			v := res[k]
			if v == nil {
				v = &verdict{pos: gt.do.Pos()}
				res[k] = v
			}
			if k == "status other" {
				nOther++
			}
			if v.bad != "" || v.unk != "" {
				continue
			}
			outs, amb := gt.outcomes(s)
			w := want(s)
			okAll := len(outs) > 0
			for _, o := range outs {
				if o.kind != w {
					okAll = false
				}
			}
			if okAll {
				if outs[0].ret != nil {
					v.pos = outs[0].ret.Pos()
				}
				if v.proof == "" {
					v.proof = fmt.Sprintf("the only return reachable after a successful Do with StatusCode %d is `%s`", s, outs[0].text)
				}
				// the generic error must carry the code actually received
				if k == "status other" && outs[0].ret != nil && !usesField(info, outs[0].ret, c20StatusField(gt)) {
					v.bad = fmt.Sprintf("`%s` does not record resp.StatusCode in the error", outs[0].text)
				}
				continue
			}
			if amb != "" && len(outs) > 1 {
				v.unk = fmt.Sprintf("for StatusCode %d the outcome could not be decided: %s", s, amb)
				continue
			}
			var got []string
			for _, o := range outs {
				got = append(got, "`"+o.text+"`")
				if o.ret != nil {
					v.pos = o.ret.Pos()
				}
			}
			what := strings.TrimPrefix(w, "err:")
			if w == "decode" {
				what = "the XML decode of the body"
			} else {
				what = "&" + what + "{...}"
			}
			v.bad = fmt.Sprintf("with StatusCode %d getFromAPI ends in %s; the API contract requires %s", s, strings.Join(got, " / "), what)
			if w != "decode" {
				for _, o := range outs {
					if o.kind == "decode" || o.kind == "nil" {
						v.bad += " (a non-200 response is decoded/accepted: partial or error-page data is returned as success)"
						break
					}
				}
			}
		}
		var keys []string
		for k := range res {
			keys = append(keys, k)
		}
		sort.Strings(keys)
		for _, k := range keys {
			v := res[k]
			switch {
			case v.unk != "":
				r.Unknown(k, v.pos, "%s", v.unk)
			case v.bad != "":
				r.Bad(k, v.pos, "%s", v.bad)
			case k == "status other":
				r.OK(k, v.pos, "all %d other status values in 100..599: %s (abstract execution of the CFG per value)", nOther, v.proof)
			default:
				r.OK(k, v.pos, "%s", v.proof)
			}
		}
		// decode target
		c := "decode target"
		var dec *ast.CallExpr
		inspectNoLit(gt.fi.Decl.Body, func(n ast.Node) bool {
			if call, ok := n.(*ast.CallExpr); ok && isMethod(callee(info, call), "encoding/xml.Decoder", "Decode") {
				dec = call
			}
			return true
		})
		switch {
		case dec == nil:
			r.Bad(c, gt.fi.Decl.Pos(), "getFromAPI never decodes the response body with encoding/xml")
		case len(dec.Args) != 1 || objOf(info, dec.Args[0]) != gt.itemP:
			r.Bad(c, dec.Pos(), "`%s` does not decode into the caller's item parameter %s", src(r.P.Fset, dec), gt.itemP.Name())
		default:
			okBody := false
			if sel, ok := ast.Unparen(dec.Fun).(*ast.SelectorExpr); ok {
				if nd, ok := ast.Unparen(sel.X).(*ast.CallExpr); ok && isPkgFunc(callee(info, nd), "encoding/xml", "NewDecoder") && len(nd.Args) == 1 {
					if f := fieldOf(info, nd.Args[0]); f != nil && f.Name() == "Body" && rootObj(info, nd.Args[0]) == gt.respObj {
						okBody = true
					}
				}
			}
			if okBody {
				r.OK(c, dec.Pos(), "`%s` reads the Body of the response returned by Do into parameter %s", src(r.P.Fset, dec), gt.itemP.Name())
			} else {
				r.Bad(c, dec.Pos(), "`%s` does not read the Body of the response returned by Do", src(r.P.Fset, dec))
			}
		}
	}

	// NotFound
	c20CheckNotFound(cx, gt, tab)

	// request method
	c := "request method@" + gt.fi.Name()
	switch {
	case gt.newReq == nil:
		r.Unknown(c, gt.do.Pos(), "exactly one http.NewRequest/NewRequestWithContext call expected in getFromAPI")
	default:
		mi := 0
		if callee(info, gt.newReq).Name() == "NewRequestWithContext" {
			mi = 1
		}
		m, ok := constString(info, gt.newReq.Args[mi])
		arg := ast.Unparen(gt.do.Args[0])
		// Do(req) or Do(req.WithContext(ctx))
		fromReq := objOf(info, arg) == gt.reqObj && gt.reqObj != nil
		if call, isCall := arg.(*ast.CallExpr); isCall && isMethod(callee(info, call), "net/http.Request", "WithContext") {
			if sel, k := ast.Unparen(call.Fun).(*ast.SelectorExpr); k && objOf(info, sel.X) == gt.reqObj && gt.reqObj != nil {
				fromReq = true
			}
		}
		switch {
		case !ok:
			r.Unknown(c, gt.newReq.Pos(), "the request method `%s` is not a constant", src(r.P.Fset, gt.newReq.Args[mi]))
		case m != tab.HTTPMethod:
			r.Bad(c, gt.newReq.Pos(), "`%s` creates a %q request; every read call of API v0.6 used here is a %s", src(r.P.Fset, gt.newReq), m, tab.HTTPMethod)
		case !fromReq:
			r.Bad(c, gt.do.Pos(), "`%s` does not send the request created by `%s`", src(r.P.Fset, gt.do), src(r.P.Fset, gt.newReq))
		default:
			r.OK(c, gt.newReq.Pos(), "`%s` (constant method %q) is the request passed to `%s`", src(r.P.Fset, gt.newReq), m, src(r.P.Fset, gt.do))
		}
	}

	// every caller returns getFromAPI's error unchanged
	for _, fi := range cx.funcs {
		if fi.Obj == cx.getFn.Obj || c20Sig(fi.Obj).Recv() == nil {
			continue
		}
		calls, lit := cx.reqCalls(fi)
		par := parentsOf(r.P, fi)
		for _, call := range calls {
			c := "propagate@" + fi.Name()
			if lit {
				r.Unknown(c, call.Pos(), "request call inside a function literal")
				continue
			}
			if c20ErrReturned(info, par, call) {
				r.OK(c, call.Pos(), "the error of `%s` is returned unchanged when non-nil (typed status errors reach the caller, no partial data)", src(r.P.Fset, call.Fun))
			} else {
				r.Bad(c, call.Pos(), "the error of `%s` is not returned unchanged when non-nil: a 404/403/410/414/other status would yield a (partial or empty) result instead of its typed error", src(r.P.Fset, call))
			}
		}
	}
}

func c20StatusField(gt *c20Get) *types.Var {
	if gt.respObj == nil {
		return nil
	}
	t := gt.respObj.Type()
	if pt, ok := t.(*types.Pointer); ok {
		t = pt.Elem()
	}
	st, _ := t.Underlying().(*types.Struct)
	if st == nil {
		return nil
	}
	for i := 0; i < st.NumFields(); i++ {
		if st.Field(i).Name() == "StatusCode" {
			return st.Field(i)
		}
	}
	return nil
}

func c20CheckNotFound(cx *c20Ctx, gt *c20Get, tab *c20Table) {
	r := cx.r
	info := cx.info
	fi := findFunc(cx.pk, "(*Datasource).NotFound")
	if fi == nil {
		r.Anchor("(*Datasource).NotFound")
		return
	}
	c := "NotFound()"
	sig := c20Sig(fi.Obj)
	if sig.Params().Len() != 1 {
		r.Anchor("(*Datasource).NotFound(err error)")
		return
	}
	errP := sig.Params().At(0)
	nt, _ := structType(cx.pk, tab.NotFoundType)
	if nt == nil {
		r.Anchor("osmapi." + tab.NotFoundType)
		return
	}
	wantT := types.NewPointer(nt)
	var asserts []*ast.TypeAssertExpr
	unknownForm := ""
	ast.Inspect(fi.Decl.Body, func(n ast.Node) bool {
		switch x := n.(type) {
		case *ast.TypeAssertExpr:
			asserts = append(asserts, x)
		case *ast.TypeSwitchStmt:
			unknownForm = "type switch"
		case *ast.CallExpr:
			if fn := callee(info, x); isPkgFunc(fn, "errors", "As") || isPkgFunc(fn, "errors", "Is") {
				unknownForm = "errors.As/Is"
			}
		}
		return true
	})
	if unknownForm != "" || len(asserts) != 1 {
		r.Unknown(c, fi.Decl.Pos(), "NotFound is not the enumerated idiom `_, ok := err.(*%s); return ok` (%d type assertion(s) %s)", tab.NotFoundType, len(asserts), unknownForm)
		return
	}
	ta := asserts[0]
	if objOf(info, ta.X) != errP {
		r.Bad(c, ta.Pos(), "`%s` does not test the error parameter", src(r.P.Fset, ta))
		return
	}
	if ta.Type == nil || !types.Identical(info.TypeOf(ta.Type), wantT) {
		r.Bad(c, ta.Pos(), "`%s` asserts %s; the not-found test must be true exactly for *%s, the type getFromAPI returns for 404 (it would be true for another status, or never)", src(r.P.Fset, ta), src(r.P.Fset, ta.Type), tab.NotFoundType)
		return
	}
	as, ok := parentsOf(r.P, fi)[ta].(*ast.AssignStmt)
	if !ok || len(as.Lhs) != 2 {
		r.Unknown(c, ta.Pos(), "the assertion is not of the comma-ok form")
		return
	}
	okObj := objOf(info, as.Lhs[1])
	nret := 0
	bad := ""
	ast.Inspect(fi.Decl.Body, func(n ast.Node) bool {
		ret, isRet := n.(*ast.ReturnStmt)
		if !isRet || len(ret.Results) != 1 {
			return true
		}
		nret++
		if tv := info.Types[ret.Results[0]]; tv.Value != nil {
			if tv.Value.String() != "false" {
				bad = "`" + src(r.P.Fset, ret) + "` answers true without the type test"
			}
			return true
		}
		if objOf(info, ret.Results[0]) != okObj || okObj == nil || ret.Pos() < as.Pos() {
			bad = "`" + src(r.P.Fset, ret) + "` does not return the result of the type assertion"
		}
		return true
	})
	if bad != "" || nret == 0 {
		r.Bad(c, fi.Decl.Pos(), "NotFound: %s", bad)
		return
	}
	r.OK(c, ta.Pos(), "returns the ok of `%s` (constant false otherwise); *%s is the type returned for status 404 only (see status rows)", src(r.P.Fset, ta), tab.NotFoundType)
}

// ---------------------------------------------------------------------------
// symbolic strings

// c20Hole is a position of a built string filled from a function input.
type c20Hole struct {
	fn    string // "", "feature", "notes", "csv", "escape", "utc:<layout>", "local:<layout>"
	base  bool   // the datasource's base URL
	param int    // index in the signature; -1 = receiver
	pname string
	field string
	verb  string // non-canonical formatting directive ("" when canonical for the type)
}

type c20Tok struct {
	lit  string
	hole *c20Hole
	opt  c20Sym // optional group (emitted when the option string inside is non-empty)
}

type c20Sym []c20Tok

func c20Lit(s string) c20Sym { return c20Sym{{lit: s}} }

// render prints the symbolic string in the notation of tables/api06.json; roles maps parameter index to role name.
func (s c20Sym) render(roles map[int]string) string {
	var b strings.Builder
	for _, t := range s {
		switch {
		case t.opt != nil:
			b.WriteString("[" + t.opt.render(roles) + "]")
		case t.hole != nil:
			h := t.hole
			b.WriteString("{")
			if h.base {
				b.WriteString("base")
			} else {
				if h.fn != "" {
					b.WriteString(h.fn + ":")
				}
				switch {
				case h.param == -1:
					b.WriteString("recv")
				case roles[h.param] != "":
					b.WriteString(roles[h.param])
				default:
					b.WriteString(fmt.Sprintf("?param#%d(%s)", h.param, h.pname))
				}
				if h.field != "" {
					b.WriteString("." + h.field)
				}
			}
			if h.verb != "" {
				b.WriteString(":" + h.verb)
			}
			b.WriteString("}")
		default:
			b.WriteString(t.lit)
		}
	}
	return b.String()
}

func (s c20Sym) holes() []*c20Hole {
	var out []*c20Hole
	for _, t := range s {
		if t.hole != nil {
			out = append(out, t.hole)
		}
		if t.opt != nil {
			out = append(out, t.opt.holes()...)
		}
	}
	return out
}

type c20FmtPart struct {
	lit  string
	verb string // full directive, e.g. "%d", "%05.2f"
}

// c20ParseFormat splits a fmt format string into literals and directives.
func c20ParseFormat(f string) ([]c20FmtPart, string) {
	var parts []c20FmtPart
	var lit strings.Builder
	flush := func() {
		if lit.Len() > 0 {
			parts = append(parts, c20FmtPart{lit: lit.String()})
			lit.Reset()
		}
	}
	for i := 0; i < len(f); i++ {
		if f[i] != '%' {
			lit.WriteByte(f[i])
			continue
		}
		if i+1 < len(f) && f[i+1] == '%' {
			lit.WriteByte('%')
			i++
			continue
		}
		j := i + 1
		for j < len(f) && strings.IndexByte("+-# 0123456789.", f[j]) >= 0 {
			j++
		}
		if j >= len(f) {
			return nil, "format string ends inside a directive"
		}
		if f[j] == '[' || f[j] == '*' {
			return nil, "explicit argument indexes / '*' widths are not among the enumerated idioms"
		}
		flush()
		parts = append(parts, c20FmtPart{verb: f[i : j+1]})
		i = j
	}
	flush()
	return parts, ""
}

type c20Assign struct {
	stmt  ast.Node
	tok   token.Token // DEFINE, ASSIGN, ADD_ASSIGN..., VAR, RANGE, INC, AND (address taken)
	rhs   ast.Expr    // corresponding RHS, or the multi-valued call
	multi bool
	idx   int
}

type c20Eval struct {
	cx    *c20Ctx
	info  *types.Info
	fi    *FuncInfo
	par   map[ast.Node]ast.Node
	recv  types.Object
	sep   string // option separator of the table
	why   string
	depth int
}

func c20NewEval(cx *c20Ctx, fi *FuncInfo, sep string) *c20Eval {
	return &c20Eval{cx: cx, info: cx.info, fi: fi, par: parentsOf(cx.r.P, fi), recv: c20Sig(fi.Obj).Recv(), sep: sep}
}

func (ev *c20Eval) fail(format string, args ...interface{}) (c20Sym, bool) {
	if ev.why == "" {
		ev.why = fmt.Sprintf(format, args...)
	}
	return nil, false
}

func (ev *c20Eval) src(n ast.Node) string { return src(ev.cx.r.P.Fset, n) }

// assigns lists every definition/assignment/address-taking of obj in the function, in source order.
func (ev *c20Eval) assigns(obj types.Object) []c20Assign {
	var out []c20Assign
	ast.Inspect(ev.fi.Decl.Body, func(n ast.Node) bool {
		switch x := n.(type) {
		case *ast.AssignStmt:
			for i, l := range x.Lhs {
				if objOf(ev.info, l) != obj {
					continue
				}
				a := c20Assign{stmt: x, tok: x.Tok, idx: i}
				if len(x.Rhs) == len(x.Lhs) {
					a.rhs = x.Rhs[i]
				} else {
					a.rhs, a.multi = x.Rhs[0], true
				}
				out = append(out, a)
			}
		case *ast.ValueSpec:
			for i, nm := range x.Names {
				if ev.info.Defs[nm] == obj {
					a := c20Assign{stmt: x, tok: token.VAR, idx: i}
					if i < len(x.Values) {
						a.rhs = x.Values[i]
					}
					out = append(out, a)
				}
			}
		case *ast.RangeStmt:
			if (x.Key != nil && objOf(ev.info, x.Key) == obj) || (x.Value != nil && objOf(ev.info, x.Value) == obj) {
				out = append(out, c20Assign{stmt: x, tok: token.RANGE})
			}
		case *ast.IncDecStmt:
			if objOf(ev.info, x.X) == obj {
				out = append(out, c20Assign{stmt: x, tok: token.INC})
			}
		case *ast.UnaryExpr:
			if x.Op == token.AND && objOf(ev.info, x.X) == obj {
				out = append(out, c20Assign{stmt: x, tok: token.AND})
			}
		}
		return true
	})
	return out
}

func (ev *c20Eval) topLevel(s ast.Node) bool { return ev.par[s] == ast.Node(ev.fi.Decl.Body) }

// leaf resolves an argument that is a function input: parameter, parameter.Field, receiver.Field,
// possibly under a value-preserving int64 conversion.
func (ev *c20Eval) leaf(e ast.Expr) *c20Hole {
	e = ast.Unparen(e)
	if call, ok := e.(*ast.CallExpr); ok && len(call.Args) == 1 {
		if tv := ev.info.Types[call.Fun]; tv.IsType() {
			if b, ok := tv.Type.Underlying().(*types.Basic); ok && b.Kind() == types.Int64 {
				if ab, ok := ev.info.TypeOf(call.Args[0]).Underlying().(*types.Basic); ok && ab.Info()&types.IsInteger != 0 {
					return ev.leaf(call.Args[0])
				}
			}
		}
		return nil
	}
	if id, ok := e.(*ast.Ident); ok {
		o := objOf(ev.info, id)
		if i := c20ParamIndex(ev.fi.Obj, o); i >= 0 {
			return &c20Hole{param: i, pname: o.Name()}
		}
		return nil
	}
	if sel, ok := e.(*ast.SelectorExpr); ok {
		f := fieldOf(ev.info, sel)
		if f == nil {
			return nil
		}
		o := objOf(ev.info, sel.X)
		if o == nil {
			return nil
		}
		if o == ev.recv {
			return &c20Hole{param: -1, pname: o.Name(), field: f.Name()}
		}
		if i := c20ParamIndex(ev.fi.Obj, o); i >= 0 {
			return &c20Hole{param: i, pname: o.Name(), field: f.Name()}
		}
	}
	return nil
}

// str evaluates a string-typed expression symbolically.
func (ev *c20Eval) str(e ast.Expr) (c20Sym, bool) {
	ev.depth++
	defer func() { ev.depth-- }()
	if ev.depth > 20 {
		return ev.fail("expression nesting too deep")
	}
	e = ast.Unparen(e)
	if s, ok := constString(ev.info, e); ok {
		return c20Lit(s), true
	}
	switch x := e.(type) {
	case *ast.BinaryExpr:
		if x.Op != token.ADD {
			break
		}
		a, ok := ev.str(x.X)
		if !ok {
			return nil, false
		}
		b, ok := ev.str(x.Y)
		if !ok {
			return nil, false
		}
		return append(append(c20Sym{}, a...), b...), true
	case *ast.Ident:
		o := objOf(ev.info, x)
		if o == nil {
			break
		}
		if b, ok := o.Type().Underlying().(*types.Basic); !ok || b.Info()&types.IsString == 0 {
			return ev.fail("`%s` is not a string", x.Name)
		}
		if h := ev.leaf(x); h != nil {
			return c20Sym{{hole: h}}, true
		}
		if _, ok := o.(*types.Var); ok && o.Parent() != ev.cx.pk.Types.Scope() {
			return ev.local(o, x)
		}
	case *ast.SelectorExpr:
		if h := ev.leaf(x); h != nil {
			if b, ok := ev.info.TypeOf(x).Underlying().(*types.Basic); ok && b.Info()&types.IsString != 0 {
				return c20Sym{{hole: h}}, true
			}
		}
	case *ast.CallExpr:
		return ev.call(x)
	}
	return ev.fail("`%s` is not among the enumerated string-building idioms (constants, +, fmt.Sprintf, baseURL(), featureOptions, strings.Join of an option list, string(id list), url.QueryEscape, parameters)", ev.src(e))
}

func (ev *c20Eval) call(x *ast.CallExpr) (c20Sym, bool) {
	fn := callee(ev.info, x)
	switch {
	case isPkgFunc(fn, "fmt", "Sprintf"):
		return ev.sprintf(x)
	case isMethod(fn, ev.cx.dsType, "baseURL") && len(x.Args) == 0:
		if sel, ok := ast.Unparen(x.Fun).(*ast.SelectorExpr); ok && objOf(ev.info, sel.X) == ev.recv && ev.recv != nil {
			return c20Sym{{hole: &c20Hole{base: true}}}, true
		}
		return ev.fail("`%s` takes the base URL of another datasource than the receiver", ev.src(x))
	case isPkgFunc(fn, "net/url", "QueryEscape") && len(x.Args) == 1:
		in, ok := ev.str(x.Args[0])
		if !ok {
			return nil, false
		}
		if len(in) != 1 || in[0].hole == nil || in[0].hole.fn != "" || in[0].hole.base {
			return ev.fail("`%s` escapes something other than a plain parameter", ev.src(x))
		}
		h := *in[0].hole
		h.fn = "escape"
		return c20Sym{{hole: &h}}, true
	case isPkgFunc(fn, "strings", "Join") && len(x.Args) == 2:
		return ev.join(x)
	case isMethod(fn, "time.Time", "Format") && len(x.Args) == 1:
		layout, ok := constString(ev.info, x.Args[0])
		if !ok {
			return ev.fail("time layout `%s` is not a constant", ev.src(x.Args[0]))
		}
		sel := ast.Unparen(x.Fun).(*ast.SelectorExpr)
		zone := "local"
		inner := ast.Unparen(sel.X)
		if c2, ok := inner.(*ast.CallExpr); ok && isMethod(callee(ev.info, c2), "time.Time", "UTC") {
			zone = "utc"
			inner = ast.Unparen(c2.Fun).(*ast.SelectorExpr).X
		}
		h := ev.leaf(inner)
		if h == nil {
			return ev.fail("`%s` formats something other than a parameter/receiver field", ev.src(x))
		}
		h.fn = zone + ":" + layout
		return c20Sym{{hole: h}}, true
	}
	if tv := ev.info.Types[x.Fun]; tv.IsType() && len(x.Args) == 1 {
		if b, ok := tv.Type.Underlying().(*types.Basic); ok && b.Info()&types.IsString != 0 {
			if sl, ok := ev.info.TypeOf(x.Args[0]).Underlying().(*types.Slice); ok {
				if eb, ok := sl.Elem().Underlying().(*types.Basic); ok && eb.Kind() == types.Uint8 {
					return ev.csv(x.Args[0])
				}
			}
			if ab, ok := ev.info.TypeOf(x.Args[0]).Underlying().(*types.Basic); ok && ab.Info()&types.IsString != 0 {
				return ev.str(x.Args[0])
			}
		}
	}
	return ev.fail("call `%s` is not among the enumerated string-building idioms", ev.src(x))
}

func (ev *c20Eval) sprintf(x *ast.CallExpr) (c20Sym, bool) {
	if len(x.Args) == 0 || x.Ellipsis.IsValid() {
		return ev.fail("`%s`: variadic spread in Sprintf", ev.src(x))
	}
	f, ok := constString(ev.info, x.Args[0])
	if !ok {
		return ev.fail("format `%s` is not a constant", ev.src(x.Args[0]))
	}
	parts, perr := c20ParseFormat(f)
	if perr != "" {
		return ev.fail("format %q: %s", f, perr)
	}
	args := x.Args[1:]
	var out c20Sym
	k := 0
	for _, p := range parts {
		if p.verb == "" {
			out = append(out, c20Tok{lit: p.lit})
			continue
		}
		if k >= len(args) {
			return ev.fail("format %q has more directives than arguments", f)
		}
		a := args[k]
		k++
		bt, _ := ev.info.TypeOf(a).Underlying().(*types.Basic)
		switch {
		case bt != nil && bt.Info()&types.IsString != 0:
			if p.verb != "%s" && p.verb != "%v" {
				return ev.fail("string argument `%s` is formatted with %s (not verbatim)", ev.src(a), p.verb)
			}
			s, ok := ev.str(a)
			if !ok {
				return nil, false
			}
			out = append(out, s...)
		case bt != nil && bt.Info()&(types.IsInteger|types.IsFloat) != 0:
			h := ev.leaf(a)
			if h == nil {
				return ev.fail("numeric argument `%s` is not a parameter, a field of a parameter or of the receiver", ev.src(a))
			}
			canon := "%d"
			if bt.Info()&types.IsFloat != 0 {
				canon = "%f"
			}
			if p.verb != canon {
				h.verb = p.verb
			}
			out = append(out, c20Tok{hole: h})
		default:
			return ev.fail("argument `%s` of type %s is neither string nor number", ev.src(a), ev.info.TypeOf(a))
		}
	}
	if k != len(args) {
		return ev.fail("format %q has %d directive(s) for %d argument(s): fmt appends %%!(EXTRA ...) to the URL", f, k, len(args))
	}
	return out, true
}

// nonEmptyTest recognises `len(V) > 0`, `len(V) != 0`, `V != ""` and returns V.
func (ev *c20Eval) nonEmptyTest(cond ast.Expr) ast.Expr {
	be, ok := ast.Unparen(cond).(*ast.BinaryExpr)
	if !ok {
		return nil
	}
	if la := lenCallArg(ev.info, be.X); la != nil {
		if v, ok := constInt(ev.info, be.Y); ok && v == 0 && (be.Op == token.GTR || be.Op == token.NEQ) {
			return la
		}
		return nil
	}
	if s, ok := constString(ev.info, be.Y); ok && s == "" && be.Op == token.NEQ {
		return be.X
	}
	return nil
}

// local evaluates a local string variable at a use.
//
//	v := E                                   (single assignment)
//	v, err := featureOptions(opts); if err != nil { return ..., err }
//	v := E; if <V non-empty> { v += lit + V }   (top-level statements of the function)
func (ev *c20Eval) local(o types.Object, use *ast.Ident) (c20Sym, bool) {
	as := ev.assigns(o)
	if len(as) == 0 {
		return ev.fail("no assignment to %s found", o.Name())
	}
	for _, a := range as {
		if a.tok == token.AND || a.tok == token.RANGE || a.tok == token.INC {
			return ev.fail("%s is a loop variable or has its address taken", o.Name())
		}
	}
	first := as[0]
	if first.tok != token.DEFINE || first.rhs == nil || first.stmt.Pos() > use.Pos() {
		return ev.fail("%s is not introduced by `%s := ...` before its use", o.Name(), o.Name())
	}
	var sym c20Sym
	if first.multi {
		call, ok := ast.Unparen(first.rhs).(*ast.CallExpr)
		fn := (*types.Func)(nil)
		if ok {
			fn = callee(ev.info, call)
		}
		if !ok || first.idx != 0 || !isPkgFunc(fn, ev.cx.pk.PkgPath, "featureOptions") || len(call.Args) != 1 {
			return ev.fail("`%s` is not `%s, err := featureOptions(opts)`", ev.src(first.stmt), o.Name())
		}
		h := ev.leaf(call.Args[0])
		if h == nil || h.field != "" || h.param < 0 {
			return ev.fail("`%s` does not pass the method's option parameter", ev.src(call))
		}
		if !c20ErrReturned(ev.info, ev.par, call) {
			return ev.fail("the error of `%s` is not returned: an invalid option would be silently dropped from the request", ev.src(call))
		}
		h.fn = "feature"
		sym = c20Sym{{hole: h}}
	} else {
		s, ok := ev.str(first.rhs)
		if !ok {
			return nil, false
		}
		sym = s
	}
	for _, a := range as[1:] {
		st, _ := a.stmt.(*ast.AssignStmt)
		if a.tok != token.ADD_ASSIGN || st == nil || len(st.Lhs) != 1 {
			return ev.fail("%s is reassigned by `%s`; accepted: one `:=` and guarded `+=` extensions", o.Name(), ev.src(a.stmt))
		}
		if st.Pos() > use.Pos() {
			continue
		}
		blk, _ := ev.par[st].(*ast.BlockStmt)
		ifs, _ := ev.par[blk].(*ast.IfStmt)
		if blk == nil || ifs == nil || ifs.Body != blk || len(blk.List) != 1 || ifs.Else != nil || ifs.Init != nil || !ev.topLevel(ifs) || ifs.Pos() < first.stmt.Pos() {
			return ev.fail("`%s` is not the only statement of a top-level `if <option string non-empty> { ... }`", ev.src(st))
		}
		v := ev.nonEmptyTest(ifs.Cond)
		if v == nil {
			return ev.fail("the guard `%s` of `%s` is not a non-emptiness test (`len(v) > 0`, `v != \"\"`)", ev.src(ifs.Cond), ev.src(st))
		}
		vs, ok := ev.str(v)
		if !ok {
			return nil, false
		}
		rs, ok := ev.str(a.rhs)
		if !ok {
			return nil, false
		}
		if len(vs) != 1 || vs[0].hole == nil {
			return ev.fail("the guard `%s` does not test an option string", ev.src(ifs.Cond))
		}
		nh := 0
		for _, t := range rs {
			if t.opt != nil {
				return ev.fail("nested optional part in `%s`", ev.src(st))
			}
			if t.hole != nil {
				nh++
				if *t.hole != *vs[0].hole {
					return ev.fail("`%s` appends something other than the string tested by `%s`", ev.src(st), ev.src(ifs.Cond))
				}
			}
		}
		if nh != 1 {
			return ev.fail("`%s` does not append the string tested by its guard exactly once", ev.src(st))
		}
		sym = append(append(c20Sym{}, sym...), c20Tok{opt: rs})
	}
	return sym, true
}

// optKind returns "feature"/"notes" for the option interfaces.
func (ev *c20Eval) optKind(t types.Type) string {
	nt, ok := t.(*types.Named)
	if !ok || nt.Obj().Pkg() != ev.cx.pk.Types {
		return ""
	}
	if _, ok := nt.Underlying().(*types.Interface); !ok {
		return ""
	}
	n := nt.Obj().Name()
	if !strings.HasSuffix(n, "Option") || n == "Option" {
		return ""
	}
	return strings.ToLower(strings.TrimSuffix(n, "Option"))
}

// join evaluates strings.Join(L, sep) for a local list L built as
//
//	L := make([]string, 0, cap)          (or `var L []string`)
//	L = append(L, e1, ...)               (top level, zero or more)
//	for _, o := range opts { L, err = o.applyX(L); if err != nil { return ..., err } }
func (ev *c20Eval) join(x *ast.CallExpr) (c20Sym, bool) {
	sep, ok := constString(ev.info, x.Args[1])
	if !ok {
		return ev.fail("separator `%s` is not a constant", ev.src(x.Args[1]))
	}
	L := objOf(ev.info, x.Args[0])
	if L == nil || c20ParamIndex(ev.fi.Obj, L) >= 0 {
		return ev.fail("`%s` does not join a local list", ev.src(x))
	}
	as := ev.assigns(L)
	if len(as) == 0 {
		return ev.fail("no assignment to %s", L.Name())
	}
	first := as[0]
	switch {
	case first.tok == token.VAR && first.rhs == nil:
	case first.tok == token.DEFINE && !first.multi:
		mk, ok := ast.Unparen(first.rhs).(*ast.CallExpr)
		if !ok || builtinName(ev.info, mk) != "make" || len(mk.Args) < 2 {
			return ev.fail("`%s` is not `make([]string, 0, cap)`", ev.src(first.stmt))
		}
		if v, ok := constInt(ev.info, mk.Args[1]); !ok || v != 0 {
			return ev.fail("`%s` starts with a non-empty list", ev.src(first.stmt))
		}
	default:
		return ev.fail("`%s` is not an empty-list definition", ev.src(first.stmt))
	}
	var elems []c20Sym
	var optHole *c20Hole
	for _, a := range as[1:] {
		st, _ := a.stmt.(*ast.AssignStmt)
		if st == nil || a.tok != token.ASSIGN || st.Pos() > x.Pos() {
			return ev.fail("list %s: unexpected `%s`", L.Name(), ev.src(a.stmt))
		}
		call, ok := ast.Unparen(a.rhs).(*ast.CallExpr)
		if !ok {
			return ev.fail("list %s: unexpected `%s`", L.Name(), ev.src(st))
		}
		if !a.multi && builtinName(ev.info, call) == "append" {
			if optHole != nil || !ev.topLevel(st) || call.Ellipsis.IsValid() || len(call.Args) < 2 || objOf(ev.info, call.Args[0]) != L {
				return ev.fail("`%s` is not a top-level `%s = append(%s, elem)` before the option loop", ev.src(st), L.Name(), L.Name())
			}
			for _, e := range call.Args[1:] {
				s, ok := ev.str(e)
				if !ok {
					return nil, false
				}
				elems = append(elems, s)
			}
			continue
		}
		// option loop
		rs, _ := ev.par[ev.par[st]].(*ast.RangeStmt)
		if !a.multi || a.idx != 0 || optHole != nil || rs == nil || rs.Body != ev.par[st] || !ev.topLevel(rs) || rs.Value == nil {
			return ev.fail("`%s` is not `%s, err = o.applyX(%s)` directly inside a top-level `for _, o := range opts`", ev.src(st), L.Name(), L.Name())
		}
		h := ev.leaf(rs.X)
		if h == nil || h.field != "" || h.param < 0 {
			return ev.fail("`%s` does not range over the method's option parameter", ev.src(rs.X))
		}
		sl, _ := ev.info.TypeOf(rs.X).Underlying().(*types.Slice)
		kind := ""
		if sl != nil {
			kind = ev.optKind(sl.Elem())
		}
		fn := callee(ev.info, call)
		sel, _ := ast.Unparen(call.Fun).(*ast.SelectorExpr)
		if kind == "" || fn == nil || sel == nil || objOf(ev.info, sel.X) != objOf(ev.info, rs.Value) || len(call.Args) != 1 || objOf(ev.info, call.Args[0]) != L {
			return ev.fail("`%s` does not apply the loop's option to %s", ev.src(st), L.Name())
		}
		// the method must be the single method of the option interface
		it, _ := sl.Elem().Underlying().(*types.Interface)
		if it == nil || it.NumMethods() != 1 || it.Method(0) != fn {
			return ev.fail("`%s` is not the option interface's single apply method", ev.src(call.Fun))
		}
		if !c20ErrReturned(ev.info, ev.par, call) {
			return ev.fail("the error of `%s` is not returned: an invalid option would be dropped silently or the request sent anyway", ev.src(call))
		}
		h.fn = kind
		if sep != ev.sep {
			h.fn = kind + "<" + sep + ">"
		}
		optHole = h
	}
	var out c20Sym
	for i, e := range elems {
		if i > 0 {
			out = append(out, c20Tok{lit: sep})
		}
		out = append(out, e...)
	}
	if optHole != nil {
		if len(elems) == 0 {
			out = append(out, c20Tok{hole: optHole})
		} else {
			out = append(out, c20Tok{opt: c20Sym{{lit: sep}, {hole: optHole}}})
		}
	}
	return out, true
}

// csv evaluates string(D) for a local byte slice built as
//
//	D := make([]byte, 0, cap)
//	for i, id := range ids { if i != 0 { D = append(D, byte(',')) }; D = strconv.AppendInt(D, int64(id), 10) }
func (ev *c20Eval) csv(e ast.Expr) (c20Sym, bool) {
	D := objOf(ev.info, e)
	if D == nil || c20ParamIndex(ev.fi.Obj, D) >= 0 {
		return ev.fail("`string(%s)` does not convert a local byte slice", ev.src(e))
	}
	as := ev.assigns(D)
	if len(as) != 3 {
		return ev.fail("byte slice %s: expected make + separator append + AppendInt, found %d assignment(s)", D.Name(), len(as))
	}
	mk, ok := ast.Unparen(as[0].rhs).(*ast.CallExpr)
	if as[0].tok != token.DEFINE || !ok || builtinName(ev.info, mk) != "make" || len(mk.Args) < 2 {
		return ev.fail("`%s` is not `make([]byte, 0, cap)`", ev.src(as[0].stmt))
	}
	if v, ok := constInt(ev.info, mk.Args[1]); !ok || v != 0 {
		return ev.fail("`%s` starts with a non-empty buffer", ev.src(as[0].stmt))
	}
	sepSt, _ := as[1].stmt.(*ast.AssignStmt)
	numSt, _ := as[2].stmt.(*ast.AssignStmt)
	if sepSt == nil || numSt == nil || as[1].tok != token.ASSIGN || as[2].tok != token.ASSIGN {
		return ev.fail("byte slice %s: unrecognised assignments", D.Name())
	}
	// loop
	rs, _ := ev.par[ev.par[numSt]].(*ast.RangeStmt)
	if rs == nil || !ev.topLevel(rs) || rs.Key == nil || rs.Value == nil || len(rs.Body.List) != 2 || rs.Body.List[1] != ast.Stmt(numSt) || rs.Pos() < as[0].stmt.Pos() || rs.End() > e.Pos() {
		return ev.fail("`%s` is not the second of two statements of a top-level `for i, id := range ids` between the make and the use", ev.src(numSt))
	}
	h := ev.leaf(rs.X)
	if h == nil || h.field != "" || h.param < 0 {
		return ev.fail("`%s` does not range over a method parameter", ev.src(rs.X))
	}
	iObj, idObj := objOf(ev.info, rs.Key), objOf(ev.info, rs.Value)
	// D = strconv.AppendInt(D, int64(id), 10)
	ai, ok := ast.Unparen(as[2].rhs).(*ast.CallExpr)
	if !ok || !isPkgFunc(callee(ev.info, ai), "strconv", "AppendInt") || len(ai.Args) != 3 || objOf(ev.info, ai.Args[0]) != D {
		return ev.fail("`%s` is not `%s = strconv.AppendInt(%s, int64(id), 10)`", ev.src(numSt), D.Name(), D.Name())
	}
	if b, ok := constInt(ev.info, ai.Args[2]); !ok || b != 10 {
		return ev.fail("`%s` does not print base 10", ev.src(ai))
	}
	conv, ok := ast.Unparen(ai.Args[1]).(*ast.CallExpr)
	if !ok || len(conv.Args) != 1 || !ev.info.Types[conv.Fun].IsType() || objOf(ev.info, conv.Args[0]) != idObj {
		return ev.fail("`%s` does not print the loop's id", ev.src(ai))
	}
	// if i != 0 { D = append(D, sep) }
	ifs, _ := rs.Body.List[0].(*ast.IfStmt)
	if ifs == nil || ifs.Init != nil || ifs.Else != nil || len(ifs.Body.List) != 1 || ifs.Body.List[0] != ast.Stmt(sepSt) {
		return ev.fail("the first loop statement is not `if i != 0 { %s = append(%s, ',') }`", D.Name(), D.Name())
	}
	be, ok := ast.Unparen(ifs.Cond).(*ast.BinaryExpr)
	if !ok || objOf(ev.info, be.X) != iObj || (be.Op != token.NEQ && be.Op != token.GTR) {
		return ev.fail("separator guard `%s` is not `i != 0`", ev.src(ifs.Cond))
	}
	if z, ok := constInt(ev.info, be.Y); !ok || z != 0 {
		return ev.fail("separator guard `%s` is not `i != 0`", ev.src(ifs.Cond))
	}
	ap, ok := ast.Unparen(as[1].rhs).(*ast.CallExpr)
	if !ok || builtinName(ev.info, ap) != "append" || len(ap.Args) != 2 || ap.Ellipsis.IsValid() || objOf(ev.info, ap.Args[0]) != D {
		return ev.fail("`%s` is not `%s = append(%s, ',')`", ev.src(sepSt), D.Name(), D.Name())
	}
	sv, ok := constInt(ev.info, ap.Args[1])
	if !ok {
		return ev.fail("separator `%s` is not a constant", ev.src(ap.Args[1]))
	}
	h.fn = "csv"
	if sv != ',' {
		h.fn = fmt.Sprintf("csv<%c>", rune(sv))
	}
	return c20Sym{{hole: h}}, true
}

// ---------------------------------------------------------------------------
// request sites

// c20Site is the single request call of a request function.
type c20Site struct {
	fi     *FuncInfo
	call   *ast.CallExpr
	callee *FuncInfo // getFromAPI or a helper
}

func (cx *c20Ctx) site(fi *FuncInfo) (*c20Site, string) {
	calls, lit := cx.reqCalls(fi)
	if lit {
		return nil, "request call inside a function literal"
	}
	if len(calls) != 1 {
		return nil, fmt.Sprintf("%d request call sites (exactly one expected)", len(calls))
	}
	fn := callee(cx.info, calls[0])
	tgt := cx.byObj[fn]
	if tgt == nil {
		return nil, "callee of the request call has no body in the package"
	}
	// the call must be made on the method's own receiver with its own context
	sig := c20Sig(fi.Obj)
	sel, ok := ast.Unparen(calls[0].Fun).(*ast.SelectorExpr)
	if !ok || sig.Recv() == nil || objOf(cx.info, sel.X) != sig.Recv() {
		return nil, fmt.Sprintf("`%s` is not called on the method's receiver: another datasource's client/limiter/base URL would be used", src(cx.r.P.Fset, calls[0].Fun))
	}
	if len(calls[0].Args) == 0 || objOf(cx.info, calls[0].Args[0]) != sig.Params().At(0) {
		return nil, "the request is not made with the call's context parameter"
	}
	return &c20Site{fi: fi, call: calls[0], callee: tgt}, ""
}

// urlParam returns, for getFromAPI or a helper, the index of the parameter that becomes the request URL.
func (cx *c20Ctx) urlParam(fi *FuncInfo, depth int) (int, string) {
	if fi.Obj == cx.getFn.Obj {
		return 1, ""
	}
	if depth > 4 {
		return -1, "helper chain too deep"
	}
	st, why := cx.site(fi)
	if st == nil {
		return -1, "helper " + fi.Name() + ": " + why
	}
	k, why := cx.urlParam(st.callee, depth+1)
	if k < 0 {
		return -1, why
	}
	i := c20ParamIndex(fi.Obj, objOf(cx.info, st.call.Args[k]))
	if i < 0 {
		return -1, "helper " + fi.Name() + " does not pass one of its parameters as the URL"
	}
	// the parameter must not be reassigned in the helper
	if countAssignsTo(cx.info, fi.Decl.Body, c20Sig(fi.Obj).Params().At(i), fi.Decl.Body.Pos(), fi.Decl.Body.End()) > 0 {
		return -1, "helper " + fi.Name() + " reassigns its URL parameter"
	}
	return i, ""
}

// resultFn follows tail delegation (`return ds.helper(ctx, url)`) to the function that owns the decode target.
func (cx *c20Ctx) resultFn(fi *FuncInfo, depth int) (*FuncInfo, *c20Site, string) {
	st, why := cx.site(fi)
	if st == nil {
		return nil, nil, why
	}
	if st.callee.Obj == cx.getFn.Obj {
		return fi, st, ""
	}
	if depth > 4 {
		return nil, nil, "helper chain too deep"
	}
	par := parentsOf(cx.r.P, fi)
	if ret, ok := par[st.call].(*ast.ReturnStmt); !ok || len(ret.Results) != 1 {
		return nil, nil, fmt.Sprintf("the result of helper call `%s` is not returned directly", src(cx.r.P.Fset, st.call))
	}
	return cx.resultFn(st.callee, depth+1)
}

// ---------------------------------------------------------------------------
// H4 path table

func c20Roles(ep *c20Endpoint) map[int]string {
	m := map[int]string{}
	for role, i := range ep.Params {
		m[i] = role
	}
	return m
}

func c20H4(r *core.R) {
	cx := c20NewCtx(r)
	if cx == nil {
		return
	}
	tab := c20LoadTable(r)
	if tab == nil {
		return
	}
	seen := map[string]bool{}
	for _, fi := range cx.endpoints() {
		name := fi.Obj.Name()
		c := "path@" + fi.Name()
		ep := tab.endpoint(name)
		if ep == nil {
			r.Bad(c, fi.Decl.Pos(), "exported request method %s has no entry in tables/api06.json: its path cannot be compared with the API v0.6 documentation (add the documented path to the table)", fi.Name())
			continue
		}
		seen[name] = true
		st, why := cx.site(fi)
		if st == nil {
			r.Unknown(c, fi.Decl.Pos(), "request site not identified: %s", why)
			continue
		}
		k, why := cx.urlParam(st.callee, 0)
		if k < 0 {
			r.Unknown(c, st.call.Pos(), "URL argument not identified: %s", why)
			continue
		}
		sig := c20Sig(fi.Obj)
		// roles must be bound to existing parameters
		okRoles := true
		for role, i := range ep.Params {
			if i <= 0 || i >= sig.Params().Len() {
				r.Bad(c, fi.Decl.Pos(), "the table binds role %q to parameter #%d, which %s does not have (signature changed)", role, i, fi.Name())
				okRoles = false
			}
		}
		if !okRoles {
			continue
		}
		ev := c20NewEval(cx, fi, tab.OptionSeparator)
		sym, ok := ev.str(st.call.Args[k])
		if !ok {
			r.Unknown(c, st.call.Args[k].Pos(), "URL expression `%s` could not be evaluated: %s", src(r.P.Fset, st.call.Args[k]), ev.why)
			continue
		}
		got := sym.render(c20Roles(ep))
		if got != ep.URL {
			r.Bad(c, st.call.Args[k].Pos(), "%s requests `%s`; API v0.6 (%s) requires `%s` (holes are the method's parameters by position: %s)", fi.Name(), got, ep.Doc, ep.URL, c20ParamList(sig, ep))
			continue
		}
		// every non-context parameter must reach the URL
		used := map[int]bool{}
		for _, h := range sym.holes() {
			used[h.param] = true
		}
		missing := ""
		for i := 1; i < sig.Params().Len(); i++ {
			if !used[i] {
				missing = sig.Params().At(i).Name()
			}
		}
		if missing != "" {
			r.Bad(c, st.call.Args[k].Pos(), "parameter %s of %s does not appear in the request URL `%s`", missing, fi.Name(), got)
			continue
		}
		r.OK(c, st.call.Args[k].Pos(), "URL evaluates to `%s` with %s — equal to the table entry (%s)", got, c20ParamList(sig, ep), ep.Doc)
	}
	for _, ep := range tab.Endpoints {
		if !seen[ep.Method] {
			r.Anchor("(*Datasource)." + ep.Method + " (endpoint of tables/api06.json)")
		}
	}
	c20CheckBaseURL(cx, tab)

	// the URL parameter is the URL requested
	if gt := c20NewGet(cx); gt != nil {
		c := "url@" + gt.fi.Name()
		switch {
		case gt.newReq == nil:
			r.Unknown(c, gt.do.Pos(), "exactly one http.NewRequest/NewRequestWithContext call expected in getFromAPI")
		default:
			ui := 1
			if callee(cx.info, gt.newReq).Name() == "NewRequestWithContext" {
				ui = 2
			}
			n := countAssignsTo(cx.info, gt.fi.Decl.Body, gt.urlP, gt.fi.Decl.Body.Pos(), gt.newReq.Pos())
			switch {
			case objOf(cx.info, gt.newReq.Args[ui]) != gt.urlP:
				r.Bad(c, gt.newReq.Pos(), "`%s` does not request getFromAPI's URL parameter %s", src(r.P.Fset, gt.newReq), gt.urlP.Name())
			case n > 0:
				r.Bad(c, gt.newReq.Pos(), "the URL parameter %s is reassigned before `%s`", gt.urlP.Name(), src(r.P.Fset, gt.newReq))
			case !c20IsNil(cx.info, gt.newReq.Args[ui+1]):
				r.Bad(c, gt.newReq.Pos(), "`%s` sends a request body", src(r.P.Fset, gt.newReq))
			default:
				r.OK(c, gt.newReq.Pos(), "`%s` requests exactly the URL parameter, unmodified, without body", src(r.P.Fset, gt.newReq))
			}
		}
	}
}

func c20ParamList(sig *types.Signature, ep *c20Endpoint) string {
	var s []string
	roles := c20Roles(ep)
	for i := 1; i < sig.Params().Len(); i++ {
		role := roles[i]
		if role == "" {
			role = "?"
		}
		s = append(s, fmt.Sprintf("%s=#%d %s", role, i, sig.Params().At(i).Name()))
	}
	return strings.Join(s, ", ")
}

// baseURL(): `if recv.BaseURL != "" { return recv.BaseURL }; return BaseURL`
func c20CheckBaseURL(cx *c20Ctx, tab *c20Table) {
	r := cx.r
	info := cx.info
	fi := findFunc(cx.pk, "(*Datasource).baseURL")
	if fi == nil {
		r.Anchor("(*Datasource).baseURL")
		return
	}
	c := "base@" + fi.Name()
	recv := c20Sig(fi.Obj).Recv()
	isField := func(e ast.Expr) bool {
		f := fieldOf(info, e)
		return f != nil && f.Name() == "BaseURL" && objOf(info, ast.Unparen(e).(*ast.SelectorExpr).X) == recv
	}
	par := parentsOf(r.P, fi)
	nField, nConst := 0, 0
	bad := ""
	ast.Inspect(fi.Decl.Body, func(n ast.Node) bool {
		ret, ok := n.(*ast.ReturnStmt)
		if !ok || len(ret.Results) != 1 {
			return true
		}
		res := ret.Results[0]
		if s, ok := constString(info, res); ok {
			nConst++
			if !(strings.HasPrefix(s, "http://") || strings.HasPrefix(s, "https://")) || !strings.HasSuffix(s, tab.BasePathSuffix) {
				bad = fmt.Sprintf("default base URL %q is not an absolute URL ending in %s", s, tab.BasePathSuffix)
			}
			// the default must only be used when nothing is configured: not inside the non-empty branch
			return true
		}
		if isField(res) {
			nField++
			ifs, _ := enclosing(par, ret, func(x ast.Node) bool { _, k := x.(*ast.IfStmt); return k }).(*ast.IfStmt)
			okGuard := false
			if ifs != nil && ret.Pos() >= ifs.Body.Pos() && ret.End() <= ifs.Body.End() {
				if be, k := ast.Unparen(ifs.Cond).(*ast.BinaryExpr); k && be.Op == token.NEQ && isField(be.X) {
					if s, k := constString(info, be.Y); k && s == "" {
						okGuard = true
					}
				}
			}
			if !okGuard {
				bad = fmt.Sprintf("`%s` is not under `if %s.BaseURL != \"\"`: a configured base URL is ignored or an empty one is used", src(r.P.Fset, ret), recv.Name())
			}
			return true
		}
		bad = fmt.Sprintf("`%s` returns neither the configured BaseURL nor the default constant", src(r.P.Fset, ret))
		return true
	})
	switch {
	case bad != "":
		r.Bad(c, fi.Decl.Pos(), "%s", bad)
	case nField != 1 || nConst != 1 || len(fi.Decl.Body.List) != 2:
		r.Unknown(c, fi.Decl.Pos(), "baseURL is not the enumerated idiom `if ds.BaseURL != \"\" { return ds.BaseURL }; return BaseURL`")
	default:
		r.OK(c, fi.Decl.Pos(), "returns the configured BaseURL when non-empty, otherwise a constant absolute URL ending in %s", tab.BasePathSuffix)
	}
}

// ---------------------------------------------------------------------------
// H5 results and single-element guards

func c20H5(r *core.R) {
	cx := c20NewCtx(r)
	if cx == nil {
		return
	}
	tab := c20LoadTable(r)
	if tab == nil {
		return
	}
	info := cx.info
	osmPath := core.ModulePath
	doneSingle := map[*FuncInfo]bool{}
	for _, fi := range cx.endpoints() {
		ep := tab.endpoint(fi.Obj.Name())
		if ep == nil {
			continue // reported by H4
		}
		c := "result@" + fi.Name()
		rf, st, why := cx.resultFn(fi, 0)
		if rf == nil {
			r.Unknown(c, fi.Decl.Pos(), "function owning the decode target not identified: %s", why)
			continue
		}
		// item: &o with o := &osm.T{}
		var item types.Object
		if ue, ok := ast.Unparen(st.call.Args[2]).(*ast.UnaryExpr); ok && ue.Op == token.AND {
			item = objOf(info, ue.X)
		} else {
			item = objOf(info, st.call.Args[2])
		}
		if item == nil || c20ParamIndex(rf.Obj, item) >= 0 {
			r.Unknown(c, st.call.Pos(), "decode target `%s` is not (the address of) a local variable", src(r.P.Fset, st.call.Args[2]))
			continue
		}
		if namedPath(item.Type()) != osmPath+"."+ep.Document {
			r.Bad(c, st.call.Pos(), "the response is decoded into %s; the API returns an %s document for this call", item.Type(), ep.Document)
			continue
		}
		ev := c20NewEval(cx, rf, tab.OptionSeparator)
		defs := ev.assigns(item)
		fresh := false
		nAddr := 0
		for _, d := range defs {
			if d.tok == token.AND {
				nAddr++
			}
		}
		if len(defs)-nAddr == 1 && defs[0].tok == token.DEFINE && !defs[0].multi {
			if ue, ok := ast.Unparen(defs[0].rhs).(*ast.UnaryExpr); ok && ue.Op == token.AND {
				if cl, ok := ast.Unparen(ue.X).(*ast.CompositeLit); ok && len(cl.Elts) == 0 {
					fresh = true
				}
			}
		}
		if !fresh || nAddr != 1 {
			r.Bad(c, st.call.Pos(), "decode target %s is not a freshly allocated empty document used only for this request (`%s := &osm.%s{}` and one `&%s`): elements not sent by the server could be returned", item.Name(), item.Name(), ep.Document, item.Name())
			continue
		}
		// success returns of rf
		g := newCFG(info, rf.Decl.Body)
		dom := dominators(g)
		nSucc := 0
		bad := false
		var singles []*ast.IndexExpr
		ast.Inspect(rf.Decl.Body, func(n ast.Node) bool {
			if _, ok := n.(*ast.FuncLit); ok {
				return false
			}
			ret, ok := n.(*ast.ReturnStmt)
			if !ok || len(ret.Results) != 2 || !c20IsNil(info, ret.Results[1]) || bad {
				return true
			}
			nSucc++
			res := ast.Unparen(ret.Results[0])
			// the request must dominate the return
			if !posDominates(g, dom, st.call.Pos(), ret.Pos()) {
				r.Bad(c, ret.Pos(), "`%s` is not dominated by the request `%s`", src(r.P.Fset, ret), src(r.P.Fset, st.call))
				bad = true
				return true
			}
			sel := res
			var ix *ast.IndexExpr
			if ep.Single {
				x, ok := res.(*ast.IndexExpr)
				if !ok {
					r.Bad(c, ret.Pos(), "`%s`: a single-element call must return element [0] of %s.%s", src(r.P.Fset, ret), item.Name(), ep.Result)
					bad = true
					return true
				}
				ix = x
				sel = ast.Unparen(x.X)
			}
			if ep.Result == "*" {
				if objOf(info, sel) != item {
					r.Bad(c, ret.Pos(), "`%s` does not return the decoded document %s itself: the call must return exactly what the server sent", src(r.P.Fset, ret), item.Name())
					bad = true
				}
				return true
			}
			f := fieldOf(info, sel)
			if f == nil || objOf(info, sel.(*ast.SelectorExpr).X) != item {
				r.Bad(c, ret.Pos(), "`%s` does not return a field of the decoded document %s", src(r.P.Fset, ret), item.Name())
				bad = true
				return true
			}
			if f.Name() != ep.Result {
				r.Bad(c, ret.Pos(), "`%s` returns %s.%s; %s answers with %s elements (%s)", src(r.P.Fset, ret), item.Name(), f.Name(), ep.Doc, ep.Result, item.Name()+"."+ep.Result)
				bad = true
				return true
			}
			if ix != nil {
				singles = append(singles, ix)
			}
			return true
		})
		if bad {
			continue
		}
		if nSucc == 0 {
			r.Unknown(c, rf.Decl.Pos(), "no `return value, nil` in %s", rf.Name())
			continue
		}
		what := item.Name() + "." + ep.Result
		if ep.Result == "*" {
			what = "the document " + item.Name()
		} else if ep.Single {
			what += "[0]"
		}
		via := ""
		if rf != fi {
			via = " (through " + rf.Name() + ")"
		}
		r.OK(c, st.call.Pos(), "%d success return(s)%s return %s of the fresh *osm.%s that is the decode target of the request", nSucc, via, what, ep.Document)

		if !ep.Single || doneSingle[rf] {
			continue
		}
		doneSingle[rf] = true
		for _, ix := range singles {
			cs := "single@" + rf.Name()
			if v, ok := constInt(info, ix.Index); !ok || v != 0 {
				r.Bad(cs, ix.Pos(), "`%s` does not return element 0", src(r.P.Fset, ix))
				continue
			}
			ok, why, proof := c20SingleGuard(cx, ev, g, dom, ix)
			if ok {
				r.OK(cs, ix.Pos(), "`%s` is dominated by `%s`; its reject edge returns an error and does not reach the use", src(r.P.Fset, ix), proof)
			} else {
				r.Bad(cs, ix.Pos(), "`%s`: %s — a response with 0 elements panics and one with several silently returns the first instead of being rejected", src(r.P.Fset, ix), why)
			}
		}
	}
}

// c20SingleGuard: use = X[0]; a dominating two-way branch `len(X) != 1` (or `l != 1` with `l := len(X)`,
// or the `== 1` form with edges swapped) whose reject edge returns errors only and cannot reach the use.
func c20SingleGuard(cx *c20Ctx, ev *c20Eval, g *cfg.CFG, dom map[*cfg.Block]map[*cfg.Block]bool, use *ast.IndexExpr) (bool, string, string) {
	info := cx.info
	fset := cx.r.P.Fset
	ub, _ := blockOf(g, use.Pos())
	if ub == nil {
		return false, "use not located in the control-flow graph", ""
	}
	why := "no dominating test `len(" + src(fset, use.X) + ") != 1`"
	for _, b := range g.Blocks {
		if !b.Live || len(b.Succs) != 2 || b == ub || !dom[ub][b] {
			continue
		}
		be, ok := ast.Unparen(lastExpr(b)).(*ast.BinaryExpr)
		if !ok || (be.Op != token.NEQ && be.Op != token.EQL) {
			if ok && c20MentionsLenOf(info, ev, be, use.X) {
				why = "the length test `" + src(fset, be) + "` is not of the form `len(" + src(fset, use.X) + ") != 1`"
			}
			continue
		}
		lenSide, constSide := be.X, be.Y
		if _, isC := constInt(info, be.X); isC {
			lenSide, constSide = be.Y, be.X
		}
		arg := c20LenArg(info, ev, lenSide)
		if arg == nil {
			continue
		}
		if !sameExpr(info, arg, use.X) {
			why = "the length test `" + src(fset, be) + "` (length of `" + src(fset, arg) + "`) is on a different field than the element returned"
			continue
		}
		if v, ok := constInt(info, constSide); !ok || v != 1 {
			why = "the length test `" + src(fset, be) + "` does not compare the length with 1"
			continue
		}
		reject := b.Succs[0]
		if be.Op == token.EQL {
			reject = b.Succs[1]
		}
		reg := reachableFrom([]*cfg.Block{reject}, nil)
		if reg[ub] {
			why = "the use is reachable from the reject edge of `" + src(fset, be) + "`"
			continue
		}
		okErr := true
		for rb := range reg {
			for _, n := range rb.Nodes {
				if ret, ok := n.(*ast.ReturnStmt); ok && (len(ret.Results) == 0 || c20IsNil(info, ret.Results[len(ret.Results)-1])) {
					okErr = false
				}
			}
		}
		if !okErr {
			why = "the reject edge of `" + src(fset, be) + "` returns without an error"
			continue
		}
		if n := countAssignsTo(info, ev.fi.Decl.Body, rootObj(info, use.X), be.Pos(), use.Pos()); n > 0 {
			why = "the document is reassigned between the guard and the use"
			continue
		}
		return true, "", src(fset, be) + " with length of " + src(fset, arg)
	}
	return false, why, ""
}

// c20LenArg: `len(X)` → X; identifier whose only definition is `l := len(X)` → X.
func c20LenArg(info *types.Info, ev *c20Eval, e ast.Expr) ast.Expr {
	if a := lenCallArg(info, e); a != nil {
		return a
	}
	if o := objOf(info, e); o != nil {
		as := ev.assigns(o)
		if len(as) == 1 && as[0].tok == token.DEFINE && !as[0].multi {
			return lenCallArg(info, as[0].rhs)
		}
	}
	return nil
}

func c20MentionsLenOf(info *types.Info, ev *c20Eval, be *ast.BinaryExpr, x ast.Expr) bool {
	for _, s := range []ast.Expr{be.X, be.Y} {
		if a := c20LenArg(info, ev, s); a != nil && sameExpr(info, a, x) {
			return true
		}
	}
	return false
}

// ---------------------------------------------------------------------------
// H6 options

// c20RangeReject parses `f < lo || hi < f` style rejections on receiver field f and returns the accepted interval.
func c20RangeReject(ev *c20Eval, cond ast.Expr, field string) (lo, hi int64, okLo, okHi bool, bad string) {
	info := ev.info
	var walk func(e ast.Expr)
	walk = func(e ast.Expr) {
		e = ast.Unparen(e)
		be, ok := e.(*ast.BinaryExpr)
		if !ok {
			bad = "`" + ev.src(e) + "` is not a comparison"
			return
		}
		if be.Op == token.LOR {
			walk(be.X)
			walk(be.Y)
			return
		}
		op := be.Op
		var c int64
		if h := ev.leaf(be.X); h != nil && h.param == -1 && h.field == field {
			v, ok := constInt(info, be.Y)
			if !ok {
				bad = "`" + ev.src(be) + "` does not compare with a constant"
				return
			}
			c = v
		} else if h := ev.leaf(be.Y); h != nil && h.param == -1 && h.field == field {
			v, ok := constInt(info, be.X)
			if !ok {
				bad = "`" + ev.src(be) + "` does not compare with a constant"
				return
			}
			c = v
			switch op {
			case token.LSS:
				op = token.GTR
			case token.LEQ:
				op = token.GEQ
			case token.GTR:
				op = token.LSS
			case token.GEQ:
				op = token.LEQ
			}
		} else {
			bad = "`" + ev.src(be) + "` does not test the option's value"
			return
		}
		// rejected when: f op c
		switch op {
		case token.LSS: // f < c rejected → accepted f >= c
			lo, okLo = c, true
		case token.LEQ:
			lo, okLo = c+1, true
		case token.GTR: // f > c rejected → accepted f <= c
			hi, okHi = c, true
		case token.GEQ:
			hi, okHi = c-1, true
		default:
			bad = "`" + ev.src(be) + "` is not an ordering comparison"
		}
	}
	walk(cond)
	return
}

func c20H6(r *core.R) {
	cx := c20NewCtx(r)
	if cx == nil {
		return
	}
	tab := c20LoadTable(r)
	if tab == nil {
		return
	}
	info := cx.info
	for _, op := range tab.Options {
		cc := "ctor@" + op.Ctor
		ca := "apply@" + op.Ctor
		ctor := findFunc(cx.pk, op.Ctor)
		if ctor == nil || c20Sig(ctor.Obj).Recv() != nil || c20Sig(ctor.Obj).Params().Len() != 1 || c20Sig(ctor.Obj).Results().Len() != 1 {
			r.Anchor("osmapi." + op.Ctor + "(value) option constructor")
			continue
		}
		sig := c20Sig(ctor.Obj)
		evc := c20NewEval(cx, ctor, tab.OptionSeparator)
		if k := evc.optKind(sig.Results().At(0).Type()); k != op.Kind {
			r.Bad(cc, ctor.Decl.Pos(), "%s returns a %s; the table lists it as a %s option", op.Ctor, sig.Results().At(0).Type(), op.Kind)
			continue
		}
		iface := sig.Results().At(0).Type().Underlying().(*types.Interface)
		if iface.NumMethods() != 1 {
			r.Anchor("single apply method of " + sig.Results().At(0).Type().String())
			continue
		}
		// return &T{param}
		var optT *types.Named
		field := ""
		if len(ctor.Decl.Body.List) == 1 {
			if ret, ok := ctor.Decl.Body.List[0].(*ast.ReturnStmt); ok && len(ret.Results) == 1 {
				if ue, ok := ast.Unparen(ret.Results[0]).(*ast.UnaryExpr); ok && ue.Op == token.AND {
					if cl, ok := ast.Unparen(ue.X).(*ast.CompositeLit); ok && len(cl.Elts) == 1 {
						nt, _ := info.TypeOf(cl).(*types.Named)
						st, _ := info.TypeOf(cl).Underlying().(*types.Struct)
						if nt != nil && st != nil {
							val := cl.Elts[0]
							fname := ""
							if kv, ok := val.(*ast.KeyValueExpr); ok {
								if id, ok := kv.Key.(*ast.Ident); ok {
									fname = id.Name
								}
								val = kv.Value
							} else if st.NumFields() >= 1 {
								fname = st.Field(0).Name()
							}
							if objOf(info, val) == sig.Params().At(0) && fname != "" {
								optT, field = nt, fname
							}
						}
					}
				}
			}
		}
		if optT == nil {
			r.Unknown(cc, ctor.Decl.Pos(), "%s is not the enumerated idiom `return &optionType{param}`", op.Ctor)
			continue
		}
		r.OK(cc, ctor.Decl.Pos(), "%s(%s) returns &%s{%s: %s}", op.Ctor, sig.Params().At(0).Name(), optT.Obj().Name(), field, sig.Params().At(0).Name())

		// apply method of the option type
		mname := iface.Method(0).Name()
		ap := findFunc(cx.pk, "(*"+optT.Obj().Name()+")."+mname)
		if ap == nil {
			r.Anchor("(*" + optT.Obj().Name() + ")." + mname)
			continue
		}
		asig := c20Sig(ap.Obj)
		if asig.Params().Len() != 1 || asig.Results().Len() != 2 {
			r.Anchor("(*" + optT.Obj().Name() + ")." + mname + "([]string) ([]string, error)")
			continue
		}
		ev := c20NewEval(cx, ap, tab.OptionSeparator)
		g := newCFG(info, ap.Decl.Body)
		dom := dominators(g)
		var succ []*ast.ReturnStmt
		ast.Inspect(ap.Decl.Body, func(n ast.Node) bool {
			if ret, ok := n.(*ast.ReturnStmt); ok && len(ret.Results) == 2 && c20IsNil(info, ret.Results[1]) {
				succ = append(succ, ret)
			}
			return true
		})
		if len(succ) != 1 {
			r.Unknown(ca, ap.Decl.Pos(), "%d success returns in %s; enumerated idiom: one `return append(p, \"key=\"+value), nil`", len(succ), ap.Name())
			continue
		}
		call, ok := ast.Unparen(succ[0].Results[0]).(*ast.CallExpr)
		if !ok || builtinName(info, call) != "append" || len(call.Args) != 2 || call.Ellipsis.IsValid() || objOf(info, call.Args[0]) != asig.Params().At(0) {
			r.Bad(ca, succ[0].Pos(), "`%s` does not return the incoming parameter list with exactly one string appended: other options would be lost or duplicated", src(r.P.Fset, succ[0]))
			continue
		}
		sym, ok := ev.str(call.Args[1])
		if !ok {
			r.Unknown(ca, call.Args[1].Pos(), "option string `%s` could not be evaluated: %s", src(r.P.Fset, call.Args[1]), ev.why)
			continue
		}
		got := sym.render(nil)
		want := op.Key + "={recv." + field + "}"
		if op.Value == "time" {
			zone := "local"
			if op.UTC {
				zone = "utc"
			}
			want = op.Key + "={" + zone + ":" + op.TimeLayout + ":recv." + field + "}"
		}
		if got != want {
			r.Bad(ca, call.Args[1].Pos(), "%s appends `%s`; the documented parameter is `%s` (recv.%s is the value given to %s)", ap.Name(), got, want, field, op.Ctor)
		} else {
			r.OK(ca, call.Args[1].Pos(), "appends `%s` to the incoming list; recv.%s is the constructor's argument", got, field)
		}

		if op.Min == nil && op.Max == nil {
			continue
		}
		cr := "range@" + op.Ctor
		sb, _ := blockOf(g, succ[0].Pos())
		proved := false
		why := fmt.Sprintf("no dominating test rejects values outside %d..%d before `%s`: out-of-range values are sent to the server", *op.Min, *op.Max, src(r.P.Fset, succ[0]))
		for _, b := range g.Blocks {
			if !b.Live || len(b.Succs) != 2 || sb == nil || b == sb || !dom[sb][b] {
				continue
			}
			cond := lastExpr(b)
			lo, hi, okLo, okHi, bad := c20RangeReject(ev, cond, field)
			if bad != "" {
				why = "range test `" + src(r.P.Fset, cond) + "`: " + bad
				continue
			}
			if !okLo || !okHi || lo != *op.Min || hi != *op.Max {
				los, his := "-inf", "+inf"
				if okLo {
					los = strconv.FormatInt(lo, 10)
				}
				if okHi {
					his = strconv.FormatInt(hi, 10)
				}
				why = fmt.Sprintf("`%s` accepts %s..%s; API v0.6 allows %d..%d", src(r.P.Fset, cond), los, his, *op.Min, *op.Max)
				continue
			}
			reg := reachableFrom([]*cfg.Block{b.Succs[0]}, nil)
			if reg[sb] {
				why = "the success return is reachable from the reject edge of `" + src(r.P.Fset, cond) + "`"
				continue
			}
			okErr := true
			for rb := range reg {
				for _, n := range rb.Nodes {
					if ret, ok := n.(*ast.ReturnStmt); ok && (len(ret.Results) == 0 || c20IsNil(info, ret.Results[len(ret.Results)-1])) {
						okErr = false
					}
				}
			}
			if !okErr {
				why = "the reject edge of `" + src(r.P.Fset, cond) + "` returns without an error"
				continue
			}
			proved = true
			r.OK(cr, cond.Pos(), "`%s` dominates the append, rejects exactly the values outside %d..%d with an error", src(r.P.Fset, cond), lo, hi)
			break
		}
		if !proved {
			r.Bad(cr, succ[0].Pos(), "%s", why)
		}
	}

	// featureOptions joins the option strings with the separator and returns option errors
	c := "join@featureOptions"
	fo := findFunc(cx.pk, "featureOptions")
	if fo == nil {
		r.Anchor("osmapi.featureOptions")
		return
	}
	fsig := c20Sig(fo.Obj)
	if fsig.Params().Len() != 1 || fsig.Results().Len() != 2 {
		r.Anchor("featureOptions([]FeatureOption) (string, error)")
		return
	}
	ev := c20NewEval(cx, fo, tab.OptionSeparator)
	par := parentsOf(r.P, fo)
	nJoin := 0
	bad := ""
	unk := ""
	ast.Inspect(fo.Decl.Body, func(n ast.Node) bool {
		ret, ok := n.(*ast.ReturnStmt)
		if !ok || len(ret.Results) != 2 || !c20IsNil(info, ret.Results[1]) || bad != "" || unk != "" {
			return true
		}
		if s, ok := constString(info, ret.Results[0]); ok {
			// `return "", nil` only under `len(opts) == 0`
			ifs, _ := enclosing(par, ret, func(x ast.Node) bool { _, k := x.(*ast.IfStmt); return k }).(*ast.IfStmt)
			okEmpty := false
			if s == "" && ifs != nil && ret.Pos() >= ifs.Body.Pos() && ret.End() <= ifs.Body.End() {
				if be, k := ast.Unparen(ifs.Cond).(*ast.BinaryExpr); k && be.Op == token.EQL {
					if a := lenCallArg(info, be.X); a != nil && objOf(info, a) == fsig.Params().At(0) {
						if z, k := constInt(info, be.Y); k && z == 0 {
							okEmpty = true
						}
					}
				}
			}
			if !okEmpty {
				bad = fmt.Sprintf("`%s` returns the constant %q although options may have been given", src(r.P.Fset, ret), s)
			}
			return true
		}
		sym, ok := ev.str(ret.Results[0])
		if !ok {
			unk = ev.why
			return true
		}
		nJoin++
		got := sym.render(map[int]string{0: "opts"})
		if got != "{feature:opts}" {
			bad = fmt.Sprintf("`%s` yields `%s`, not the option strings of the parameter joined with %q", src(r.P.Fset, ret), got, tab.OptionSeparator)
		}
		return true
	})
	switch {
	case unk != "":
		r.Unknown(c, fo.Decl.Pos(), "featureOptions could not be evaluated: %s", unk)
	case bad != "":
		r.Bad(c, fo.Decl.Pos(), "%s", bad)
	case nJoin == 0:
		r.Bad(c, fo.Decl.Pos(), "featureOptions never returns the joined option strings")
	default:
		r.OK(c, fo.Decl.Pos(), "applies every option in argument order to an initially empty list, returns the first option error, joins with %q (\"\" only for no options)", tab.OptionSeparator)
	}
}
